(* P_Glue.v — lemmas and proofs about M_Glue (property C17). *)
Require Import Base M_Glue.
From SS.gen Require Import SrcFacts.

Set Implicit Arguments.

(* ------------------------------------------------------------------ basic facts *)
Lemma apply_ir_fields i s :
  popped (apply_ir i s) = popped s /\ pend (apply_ir i s) = pend s /\ cache (apply_ir i s) = cache s
  /\ lock (apply_ir i s) = lock s /\ thr (apply_ir i s) = thr s /\ log (apply_ir i s) = log s
  /\ nreg (apply_ir i s) = nreg s /\ g_late (apply_ir i s) = g_late s
  /\ g_snap_cache (apply_ir i s) = g_snap_cache s /\ g_snap_scan (apply_ir i s) = g_snap_scan s.
Proof.
  destruct i as [n o|n]; simpl.
  - repeat split.
  - destruct (m_get (mods s) n); simpl; repeat split.
Qed.

Lemma apply_irs_fields l s :
  popped (apply_irs l s) = popped s /\ pend (apply_irs l s) = pend s /\ cache (apply_irs l s) = cache s
  /\ lock (apply_irs l s) = lock s /\ thr (apply_irs l s) = thr s /\ log (apply_irs l s) = log s
  /\ nreg (apply_irs l s) = nreg s /\ g_late (apply_irs l s) = g_late s
  /\ g_snap_cache (apply_irs l s) = g_snap_cache s /\ g_snap_scan (apply_irs l s) = g_snap_scan s.
Proof.
  revert s; induction l as [|i l IH]; intros s; simpl.
  - repeat split.
  - unfold apply_irs in *. simpl.
    destruct (IH (apply_ir i s)) as (a&b&c&d&e&f&g&h&i1&j).
    destruct (apply_ir_fields i s) as (a'&b'&c'&d'&e'&f'&g'&h'&i'&j').
    repeat split; congruence.
Qed.

Ltac irs_rw :=
  repeat match goal with
  | |- context [popped (apply_irs ?l ?s)] => rewrite (proj1 (apply_irs_fields l s))
  | |- context [pend (apply_irs ?l ?s)] => rewrite (proj1 (proj2 (apply_irs_fields l s)))
  | |- context [cache (apply_irs ?l ?s)] => rewrite (proj1 (proj2 (proj2 (apply_irs_fields l s))))
  | |- context [lock (apply_irs ?l ?s)] => rewrite (proj1 (proj2 (proj2 (proj2 (apply_irs_fields l s)))))
  | |- context [thr (apply_irs ?l ?s)] => rewrite (proj1 (proj2 (proj2 (proj2 (proj2 (apply_irs_fields l s))))))
  | |- context [log (apply_irs ?l ?s)] => rewrite (proj1 (proj2 (proj2 (proj2 (proj2 (proj2 (apply_irs_fields l s)))))))
  | |- context [nreg (apply_irs ?l ?s)] => rewrite (proj1 (proj2 (proj2 (proj2 (proj2 (proj2 (proj2 (apply_irs_fields l s))))))))
  | |- context [g_late (apply_irs ?l ?s)] => rewrite (proj1 (proj2 (proj2 (proj2 (proj2 (proj2 (proj2 (proj2 (apply_irs_fields l s)))))))))
  end.

(* every coarse run is a run of micro-steps: the theorems about [run] cover what the
   correspondence evaluates *)
Lemma to_stop_is_run c w fuel t s : exists ls, to_stop c w fuel t s = run c w ls s.
Proof.
  revert s; induction fuel as [|k IH]; intros s; simpl.
  - exists []; reflexivity.
  - destruct (is_stop s (thr s t)).
    + exists []; reflexivity.
    + destruct (IH (tstep c w t s)) as [ls E]. exists (LThr t :: ls). simpl. exact E.
Qed.

Lemma to_done_is_run c w fuel t s : exists ls, to_done c w fuel t s = run c w ls s.
Proof.
  revert s; induction fuel as [|k IH]; intros s; simpl.
  - exists []; reflexivity.
  - destruct (is_done (thr s t)).
    + exists []; reflexivity.
    + destruct (IH (tstep c w t s)) as [ls E]. exists (LThr t :: ls). simpl. exact E.
Qed.

Lemma run_app c w a b s : run c w (a ++ b) s = run c w b (run c w a s).
Proof. unfold run. apply fold_left_app. Qed.

Lemma cstep_is_run c w l s : exists ls, fst (cstep c w l s) = run c w ls s.
Proof.
  destruct l as [e|t|t|t]; unfold cstep; cbn [fst].
  - exists [LEnv e]; reflexivity.
  - destruct (to_stop_is_run c w FUEL t (tstep c w t s)) as [ls E].
    exists (LThr t :: ls). cbn [run fold_left step]. exact E.
  - destruct (to_done_is_run c w FUEL t (tstep c w t s)) as [ls E].
    exists (LThr t :: ls). cbn [run fold_left step]. exact E.
  - exists []; reflexivity.
Qed.

Lemma crun_is_run c w ls s : exists ms, fst (crun c w ls s) = run c w ms s.
Proof.
  revert s; induction ls as [|l r IH]; intros s; cbn [crun].
  - exists []; reflexivity.
  - destruct (cstep_is_run c w l s) as [m1 E1].
    destruct (cstep c w l s) as [s1 a] eqn:C. cbn [fst] in E1.
    destruct (IH s1) as [m2 E2].
    destruct (crun c w r s1) as [s2 b] eqn:R. cbn [fst] in *.
    exists (m1 ++ m2). rewrite run_app, <- E1. exact E2.
Qed.

(* a property of all micro-step runs from the initial state *)
Definition reachable (c : cfg) (w : world) (scanned : bool) (s : st) : Prop :=
  exists ls, s = run c w ls (init w scanned).

Lemma reachable_ind c w scanned (P : st -> Prop) :
  P (init w scanned) ->
  (forall s l, P s -> P (step c w l s)) ->
  forall s, reachable c w scanned s -> P s.
Proof.
  intros H0 HS s [ls E]. subst s.
  assert (G : forall ls s0, P s0 -> P (run c w ls s0)).
  { induction ls0 as [|l r IH]; intros s0 Hs; simpl; auto. }
  apply G. exact H0.
Qed.

Lemma model_run_reachable k : reachable src_cfg (gc_world k) (gc_scanned k) (fst (model_run k)).
Proof. unfold model_run, reachable. apply crun_is_run. Qed.

(* ------------------------------------------------------------------ at most once (module glue) *)
Fixpoint nM (o : nat) (l : list event) : nat :=
  match l with
  | [] => 0
  | EvCallM o' _ _ :: r => (if o' =? o then 1 else 0) + nM o r
  | _ :: r => nM o r
  end.

Definition inflightM (o : nat) (p : pc) : bool :=
  match p with PCall _ (Some o') _ _ _ _ => o' =? o | _ => false end.

Definition upd (f : nat -> pc) (t : nat) (p : pc) : nat -> pc := fun t' => if t' =? t then p else f t'.

Lemma release_fields s t :
  popped (release s t) = popped s /\ pend (release s t) = pend s /\ thr (release s t) = thr s
  /\ log (release s t) = log s /\ mods (release s t) = mods s /\ cache (release s t) = cache s
  /\ nreg (release s t) = nreg s /\ g_late (release s t) = g_late s /\ g_started (release s t) = g_started s.
Proof.
  unfold release. destruct (lock s) as [t'|]; [destruct (t' =? t)|]; simpl; repeat split.
Qed.

Ltac rel_rw :=
  repeat match goal with
  | |- context [popped (release ?s ?t)] => rewrite (proj1 (release_fields s t))
  | |- context [pend (release ?s ?t)] => rewrite (proj1 (proj2 (release_fields s t)))
  | |- context [thr (release ?s ?t)] => rewrite (proj1 (proj2 (proj2 (release_fields s t))))
  | |- context [log (release ?s ?t)] => rewrite (proj1 (proj2 (proj2 (proj2 (release_fields s t)))))
  | |- context [mods (release ?s ?t)] => rewrite (proj1 (proj2 (proj2 (proj2 (proj2 (release_fields s t))))))
  end.

Section Once.
Variable c : cfg.
Variable w : world.
Hypothesis Hpop : c_pop c = true.

Inductive shapeM (o t : nat) (s s' : st) : Prop :=
  | ShNeutral p' :
      inflightM o (thr s t) = false -> inflightM o p' = false ->
      (In o (popped s') <-> In o (popped s)) -> nM o (log s') = nM o (log s) ->
      thr s' = upd (thr s) t p' -> shapeM o t s s'
  | ShStay :
      popped s' = popped s -> nM o (log s') = nM o (log s) -> thr s' = thr s -> shapeM o t s s'
  | ShPop p' :
      inflightM o (thr s t) = false -> inflightM o p' = true ->
      ~ In o (popped s) -> popped s' = o :: popped s -> nM o (log s') = nM o (log s) ->
      thr s' = upd (thr s) t p' -> shapeM o t s s'
  | ShCall p' :
      inflightM o (thr s t) = true -> inflightM o p' = false ->
      popped s' = popped s -> nM o (log s') = S (nM o (log s)) ->
      thr s' = upd (thr s) t p' -> shapeM o t s s'.

Lemma mem_nat_In x l : mem_nat x l = true <-> In x l.
Proof.
  unfold mem_nat. rewrite existsb_exists. split.
  - intros [y [H1 H2]]. apply Nat.eqb_eq in H2. subst. exact H1.
  - intros H. exists x. split; auto. apply Nat.eqb_refl.
Qed.

Lemma mem_nat_false x l : mem_nat x l = false <-> ~ In x l.
Proof.
  rewrite <- mem_nat_In. destruct (mem_nat x l); split; intros; try congruence.
Qed.

Lemma tstep_shapeM o t s : shapeM o t s (tstep c w t s).
Proof.
  unfold tstep.
  destruct (thr s t) as [| |l| | |todo n|nm mf bf cur todo n|ok] eqn:E.
  - eapply ShNeutral with (p' := PEnter); simpl; try reflexivity; try tauto; try (rewrite E; reflexivity).
  - eapply ShNeutral with (p' := PRead _); simpl; try reflexivity; try tauto; try (rewrite E; reflexivity).
  - destruct (l =? cache s).
    + eapply ShNeutral with (p' := PDone true); simpl; try reflexivity; try tauto; try (rewrite E; reflexivity).
    + eapply ShNeutral with (p' := PSlow); simpl; try reflexivity; try tauto; try (rewrite E; reflexivity).
  - destruct (c_locked c).
    + destruct (lock s).
      * apply ShStay; reflexivity.
      * eapply ShNeutral with (p' := PLocked); simpl; try reflexivity; try tauto; try (rewrite E; reflexivity).
    + eapply ShNeutral with (p' := PLocked); simpl; try reflexivity; try tauto; try (rewrite E; reflexivity).
  - eapply ShNeutral with (p' := PScan _ _); simpl; try reflexivity; try tauto; try (rewrite E; reflexivity).
  - destruct todo as [|nm todo].
    + eapply ShNeutral with (p' := PDone true); simpl; rel_rw; simpl; try reflexivity; try tauto; try (rewrite E; reflexivity).
    + unfold visit. rewrite Hpop.
      destruct (m_get (pend s) nm) as [f0|] eqn:PE;
      (destruct (m_get (mods s) nm) as [o'|] eqn:G;
       [destruct (glue_of w o') eqn:GL;
        [destruct (mem_nat o' (popped s)) eqn:MM;
         [|destruct (Nat.eq_dec o' o) as [->|NE]]|]|]);
      try (eapply ShNeutral; simpl; try reflexivity; try tauto; try (rewrite E; reflexivity); fail);
      try (eapply ShPop; simpl; try reflexivity; try (rewrite E; reflexivity);
           [apply Nat.eqb_refl | apply mem_nat_false; exact MM]; fail);
      try (eapply ShNeutral; simpl; try reflexivity; try (rewrite E; reflexivity);
           [apply Nat.eqb_neq; exact NE
           |split; [intros [H|H]; [congruence|exact H] | intros H; right; exact H]]; fail).
  - unfold call, abort.
    destruct mf as [o'|].
    + destruct (Nat.eq_dec o' o) as [->|NE].
      * assert (IF : inflightM o (thr s t) = true) by (rewrite E; simpl; apply Nat.eqb_refl).
        destruct (fbeh _); [|destruct (c_guarded c)|];
          [eapply ShCall with (p' := PScan todo n)|eapply ShCall with (p' := PScan todo n)
          |eapply ShCall with (p' := PDone false)|eapply ShCall with (p' := PDone false)];
          try exact IF; simpl; rel_rw; irs_rw; simpl; try rewrite Nat.eqb_refl; reflexivity.
      * assert (IF : inflightM o (thr s t) = false) by (rewrite E; simpl; apply Nat.eqb_neq; exact NE).
        assert (NE' : (o' =? o) = false) by (apply Nat.eqb_neq; exact NE).
        destruct (fbeh _); [|destruct (c_guarded c)|];
          [eapply ShNeutral with (p' := PScan todo n)|eapply ShNeutral with (p' := PScan todo n)
          |eapply ShNeutral with (p' := PDone false)|eapply ShNeutral with (p' := PDone false)];
          try exact IF; simpl; rel_rw; irs_rw; simpl; try rewrite NE'; try reflexivity; try tauto.
    + assert (IF : inflightM o (thr s t) = false) by (rewrite E; reflexivity).
      destruct bf as [f|].
      * destruct (fbeh _); [|destruct (c_guarded c)|];
          [eapply ShNeutral with (p' := PScan todo n)|eapply ShNeutral with (p' := PScan todo n)
          |eapply ShNeutral with (p' := PDone false)|eapply ShNeutral with (p' := PDone false)];
          try exact IF; simpl; rel_rw; irs_rw; simpl; try reflexivity; try tauto.
      * eapply ShNeutral with (p' := PScan todo n); try exact IF; simpl; try reflexivity; try tauto.
  - eapply ShNeutral with (p' := PEnter); simpl; try reflexivity; try tauto; try (rewrite E; reflexivity).
Qed.

Definition IM (o : nat) (s : st) : Prop :=
  (forall t, inflightM o (thr s t) = true -> In o (popped s) /\ nM o (log s) = 0)
  /\ (forall t1 t2, inflightM o (thr s t1) = true -> inflightM o (thr s t2) = true -> t1 = t2)
  /\ (~ In o (popped s) -> nM o (log s) = 0)
  /\ nM o (log s) <= 1
  /\ (In o (popped s) -> nM o (log s) = 1 \/ exists t, inflightM o (thr s t) = true).

Lemma upd_same f t p : upd f t p t = p.
Proof. unfold upd. rewrite Nat.eqb_refl. reflexivity. Qed.
Lemma upd_other f t p t' : t' <> t -> upd f t p t' = f t'.
Proof. unfold upd. intros H. apply Nat.eqb_neq in H. rewrite H. reflexivity. Qed.

Lemma IM_shape o t s s' : shapeM o t s s' -> IM o s -> IM o s'.
Proof.
  intros SH (A & B & C & D & E).
  destruct SH as [p' H1 H2 H3 H4 H5 | H3 H4 H5 | p' H1 H2 H2' H3 H4 H5 | p' H1 H2 H3 H4 H5].
  - (* neutral *)
    assert (IFF : forall t', inflightM o (thr s' t') = true -> inflightM o (thr s t') = true /\ t' <> t).
    { intros t' H. rewrite H5 in H. destruct (Nat.eq_dec t' t) as [->|NE].
      - rewrite upd_same in H. congruence.
      - rewrite upd_other in H by exact NE. auto. }
    unfold IM. rewrite H4. repeat split.
    + apply H3. apply (A t0). apply IFF; assumption.
    + apply (A t0). apply IFF; assumption.
    + intros t1 t2 X Y. apply B; apply IFF; assumption.
    + intros X. apply C. intros Y. apply X. apply H3. exact Y.
    + exact D.
    + intros X. apply H3 in X. destruct (E X) as [Y|[t' Y]]; [left; exact Y|right].
      exists t'. rewrite H5. destruct (Nat.eq_dec t' t) as [->|NE]; [congruence|].
      rewrite upd_other by exact NE. exact Y.
  - unfold IM. rewrite H3, H4, H5. exact (conj A (conj B (conj C (conj D E)))).
  - (* pop *)
    assert (Z : nM o (log s) = 0) by (apply C; exact H2').
    assert (NONE : forall t', inflightM o (thr s t') = true -> False).
    { intros t' X. apply H2'. apply (A t'). exact X. }
    assert (IFF : forall t', inflightM o (thr s' t') = true -> t' = t).
    { intros t' H. rewrite H5 in H. destruct (Nat.eq_dec t' t) as [->|NE]; auto.
      rewrite upd_other in H by exact NE. exfalso; eauto. }
    unfold IM. rewrite H3, H4, Z. repeat split; simpl; auto.
    + intros t1 t2 X Y. rewrite (IFF _ X), (IFF _ Y). reflexivity.
    + intros _. right. exists t. rewrite H5, upd_same. exact H2.
  - (* call *)
    destruct (A t H1) as [P Z].
    assert (NONE : forall t', inflightM o (thr s' t') = true -> False).
    { intros t' X. rewrite H5 in X. destruct (Nat.eq_dec t' t) as [->|NE].
      - rewrite upd_same in X. congruence.
      - rewrite upd_other in X by exact NE. apply NE. apply B; assumption. }
    unfold IM. rewrite H3, H4, Z. repeat split; auto; try (intros; exfalso; eauto; fail).
Qed.

Lemma nM_env o e s : nM o (log (apply_env w e s)) = nM o (log s)
  /\ popped (apply_env w e s) = popped s /\ thr (apply_env w e s) = thr s.
Proof.
  destruct e as [i|n]; simpl.
  - destruct (apply_ir_fields i s) as (a&b&c'&d&e&f&_). rewrite a, e, f. auto.
  - destruct (m_get (pend s) n); simpl; auto.
    destruct (m_get (mods s) n) as [o'|]; simpl; auto.
    destruct (has_own w s o'); simpl; irs_rw; simpl; auto.
Qed.

Lemma IM_step o l s : IM o s -> IM o (step c w l s).
Proof.
  destruct l as [e|t]; simpl.
  - intros H. destruct (nM_env o e s) as (a & b & d). unfold IM in *. rewrite a, b, d. exact H.
  - apply IM_shape with (t := t). apply tstep_shapeM.
Qed.

Lemma IM_init o scanned : IM o (init w scanned).
Proof.
  unfold IM; simpl. repeat split; auto; try discriminate; try tauto.
Qed.

Lemma IM_reachable o scanned s : reachable c w scanned s -> IM o s.
Proof.
  apply reachable_ind with (P := IM o).
  - apply IM_init.
  - intros; apply IM_step; assumption.
Qed.

End Once.

(* ------------------------------------------------------------------ statements shared with C17.v *)
Definition pendingM (w : world) (s : st) (n o : nat) : Prop :=
  m_get (mods s) n = Some o /\ glue_of w o <> None /\ ~ In o (popped s).
Definition pendingB (w : world) (s : st) (n f : nat) : Prop :=
  (exists o, m_get (mods s) n = Some o /\ (glue_of w o = None \/ In o (popped s)))
  /\ m_get (pend s) n = Some f.
Definition calledM (s : st) (o : nat) : Prop := exists n d, In (EvCallM o n d) (log s).
Definition calledB (s : st) (f : nat) : Prop := exists n d, In (EvCallB f n d) (log s).

Definition hist_ok (h : list clabel) : bool :=
  forallb (fun l => match l with CEnv _ | CFull _ => true | _ => false end) h.

(* one whole call of add_glue_as_needed by thread t *)
Definition extraction (c : cfg) (w : world) (t : nat) (s : st) : st :=
  to_done c w FUEL t (tstep c w t s).

Lemma nM_calledM o l : 0 < nM o l <-> exists n d, In (EvCallM o n d) l.
Proof.
  induction l as [|e l IH].
  - simpl. split; [lia|intros (n & d & [])].
  - assert (G : (exists n d, In (EvCallM o n d) (e :: l)) <->
                (exists n d, e = EvCallM o n d) \/ (exists n d, In (EvCallM o n d) l)).
    { split.
      - intros (n & d & [H|H]); [left|right]; eauto.
      - intros [(n & d & H)|(n & d & H)]; exists n, d; [left; exact H|right; exact H]. }
    rewrite G, <- IH. clear G IH.
    destruct e as [o' n' d'| | | | |]; simpl;
      try (split; [intros H; right; exact H|intros [(n1 & d1 & H)|H]; [discriminate|exact H]]).
    destruct (o' =? o) eqn:Q.
    + apply Nat.eqb_eq in Q. subst. split; [intros _; left; eauto|simpl; lia].
    + apply Nat.eqb_neq in Q. simpl.
      split; [intros H; right; exact H|intros [(n1 & d1 & H)|H]; [congruence|exact H]].
Qed.

Theorem at_most_once_M (w : world) (scanned : bool) (ls : list label) (o : nat) :
  glue_pop_before_call = true ->
  nM o (log (run src_cfg w ls (init w scanned))) <= 1.
Proof.
  intros Hp.
  assert (R : reachable src_cfg w scanned (run src_cfg w ls (init w scanned))) by (exists ls; reflexivity).
  apply (IM_reachable (c := src_cfg) (w := w) Hp o) in R. apply R.
Qed.

(* the remove-A / add-B history of finding F4: B's glue is pending when the extraction starts,
   the extraction returns normally, B's glue has not run *)
Definition f4_world := mkworld 1 [OMod (Some (mkfn BOk [])); OMod (Some (mkfn BOk []))] [].
Definition f4_hist := [CEnv (EIR (IIns 0 0)); CFull 0; CEnv (EIR (IRem 0)); CEnv (EIR (IIns 1 1))].

Theorem F4_refuted :
  exists w scanned h t n o,
    hist_ok h = true /\
    let r := crun src_cfg w h (init w scanned) in
    ~ In Stuck (snd r) /\ pendingM w (fst r) n o /\
    let s2 := extraction src_cfg w t (fst r) in
    thr s2 t = PDone true /\ g_nrem s2 = g_nrem (fst r) /\ ~ calledM s2 o.
Proof.
  exists f4_world, true, f4_hist, 0, 1, 1.
  split; [reflexivity|].
  vm_compute. repeat split; try discriminate; try tauto.
  - intros [H|[]]. discriminate.
  - intros [H|[]]. discriminate.
  - intros (n & d & H). destruct H as [H|[H|[H|[]]]]; discriminate.
Qed.

Definition g1_world := mkworld 1 [OMod (Some (mkfn BOk []))] [mkfn BOk []].

(* ------------------------------------------------------------------ a raising glue is a warning *)
Definition selected (w : world) (mf bf : option nat) : option (fnspec * bool) :=
  match mf with
  | Some o => Some (match glue_of w o with Some fs => fs | None => mkfn BOk [] end, true)
  | None => match bf with Some f => Some (bfn_of w f, false) | None => None end
  end.

Definition no_base (w : world) : Prop :=
  (forall o fs, glue_of w o = Some fs -> fbeh fs <> BBase) /\ (forall f, fbeh (bfn_of w f) <> BBase).

Lemma raise_is_warning (w : world) (s : st) (t nm : nat) mf bf cur todo n fs mk :
  glue_call_guarded = true ->
  thr s t = PCall nm mf bf cur todo n ->
  selected w mf bf = Some (fs, mk) -> fbeh fs = BRaise ->
  let s' := step src_cfg w (LThr t) s in
  (exists ev, log s' = EvWarn mk nm :: ev :: log s /\ is_call ev = true)
  /\ thr s' t = PScan todo n /\ lock s' = lock s /\ cache s' = cache s /\ pend s' = pend s.
Proof.
  intros G E S B. simpl. unfold tstep. rewrite E. unfold call, src_cfg. simpl. try rewrite G.
  unfold selected in S.
  destruct mf as [o|].
  - inversion S; subst. rewrite B. simpl. irs_rw. simpl. rewrite Nat.eqb_refl.
    repeat split. eexists; split; reflexivity.
  - destruct bf as [f|]; [|discriminate]. inversion S; subst. rewrite B. simpl. irs_rw. simpl.
    rewrite Nat.eqb_refl. repeat split. eexists; split; reflexivity.
Qed.

(* ... and the scan goes on: a thread inside the loop, run on its own, visits the remaining names,
   writes the cache and returns normally, whatever the remaining glue functions do short of
   raising BaseException *)
Lemma scan_completes (w : world) (t : nat) :
  glue_call_guarded = true -> no_base w ->
  forall todo s n, thr s t = PScan todo n ->
  exists k, let s' := run src_cfg w (repeat (LThr t) k) s in
    thr s' t = PDone true /\ cache s' = n /\ In (EvRet t true) (log s').
Proof.
  intros G [NB1 NB2]. induction todo as [|nm todo IH]; intros s n E.
  - exists 1. simpl. unfold tstep. rewrite E. simpl. rel_rw. simpl. rewrite Nat.eqb_refl.
    repeat split; auto.
    unfold release; simpl. destruct (lock s) as [t'|]; [destruct (t' =? t)|]; reflexivity.
  - (* one visit, maybe one call, then the induction hypothesis *)
    set (s1 := tstep src_cfg w t s).
    assert (V : thr s1 t = PScan todo n \/ exists mf bf cur, thr s1 t = PCall nm mf bf cur todo n /\ some_or mf bf = true).
    { unfold s1, tstep. rewrite E. unfold visit. simpl. rewrite Nat.eqb_refl.
      match goal with |- context [some_or ?a ?b] => destruct (some_or a b) eqn:SO end.
      - right. eexists _, _, _. split; [reflexivity|exact SO].
      - left. reflexivity. }
    destruct V as [V|(mf & bf & cur & V & SO)].
    + destruct (IH s1 n V) as [k H]. exists (S k). simpl. exact H.
    + set (s2 := tstep src_cfg w t s1).
      assert (W : thr s2 t = PScan todo n).
      { unfold s2, tstep. rewrite V. unfold call, src_cfg. simpl. try rewrite G.
        destruct mf as [o|].
        - destruct (glue_of w o) as [fs|] eqn:GL.
          + specialize (NB1 o fs GL). destruct (fbeh fs); simpl; irs_rw; simpl; try rewrite Nat.eqb_refl; try reflexivity.
            congruence.
          + simpl. rewrite Nat.eqb_refl. reflexivity.
        - destruct bf as [f|]; [|discriminate].
          specialize (NB2 f). destruct (fbeh (bfn_of w f)); simpl; irs_rw; simpl; try rewrite Nat.eqb_refl; try reflexivity.
          congruence. }
      destruct (IH s2 n W) as [k H]. exists (S (S k)). simpl. exact H.
Qed.

Definition call_event (t nm : nat) (mf bf cur : option nat) : event :=
  match mf with
  | Some o => EvCallM o nm bf
  | None => match bf with Some f => EvCallB f nm cur | None => EvRet t false end
  end.

Lemma call_spec c w t nm mf bf cur todo n s :
  let s' := call c w t nm mf bf cur todo n s in
  popped s' = popped s /\ pend s' = pend s /\
  (exists p', thr s' = upd (thr s) t p' /\ (p' = PScan todo n \/ p' = PDone false)) /\
  (forall e, In e (log s') ->
     In e (log s) \/ e = call_event t nm mf bf cur \/ (exists b, e = EvWarn b nm) \/ e = EvRet t false).
Proof.
  unfold call, abort, call_event.
  destruct mf as [o'|]; [|destruct bf as [f|]].
  - destruct (fbeh _); [|destruct (c_guarded c)|]; simpl; rel_rw; irs_rw; simpl;
      (split; [reflexivity|split; [reflexivity|split;
        [eexists; split; [reflexivity|auto]
        |intros e H; repeat (destruct H as [H|H]; [subst e; eauto 6|]); auto]]]).
  - destruct (fbeh _); [|destruct (c_guarded c)|]; simpl; rel_rw; irs_rw; simpl;
      (split; [reflexivity|split; [reflexivity|split;
        [eexists; split; [reflexivity|auto]
        |intros e H; repeat (destruct H as [H|H]; [subst e; eauto 6|]); auto]]]).
  - simpl. split; [reflexivity|split; [reflexivity|split; [eexists; split; [reflexivity|auto]|auto]]].
Qed.

(* ------------------------------------------------------------------ module-provided beats built-in *)
Definition settled (w : world) (s : st) (o : nat) : Prop := glue_of w o = None \/ In o (popped s).

Definition PM (w : world) (o : nat) (s : st) : Prop :=
  (forall f n, In (EvCallB f n (Some o)) (log s) -> settled w s o)
  /\ (forall t nm f todo k, thr s t = PCall nm None (Some f) (Some o) todo k -> settled w s o).

Lemma In_log_irs l s e : In e (log (apply_irs l s)) <-> In e (log s).
Proof. irs_rw. tauto. Qed.

Lemma PM_step c w o l s : c_pop c = true -> PM w o s -> PM w o (step c w l s).
Proof.
  intros Hpop [A B]. destruct l as [e|t]; simpl.
  - (* environment: popped and thr unchanged, no EvCallB added *)
    destruct (nM_env w 0 e s) as (_ & P & T).
    unfold PM, settled. rewrite P, T. split; [|exact B].
    intros f n H. apply (A f n).
    destruct e as [i|n']; simpl in H.
    + destruct (apply_ir_fields i s) as (_&_&_&_&_&L&_). rewrite L in H. exact H.
    + destruct (m_get (pend s) n'); simpl in H.
      * destruct H as [H|H]; [discriminate|exact H].
      * destruct (m_get (mods s) n') as [o'|]; simpl in H; [|exact H].
        destruct (has_own w s o'); simpl in H; [exact H|].
        rewrite In_log_irs in H. simpl in H. destruct H as [H|H]; [discriminate|exact H].
  - unfold tstep.
    destruct (thr s t) as [| |l| | |todo n|nm mf bf cur todo n|ok] eqn:E.
    all: try (unfold PM, settled in *; simpl; split;
              [intros f' n' H; try (destruct H as [H|H]; [discriminate|]); eapply A; eauto
              |intros t' nm' f' todo' k' H; destruct (t' =? t); [discriminate|eapply B; eauto]]; fail).
    + (* PRead *)
      destruct (l =? cache s); unfold PM, settled in *; simpl; split;
        try (intros f' n' H; try (destruct H as [H|H]; [discriminate|]); eapply A; eauto);
        try (intros t' nm' f' todo' k' H; destruct (t' =? t); [discriminate|eapply B; eauto]).
    + (* PSlow *)
      destruct (c_locked c); [destruct (lock s)|]; unfold PM, settled in *; simpl; split; eauto;
        try (intros t' nm' f' todo' k' H; destruct (t' =? t); [discriminate|eapply B; eauto]).
    + (* PScan *)
      destruct todo as [|nm todo].
      * unfold PM, settled in *; simpl; rel_rw; split.
        -- intros f' n' [H|H]; [discriminate|eapply A; eauto].
        -- intros t' nm' f' todo' k' H. destruct (t' =? t); [discriminate|eapply B; eauto].
      * unfold visit. rewrite Hpop.
        set (mf := match m_get (mods s) nm with
                   | Some o0 => match glue_of w o0 with
                                | Some _ => if mem_nat o0 (popped s) then None else Some o0
                                | None => None end
                   | None => None end).
        assert (MONO : forall x, In x (popped s) ->
                  In x (match mf with Some o0 => o0 :: popped s | None => popped s end)).
        { intros x H. destruct mf; [right|]; exact H. }
        unfold PM, settled; simpl; split.
        -- intros f' n' H. destruct (A f' n' H) as [X|X]; [left; exact X|right; apply MONO; exact X].
        -- intros t' nm' f' todo' k' H. destruct (t' =? t) eqn:Q.
           ++ destruct (some_or mf (m_get (pend s) nm)); [|discriminate].
              inversion H; subst. clear H.
              (* mf = None while the object under nm is o *)
              match goal with H1 : mf = None |- _ => rename H1 into MF end.
              match goal with H1 : m_get (mods s) _ = Some o |- _ => rename H1 into CU end.
              rewrite MF. unfold mf in MF. rewrite CU in MF.
              destruct (glue_of w o); [|left; reflexivity].
              destruct (mem_nat o (popped s)) eqn:MM; [|discriminate].
              right. apply mem_nat_In. exact MM.
           ++ destruct (B t' nm' f' todo' k' H) as [X|X]; [left; exact X|right; apply MONO; exact X].
    + (* PCall *)
      destruct (call_spec c w t nm mf bf cur todo n s) as (P & _ & (p' & T & PP) & L).
      unfold PM, settled in *. rewrite P. split.
      * intros f' n' H. apply L in H. destruct H as [H|[H|[[b H]|H]]]; try discriminate.
        -- eapply A; exact H.
        -- unfold call_event in H. destruct mf; [discriminate|]. destruct bf; [|discriminate].
           inversion H; subst. eapply B. exact E.
      * intros t' nm' f' todo' k' H. rewrite T in H. unfold upd in H.
        destruct (t' =? t); [destruct PP; subst p'; discriminate|eapply B; exact H].
Qed.

Theorem prefers_module (w : world) (scanned : bool) (ls : list label) (f n o : nat) :
  glue_pop_before_call = true ->
  let s := run src_cfg w ls (init w scanned) in
  In (EvCallB f n (Some o)) (log s) -> glue_of w o = None \/ In o (popped s).
Proof.
  intros Hp s H.
  assert (R : reachable src_cfg w scanned s) by (exists ls; reflexivity).
  assert (I : PM w o s).
  { revert R. apply reachable_ind with (P := PM w o).
    - split; simpl; [tauto|discriminate].
    - intros s0 l I. apply PM_step; [exact Hp|exact I]. }
  exact (proj1 I f n H).
Qed.

(* ------------------------------------------------------------------ step specifications *)
Lemma m_get_del_same p n : m_get (m_del p n) n = None.
Proof.
  induction p as [|[k v] r IH]; simpl; auto.
  destruct (k =? n) eqn:Q; auto. simpl. rewrite Q. exact IH.
Qed.

Lemma m_get_del_other p a n : a <> n -> m_get (m_del p a) n = m_get p n.
Proof.
  intros NE. induction p as [|[k v] r IH]; simpl; auto.
  destruct (k =? a) eqn:Q.
  - apply Nat.eqb_eq in Q. subst k. destruct (a =? n) eqn:Q2; [apply Nat.eqb_eq in Q2; congruence|exact IH].
  - simpl. destruct (k =? n); auto.
Qed.

Lemma m_get_del_none p a n : m_get p n = None -> m_get (m_del p a) n = None.
Proof.
  intros H. destruct (Nat.eq_dec a n) as [->|NE]; [apply m_get_del_same|].
  rewrite m_get_del_other by exact NE. exact H.
Qed.

Definition visit_mf (w : world) (s : st) (nm : nat) : option nat :=
  match m_get (mods s) nm with
  | Some o => match glue_of w o with
              | Some _ => if mem_nat o (popped s) then None else Some o
              | None => None
              end
  | None => None
  end.

Lemma visit_mf_some w s nm o : visit_mf w s nm = Some o ->
  m_get (mods s) nm = Some o /\ glue_of w o <> None /\ ~ In o (popped s).
Proof.
  unfold visit_mf. destruct (m_get (mods s) nm) as [o'|]; [|discriminate].
  destruct (glue_of w o') eqn:G; [|discriminate].
  destruct (mem_nat o' (popped s)) eqn:M; [discriminate|].
  intros H; inversion H; subst. repeat split; auto. congruence. apply mem_nat_false. exact M.
Qed.

Lemma visit_mf_none w s nm o : visit_mf w s nm = None -> m_get (mods s) nm = Some o ->
  glue_of w o = None \/ In o (popped s).
Proof.
  unfold visit_mf. intros H E. rewrite E in H.
  destruct (glue_of w o); [|left; reflexivity].
  destruct (mem_nat o (popped s)) eqn:M; [|discriminate]. right. apply mem_nat_In. exact M.
Qed.

Definition visit_pc (w : world) (s : st) (nm : nat) (todo : list nat) (k : nat) : pc :=
  if some_or (visit_mf w s nm) (m_get (pend s) nm)
  then PCall nm (visit_mf w s nm) (m_get (pend s) nm) (m_get (mods s) nm) todo k
  else PScan todo k.

Lemma visit_spec c w t nm todo k s : c_pop c = true ->
  let s' := visit c w t nm todo k s in
  popped s' = match visit_mf w s nm with Some o => o :: popped s | None => popped s end
  /\ pend s' = m_del (pend s) nm /\ log s' = log s /\ thr s' = upd (thr s) t (visit_pc w s nm todo k)
  /\ mods s' = mods s /\ cache s' = cache s /\ lock s' = lock s
  /\ g_since_cache s' = g_since_cache s /\ g_since_snap s' = g_since_snap s /\ g_nrem s' = g_nrem s
  /\ g_started s' = g_started s /\ g_late s' = g_late s
  /\ g_snap_cache s' = g_snap_cache s /\ g_snap_scan s' = g_snap_scan s.
Proof.
  intros Hpop. unfold visit, visit_pc, visit_mf. rewrite Hpop. simpl. repeat split.
Qed.

Lemma call_ghost c w t nm mf bf cur todo n s :
  let s' := call c w t nm mf bf cur todo n s in
  g_started s' = g_started s /\ g_late s' = g_late s.
Proof.
  assert (IR : forall l s0, g_started (apply_irs l s0) = g_started s0 /\ g_late (apply_irs l s0) = g_late s0).
  { induction l as [|i l IH]; intros s0; [split; reflexivity|].
    unfold apply_irs in *. simpl. destruct (IH (apply_ir i s0)) as [A B]. rewrite A, B.
    destruct i as [a b|a]; simpl; [split; reflexivity|]. destruct (m_get (mods s0) a); split; reflexivity. }
  assert (RL : forall s0, g_started (release s0 t) = g_started s0 /\ g_late (release s0 t) = g_late s0).
  { intros s0. destruct (release_fields s0 t) as (_&_&_&_&_&_&_&A&B). auto. }
  unfold call, abort.
  destruct mf as [o'|]; [|destruct bf as [f|]];
    try (destruct (fbeh _); [|destruct (c_guarded c)|]); simpl;
    repeat match goal with |- context [release ?x t] => destruct (RL x) as [-> ->] end; simpl;
    repeat match goal with |- context [apply_irs ?l ?x] => destruct (IR l x) as [-> ->] end; simpl; split; reflexivity.
Qed.

Lemma ir_ghost i s : g_started (apply_ir i s) = g_started s /\ g_late (apply_ir i s) = g_late s.
Proof.
  destruct i as [a b|a]; simpl; [split; reflexivity|]. destruct (m_get (mods s) a); split; reflexivity.
Qed.

Lemma irs_ghost l s : g_started (apply_irs l s) = g_started s /\ g_late (apply_irs l s) = g_late s.
Proof.
  revert s; induction l as [|i l IH]; intros s; [split; reflexivity|].
  unfold apply_irs in *. simpl. destruct (IH (apply_ir i s)) as [A B]. rewrite A, B. apply ir_ghost.
Qed.

Definition is_pcall (p : pc) : bool := match p with PCall _ _ _ _ _ _ => true | _ => false end.
Definition is_scan_cons (p : pc) : bool := match p with PScan (_ :: _) _ => true | _ => false end.

(* every branch of a thread step other than the loop body (visit / call) *)
Lemma tstep_quiet c w t s :
  is_pcall (thr s t) = false -> is_scan_cons (thr s t) = false ->
  let s' := tstep c w t s in
  popped s' = popped s /\ pend s' = pend s /\ mods s' = mods s
  /\ (forall e, In e (log s') -> In e (log s) \/ exists b, e = EvRet t b)
  /\ (forall e, In e (log s) -> In e (log s'))
  /\ (exists p', is_pcall p' = false /\ (thr s' = upd (thr s) t p' \/ thr s' = thr s))
  /\ g_late s' = g_late s
  /\ (g_started s' = true \/ (g_started s' = g_started s /\ thr s t <> PIdle)).
Proof.
  intros NC NS. unfold tstep.
  destruct (thr s t) as [| |l| | |todo n|nm mf bf cur todo n|ok] eqn:E; try discriminate.
  - simpl. repeat split; auto. exists PEnter. split; auto.
  - simpl. repeat split; auto. exists (PRead (w_base w + length (mods s))). split; auto.
    right. split; [reflexivity|discriminate].
  - destruct (l =? cache s); simpl; repeat split; auto.
    + intros e [H|H]; [right; eexists; symmetry; exact H|left; exact H].
    + exists (PDone true). split; auto.
    + right. split; [reflexivity|discriminate].
    + exists PSlow. split; auto.
    + right. split; [reflexivity|discriminate].
  - destruct (c_locked c); [destruct (lock s)|]; simpl; repeat split; auto;
      try (exists PLocked; split; auto); try (right; split; [reflexivity|discriminate]).
  - simpl. repeat split; auto.
    + eexists (PScan _ _). split; [reflexivity|left; reflexivity].
    + right. split; [reflexivity|discriminate].
  - destruct todo; [|discriminate]. simpl. rel_rw.
    destruct (release_fields (mkst (mods s) (popped s) (pend s) n (lock s) (thr s) (log s) (nreg s)
               (g_since_snap s) (g_since_snap s) (g_nrem s) (g_started s) (g_late s) (g_snap_scan s) (g_snap_scan s)) t)
      as (_&_&_&_&_&_&_&GL&GS).
    simpl. rewrite GL, GS. simpl. repeat split; auto.
    + intros e [H|H]; [right; eexists; symmetry; exact H|left; exact H].
    + exists (PDone true). split; auto.
    + right. split; [reflexivity|discriminate].
  - simpl. repeat split; auto. exists PEnter. split; auto.
Qed.

Lemma ex_upd (P : pc -> bool) f t p' :
  (exists t', P (upd f t p' t') = true) -> P p' = true \/ exists t', P (f t') = true.
Proof.
  intros [t' H]. unfold upd in H. destruct (t' =? t); [left; exact H|right; exists t'; exact H].
Qed.

Lemma ex_upd_back (P : pc -> bool) f t p' :
  P (f t) = false -> (exists t', P (f t') = true) -> exists t', P (upd f t p' t') = true.
Proof.
  intros NF [t' H]. exists t'. unfold upd. destruct (t' =? t) eqn:Q; [|exact H].
  apply Nat.eqb_eq in Q. subst. congruence.
Qed.

(* ------------------------------------------------------------------ never both kinds for one module *)
Section NeverBoth.
Variable c : cfg.
Variable w : world.
Hypothesis Hpop : c_pop c = true.
Variables n o : nat.

Definition Mn_thr (p : pc) : bool :=
  match p with PCall nm (Some _) _ _ _ _ => nm =? n | _ => false end.
Definition Mc_thr (p : pc) : bool :=
  match p with PCall nm (Some o') _ _ _ _ => (nm =? n) && (o' =? o) | _ => false end.
Definition Bc_thr (p : pc) : bool :=
  match p with PCall nm None (Some _) (Some o') _ _ => (nm =? n) && (o' =? o) | _ => false end.
Definition Mn (s : st) : Prop := (exists o' d, In (EvCallM o' n d) (log s)) \/ exists t, Mn_thr (thr s t) = true.
Definition Mc (s : st) : Prop := (exists d, In (EvCallM o n d) (log s)) \/ exists t, Mc_thr (thr s t) = true.
Definition Bc (s : st) : Prop := (exists f, In (EvCallB f n (Some o)) (log s)) \/ exists t, Bc_thr (thr s t) = true.
Definition is_MB (e : event) : bool := match e with EvCallM _ _ _ | EvCallB _ _ _ => true | _ => false end.

Definition NBody (s : st) : Prop :=
  (g_started s = false ->
     popped s = [] /\ (forall t, thr s t = PIdle) /\ (forall e, In e (log s) -> is_MB e = false))
  /\ (Mn s -> m_get (pend s) n = None)
  /\ (Mc s -> Bc s -> False)
  /\ (forall f n' o', In (EvImm f n' o') (log s) -> glue_of w o' = None).

Definition NB (s : st) : Prop := PM w o s /\ (g_late s = false -> NBody s).

Lemma Mc_Mn s : Mc s -> Mn s.
Proof.
  intros [[d H]|[t H]]; [left; eauto|right; exists t].
  unfold Mc_thr, Mn_thr in *. destruct (thr s t); try discriminate.
  destruct mf; [|discriminate]. apply andb_true_iff in H. tauto.
Qed.

Lemma Bc_settled s : PM w o s -> Bc s -> settled w s o.
Proof.
  intros [A B] [[f H]|[t H]]; [eapply A; eauto|].
  unfold Bc_thr in H. destruct (thr s t) eqn:E; try discriminate.
  destruct mf; [discriminate|]. destruct bf; [|discriminate]. destruct cur as [o'|]; [|discriminate].
  apply andb_true_iff in H. destruct H as [_ H]. apply Nat.eqb_eq in H. subst. eapply B. exact E.
Qed.

Lemma NB_env e s : NB s -> NB (apply_env w e s).
Proof.
  intros [P N]. split; [exact (@PM_step c w o (LEnv e) s Hpop P)|].
  destruct e as [i|n'].
  - (* sys.modules operation: nothing the body mentions changes *)
    simpl. destruct (apply_ir_fields i s) as (a&b&_&_&e&f&_). destruct (ir_ghost i s) as [g h].
    unfold NBody, Mn, Mc, Bc. rewrite a, b, e, f, g, h. exact N.
  - (* registration *)
    intros GL.
    assert (GG : g_late s = false /\ g_started s = false).
    { simpl in GL. destruct (m_get (pend s) n'); [|destruct (m_get (mods s) n') as [o'|]; [destruct (has_own w s o')|]];
        simpl in GL; try (rewrite (proj2 (irs_ghost _ _)) in GL; simpl in GL); apply orb_false_iff in GL; exact GL. }
    destruct GG as [G1 G2]. destruct (N G1) as (N0 & N1 & N5 & N4). destruct (N0 G2) as (PO & ID & NOMB).
    assert (NoMn : forall s', thr s' = thr s -> (forall e, In e (log s') -> is_MB e = true -> In e (log s)) -> Mn s' -> False).
    { intros s' T L [(o' & d & H)|[t H]].
      - apply L in H; [|reflexivity]. apply NOMB in H. discriminate.
      - rewrite T, ID in H. discriminate. }
    assert (NoMc : forall s', thr s' = thr s -> (forall e, In e (log s') -> is_MB e = true -> In e (log s)) -> Mc s' -> False).
    { intros s' T L H. apply (NoMn s' T L). apply Mc_Mn. exact H. }
    simpl.
    destruct (m_get (pend s) n') eqn:PE; [|destruct (m_get (mods s) n') as [o'|] eqn:MO; [destruct (has_own w s o') eqn:HO|]].
    + (* refused *)
      unfold NBody. simpl.
      split; [intros _; split; [exact PO|split; [exact ID|]]|split; [|split]].
      * intros e [X|X]; [subst; reflexivity|apply NOMB; exact X].
      * intros X. exfalso. eapply NoMn; [| |exact X]; simpl; auto. intros e [Y|Y] Z; [subst; discriminate|exact Y].
      * intros X _. eapply NoMc; [| |exact X]; simpl; auto. intros e [Y|Y] Z; [subst; discriminate|exact Y].
      * intros f1 n1 o1 [X|X]; [discriminate|eapply N4; exact X].
    + (* module brings its own glue: dropped *)
      unfold NBody. simpl.
      split; [intros _; split; [exact PO|split; [exact ID|exact NOMB]]|split; [|split; [|exact N4]]].
      * intros X. exfalso. eapply NoMn; [| |exact X]; simpl; auto.
      * intros X _. eapply NoMc; [| |exact X]; simpl; auto.
    + (* run at once: no extraction has started, so nothing is popped: the module has no glue *)
      assert (GN : glue_of w o' = None).
      { unfold has_own in HO. rewrite PO in HO. destruct (glue_of w o'); [discriminate|reflexivity]. }
      unfold NBody. destruct (irs_ghost (feff (bfn_of w (nreg s)))
        (add_log (mkst (mods s) (popped s) (pend s) (cache s) (lock s) (thr s) (log s) (S (nreg s))
           (g_since_cache s) (g_since_snap s) (g_nrem s) (g_started s) (g_late s || g_started s)
           (g_snap_cache s) (g_snap_scan s)) (EvImm (nreg s) n' o'))) as [X1 X2].
      rewrite X1. unfold Mn, Mc, Bc. irs_rw. simpl.
      split; [intros _; split; [exact PO|split; [exact ID|]]|split; [|split]].
      * intros e [X|X]; [subst; reflexivity|apply NOMB; exact X].
      * intros X. exfalso. eapply (NoMn (add_log s (EvImm (nreg s) n' o'))); simpl; auto.
        intros e [Y|Y] Z; [subst; discriminate|exact Y].
      * intros X _. eapply (NoMc (add_log s (EvImm (nreg s) n' o'))); simpl; auto.
        intros e [Y|Y] Z; [subst; discriminate|exact Y].
      * intros f1 n1 o1 [X|X]; [inversion X; subst; exact GN|eapply N4; exact X].
    + (* made pending *)
      unfold NBody. simpl.
      split; [intros _; split; [exact PO|split; [exact ID|exact NOMB]]|split; [|split; [|exact N4]]].
      * intros X. exfalso. eapply NoMn; [| |exact X]; simpl; auto.
      * intros X _. eapply NoMc; [| |exact X]; simpl; auto.
Qed.

Lemma npc_Mn p : is_pcall p = false -> Mn_thr p = false.
Proof. destruct p; simpl; try reflexivity; discriminate. Qed.
Lemma npc_Mc p : is_pcall p = false -> Mc_thr p = false.
Proof. destruct p; simpl; try reflexivity; discriminate. Qed.
Lemma npc_Bc p : is_pcall p = false -> Bc_thr p = false.
Proof. destruct p; simpl; try reflexivity; discriminate. Qed.

Lemma NB_tstep t s : NB s -> NB (tstep c w t s).
Proof.
  intros [P N]. split; [exact (@PM_step c w o (LThr t) s Hpop P)|].
  destruct (is_pcall (thr s t)) eqn:IC; [|destruct (is_scan_cons (thr s t)) eqn:IS].
  - (* the call *)
    destruct (thr s t) as [| |l| | |todo k|nm mf bf cur todo k|ok] eqn:E; try discriminate.
    unfold tstep. rewrite E.
    destruct (call_spec c w t nm mf bf cur todo k s) as (PO & PE & (p' & T & PP) & L).
    destruct (call_ghost c w t nm mf bf cur todo k s) as [GS GL].
    assert (NP : is_pcall p' = false) by (destruct PP; subst; reflexivity).
    rewrite GL. intros G. destruct (N G) as (N0 & N1 & N5 & N4).
    assert (MN : Mn (call c w t nm mf bf cur todo k s) -> Mn s).
    { intros [(o' & d & H)|H].
      - apply L in H. destruct H as [H|[H|[[b H]|H]]]; try discriminate; [left; eauto|].
        right. exists t. rewrite E. unfold call_event in H. destruct mf; [|destruct bf; discriminate].
        inversion H; subst. simpl. apply Nat.eqb_refl.
      - rewrite T in H. apply ex_upd in H. destruct H as [H|H]; [rewrite npc_Mn in H by exact NP; discriminate|right; exact H]. }
    assert (MC : Mc (call c w t nm mf bf cur todo k s) -> Mc s).
    { intros [(d & H)|H].
      - apply L in H. destruct H as [H|[H|[[b H]|H]]]; try discriminate; [left; eauto|].
        right. exists t. rewrite E. unfold call_event in H. destruct mf; [|destruct bf; discriminate].
        inversion H; subst. simpl. rewrite !Nat.eqb_refl. reflexivity.
      - rewrite T in H. apply ex_upd in H. destruct H as [H|H]; [rewrite npc_Mc in H by exact NP; discriminate|right; exact H]. }
    assert (BC : Bc (call c w t nm mf bf cur todo k s) -> Bc s).
    { intros [(f & H)|H].
      - apply L in H. destruct H as [H|[H|[[b H]|H]]]; try discriminate; [left; eauto|].
        right. exists t. rewrite E. unfold call_event in H. destruct mf; [discriminate|]. destruct bf; [|discriminate].
        inversion H; subst. simpl. rewrite !Nat.eqb_refl. reflexivity.
      - rewrite T in H. apply ex_upd in H. destruct H as [H|H]; [rewrite npc_Bc in H by exact NP; discriminate|right; exact H]. }
    unfold NBody. rewrite GS, PE.
    split; [intros X; destruct (N0 X) as (_ & ID & _); rewrite ID in E; discriminate|split; [|split]].
    + intros X. apply N1. apply MN. exact X.
    + intros X Y. apply N5; [apply MC; exact X|apply BC; exact Y].
    + intros f1 n1 o1 H. apply L in H. destruct H as [H|[H|[[b H]|H]]]; try discriminate; [eapply N4; exact H|].
      unfold call_event in H. destruct mf; [discriminate|destruct bf; discriminate].
  - (* the visit *)
    destruct (thr s t) as [| |l| | |todo k|nm mf bf cur todo k|ok] eqn:E; try discriminate.
    destruct todo as [|nm todo]; [discriminate|].
    unfold tstep. rewrite E.
    destruct (visit_spec c w t nm todo k s Hpop) as (PO & PE & LG & T & _ & _ & _ & _ & _ & _ & GS & GL & _).
    rewrite GL. intros G. destruct (N G) as (N0 & N1 & N5 & N4).
    assert (NOLD : forall Q : pc -> bool, Q (thr s t) = false ->
              (exists t', Q (thr (visit c w t nm todo k s) t') = true) ->
              Q (visit_pc w s nm todo k) = true \/ exists t', Q (thr s t') = true).
    { intros Q _ H. rewrite T in H. apply ex_upd in H. exact H. }
    assert (MCnew : Mc_thr (visit_pc w s nm todo k) = true -> nm = n /\ visit_mf w s nm = Some o).
    { unfold visit_pc. destruct (some_or _ _); [|discriminate]. simpl.
      destruct (visit_mf w s nm) as [o'|]; [|discriminate]. intros H. apply andb_true_iff in H.
      destruct H as [H1 H2]. apply Nat.eqb_eq in H1. apply Nat.eqb_eq in H2. subst. auto. }
    assert (BCnew : Bc_thr (visit_pc w s nm todo k) = true ->
              nm = n /\ visit_mf w s nm = None /\ m_get (pend s) n <> None).
    { unfold visit_pc. destruct (some_or _ _); [|discriminate]. simpl.
      destruct (visit_mf w s nm) as [o'|]; [discriminate|]. destruct (m_get (pend s) nm) eqn:PD; [|discriminate].
      destruct (m_get (mods s) nm); [|discriminate]. intros H. apply andb_true_iff in H.
      destruct H as [H1 H2]. apply Nat.eqb_eq in H1. subst. repeat split; auto. congruence. }
    unfold NBody. rewrite GS, PE, LG.
    split; [intros X; destruct (N0 X) as (_ & ID & _); rewrite ID in E; discriminate|split; [|split; [|exact N4]]].
    + intros [X|X].
      * apply m_get_del_none. apply N1. left. rewrite LG in X. exact X.
      * apply (NOLD Mn_thr) in X; [|rewrite E; reflexivity]. destruct X as [X|X].
        -- unfold visit_pc in X. destruct (some_or _ _); [|discriminate]. simpl in X.
           destruct (visit_mf w s nm); [|discriminate]. apply Nat.eqb_eq in X. subst. apply m_get_del_same.
        -- apply m_get_del_none. apply N1. right. exact X.
    + intros X Y.
      assert (X' : Mc s \/ (nm = n /\ visit_mf w s nm = Some o)).
      { destruct X as [X|X]; [left; left; rewrite LG in X; exact X|].
        apply (NOLD Mc_thr) in X; [|rewrite E; reflexivity]. destruct X as [X|X]; [right; apply MCnew; exact X|left; right; exact X]. }
      assert (Y' : Bc s \/ (nm = n /\ visit_mf w s nm = None /\ m_get (pend s) n <> None)).
      { destruct Y as [Y|Y]; [left; left; rewrite LG in Y; exact Y|].
        apply (NOLD Bc_thr) in Y; [|rewrite E; reflexivity]. destruct Y as [Y|Y]; [right; apply BCnew; exact Y|left; right; exact Y]. }
      destruct X' as [X'|[X1 X2]]; destruct Y' as [Y'|(Y1 & Y2 & Y3)].
      * exact (N5 X' Y').
      * apply Y3. apply N1. apply Mc_Mn. exact X'.
      * destruct (visit_mf_some w s nm X2) as (_ & GN & NP).
        destruct (Bc_settled P Y') as [Z|Z]; [exact (GN Z)|exact (NP Z)].
      * congruence.
  - (* everything else *)
    destruct (tstep_quiet c w t s IC IS) as (PO & PE & _ & L1 & L2 & (p' & NP & T) & GL & GS).
    rewrite GL. intros G. destruct (N G) as (N0 & N1 & N5 & N4).
    assert (TH : forall Q : pc -> bool, (forall p, is_pcall p = false -> Q p = false) ->
              (exists t', Q (thr (tstep c w t s) t') = true) -> exists t', Q (thr s t') = true).
    { intros Q HQ H. destruct T as [T|T]; rewrite T in H; [|exact H].
      apply ex_upd in H. destruct H as [H|H]; [rewrite HQ in H by exact NP; discriminate|exact H]. }
    assert (MN : Mn (tstep c w t s) -> Mn s).
    { intros [(o' & d & H)|H]; [|right; apply (TH Mn_thr npc_Mn H)].
      apply L1 in H. destruct H as [H|[b H]]; [left; eauto|discriminate]. }
    assert (MC : Mc (tstep c w t s) -> Mc s).
    { intros [(d & H)|H]; [|right; apply (TH Mc_thr npc_Mc H)].
      apply L1 in H. destruct H as [H|[b H]]; [left; eauto|discriminate]. }
    assert (BC : Bc (tstep c w t s) -> Bc s).
    { intros [(f & H)|H]; [|right; apply (TH Bc_thr npc_Bc H)].
      apply L1 in H. destruct H as [H|[b H]]; [left; eauto|discriminate]. }
    unfold NBody. rewrite PE.
    split; [|split; [|split]].
    + intros X. destruct GS as [GS|[GS NI]]; [congruence|].
      rewrite GS in X. destruct (N0 X) as (_ & ID & _). elim NI. apply ID.
    + intros X. apply N1. apply MN. exact X.
    + intros X Y. apply N5; [apply MC; exact X|apply BC; exact Y].
    + intros f1 n1 o1 H. apply L1 in H. destruct H as [H|[b H]]; [eapply N4; exact H|discriminate].
Qed.

Lemma NB_step l s : NB s -> NB (step c w l s).
Proof. destruct l; simpl; [apply NB_env|apply NB_tstep]. Qed.

Lemma NB_init scanned : NB (init w scanned).
Proof.
  split; [split; simpl; [tauto|discriminate]|].
  intros _. unfold NBody, Mn, Mc, Bc. simpl.
  split; [intros _; repeat split; tauto|split; [|split]].
  - intros [(o' & d & [])|[t H]]; discriminate.
  - intros [(d & [])|[t H]]; discriminate.
  - intros f1 n1 o1 [].
Qed.
End NeverBoth.

Lemma popped_glue c w scanned s : c_pop c = true -> reachable c w scanned s ->
  forall o, In o (popped s) -> glue_of w o <> None.
Proof.
  intros Hpop R.
  refine (@reachable_ind c w scanned (fun s => forall o, In o (popped s) -> glue_of w o <> None) _ _ s R).
  - simpl. tauto.
  - intros s0 l IH o. destruct l as [e|t]; simpl.
    + destruct (nM_env w 0 e s0) as (_ & P & _). rewrite P. apply IH.
    + destruct (is_pcall (thr s0 t)) eqn:IC; [|destruct (is_scan_cons (thr s0 t)) eqn:IS].
      * destruct (thr s0 t) as [| |l| | |todo k|nm mf bf cur todo k|ok] eqn:E; try discriminate.
        unfold tstep. rewrite E. destruct (call_spec c w t nm mf bf cur todo k s0) as (PO & _). rewrite PO. apply IH.
      * destruct (thr s0 t) as [| |l| | |todo k|nm mf bf cur todo k|ok] eqn:E; try discriminate.
        destruct todo as [|nm todo]; [discriminate|]. unfold tstep. rewrite E.
        destruct (visit_spec c w t nm todo k s0 Hpop) as (PO & _). rewrite PO.
        destruct (visit_mf w s0 nm) as [o'|] eqn:V; [|apply IH].
        intros [H|H]; [subst; apply (visit_mf_some w s0 nm V)|apply IH; exact H].
      * destruct (tstep_quiet c w t s0 IC IS) as (PO & _). rewrite PO. apply IH.
Qed.

Theorem never_both (w : world) (scanned : bool) (ls : list label) (n o : nat) :
  glue_pop_before_call = true ->
  let s := run src_cfg w ls (init w scanned) in
  g_late s = false ->
  forall d, In (EvCallM o n d) (log s) ->
  (forall f, ~ In (EvCallB f n (Some o)) (log s)) /\ (forall f, ~ In (EvImm f n o) (log s)).
Proof.
  intros Hp s GL d HM.
  assert (R : reachable src_cfg w scanned s) by (exists ls; reflexivity).
  assert (I : NB w n o s).
  { revert R. apply reachable_ind with (P := NB w n o).
    - apply NB_init.
    - intros s0 l I. apply NB_step; [exact Hp|exact I]. }
  destruct I as [_ I]. destruct (I GL) as (_ & _ & N5 & N4).
  split; intros f H.
  - apply N5; [left; eauto|left; eauto].
  - apply N4 in H.
    assert (IMo := IM_reachable (c := src_cfg) (w := w) Hp o R).
    destruct IMo as (_ & _ & C & _).
    assert (PG := @popped_glue src_cfg w scanned s Hp R).
    assert (Z : 0 < nM o (log s)) by (apply nM_calledM; eauto).
    destruct (in_dec Nat.eq_dec o (popped s)) as [IP|NIP].
    + exact (PG o IP H).
    + specialize (C NIP). lia.
Qed.

(* the hypothesis is met by a history with both kinds on offer, and by one registered after import *)
Definition nb_hist := [LEnv (EReg 0); LEnv (EIR (IIns 0 0)); LEnv (EIR (IIns 1 1)); LEnv (EReg 1);
                       LThr 0; LThr 0; LThr 0; LThr 0; LThr 0; LThr 0; LThr 0; LThr 0].
Definition nb_world := mkworld 1 [OMod (Some (mkfn BOk [])); OMod None] [mkfn BOk []; mkfn BOk []].
Example never_both_hyp_met :
  let s := run src_cfg nb_world nb_hist (init nb_world true) in
  g_late s = false /\ In (EvCallM 0 0 (Some 0)) (log s) /\ In (EvImm 1 1 1) (log s).
Proof. vm_compute. repeat split; auto. Qed.

(* ------------------------------------------------------------------ the global invariant behind timeliness *)
Lemma m_get_set M n o a : m_get (m_set M n o) a = if a =? n then Some o else m_get M a.
Proof.
  induction M as [|[k v] r IH]; simpl.
  - destruct (Nat.eqb_spec n a); destruct (Nat.eqb_spec a n); try congruence; reflexivity.
  - destruct (Nat.eqb_spec k n).
    + subst k. simpl. destruct (Nat.eqb_spec n a); destruct (Nat.eqb_spec a n); try congruence; reflexivity.
    + simpl. destruct (Nat.eqb_spec k a).
      * subst k. destruct (Nat.eqb_spec a n); [congruence|reflexivity].
      * exact IH.
Qed.

Lemma m_get_In M a b : m_get M a = Some b -> In (a, b) M.
Proof.
  induction M as [|[k v] r IH]; simpl; [discriminate|].
  destruct (Nat.eqb_spec k a); [intros H; inversion H; subst; left; reflexivity|intros H; right; auto].
Qed.

Lemma In_m_get M a b : NoDup (map fst M) -> In (a, b) M -> m_get M a = Some b.
Proof.
  induction M as [|[k v] r IH]; simpl; [tauto|].
  intros ND [H|H].
  - inversion H; subst. rewrite Nat.eqb_refl. reflexivity.
  - inversion ND; subst. destruct (Nat.eqb_spec k a).
    + subst k. exfalso. apply H2. change a with (fst (a, b)). apply in_map. exact H.
    + apply IH; assumption.
Qed.

Lemma fst_m_set M n o : map fst (m_set M n o) = if mem_nat n (map fst M) then map fst M else map fst M ++ [n].
Proof.
  induction M as [|[k v] r IH]; simpl; [reflexivity|].
  unfold mem_nat in *. simpl. destruct (Nat.eqb_spec k n).
  - subst. rewrite Nat.eqb_refl. simpl. reflexivity.
  - simpl. rewrite IH. destruct (Nat.eqb_spec n k); [congruence|]. simpl.
    destruct (existsb (Nat.eqb n) (map fst r)); reflexivity.
Qed.

Lemma NoDup_snoc (l : list nat) n : NoDup l -> ~ In n l -> NoDup (l ++ [n]).
Proof.
  induction l as [|x l IH]; simpl; intros ND NI.
  - repeat constructor. simpl. tauto.
  - inversion ND; subst. constructor.
    + rewrite in_app_iff. simpl. intros [H|[H|[]]]; [auto|subst; tauto].
    + apply IH; [assumption|tauto].
Qed.

Lemma NoDup_m_set M n o : NoDup (map fst M) -> NoDup (map fst (m_set M n o)).
Proof.
  intros ND. rewrite fst_m_set. destruct (mem_nat n (map fst M)) eqn:Q; [exact ND|].
  apply mem_nat_false in Q.
  apply NoDup_snoc; assumption.
Qed.

Lemma In_fst_m_del M n a : In a (map fst (m_del M n)) -> In a (map fst M).
Proof.
  induction M as [|[k v] r IH]; simpl; [tauto|].
  destruct (k =? n); simpl; [right; auto|intros [H|H]; [left; exact H|right; auto]].
Qed.

Lemma NoDup_m_del M n : NoDup (map fst M) -> NoDup (map fst (m_del M n)).
Proof.
  induction M as [|[k v] r IH]; simpl; [auto|].
  intros ND. inversion ND; subst. destruct (k =? n); [auto|].
  simpl. constructor; [|auto]. intros H. apply H1. eapply In_fst_m_del. exact H.
Qed.

Definition in_region (p : pc) : bool :=
  match p with PLocked | PScan _ _ | PCall _ _ _ _ _ _ => true | _ => false end.
Definition scan_of (p : pc) : option (list nat * nat) :=
  match p with
  | PScan todo k => Some (todo, k)
  | PCall _ _ _ _ todo k => Some (todo, k)
  | _ => None
  end.
Definition sub_ok (S M : list (nat * nat)) : Prop := forall a b, In (a, b) S -> m_get M a = Some b.

Section Invariant.
Variable c : cfg.
Variable w : world.
Hypothesis Hpop : c_pop c = true.
Hypothesis Hlock : c_locked c = true.

Record GI (s : st) : Prop := mkGI {
  gi_L1 : forall t, in_region (thr s t) = true -> lock s = Some t;
  gi_K1 : forall t todo k, scan_of (thr s t) = Some (todo, k) -> k = w_base w + length (g_snap_scan s);
  gi_K2 : g_since_snap s = false -> sub_ok (g_snap_scan s) (mods s);
  gi_K3 : g_since_snap s = false -> forall t todo k, scan_of (thr s t) = Some (todo, k) ->
          forall a b, In (a, b) (g_snap_scan s) -> In a todo \/ settled w s b;
  gi_K4 : NoDup (map fst (g_snap_scan s));
  gi_A1 : g_since_cache s = false -> cache s = 0 \/ cache s = w_base w + length (g_snap_cache s);
  gi_A2 : g_since_cache s = false -> sub_ok (g_snap_cache s) (mods s);
  gi_A3 : g_since_cache s = false -> forall a b, In (a, b) (g_snap_cache s) -> settled w s b;
  gi_A4 : NoDup (map fst (g_snap_cache s));
  gi_D1 : NoDup (map fst (mods s))
}.

(* states that agree on the fields the invariant talks about *)
Definition same_core (s s' : st) : Prop :=
  mods s' = mods s /\ popped s' = popped s /\ cache s' = cache s /\ lock s' = lock s /\ thr s' = thr s
  /\ g_since_cache s' = g_since_cache s /\ g_since_snap s' = g_since_snap s
  /\ g_snap_cache s' = g_snap_cache s /\ g_snap_scan s' = g_snap_scan s.

Lemma GI_ext s s' : same_core s s' -> GI s -> GI s'.
Proof.
  intros (a&b&c0&d&e&f&g&h&i) [L1 K1 K2 K3 K4 A1 A2 A3 A4 D1].
  constructor; unfold settled in *; rewrite ?a, ?b, ?c0, ?d, ?e, ?f, ?g, ?h, ?i; assumption.
Qed.

Lemma GI_ir i s : GI s -> GI (apply_ir i s).
Proof.
  intros [L1 K1 K2 K3 K4 A1 A2 A3 A4 D1].
  destruct i as [n o|n]; simpl.
  - destruct (m_get (mods s) n) as [o'|] eqn:G.
    + destruct (Nat.eqb_spec o' o) as [->|NE]; simpl.
      * (* re-binding the same object: nothing observable changes *)
        assert (SO : forall S, sub_ok S (mods s) -> sub_ok S (m_set (mods s) n o)).
        { intros S H a b I. rewrite m_get_set. destruct (Nat.eqb_spec a n); [|auto].
          subst. specialize (H _ _ I). rewrite G in H. exact H. }
        constructor; simpl; unfold settled in *; simpl; rewrite ?orb_false_r; auto using NoDup_m_set.
      * (* replacement: dirty *)
        constructor; simpl; unfold settled in *; simpl; rewrite ?orb_true_r; auto using NoDup_m_set; discriminate.
    + (* new name *)
      assert (SO : forall S, sub_ok S (mods s) -> sub_ok S (m_set (mods s) n o)).
      { intros S H a b I. rewrite m_get_set. destruct (Nat.eqb_spec a n); [|auto].
        subst. rewrite (H _ _ I) in G. discriminate. }
      constructor; simpl; unfold settled in *; simpl; rewrite ?orb_false_r; auto using NoDup_m_set.
  - destruct (m_get (mods s) n) eqn:G; [|constructor; assumption].
    constructor; simpl; unfold settled in *; simpl; auto using NoDup_m_del; discriminate.
Qed.

Lemma GI_irs l s : GI s -> GI (apply_irs l s).
Proof.
  revert s; induction l as [|i l IH]; intros s H; [exact H|].
  unfold apply_irs in *. simpl. apply IH. apply GI_ir. exact H.
Qed.

Lemma GI_env e s : GI s -> GI (apply_env w e s).
Proof.
  intros H. destruct e as [i|n]; simpl; [apply GI_ir; exact H|].
  destruct (m_get (pend s) n).
  - eapply GI_ext; [|exact H]. repeat split.
  - destruct (m_get (mods s) n) as [o'|].
    + destruct (has_own w s o').
      * eapply GI_ext; [|exact H]. repeat split.
      * apply GI_irs. eapply GI_ext; [|exact H]. repeat split.
    + eapply GI_ext; [|exact H]. repeat split.
Qed.
End Invariant.

Section Invariant2.
Variable c : cfg.
Variable w : world.
Hypothesis Hpop : c_pop c = true.
Hypothesis Hlock : c_locked c = true.

Definition same_but_thr_lock (s s' : st) : Prop :=
  mods s' = mods s /\ popped s' = popped s /\ cache s' = cache s
  /\ g_since_cache s' = g_since_cache s /\ g_since_snap s' = g_since_snap s
  /\ g_snap_cache s' = g_snap_cache s /\ g_snap_scan s' = g_snap_scan s.

Lemma region_scan p : in_region p = false -> scan_of p = None.
Proof. destruct p; simpl; try reflexivity; discriminate. Qed.
Lemma scan_region p x : scan_of p = Some x -> in_region p = true.
Proof. destruct p; simpl; try reflexivity; discriminate. Qed.

(* thread t moves between two pcs with the same region / scan status *)
Lemma GI_upd s s' t p' :
  GI w s -> same_but_thr_lock s s' -> lock s' = lock s -> thr s' = upd (thr s) t p' ->
  in_region p' = in_region (thr s t) -> scan_of p' = scan_of (thr s t) -> GI w s'.
Proof.
  intros [L1 K1 K2 K3 K4 A1 A2 A3 A4 D1] (a&b&c0&f&g&h&i) LK T IR SC.
  assert (TT : forall t', in_region (thr s' t') = in_region (thr s t') /\ scan_of (thr s' t') = scan_of (thr s t')).
  { intros t'. rewrite T. unfold upd. destruct (Nat.eqb_spec t' t); [subst; auto|auto]. }
  constructor; unfold settled in *; rewrite ?a, ?b, ?c0, ?LK, ?f, ?g, ?h, ?i; auto.
  - intros t' H. rewrite (proj1 (TT t')) in H. auto.
  - intros t' todo k H. rewrite (proj2 (TT t')) in H. eauto.
  - intros G t' todo k H. rewrite (proj2 (TT t')) in H. eauto.
Qed.

(* thread t, inside the locked region, leaves it *)
Lemma GI_leave s s' t p' :
  GI w s -> same_but_thr_lock s s' -> thr s' = upd (thr s) t p' ->
  in_region (thr s t) = true -> in_region p' = false -> GI w s'.
Proof.
  intros [L1 K1 K2 K3 K4 A1 A2 A3 A4 D1] (a&b&c0&f&g&h&i) T IN OUT.
  assert (NONE : forall t', in_region (thr s' t') = false).
  { intros t'. rewrite T. unfold upd. destruct (Nat.eqb_spec t' t); [exact OUT|].
    destruct (in_region (thr s t')) eqn:Q; [|reflexivity].
    apply L1 in Q. apply L1 in IN. congruence. }
  constructor; unfold settled in *; rewrite ?a, ?b, ?c0, ?f, ?g, ?h, ?i; auto.
  - intros t' H. rewrite NONE in H. discriminate.
  - intros t' todo k H. apply scan_region in H. rewrite NONE in H. discriminate.
  - intros G t' todo k H. apply scan_region in H. rewrite NONE in H. discriminate.
Qed.

Lemma release_core s t :
  same_but_thr_lock s (release s t) /\ thr (release s t) = thr s.
Proof.
  unfold release, same_but_thr_lock. destruct (lock s) as [t'|]; [destruct (t' =? t)|]; simpl; repeat split.
Qed.

Lemma GI_call t nm mf bf cur todo k s :
  GI w s -> thr s t = PCall nm mf bf cur todo k -> GI w (call c w t nm mf bf cur todo k s).
Proof.
  intros G E.
  assert (STEP : forall s2, GI w s2 -> thr s2 = thr s ->
            GI w (set_thr s2 t (PScan todo k)) /\ GI w (abort t s2)).
  { intros s2 G2 T2. split.
    - eapply GI_upd with (s := s2) (t := t) (p' := PScan todo k); try exact G2; try reflexivity.
      + repeat split.
      + rewrite T2, E. reflexivity.
      + rewrite T2, E. reflexivity.
    - unfold abort. destruct (release_core s2 t) as [SB TR].
      eapply GI_leave with (s := s2) (t := t) (p' := PDone false); try exact G2.
      + simpl. exact SB.
      + simpl. rewrite TR. reflexivity.
      + rewrite T2, E. reflexivity.
      + reflexivity. }
  assert (LOG : forall s0 e, GI w s0 -> GI w (add_log s0 e)).
  { intros s0 e H. eapply GI_ext; [|exact H]. repeat split. }
  unfold call.
  destruct mf as [o'|]; [|destruct bf as [f|]].
  - set (s2 := apply_irs _ _).
    assert (G2 : GI w s2) by (apply GI_irs, LOG, G).
    assert (T2 : thr s2 = thr s) by (unfold s2; irs_rw; reflexivity).
    destruct (fbeh _); [|destruct (c_guarded c)|]; try apply (STEP s2 G2 T2).
    apply (STEP (add_log s2 _)); [apply LOG; exact G2|exact T2].
  - set (s2 := apply_irs _ _).
    assert (G2 : GI w s2) by (apply GI_irs, LOG, G).
    assert (T2 : thr s2 = thr s) by (unfold s2; irs_rw; reflexivity).
    destruct (fbeh _); [|destruct (c_guarded c)|]; try apply (STEP s2 G2 T2).
    apply (STEP (add_log s2 _)); [apply LOG; exact G2|exact T2].
  - apply (STEP s G eq_refl).
Qed.
End Invariant2.

Section Invariant3.
Variable c : cfg.
Variable w : world.
Hypothesis Hpop : c_pop c = true.
Hypothesis Hlock : c_locked c = true.

Lemma visit_pc_scan s nm todo k :
  scan_of (visit_pc w s nm todo k) = Some (todo, k) /\ in_region (visit_pc w s nm todo k) = true.
Proof. unfold visit_pc. destruct (some_or _ _); split; reflexivity. Qed.

Lemma GI_visit t nm todo k s :
  GI w s -> thr s t = PScan (nm :: todo) k -> GI w (visit c w t nm todo k s).
Proof.
  intros [L1 K1 K2 K3 K4 A1 A2 A3 A4 D1] E.
  destruct (visit_spec c w t nm todo k s Hpop) as (PO & _ & _ & T & MO & CA & LK & SC & SS & _ & _ & _ & SNC & SNS).
  destruct (visit_pc_scan s nm todo k) as [VS VR].
  assert (MONO : forall b, settled w s b -> settled w (visit c w t nm todo k s) b).
  { intros b [H|H]; [left; exact H|right]. rewrite PO. destruct (visit_mf w s nm); [right|]; exact H. }
  assert (LT : lock s = Some t) by (apply L1; rewrite E; reflexivity).
  assert (ONLY : forall t' x, scan_of (thr s t') = Some x -> t' = t).
  { intros t' x H. apply scan_region in H. apply L1 in H. congruence. }
  constructor; rewrite ?MO, ?CA, ?LK, ?SC, ?SS, ?SNC, ?SNS; auto.
  - intros t' H. rewrite T in H. unfold upd in H. destruct (Nat.eqb_spec t' t); [subst; exact LT|auto].
  - intros t' todo' k' H. rewrite T in H. unfold upd in H. destruct (Nat.eqb_spec t' t).
    + rewrite VS in H. inversion H; subst. eapply K1. rewrite E. reflexivity.
    + eauto.
  - intros G t' todo' k' H a b I. rewrite T in H. unfold upd in H. destruct (Nat.eqb_spec t' t).
    + rewrite VS in H. inversion H; subst todo' k'. subst t'.
      destruct (K3 G t (nm :: todo) k) with (a := a) (b := b) as [[X|X]|X]; try (rewrite E; reflexivity); auto.
      * (* the name just visited *)
        subst a. right. specialize (K2 G _ _ I).
        destruct (visit_mf w s nm) as [o'|] eqn:V.
        -- destruct (visit_mf_some w s nm V) as (M1 & _ & _). rewrite K2 in M1. inversion M1; subst.
           right. rewrite PO. left. reflexivity.
        -- apply MONO. eapply visit_mf_none; eassumption.
    + exfalso. apply n. eapply ONLY. exact H.
  - intros G a b I. apply MONO. eauto.
Qed.

Lemma GI_tstep t s : GI w s -> GI w (tstep c w t s).
Proof.
  intros G. unfold tstep.
  destruct (thr s t) as [| |l| | |todo k|nm mf bf cur todo k|ok] eqn:E.
  - (* start *)
    eapply GI_upd with (s := s) (t := t) (p' := PEnter); try exact G; try reflexivity; try (rewrite E; reflexivity).
    repeat split.
  - eapply GI_upd with (s := s) (t := t) (p' := PRead _); try exact G; try reflexivity; try (rewrite E; reflexivity).
    repeat split.
  - destruct (l =? cache s).
    + eapply GI_upd with (s := s) (t := t) (p' := PDone true); try exact G; try reflexivity; try (rewrite E; reflexivity).
      repeat split.
    + eapply GI_upd with (s := s) (t := t) (p' := PSlow); try exact G; try reflexivity; try (rewrite E; reflexivity).
      repeat split.
  - (* acquire *)
    rewrite Hlock. destruct (lock s) as [t0|] eqn:LK; [exact G|].
    destruct G as [L1 K1 K2 K3 K4 A1 A2 A3 A4 D1].
    assert (NONE : forall t', in_region (thr s t') = false).
    { intros t'. destruct (in_region (thr s t')) eqn:Q; [|reflexivity]. apply L1 in Q. congruence. }
    constructor; simpl; auto.
    + intros t' H. destruct (Nat.eqb_spec t' t); [subst; reflexivity|]. rewrite NONE in H. discriminate.
    + intros t' todo k H. destruct (Nat.eqb_spec t' t); [discriminate|eauto].
    + intros X t' todo k H. destruct (Nat.eqb_spec t' t); [discriminate|eauto].
  - (* snapshot *)
    destruct G as [L1 K1 K2 K3 K4 A1 A2 A3 A4 D1].
    assert (LT : lock s = Some t) by (apply L1; rewrite E; reflexivity).
    assert (ONLY : forall t', in_region (thr s t') = true -> t' = t).
    { intros t' H. apply L1 in H. congruence. }
    constructor; simpl; auto.
    + intros t' H. destruct (Nat.eqb_spec t' t); [subst; exact LT|auto].
    + intros t' todo k H. destruct (Nat.eqb_spec t' t); [inversion H; reflexivity|].
      exfalso. apply n. apply ONLY. eapply scan_region. exact H.
    + intros _ a b I. apply In_m_get; assumption.
    + intros _ t' todo k H a b I. destruct (Nat.eqb_spec t' t).
      * inversion H; subst. left. change a with (fst (a, b)). apply in_map. exact I.
      * exfalso. apply n. apply ONLY. eapply scan_region. exact H.
  - destruct todo as [|nm todo].
    + (* write the cache, release, return *)
      destruct G as [L1 K1 K2 K3 K4 A1 A2 A3 A4 D1].
      assert (LT : lock s = Some t) by (apply L1; rewrite E; reflexivity).
      assert (NONE : forall t', t' <> t -> in_region (thr s t') = false).
      { intros t' NE. destruct (in_region (thr s t')) eqn:Q; [|reflexivity]. apply L1 in Q. congruence. }
      assert (KK : k = w_base w + length (g_snap_scan s)) by (eapply K1; rewrite E; reflexivity).
      set (s1 := mkst (mods s) (popped s) (pend s) k (lock s) (thr s) (log s) (nreg s)
                      (g_since_snap s) (g_since_snap s) (g_nrem s) (g_started s) (g_late s) (g_snap_scan s) (g_snap_scan s)).
      destruct (release_core s1 t) as [(a&b&c0&f&g&h&i) TR].
      constructor; simpl; unfold settled; rewrite ?a, ?b, ?c0, ?f, ?g, ?h, ?i, ?TR; simpl; auto.
      * intros t' H. destruct (Nat.eqb_spec t' t); [discriminate|]. rewrite NONE in H by assumption. discriminate.
      * intros t' todo k' H. destruct (Nat.eqb_spec t' t); [discriminate|].
        apply scan_region in H. rewrite NONE in H by assumption. discriminate.
      * intros X t' todo k' H. destruct (Nat.eqb_spec t' t); [discriminate|].
        apply scan_region in H. rewrite NONE in H by assumption. discriminate.
      * intros X a0 b0 I. destruct (K3 X t [] k) with (a := a0) (b := b0) as [[]|Y]; auto; [rewrite E; reflexivity|].
        destruct Y as [Y|Y]; [left; exact Y|right; rewrite b; exact Y].
    + apply GI_visit; assumption.
  - apply GI_call; assumption.
  - eapply GI_upd with (s := s) (t := t) (p' := PEnter); try exact G; try reflexivity; try (rewrite E; reflexivity).
    repeat split.
Qed.

Lemma GI_init scanned : 1 <= w_base w -> GI w (init w scanned).
Proof.
  intros _. constructor; simpl.
  - intros t H; discriminate.
  - intros t todo k H; discriminate.
  - intros _ a b [].
  - intros _ t todo k H; discriminate.
  - constructor.
  - intros _. destruct scanned; [right; lia|left; reflexivity].
  - intros _ a b [].
  - intros _ a b [].
  - constructor.
  - constructor.
Qed.

Lemma GI_reachable scanned s : 1 <= w_base w -> reachable c w scanned s -> GI w s.
Proof.
  intros B R. refine (@reachable_ind c w scanned (GI w) _ _ s R).
  - apply GI_init; exact B.
  - intros s0 l H. destruct l; simpl; [apply GI_env|apply GI_tstep]; exact H.
Qed.
End Invariant3.

(* ------------------------------------------------------------------ steps that remove nothing *)
Lemma length_m_set M n o : length M <= length (m_set M n o).
Proof.
  induction M as [|[k v] r IH]; simpl; [lia|]. destruct (k =? n); simpl; lia.
Qed.

Definition keeps (s s' : st) : Prop :=
  g_since_cache s' = g_since_cache s /\ g_since_snap s' = g_since_snap s
  /\ (forall a b, m_get (mods s) a = Some b -> m_get (mods s') a = Some b)
  /\ length (mods s) <= length (mods s').

Lemma keeps_refl s : keeps s s.
Proof. repeat split; auto. Qed.

Lemma keeps_trans s1 s2 s3 : keeps s1 s2 -> keeps s2 s3 -> keeps s1 s3.
Proof.
  intros (a&b&c0&d) (a'&b'&c'&d'). repeat split; try congruence; auto. lia.
Qed.

Lemma ir_nrem i s : g_nrem s <= g_nrem (apply_ir i s) /\ (g_nrem (apply_ir i s) = g_nrem s -> keeps s (apply_ir i s)).
Proof.
  destruct i as [n o|n]; simpl.
  - destruct (m_get (mods s) n) as [o'|] eqn:G.
    + destruct (Nat.eqb_spec o' o) as [->|NE]; simpl; split; try lia.
      * intros _. unfold keeps; simpl. rewrite !orb_false_r. repeat split; auto using length_m_set.
        intros a b H. rewrite m_get_set. destruct (Nat.eqb_spec a n); [subst; congruence|exact H].
    + simpl. split; [lia|]. intros _. unfold keeps; simpl. rewrite !orb_false_r. repeat split; auto using length_m_set.
      intros a b H. rewrite m_get_set. destruct (Nat.eqb_spec a n); [subst; congruence|exact H].
  - destruct (m_get (mods s) n); simpl; split; try lia. intros _. apply keeps_refl.
Qed.

Lemma irs_nrem l s : g_nrem s <= g_nrem (apply_irs l s) /\ (g_nrem (apply_irs l s) = g_nrem s -> keeps s (apply_irs l s)).
Proof.
  revert s; induction l as [|i l IH]; intros s.
  - split; [apply le_n|intros _; apply keeps_refl].
  - unfold apply_irs in *. simpl.
    destruct (ir_nrem i s) as [A1 A2]. destruct (IH (apply_ir i s)) as [B1 B2].
    split; [lia|]. intros H. eapply keeps_trans; [apply A2; lia|apply B2; lia].
Qed.

Lemma call_nrem c w t nm mf bf cur todo k s :
  let s' := call c w t nm mf bf cur todo k s in
  g_nrem s <= g_nrem s' /\ cache s' = cache s /\ g_snap_scan s' = g_snap_scan s
  /\ (g_nrem s' = g_nrem s -> keeps s s').
Proof.
  assert (RL : forall s0, g_nrem (release s0 t) = g_nrem s0 /\ cache (release s0 t) = cache s0
             /\ g_snap_scan (release s0 t) = g_snap_scan s0 /\ keeps s0 (release s0 t)).
  { intros s0. unfold release. destruct (lock s0) as [t'|]; [destruct (t' =? t)|]; simpl; repeat split; auto. }
  assert (LG : forall s0 e l, g_nrem s0 <= g_nrem (apply_irs l (add_log s0 e))
             /\ (g_nrem (apply_irs l (add_log s0 e)) = g_nrem s0 -> keeps s0 (apply_irs l (add_log s0 e)))).
  { intros s0 e l. destruct (irs_nrem l (add_log s0 e)) as [A B]. simpl in *. split; [exact A|].
    intros H. specialize (B H). destruct B as (a&b&c0&d). repeat split; auto. }
  assert (FIN : forall s2 X, g_nrem s <= g_nrem s2 -> (g_nrem s2 = g_nrem s -> keeps s s2) ->
            cache s2 = cache s -> g_snap_scan s2 = g_snap_scan s ->
            g_nrem X = g_nrem s2 -> cache X = cache s2 -> g_snap_scan X = g_snap_scan s2 -> keeps s2 X ->
            g_nrem s <= g_nrem X /\ cache X = cache s /\ g_snap_scan X = g_snap_scan s
            /\ (g_nrem X = g_nrem s -> keeps s X)).
  { intros s2 X A B C1 C2 X1 X2 X3 X4. split; [lia|split; [congruence|split; [congruence|]]].
    intros H. eapply keeps_trans; [apply B; lia|exact X4]. }
  assert (IRF : forall l s0, cache (apply_irs l s0) = cache s0 /\ g_snap_scan (apply_irs l s0) = g_snap_scan s0).
  { intros l s0. destruct (apply_irs_fields l s0) as (_&_&C1&_&_&_&_&_&_&C2). auto. }
  unfold call, abort.
  destruct mf as [o'|]; [|destruct bf as [f|]].
  - match goal with |- context [apply_irs ?l (add_log s ?e)] => destruct (LG s e l) as [A B]; destruct (IRF l (add_log s e)) as [C1 C2]; set (s2 := apply_irs l (add_log s e)) in * end.
    simpl in C1, C2. destruct (RL s2) as (R1 & R2 & R3 & R4).
    destruct (fbeh _); [|destruct (c_guarded c)|]; apply (FIN s2); auto; simpl; auto using keeps_refl; try (unfold keeps; simpl; repeat split; auto; fail).
  - match goal with |- context [apply_irs ?l (add_log s ?e)] => destruct (LG s e l) as [A B]; destruct (IRF l (add_log s e)) as [C1 C2]; set (s2 := apply_irs l (add_log s e)) in * end.
    simpl in C1, C2. destruct (RL s2) as (R1 & R2 & R3 & R4).
    destruct (fbeh _); [|destruct (c_guarded c)|]; apply (FIN s2); auto; simpl; auto using keeps_refl; try (unfold keeps; simpl; repeat split; auto; fail).
  - simpl. split; [lia|split; [reflexivity|split; [reflexivity|intros _; unfold keeps; simpl; repeat split; auto]]].
Qed.

Lemma call_log c w t nm mf bf cur todo k s :
  exists evs, log (call c w t nm mf bf cur todo k s) = evs ++ log s
    /\ forall e, In e evs -> e = call_event t nm mf bf cur \/ (exists b, e = EvWarn b nm) \/ e = EvRet t false.
Proof.
  unfold call, abort, call_event.
  destruct mf as [o'|]; [|destruct bf as [f|]].
  - destruct (fbeh _); [|destruct (c_guarded c)|]; simpl; rel_rw; irs_rw; simpl.
    + exists [EvCallM o' nm bf]. split; [reflexivity|]. intros e [H|[]]; auto.
    + exists [EvWarn true nm; EvCallM o' nm bf]. split; [reflexivity|]. intros e [H|[H|[]]]; eauto.
    + exists [EvRet t false; EvCallM o' nm bf]. split; [reflexivity|]. intros e [H|[H|[]]]; eauto.
    + exists [EvRet t false; EvCallM o' nm bf]. split; [reflexivity|]. intros e [H|[H|[]]]; eauto.
  - destruct (fbeh _); [|destruct (c_guarded c)|]; simpl; rel_rw; irs_rw; simpl.
    + exists [EvCallB f nm cur]. split; [reflexivity|]. intros e [H|[]]; auto.
    + exists [EvWarn false nm; EvCallB f nm cur]. split; [reflexivity|]. intros e [H|[H|[]]]; eauto.
    + exists [EvRet t false; EvCallB f nm cur]. split; [reflexivity|]. intros e [H|[H|[]]]; eauto.
    + exists [EvRet t false; EvCallB f nm cur]. split; [reflexivity|]. intros e [H|[H|[]]]; eauto.
  - exists []. split; [reflexivity|]. intros e [].
Qed.

Definition is_quiet_ev (e : event) : bool :=
  match e with EvAssert _ | EvImm _ _ _ => true | _ => false end.

Lemma env_shape w e s :
  let s' := apply_env w e s in
  (exists evs, log s' = evs ++ log s /\ forall x, In x evs -> is_quiet_ev x = true)
  /\ thr s' = thr s /\ cache s' = cache s /\ g_snap_scan s' = g_snap_scan s
  /\ g_nrem s <= g_nrem s' /\ (g_nrem s' = g_nrem s -> keeps s s').
Proof.
  destruct e as [i|n]; simpl.
  - destruct (apply_ir_fields i s) as (_&_&C&_&T&L&_&_&_&SS). destruct (ir_nrem i s) as [A B].
    split; [exists []; split; [exact L|intros x []]|]. auto.
  - destruct (m_get (pend s) n).
    + simpl. split; [exists [EvAssert n]; split; [reflexivity|intros x [H|[]]; subst; reflexivity]|].
      repeat split; auto.
    + destruct (m_get (mods s) n) as [o'|].
      * destruct (has_own w s o').
        -- simpl. split; [exists []; split; [reflexivity|intros x []]|]. repeat split; auto.
        -- match goal with |- context [apply_irs ?l ?s0] =>
             destruct (apply_irs_fields l s0) as (_&_&C&_&T&L&_&_&_&SS); destruct (irs_nrem l s0) as [A B] end.
           simpl in *. split; [eexists [_]; split; [exact L|intros x [H|[]]; subst; reflexivity]|].
           split; [exact T|split; [exact C|split; [exact SS|split; [exact A|]]]].
           intros H. destruct (B H) as (a&b&c0&d). repeat split; auto.
      * simpl. split; [exists []; split; [reflexivity|intros x []]|]. repeat split; auto.
Qed.

(* ------------------------------------------------------------------ timeliness *)
Section Timely.
Variable c : cfg.
Variable w : world.
Hypothesis Hpop : c_pop c = true.
Hypothesis Hlock : c_locked c = true.
Hypothesis Hbase : 1 <= w_base w.
Variables t n o : nat.
Hypothesis HG : glue_of w o <> None.
Variables m1 nrem0 : nat.
Variable log1 : list event.

Definition QB (s : st) : Prop :=
  g_since_cache s = false /\ g_since_snap s = false /\ m_get (mods s) n = Some o /\ m1 <= length (mods s)
  /\ (exists new, log s = new ++ log1 /\ (~ calledM s o -> ~ In (EvRet t true) new))
  /\ (~ calledM s o ->
        cache s < w_base w + m1
        /\ (In (n, o) (g_snap_scan s) \/ length (g_snap_scan s) < m1)
        /\ (forall l, thr s t = PRead l -> w_base w + m1 <= l)
        /\ (forall x, scan_of (thr s t) = Some x -> In (n, o) (g_snap_scan s))).

Definition Q (s : st) : Prop := nrem0 <= g_nrem s /\ (g_nrem s = nrem0 -> QB s).

Lemma calledM_ext s s' evs : log s' = evs ++ log s -> calledM s o -> calledM s' o.
Proof. intros L (a & d & H). exists a, d. rewrite L. apply in_or_app. right. exact H. Qed.

(* steps that touch neither the cache nor the snapshot of the scan in progress *)
Lemma QB_frame s s' evs :
  QB s -> keeps s s' -> log s' = evs ++ log s ->
  cache s' = cache s -> g_snap_scan s' = g_snap_scan s ->
  (~ calledM s o -> ~ In (EvRet t true) evs) ->
  (~ calledM s o -> forall l, thr s' t = PRead l -> thr s t = PRead l \/ w_base w + m1 <= l) ->
  (~ calledM s o -> forall x, scan_of (thr s' t) = Some x -> exists y, scan_of (thr s t) = Some y) ->
  QB s'.
Proof.
  intros (F1 & F2 & MG & LE & (new & LN & NR) & B3) (K1 & K2 & K3 & K4) L CA SS E1 E2 E3.
  assert (NC : ~ calledM s' o -> ~ calledM s o).
  { intros H X. apply H. eapply calledM_ext; eassumption. }
  unfold QB. rewrite K1, K2, CA, SS. repeat split; auto; try lia.
  - exists (evs ++ new). split; [rewrite L, LN; apply app_assoc|].
    intros H X. apply in_app_or in X. destruct X as [X|X]; [exact (E1 (NC H) X)|exact (NR (NC H) X)].
  - apply (B3 (NC H)).
  - apply (B3 (NC H)).
  - intros l X. destruct (E2 (NC H) l X) as [Y|Y]; [apply (B3 (NC H)); exact Y|exact Y].
  - intros x X. destruct (E3 (NC H) x X) as [y Y]. destruct (B3 (NC H)) as (_ & _ & _ & Z). eapply Z. exact Y.
Qed.

(* a thread about to write the cache has served every module of its snapshot *)
Lemma write_called s t0 k :
  GI w s -> IM o s -> g_since_snap s = false -> thr s t0 = PScan [] k ->
  In (n, o) (g_snap_scan s) -> calledM s o.
Proof.
  intros G (_ & _ & _ & _ & IE) SS E I.
  assert (SC : scan_of (thr s t0) = Some ([], k)) by (rewrite E; reflexivity).
  destruct (@gi_K3 w s G SS t0 [] k SC n o I) as [[]|[X|X]]; [contradiction|].
  destruct (IE X) as [Y|[t' Y]].
  - apply nM_calledM. lia.
  - exfalso. unfold inflightM in Y. destruct (thr s t') eqn:E'; try discriminate.
    assert (L1 : lock s = Some t') by (apply (@gi_L1 w s G t'); rewrite E'; reflexivity).
    assert (L2 : lock s = Some t0) by (apply (@gi_L1 w s G t0); rewrite E; reflexivity).
    assert (t' = t0) by congruence. subst. rewrite E in E'. discriminate.
Qed.

Lemma Q_env e s : Q s -> Q (apply_env w e s).
Proof.
  intros [N0 QQ]. destruct (env_shape w e s) as ((evs & L & QE) & T & CA & SS & A & B).
  split; [lia|]. intros H. assert (H0 : g_nrem s = nrem0) by lia.
  eapply QB_frame with (s := s) (evs := evs); auto.
  - apply B. lia.
  - intros _ X. apply QE in X. discriminate.
  - intros _ l X. left. rewrite T in X. exact X.
  - intros _ x X. rewrite T in X. eauto.
Qed.

Ltac frame_tac s0 ev0 :=
  eapply QB_frame with (s := s0) (evs := ev0); auto; try (unfold keeps; simpl; repeat split; auto; fail).

Lemma Q_tstep t0 s : GI w s -> IM o s -> Q s -> Q (tstep c w t0 s).
Proof.
  intros G I [N0 QQ]. unfold tstep.
  destruct (thr s t0) as [| |l0| | |todo k|nm mf bf cur todo k|ok] eqn:E.
  - (* start *)
    split; [exact N0|]. simpl. intros H. specialize (QQ H). frame_tac s (@nil event); simpl.
    + intros _ l X. destruct (t =? t0); [discriminate|left; exact X].
    + intros _ x X. destruct (t =? t0); [discriminate|eauto].
  - (* read len(sys.modules) *)
    split; [exact N0|]. simpl. intros H. specialize (QQ H). frame_tac s (@nil event); simpl.
    + intros _ l X. destruct (t =? t0); [|left; exact X]. inversion X; subst.
      right. destruct QQ as (_ & _ & _ & LE & _). lia.
    + intros _ x X. destruct (t =? t0); [discriminate|eauto].
  - (* compare with the cache *)
    destruct (l0 =? cache s) eqn:CMP.
    + split; [exact N0|]. simpl. intros H. specialize (QQ H).
      frame_tac s [EvRet t0 true]; simpl.
      * intros NC [X|[]]. inversion X; subst t0.
        destruct QQ as (_ & _ & _ & _ & _ & B3). destruct (B3 NC) as (CL & _ & RD & _).
        specialize (RD _ E). apply Nat.eqb_eq in CMP. lia.
      * intros _ l X. destruct (t =? t0); [discriminate|left; exact X].
      * intros _ x X. destruct (t =? t0); [discriminate|eauto].
    + split; [exact N0|]. simpl. intros H. specialize (QQ H). frame_tac s (@nil event); simpl.
      * intros _ l X. destruct (t =? t0); [discriminate|left; exact X].
      * intros _ x X. destruct (t =? t0); [discriminate|eauto].
  - (* acquire *)
    rewrite Hlock. destruct (lock s); [split; assumption|].
    split; [exact N0|]. simpl. intros H. specialize (QQ H). frame_tac s (@nil event); simpl.
    + intros _ l X. destruct (t =? t0); [discriminate|left; exact X].
    + intros _ x X. destruct (t =? t0); [discriminate|eauto].
  - (* snapshot *)
    split; [exact N0|]. simpl. intros H. destruct (QQ H) as (F1 & F2 & MG & LE & LN & B3).
    unfold QB; simpl. split; [exact F1|split; [reflexivity|split; [exact MG|split; [exact LE|split; [exact LN|]]]]].
    intros NC. destruct (B3 NC) as (CL & _ & RD & _).
    split; [exact CL|split; [left; apply m_get_In; exact MG|split]].
    + intros l X. destruct (t =? t0); [discriminate|apply RD; exact X].
    + intros x _. apply m_get_In. exact MG.
  - destruct todo as [|nm todo].
    + (* write the cache *)
      assert (K1 : k = w_base w + length (g_snap_scan s)) by (eapply (@gi_K1 w s G t0 [] k); rewrite E; reflexivity).
      assert (EQ : forall X : st, lock X = lock s -> g_nrem (release X t0) = g_nrem X /\ same_but_thr_lock X (release X t0)
                     /\ thr (release X t0) = thr X /\ log (release X t0) = log X).
      { intros X _. destruct (release_core X t0) as [A B]. destruct (release_fields X t0) as (_&_&_&L&_).
        repeat split; try apply A; auto. unfold release. destruct (lock X) as [t'|]; [destruct (t' =? t0)|]; reflexivity. }
      match goal with |- Q (add_log (set_thr (release ?X t0) t0 (PDone true)) _) =>
        destruct (EQ X eq_refl) as (RN & (a&b&c0&f&g&h&i) & RT & RL); simpl in * end.
      split; [simpl; rewrite RN; exact N0|]. simpl. rewrite RN. intros H.
      destruct (QQ H) as (F1 & F2 & MG & LE & (new & LN & NR) & B3).
      assert (WC : In (n, o) (g_snap_scan s) -> calledM s o).
      { intros X. eapply write_called; eauto. }
      unfold QB; simpl. rewrite a, c0, f, g, i, RT, RL. simpl.
      split; [exact F2|split; [exact F2|split; [exact MG|split; [exact LE|split]]]].
      * exists (EvRet t0 true :: new). split; [rewrite LN; reflexivity|].
        intros NC [X|X].
        -- inversion X; subst t0.
           assert (NC' : ~ calledM s o).
           { intros (a0 & d0 & Y). apply NC. exists a0, d0. simpl. rewrite RL. right. exact Y. }
           destruct (B3 NC') as (_ & _ & _ & SC). apply NC'. apply WC. eapply SC. rewrite E. reflexivity.
        -- assert (NC' : ~ calledM s o).
           { intros (a0 & d0 & Y). apply NC. exists a0, d0. simpl. rewrite RL. right. exact Y. }
           exact (NR NC' X).
      * intros NC.
        assert (NC' : ~ calledM s o).
        { intros (a0 & d0 & Y). apply NC. exists a0, d0. simpl. rewrite RL. right. exact Y. }
        destruct (B3 NC') as (CL & [IN|LT] & RD & SC); [elim NC'; apply WC; exact IN|].
        split; [lia|split; [right; exact LT|split]].
        -- intros l X. destruct (t =? t0); [discriminate|apply RD; exact X].
        -- intros x X. destruct (t =? t0); [discriminate|eapply SC; exact X].
    + (* visit *)
      destruct (visit_spec c w t0 nm todo k s Hpop) as (_ & _ & LG & T & MO & CA & _ & SC & SS & NR & _ & _ & _ & SNS).
      split; [rewrite NR; exact N0|]. rewrite NR. intros H. specialize (QQ H).
      eapply QB_frame with (s := s) (evs := @nil event); auto.
      * unfold keeps. rewrite SC, SS, MO. repeat split; auto.
      * intros _ l X. rewrite T in X. unfold upd in X. destruct (t =? t0); [|left; exact X].
        unfold visit_pc in X. destruct (some_or _ _); discriminate.
      * intros _ x X. rewrite T in X. unfold upd in X. destruct (Nat.eqb_spec t t0); [|eauto].
        subst. rewrite E. simpl. eauto.
  - (* call *)
    destruct (call_nrem c w t0 nm mf bf cur todo k s) as (A & CA & SS & B).
    destruct (call_log c w t0 nm mf bf cur todo k s) as (evs & LG & EV).
    destruct (call_spec c w t0 nm mf bf cur todo k s) as (_ & _ & (p' & T & PP) & _).
    split; [lia|]. intros H. assert (H0 : g_nrem s = nrem0) by lia. specialize (QQ H0).
    eapply QB_frame with (s := s) (evs := evs); auto.
    + apply B. lia.
    + intros _ X. apply EV in X. destruct X as [X|[[b X]|X]]; try discriminate.
      unfold call_event in X. destruct mf; [discriminate|destruct bf; discriminate].
    + intros _ l X. rewrite T in X. unfold upd in X. destruct (t =? t0); [|left; exact X].
      destruct PP; subst p'; discriminate.
    + intros _ x X. rewrite T in X. unfold upd in X. destruct (Nat.eqb_spec t t0); [|eauto].
      subst. rewrite E. simpl. eauto.
  - (* start again *)
    split; [exact N0|]. simpl. intros H. specialize (QQ H). frame_tac s (@nil event); simpl.
    + intros _ l X. destruct (t =? t0); [discriminate|left; exact X].
    + intros _ x X. destruct (t =? t0); [discriminate|eauto].
Qed.
End Timely.

Lemma pigeon (S M : list (nat * nat)) n o :
  NoDup (map fst S) -> sub_ok S M -> ~ In n (map fst S) -> m_get M n = Some o -> length S < length M.
Proof.
  intros ND SO NI MG.
  assert (INC : incl (n :: map fst S) (map fst M)).
  { intros a [<-|H].
    - change n with (fst (n, o)). apply in_map. apply m_get_In. exact MG.
    - apply in_map_iff in H. destruct H as [[a' b] [<- H]]. simpl.
      change a' with (fst (a', b)). apply in_map. apply m_get_In. apply SO. exact H. }
  assert (ND2 : NoDup (n :: map fst S)) by (constructor; assumption).
  pose proof (NoDup_incl_length ND2 INC) as LE. simpl in LE. rewrite !map_length in LE. lia.
Qed.

Lemma In_fst_ex (S : list (nat * nat)) n : In n (map fst S) -> exists b, In (n, b) S.
Proof.
  intros H. apply in_map_iff in H. destruct H as [[a b] [<- H]]. exists b. exact H.
Qed.

Theorem timely (w : world) (scanned : bool) (ls1 ls2 : list label) (t n o : nat) :
  glue_pop_before_call = true -> glue_under_lock = true -> 1 <= w_base w ->
  let s1 := run src_cfg w ls1 (init w scanned) in
  (thr s1 t = PIdle \/ exists b, thr s1 t = PDone b) ->
  pendingM w s1 n o -> g_since_cache s1 = false -> g_since_snap s1 = false ->
  let s2 := run src_cfg w ls2 s1 in
  g_nrem s2 = g_nrem s1 ->
  forall new, log s2 = new ++ log s1 -> In (EvRet t true) new -> calledM s2 o.
Proof.
  intros Hp Hl Hb s1 IDLE (MG & GL & NP) F1 F2 s2 NR new LG RET.
  assert (R1 : reachable src_cfg w scanned s1) by (exists ls1; reflexivity).
  assert (G1 := @GI_reachable src_cfg w Hp Hl scanned s1 Hb R1).
  set (QQ := Q w t n o (length (mods s1)) (g_nrem s1) (log s1)).
  assert (Q1 : QQ s1).
  { split; [apply le_n|]. intros _. unfold QB.
    split; [exact F1|split; [exact F2|split; [exact MG|split; [apply le_n|split]]]].
    - exists []. split; [reflexivity|]. intros _ [].
    - intros _.
      assert (NS : forall S, (forall b, In (n, b) S -> settled w s1 b) -> sub_ok S (mods s1) -> ~ In n (map fst S)).
      { intros S ST SO H. apply In_fst_ex in H. destruct H as [b H].
        assert (b = o) by (specialize (SO _ _ H); congruence). subst b.
        destruct (ST o H) as [X|X]; [exact (GL X)|exact (NP X)]. }
      split; [|split; [|split]].
      + destruct (gi_A1 G1 F1) as [Z|Z]; [lia|]. rewrite Z.
        assert (length (g_snap_cache s1) < length (mods s1)); [|lia].
        eapply pigeon; [exact (gi_A4 G1)|exact (gi_A2 G1 F1)| |exact MG].
        apply NS; [intros b H; exact (gi_A3 G1 F1 _ _ H)|exact (gi_A2 G1 F1)].
      + destruct (in_dec Nat.eq_dec n (map fst (g_snap_scan s1))) as [IN|NIN].
        * left. apply In_fst_ex in IN. destruct IN as [b H].
          assert (b = o) by (pose proof (gi_K2 G1 F2 _ _ H); congruence). subst. exact H.
        * right. eapply pigeon; [exact (gi_K4 G1)|exact (gi_K2 G1 F2)|exact NIN|exact MG].
      + intros l X. destruct IDLE as [Y|[b Y]]; rewrite Y in X; discriminate.
      + intros x X. destruct IDLE as [Y|[b Y]]; rewrite Y in X; discriminate. }
  assert (STEP : forall ls s, reachable src_cfg w scanned s -> QQ s ->
            reachable src_cfg w scanned (run src_cfg w ls s) /\ QQ (run src_cfg w ls s)).
  { induction ls as [|l r IH]; intros s R H; [split; assumption|].
    simpl. apply IH.
    - destruct R as [ms E]. exists (ms ++ [l]). rewrite run_app. simpl. rewrite <- E. reflexivity.
    - assert (G := @GI_reachable src_cfg w Hp Hl scanned s Hb R).
      assert (I := IM_reachable (c := src_cfg) (w := w) Hp o R).
      destruct l as [e|t0]; simpl; [apply Q_env; [exact Hb|exact H]|].
      apply Q_tstep; auto. }
  destruct (STEP ls2 s1 R1 Q1) as [R2 [_ Q2]]. fold s2 in Q2, R2.
  destruct (Q2 NR) as (_ & _ & _ & _ & (new' & LN & NRT) & _).
  assert (new' = new) by (rewrite LG in LN; apply app_inv_tail in LN; congruence). subst new'.
  destruct (Nat.eq_dec (nM o (log s2)) 0) as [Z|NZ].
  - exfalso. apply NRT; [|exact RET]. intros C. apply nM_calledM in C. lia.
  - apply nM_calledM. lia.
Qed.

(* the hypotheses of [timely] are met by a 3-thread, 4-module history: thread 0 has completed a
   scan of m0,m1; m2,m3 were imported afterwards; thread 1 is inside its scan, about to call m2's
   glue; thread 2 has not started; m3's glue is pending *)
Definition tm_world := mkworld 1 [OMod (Some (mkfn BOk [])); OMod (Some (mkfn BRaise [])); OMod (Some (mkfn BOk [])); OMod (Some (mkfn BOk []))] [].
Definition tm_hist :=
  [LEnv (EIR (IIns 0 0)); LEnv (EIR (IIns 1 1))] ++ repeat (LThr 0) 10 ++
  [LEnv (EIR (IIns 2 2)); LEnv (EIR (IIns 3 3))] ++ repeat (LThr 1) 8.
Example timely_hyp_met :
  let s1 := run src_cfg tm_world tm_hist (init tm_world true) in
  thr s1 0 = PDone true /\ is_pcall (thr s1 1) = true /\ thr s1 2 = PIdle
  /\ pendingM tm_world s1 3 3 /\ g_since_cache s1 = false /\ g_since_snap s1 = false.
Proof.
  vm_compute. repeat split; try discriminate. intros [H|[H|[H|[]]]]; discriminate.
Qed.

(* ------------------------------------------------------------------ G2 is outside the property's space *)
Corollary g2_cannot_occur (w : world) (scanned : bool) (ls : list label) (n o : nat) :
  glue_pop_before_call = true ->
  let s := run src_cfg w ls (init w scanned) in
  g_late s = false ->
  ~ (exists f d, In (EvImm f n o) (log s) /\ In (EvCallM o n d) (log s)).
Proof.
  intros Hp s GL (f & d & H1 & H2).
  destruct (@never_both w scanned ls n o Hp GL d H2) as [_ X]. exact (X f H1).
Qed.

(* ------------------------------------------------------------------ a BaseException is contained *)
Lemma abort_fields t s2 : lock s2 = Some t ->
  thr (abort t s2) t = PDone false /\ lock (abort t s2) = None /\ cache (abort t s2) = cache s2
  /\ pend (abort t s2) = pend s2 /\ log (abort t s2) = EvRet t false :: log s2
  /\ (forall t', t' <> t -> thr (abort t s2) t' = thr s2 t').
Proof.
  intros LK. unfold abort, release. rewrite LK, Nat.eqb_refl. simpl. rewrite Nat.eqb_refl.
  repeat split; auto. intros t' NE. apply Nat.eqb_neq in NE. rewrite NE. reflexivity.
Qed.

Lemma base_escapes (w : world) (s : st) (t nm : nat) mf bf cur todo k fs mk :
  glue_pop_before_call = true -> glue_under_lock = true ->
  GI w s -> thr s t = PCall nm mf bf cur todo k ->
  selected w mf bf = Some (fs, mk) -> fbeh fs = BBase ->
  let s' := step src_cfg w (LThr t) s in
  thr s' t = PDone false /\ lock s' = None /\ cache s' = cache s /\ pend s' = pend s
  /\ (exists ev, log s' = EvRet t false :: ev :: log s /\ is_call ev = true)
  /\ (forall t', t' <> t -> thr s' t' = thr s t')
  /\ GI w s'.
Proof.
  intros Hp Hl G E S B s'.
  assert (G' : GI w s') by (unfold s'; simpl; apply GI_tstep; assumption).
  assert (LK : lock s = Some t) by (apply (@gi_L1 w s G t); rewrite E; reflexivity).
  split; [|split; [|split; [|split; [|split; [|split; [|exact G']]]]]];
    unfold s'; simpl; unfold tstep; rewrite E; unfold call, selected in *;
    (destruct mf as [o|]; [|destruct bf as [f|]; [|discriminate]]); inversion S; subst; rewrite B;
    match goal with |- context [abort t (apply_irs ?l ?s0)] =>
      destruct (apply_irs_fields l s0) as (_&F2&F3&F4&F5&F6&_);
      assert (LK2 : lock (apply_irs l s0) = Some t) by (rewrite F4; exact LK);
      destruct (abort_fields (apply_irs l s0) LK2) as (A1&A2&A3&A4&A5&A6) end;
    simpl in *; try congruence.
  - eexists. split; [rewrite A5, F6; reflexivity|reflexivity].
  - eexists. split; [rewrite A5, F6; reflexivity|reflexivity].
  - intros t' NE. rewrite A6 by exact NE. rewrite F5. reflexivity.
  - intros t' NE. rewrite A6 by exact NE. rewrite F5. reflexivity.
Qed.

(* ------------------------------------------------------------------ at most once (built-in glue) *)
Fixpoint nB (f : nat) (l : list event) : nat :=
  match l with
  | [] => 0
  | EvCallB f' _ _ :: r => (if f' =? f then 1 else 0) + nB f r
  | EvImm f' _ _ :: r => (if f' =? f then 1 else 0) + nB f r
  | _ :: r => nB f r
  end.

Definition heldf (f : nat) (p : pc) : bool :=
  match p with PCall _ _ (Some f') _ _ _ => f' =? f | _ => false end.

Lemma npc_heldf f p : is_pcall p = false -> heldf f p = false.
Proof. destruct p; simpl; try reflexivity; discriminate. Qed.

Lemma In_snd_m_del p a x : In x (map snd (m_del p a)) -> In x (map snd p).
Proof.
  induction p as [|[k v] r IH]; simpl; [tauto|].
  destruct (k =? a); simpl; [right; auto|intros [H|H]; [left; exact H|right; auto]].
Qed.

Lemma NoDup_snd_m_del p a : NoDup (map snd p) -> NoDup (map snd (m_del p a)).
Proof.
  induction p as [|[k v] r IH]; simpl; [auto|].
  intros ND. inversion ND; subst. destruct (k =? a); [auto|].
  simpl. constructor; [|auto]. intros H. apply H1. eapply In_snd_m_del. exact H.
Qed.

Lemma m_del_value_gone p a f : m_get p a = Some f -> NoDup (map snd p) -> ~ In f (map snd (m_del p a)).
Proof.
  induction p as [|[k v] r IH]; simpl; [discriminate|].
  intros G ND. inversion ND; subst. destruct (Nat.eqb_spec k a).
  - inversion G; subst. intros H. apply H1. eapply In_snd_m_del. exact H.
  - simpl. intros [H|H].
    + subst v. apply H1. change f with (snd (a, f)). apply in_map. apply m_get_In. exact G.
    + exact (IH G H2 H).
Qed.

Lemma tstep_quiet_more c w t s :
  is_pcall (thr s t) = false -> is_scan_cons (thr s t) = false ->
  let s' := tstep c w t s in
  nreg s' = nreg s /\ (log s' = log s \/ exists b, log s' = EvRet t b :: log s).
Proof.
  intros NC NS. unfold tstep.
  destruct (thr s t) as [| |l| | |todo n|nm mf bf cur todo n|ok] eqn:E; try discriminate; simpl; auto.
  - destruct (l =? cache s); simpl; eauto.
  - destruct (c_locked c); [destruct (lock s)|]; simpl; auto.
  - destruct todo; [|discriminate]. simpl. rel_rw.
    split; [|right; eauto].
    unfold release; simpl. destruct (lock s) as [t'|]; [destruct (t' =? t)|]; reflexivity.
Qed.

Lemma call_nB c w t nm mf bf cur todo k s g :
  let s' := call c w t nm mf bf cur todo k s in
  nreg s' = nreg s
  /\ nB g (log s') = nB g (log s) + match mf, bf with None, Some f => if f =? g then 1 else 0 | _, _ => 0 end.
Proof.
  assert (RN : forall s0, nreg (release s0 t) = nreg s0).
  { intros s0. unfold release. destruct (lock s0) as [t'|]; [destruct (t' =? t)|]; reflexivity. }
  unfold call, abort.
  destruct mf as [o'|]; [|destruct bf as [f|]].
  - destruct (fbeh _); [|destruct (c_guarded c)|]; simpl; rewrite ?RN; rel_rw; irs_rw; simpl; split; lia.
  - destruct (fbeh _); [|destruct (c_guarded c)|]; simpl; rewrite ?RN; rel_rw; irs_rw; simpl; split; lia.
  - simpl. split; lia.
Qed.

Lemma visit_nreg c w t nm todo k s : nreg (visit c w t nm todo k s) = nreg s.
Proof. unfold visit. reflexivity. Qed.

Section OnceB.
Variable c : cfg.
Variable w : world.
Hypothesis Hpop : c_pop c = true.
Variable f : nat.

Definition fresh (s : st) (g : nat) : Prop :=
  ~ In g (map snd (pend s)) /\ (forall t, heldf g (thr s t) = false) /\ nB g (log s) = 0.

Record IB (s : st) : Prop := mkIB {
  ib0 : forall g, nreg s <= g -> fresh s g;
  ib1 : NoDup (map snd (pend s));
  ib2 : forall t, heldf f (thr s t) = true -> ~ In f (map snd (pend s)) /\ nB f (log s) = 0;
  ib3 : forall t1 t2, heldf f (thr s t1) = true -> heldf f (thr s t2) = true -> t1 = t2;
  ib4 : In f (map snd (pend s)) -> nB f (log s) = 0;
  ib5 : nB f (log s) <= 1
}.

Lemma IB_init scanned : IB (init w scanned).
Proof.
  constructor; simpl; auto; try discriminate; try tauto.
  - intros g _. repeat split; auto.
  - constructor.
Qed.

Lemma IB_env e s : IB s -> IB (apply_env w e s).
Proof.
  intros [B0 B1 B2 B3 B4 B5].
  destruct e as [i|n]; simpl.
  - destruct (apply_ir_fields i s) as (_&P&_&_&T&L&N&_).
    constructor; unfold fresh; rewrite ?P, ?T, ?L, ?N; auto.
  - set (f0 := nreg s).
    assert (F0 : fresh s f0) by (apply B0; apply le_n).
    destruct (m_get (pend s) n) eqn:PE; [|destruct (m_get (mods s) n) as [o'|] eqn:MO; [destruct (has_own w s o') eqn:HO|]].
    + constructor; unfold fresh; simpl; auto. intros g H. apply B0. lia.
    + constructor; unfold fresh; simpl; auto. intros g H. apply B0. lia.
    + (* run at once *)
      destruct F0 as (F1 & F2 & F3).
      constructor; unfold fresh; irs_rw; simpl; auto.
      * intros g H. destruct (B0 g) as (X1 & X2 & X3); [lia|].
        destruct (Nat.eqb_spec f0 g); [unfold f0 in *; lia|]. repeat split; auto.
      * intros t H. destruct (B2 t H) as [X1 X2]. split; [exact X1|].
        destruct (Nat.eqb_spec f0 f); [subst f; rewrite F2 in H; discriminate|exact X2].
      * intros H. destruct (Nat.eqb_spec f0 f); [subst f; contradiction|auto].
      * destruct (Nat.eqb_spec f0 f); [subst f; rewrite F3; auto|exact B5].
    + (* made pending *)
      destruct F0 as (F1 & F2 & F3).
      constructor; unfold fresh; simpl; rewrite ?map_app; simpl; auto.
      * intros g H. destruct (B0 g) as (X1 & X2 & X3); [lia|]. repeat split; auto.
        rewrite in_app_iff. simpl. intros [Y|[Y|[]]]; [auto|unfold f0 in *; lia].
      * apply NoDup_snoc; assumption.
      * intros t H. destruct (B2 t H) as [X1 X2]. split; [|exact X2].
        rewrite in_app_iff. simpl. intros [Y|[Y|[]]]; [auto|]. subst f. rewrite F2 in H. discriminate.
      * rewrite in_app_iff. simpl. intros [Y|[Y|[]]]; [auto|]. subst f. exact F3.
Qed.

Lemma IB_tstep t s : IB s -> IB (tstep c w t s).
Proof.
  intros [B0 B1 B2 B3 B4 B5].
  destruct (is_pcall (thr s t)) eqn:IC; [|destruct (is_scan_cons (thr s t)) eqn:IS].
  - (* call *)
    destruct (thr s t) as [| |l| | |todo k|nm mf bf cur todo k|ok] eqn:E; try discriminate.
    unfold tstep. rewrite E.
    destruct (call_spec c w t nm mf bf cur todo k s) as (_ & PE & (p' & T & PP) & _).
    assert (NP : is_pcall p' = false) by (destruct PP; subst; reflexivity).
    assert (HN : forall g t', heldf g (thr (call c w t nm mf bf cur todo k s) t') = true ->
                 heldf g (thr s t') = true /\ t' <> t).
    { intros g t' H. rewrite T in H. unfold upd in H. destruct (Nat.eqb_spec t' t).
      - rewrite npc_heldf in H by exact NP. discriminate.
      - auto. }
    assert (NBg : forall g, nB g (log (call c w t nm mf bf cur todo k s)) =
              nB g (log s) + match mf, bf with None, Some f1 => if f1 =? g then 1 else 0 | _, _ => 0 end)
      by (intros g; apply call_nB).
    assert (NR : nreg (call c w t nm mf bf cur todo k s) = nreg s) by (apply (call_nB c w t nm mf bf cur todo k s 0)).
    assert (INC : forall g, match mf, bf with None, Some f1 => if f1 =? g then 1 else 0 | _, _ => 0 end = 1 ->
                   heldf g (thr s t) = true).
    { intros g H. rewrite E. simpl. destruct mf; [discriminate|]. destruct bf as [f1|]; [|discriminate].
      destruct (f1 =? g); [reflexivity|discriminate]. }
    assert (INC01 : forall g, match mf, bf with None, Some f1 => if f1 =? g then 1 else 0 | _, _ => 0 end = 0 \/
                   match mf, bf with None, Some f1 => if f1 =? g then 1 else 0 | _, _ => 0 end = 1).
    { intros g. destruct mf; [auto|]. destruct bf as [f1|]; [|auto]. destruct (f1 =? g); auto. }
    constructor; unfold fresh; rewrite ?PE, ?NR; auto.
    + intros g H. destruct (B0 g H) as (X1 & X2 & X3). repeat split; auto.
      * intros t'. destruct (heldf g (thr (call c w t nm mf bf cur todo k s) t')) eqn:Q; [|reflexivity].
        apply HN in Q. destruct Q as [Q _]. rewrite X2 in Q. discriminate.
      * rewrite NBg, X3. destruct (INC01 g) as [Z|Z]; [lia|]. apply INC in Z. rewrite X2 in Z. discriminate.
    + intros t' H. apply HN in H. destruct H as [H NE]. destruct (B2 t' H) as [X1 X2]. split; [exact X1|].
      rewrite NBg, X2. destruct (INC01 f) as [Z|Z]; [lia|]. apply INC in Z. elim NE. apply B3; assumption.
    + intros t1 t2 H1 H2. apply HN in H1. apply HN in H2. apply B3; tauto.
    + intros H. rewrite NBg, (B4 H). destruct (INC01 f) as [Z|Z]; [lia|]. apply INC in Z. apply B2 in Z. tauto.
    + rewrite NBg. destruct (INC01 f) as [Z|Z]; [lia|]. rewrite Z. apply INC in Z. apply B2 in Z. lia.
  - (* visit *)
    destruct (thr s t) as [| |l| | |todo k|nm mf bf cur todo k|ok] eqn:E; try discriminate.
    destruct todo as [|nm todo]; [discriminate|].
    unfold tstep. rewrite E.
    destruct (visit_spec c w t nm todo k s Hpop) as (_ & PE & LG & T & _).
    assert (NR := visit_nreg c w t nm todo k s).
    assert (HV : forall g, heldf g (visit_pc w s nm todo k) = true -> m_get (pend s) nm = Some g).
    { intros g. unfold visit_pc. destruct (some_or _ _); [|discriminate]. simpl.
      destruct (m_get (pend s) nm) as [f1|]; [|discriminate]. intros H. apply Nat.eqb_eq in H. congruence. }
    assert (HN : forall g t', heldf g (thr (visit c w t nm todo k s) t') = true ->
                 (t' = t /\ m_get (pend s) nm = Some g) \/ (t' <> t /\ heldf g (thr s t') = true)).
    { intros g t' H. rewrite T in H. unfold upd in H. destruct (Nat.eqb_spec t' t); [left|right]; auto. }
    assert (INP : forall g, m_get (pend s) nm = Some g -> In g (map snd (pend s))).
    { intros g H. change g with (snd (nm, g)). apply in_map. apply m_get_In. exact H. }
    constructor; unfold fresh; rewrite ?PE, ?LG, ?NR; auto using NoDup_snd_m_del.
    + intros g H. destruct (B0 g H) as (X1 & X2 & X3). repeat split; auto.
      * intros Y. apply X1. eapply In_snd_m_del. exact Y.
      * intros t'. destruct (heldf g (thr (visit c w t nm todo k s) t')) eqn:Q; [|reflexivity].
        apply HN in Q. destruct Q as [[_ Q]|[_ Q]]; [elim X1; apply INP; exact Q|rewrite X2 in Q; discriminate].
    + intros t' H. apply HN in H. destruct H as [[-> H]|[NE H]].
      * split; [apply m_del_value_gone; assumption|apply B4; apply INP; exact H].
      * destruct (B2 t' H) as [X1 X2]. split; [|exact X2]. intros Y. apply X1. eapply In_snd_m_del. exact Y.
    + intros t1 t2 H1 H2. apply HN in H1. apply HN in H2.
      destruct H1 as [[-> H1]|[N1 H1]]; destruct H2 as [[-> H2]|[N2 H2]]; auto.
      * apply B2 in H2. elim (proj1 H2). apply INP. exact H1.
      * apply B2 in H1. elim (proj1 H1). apply INP. exact H2.
    + intros H. apply B4. eapply In_snd_m_del. exact H.
  - (* everything else *)
    destruct (tstep_quiet c w t s IC IS) as (_ & PE & _ & _ & _ & (p' & NP & T) & _).
    destruct (tstep_quiet_more c w t s IC IS) as (NR & LG).
    assert (NBg : forall g, nB g (log (tstep c w t s)) = nB g (log s)).
    { intros g. destruct LG as [LG|[b LG]]; rewrite LG; reflexivity. }
    assert (HN : forall g t', heldf g (thr (tstep c w t s) t') = true -> heldf g (thr s t') = true).
    { intros g t' H. destruct T as [T|T]; rewrite T in H; [|exact H].
      unfold upd in H. destruct (t' =? t); [rewrite npc_heldf in H by exact NP; discriminate|exact H]. }
    constructor; unfold fresh; rewrite ?PE, ?NR, ?NBg; auto.
    + intros g H. destruct (B0 g H) as (X1 & X2 & X3). repeat split; auto.
      * intros t'. destruct (heldf g (thr (tstep c w t s) t')) eqn:Q; [|reflexivity].
        apply HN in Q. rewrite X2 in Q. discriminate.
      * rewrite NBg. exact X3.
    + intros t' H. apply HN in H. rewrite ?NBg. exact (B2 t' H).
Qed.
End OnceB.

Theorem at_most_once_B (w : world) (scanned : bool) (ls : list label) (f : nat) :
  glue_pop_before_call = true ->
  nB f (log (run src_cfg w ls (init w scanned))) <= 1.
Proof.
  intros Hp.
  assert (R : reachable src_cfg w scanned (run src_cfg w ls (init w scanned))) by (exists ls; reflexivity).
  assert (I : IB f (run src_cfg w ls (init w scanned))).
  { revert R. apply reachable_ind with (P := IB f).
    - apply IB_init.
    - intros s0 l I. destruct l; simpl; [apply IB_env|apply IB_tstep]; assumption. }
  apply (ib5 I).
Qed.

(* ------------------------------------------------------------------ the pending table along scans *)
Lemma m_get_app_other p n f a : a <> n -> m_get (p ++ [(n, f)]) a = m_get p a.
Proof.
  intros NE. induction p as [|[k v] r IH]; simpl.
  - destruct (Nat.eqb_spec n a); [congruence|reflexivity].
  - destruct (k =? a); auto.
Qed.

Section PendInvariant.
Variable c : cfg.
Variable w : world.
Hypothesis Hpop : c_pop c = true.
Hypothesis Hlock : c_locked c = true.

Record GP (s : st) : Prop := mkGP {
  gp_K : g_since_snap s = false -> forall t todo k, scan_of (thr s t) = Some (todo, k) ->
         forall a b, In (a, b) (g_snap_scan s) -> In a todo \/ m_get (pend s) a = None;
  gp_A : g_since_cache s = false -> forall a b, In (a, b) (g_snap_cache s) -> m_get (pend s) a = None
}.

Lemma ir_flags i s :
  (g_since_cache (apply_ir i s) = false -> g_since_cache s = false)
  /\ (g_since_snap (apply_ir i s) = false -> g_since_snap s = false).
Proof.
  destruct i as [n o|n]; simpl.
  - split; intros H; apply orb_false_iff in H; tauto.
  - destruct (m_get (mods s) n); simpl; split; auto; discriminate.
Qed.

Lemma GP_ir i s : GP s -> GP (apply_ir i s).
Proof.
  intros [K A]. destruct (apply_ir_fields i s) as (_&P&_&_&T&_&_&_&SC&SS). destruct (ir_flags i s) as [F1 F2].
  constructor; rewrite ?P, ?T, ?SC, ?SS.
  - intros F. exact (K (F2 F)).
  - intros F. exact (A (F1 F)).
Qed.

Lemma GP_irs l s : GP s -> GP (apply_irs l s).
Proof.
  revert s; induction l as [|i l IH]; intros s H; [exact H|].
  unfold apply_irs in *. simpl. apply IH. apply GP_ir. exact H.
Qed.

Definition same_pcore (s s' : st) : Prop :=
  pend s' = pend s /\ thr s' = thr s /\ g_since_cache s' = g_since_cache s /\ g_since_snap s' = g_since_snap s
  /\ g_snap_cache s' = g_snap_cache s /\ g_snap_scan s' = g_snap_scan s.

Lemma GP_ext s s' : same_pcore s s' -> GP s -> GP s'.
Proof. intros (a&b&d&e&f&g) [K A]. constructor; rewrite ?a, ?b, ?d, ?e, ?f, ?g; assumption. Qed.

Lemma GP_env e s : GI w s -> GP s -> GP (apply_env w e s).
Proof.
  intros G H. destruct e as [i|n]; simpl; [apply GP_ir; exact H|].
  destruct (m_get (pend s) n).
  - eapply GP_ext; [|exact H]. repeat split.
  - destruct (m_get (mods s) n) as [o'|] eqn:MO.
    + destruct (has_own w s o').
      * eapply GP_ext; [|exact H]. repeat split.
      * apply GP_irs. eapply GP_ext; [|exact H]. repeat split.
    + (* a new pending entry for a name that is not imported, hence in no live snapshot *)
      destruct H as [K A]. constructor; simpl.
      * intros F t todo k SC a b I. destruct (K F t todo k SC a b I) as [X|X]; [left; exact X|right].
        rewrite m_get_app_other; [exact X|]. intros ->. rewrite (gi_K2 G F _ _ I) in MO. discriminate.
      * intros F a b I. rewrite m_get_app_other; [exact (A F a b I)|].
        intros ->. rewrite (gi_A2 G F _ _ I) in MO. discriminate.
Qed.

(* thread t changes pc; the scan status of every thread is unchanged or t leaves / does not scan *)
Lemma GP_upd s s' t p' :
  GP s -> pend s' = pend s -> g_since_cache s' = g_since_cache s -> g_since_snap s' = g_since_snap s ->
  g_snap_cache s' = g_snap_cache s -> g_snap_scan s' = g_snap_scan s ->
  thr s' = upd (thr s) t p' -> (scan_of p' = scan_of (thr s t) \/ scan_of p' = None) -> GP s'.
Proof.
  intros [K A] P F1 F2 S1 S2 T SC. constructor; rewrite ?P, ?F1, ?F2, ?S1, ?S2; auto.
  intros F t' todo k H. rewrite T in H. unfold upd in H. destruct (Nat.eqb_spec t' t).
  - subst. destruct SC as [SC|SC]; rewrite SC in H; [eauto|discriminate].
  - eauto.
Qed.

Lemma GP_call t nm mf bf cur todo k s :
  GP s -> thr s t = PCall nm mf bf cur todo k -> GP (call c w t nm mf bf cur todo k s).
Proof.
  intros G E.
  assert (RL : forall s0, pend (release s0 t) = pend s0 /\ g_since_cache (release s0 t) = g_since_cache s0
             /\ g_since_snap (release s0 t) = g_since_snap s0 /\ g_snap_cache (release s0 t) = g_snap_cache s0
             /\ g_snap_scan (release s0 t) = g_snap_scan s0 /\ thr (release s0 t) = thr s0).
  { intros s0. unfold release. destruct (lock s0) as [t'|]; [destruct (t' =? t)|]; simpl; repeat split. }
  assert (STEP : forall s2, GP s2 -> thr s2 = thr s ->
            GP (set_thr s2 t (PScan todo k)) /\ GP (abort t s2)).
  { intros s2 G2 T2. split.
    - eapply GP_upd with (s := s2) (t := t) (p' := PScan todo k); try exact G2; try reflexivity.
      left. rewrite T2, E. reflexivity.
    - unfold abort. destruct (RL s2) as (a&b&d&e&f&g).
      eapply GP_upd with (s := s2) (t := t) (p' := PDone false); try exact G2; simpl; auto.
      rewrite g. reflexivity. }
  assert (LOG : forall s0 e, GP s0 -> GP (add_log s0 e)).
  { intros s0 e H. eapply GP_ext; [|exact H]. repeat split. }
  unfold call.
  destruct mf as [o'|]; [|destruct bf as [f|]].
  - set (s2 := apply_irs _ _).
    assert (G2 : GP s2) by (apply GP_irs, LOG, G).
    assert (T2 : thr s2 = thr s) by (unfold s2; irs_rw; reflexivity).
    destruct (fbeh _); [|destruct (c_guarded c)|]; try apply (STEP s2 G2 T2).
    apply (STEP (add_log s2 _)); [apply LOG; exact G2|exact T2].
  - set (s2 := apply_irs _ _).
    assert (G2 : GP s2) by (apply GP_irs, LOG, G).
    assert (T2 : thr s2 = thr s) by (unfold s2; irs_rw; reflexivity).
    destruct (fbeh _); [|destruct (c_guarded c)|]; try apply (STEP s2 G2 T2).
    apply (STEP (add_log s2 _)); [apply LOG; exact G2|exact T2].
  - apply (STEP s G eq_refl).
Qed.

Lemma GP_tstep t s : GI w s -> GP s -> GP (tstep c w t s).
Proof.
  intros G H. unfold tstep.
  destruct (thr s t) as [| |l| | |todo k|nm mf bf cur todo k|ok] eqn:E.
  - eapply GP_upd with (s := s) (t := t) (p' := PEnter); try exact H; try reflexivity. right; reflexivity.
  - eapply GP_upd with (s := s) (t := t) (p' := PRead _); try exact H; try reflexivity. right; reflexivity.
  - destruct (l =? cache s).
    + eapply GP_upd with (s := s) (t := t) (p' := PDone true); try exact H; try reflexivity. right; reflexivity.
    + eapply GP_upd with (s := s) (t := t) (p' := PSlow); try exact H; try reflexivity. right; reflexivity.
  - rewrite Hlock. destruct (lock s); [exact H|].
    eapply GP_upd with (s := s) (t := t) (p' := PLocked); try exact H; try reflexivity. right; reflexivity.
  - (* snapshot *)
    destruct H as [K A]. constructor; simpl; auto.
    intros _ t' todo k SC a b I. destruct (Nat.eqb_spec t' t).
    + inversion SC; subst. left. change a with (fst (a, b)). apply in_map. exact I.
    + exfalso. apply n. apply scan_region in SC.
      assert (L1 := @gi_L1 w s G t' SC). assert (L2 : lock s = Some t) by (apply (@gi_L1 w s G t); rewrite E; reflexivity).
      congruence.
  - destruct todo as [|nm todo].
    + (* write *)
      destruct H as [K A].
      assert (RL : forall s0, pend (release s0 t) = pend s0 /\ g_since_cache (release s0 t) = g_since_cache s0
             /\ g_since_snap (release s0 t) = g_since_snap s0 /\ g_snap_cache (release s0 t) = g_snap_cache s0
             /\ g_snap_scan (release s0 t) = g_snap_scan s0 /\ thr (release s0 t) = thr s0).
      { intros s0. unfold release. destruct (lock s0) as [t'|]; [destruct (t' =? t)|]; simpl; repeat split. }
      match goal with |- GP (add_log (set_thr (release ?X t) t (PDone true)) _) => destruct (RL X) as (a&b&d&e&f&g) end.
      constructor; simpl; rewrite ?a, ?b, ?d, ?e, ?f, ?g; simpl.
      * intros F t' todo' k' SC. destruct (Nat.eqb_spec t' t); [discriminate|]. eauto.
      * intros F a0 b0 I. destruct (K F t [] k) with (a := a0) (b := b0) as [[]|X]; auto. rewrite E. reflexivity.
    + (* visit *)
      destruct (visit_spec c w t nm todo k s Hpop) as (_ & PE & _ & T & _ & _ & _ & SC & SS & _ & _ & _ & SNC & SNS).
      destruct H as [K A]. constructor; rewrite ?PE, ?SC, ?SS, ?SNC, ?SNS.
      * intros F t' todo' k' H a b I. rewrite T in H. unfold upd in H. destruct (Nat.eqb_spec t' t).
        -- destruct (visit_pc_scan w s nm todo k) as [VS _]. rewrite VS in H. inversion H; subst todo' k'. subst t'.
           destruct (K F t (nm :: todo) k) with (a := a) (b := b) as [[X|X]|X]; auto; try (rewrite E; reflexivity).
           ++ subst. right. apply m_get_del_same.
           ++ right. apply m_get_del_none. exact X.
        -- destruct (K F t' todo' k' H a b I) as [X|X]; [left; exact X|right; apply m_get_del_none; exact X].
      * intros F a b I. apply m_get_del_none. eauto.
  - apply GP_call; assumption.
  - eapply GP_upd with (s := s) (t := t) (p' := PEnter); try exact H; try reflexivity. right; reflexivity.
Qed.

Lemma GP_init scanned : GP (init w scanned).
Proof. constructor; simpl; [intros _ t todo k H; discriminate|intros _ a b []]. Qed.
End PendInvariant.

(* ------------------------------------------------------------------ timeliness, built-in glue *)
Section TimelyB.
Variable c : cfg.
Variable w : world.
Hypothesis Hpop : c_pop c = true.
Hypothesis Hlock : c_locked c = true.
Hypothesis Hbase : 1 <= w_base w.
Variables t n o f : nat.
Variables m1 nrem0 : nat.
Variable log1 : list event.

Definition QBb (s : st) : Prop :=
  g_since_cache s = false /\ g_since_snap s = false /\ m_get (mods s) n = Some o /\ m1 <= length (mods s)
  /\ (exists new, log s = new ++ log1 /\ (~ calledB s f -> ~ In (EvRet t true) new))
  /\ (~ calledB s f ->
        cache s < w_base w + m1
        /\ (In (n, o) (g_snap_scan s) \/ length (g_snap_scan s) < m1)
        /\ (forall l, thr s t = PRead l -> w_base w + m1 <= l)
        /\ (forall x, scan_of (thr s t) = Some x -> In (n, o) (g_snap_scan s))).

Definition Qb (s : st) : Prop := nrem0 <= g_nrem s /\ (g_nrem s = nrem0 -> QBb s).

Lemma calledB_ext s s' evs : log s' = evs ++ log s -> calledB s f -> calledB s' f.
Proof. intros L (a & d & H). exists a, d. rewrite L. apply in_or_app. right. exact H. Qed.

(* steps that touch neither the cache nor the snapshot of the scan in progress *)
Lemma QBb_frame s s' evs :
  QBb s -> keeps s s' -> log s' = evs ++ log s ->
  cache s' = cache s -> g_snap_scan s' = g_snap_scan s ->
  (~ calledB s f -> ~ In (EvRet t true) evs) ->
  (~ calledB s f -> forall l, thr s' t = PRead l -> thr s t = PRead l \/ w_base w + m1 <= l) ->
  (~ calledB s f -> forall x, scan_of (thr s' t) = Some x -> exists y, scan_of (thr s t) = Some y) ->
  QBb s'.
Proof.
  intros (F1 & F2 & MG & LE & (new & LN & NR) & B3) (K1 & K2 & K3 & K4) L CA SS E1 E2 E3.
  assert (NC : ~ calledB s' f -> ~ calledB s f).
  { intros H X. apply H. eapply calledB_ext; eassumption. }
  unfold QBb. rewrite K1, K2, CA, SS. repeat split; auto; try lia.
  - exists (evs ++ new). split; [rewrite L, LN; apply app_assoc|].
    intros H X. apply in_app_or in X. destruct X as [X|X]; [exact (E1 (NC H) X)|exact (NR (NC H) X)].
  - apply (B3 (NC H)).
  - apply (B3 (NC H)).
  - intros l X. destruct (E2 (NC H) l X) as [Y|Y]; [apply (B3 (NC H)); exact Y|exact Y].
  - intros x X. destruct (E3 (NC H) x X) as [y Y]. destruct (B3 (NC H)) as (_ & _ & _ & Z). eapply Z. exact Y.
Qed.

Definition WCB (s : st) : Prop :=
  g_nrem s = nrem0 -> forall t0 k, thr s t0 = PScan [] k -> g_since_snap s = false ->
  In (n, o) (g_snap_scan s) -> calledB s f.

Lemma Qb_env e s : Qb s -> Qb (apply_env w e s).
Proof.
  intros [N0 QQ]. destruct (env_shape w e s) as ((evs & L & QE) & T & CA & SS & A & B).
  split; [lia|]. intros H. assert (H0 : g_nrem s = nrem0) by lia.
  eapply QBb_frame with (s := s) (evs := evs); auto.
  - apply B. lia.
  - intros _ X. apply QE in X. discriminate.
  - intros _ l X. left. rewrite T in X. exact X.
  - intros _ x X. rewrite T in X. eauto.
Qed.

Ltac frame_tacb s0 ev0 :=
  eapply QBb_frame with (s := s0) (evs := ev0); auto; try (unfold keeps; simpl; repeat split; auto; fail).

Lemma Qb_tstep t0 s : GI w s -> WCB s -> Qb s -> Qb (tstep c w t0 s).
Proof.
  intros G I [N0 QQ]. unfold tstep.
  destruct (thr s t0) as [| |l0| | |todo k|nm mf bf cur todo k|ok] eqn:E.
  - (* start *)
    split; [exact N0|]. simpl. intros H. specialize (QQ H). frame_tacb s (@nil event); simpl.
    + intros _ l X. destruct (t =? t0); [discriminate|left; exact X].
    + intros _ x X. destruct (t =? t0); [discriminate|eauto].
  - (* read len(sys.modules) *)
    split; [exact N0|]. simpl. intros H. specialize (QQ H). frame_tacb s (@nil event); simpl.
    + intros _ l X. destruct (t =? t0); [|left; exact X]. inversion X; subst.
      right. destruct QQ as (_ & _ & _ & LE & _). lia.
    + intros _ x X. destruct (t =? t0); [discriminate|eauto].
  - (* compare with the cache *)
    destruct (l0 =? cache s) eqn:CMP.
    + split; [exact N0|]. simpl. intros H. specialize (QQ H).
      frame_tacb s [EvRet t0 true]; simpl.
      * intros NC [X|[]]. inversion X; subst t0.
        destruct QQ as (_ & _ & _ & _ & _ & B3). destruct (B3 NC) as (CL & _ & RD & _).
        specialize (RD _ E). apply Nat.eqb_eq in CMP. lia.
      * intros _ l X. destruct (t =? t0); [discriminate|left; exact X].
      * intros _ x X. destruct (t =? t0); [discriminate|eauto].
    + split; [exact N0|]. simpl. intros H. specialize (QQ H). frame_tacb s (@nil event); simpl.
      * intros _ l X. destruct (t =? t0); [discriminate|left; exact X].
      * intros _ x X. destruct (t =? t0); [discriminate|eauto].
  - (* acquire *)
    rewrite Hlock. destruct (lock s); [split; assumption|].
    split; [exact N0|]. simpl. intros H. specialize (QQ H). frame_tacb s (@nil event); simpl.
    + intros _ l X. destruct (t =? t0); [discriminate|left; exact X].
    + intros _ x X. destruct (t =? t0); [discriminate|eauto].
  - (* snapshot *)
    split; [exact N0|]. simpl. intros H. destruct (QQ H) as (F1 & F2 & MG & LE & LN & B3).
    unfold QBb; simpl. split; [exact F1|split; [reflexivity|split; [exact MG|split; [exact LE|split; [exact LN|]]]]].
    intros NC. destruct (B3 NC) as (CL & _ & RD & _).
    split; [exact CL|split; [left; apply m_get_In; exact MG|split]].
    + intros l X. destruct (t =? t0); [discriminate|apply RD; exact X].
    + intros x _. apply m_get_In. exact MG.
  - destruct todo as [|nm todo].
    + (* write the cache *)
      assert (K1 : k = w_base w + length (g_snap_scan s)) by (eapply (@gi_K1 w s G t0 [] k); rewrite E; reflexivity).
      assert (EQ : forall X : st, lock X = lock s -> g_nrem (release X t0) = g_nrem X /\ same_but_thr_lock X (release X t0)
                     /\ thr (release X t0) = thr X /\ log (release X t0) = log X).
      { intros X _. destruct (release_core X t0) as [A B]. destruct (release_fields X t0) as (_&_&_&L&_).
        repeat split; try apply A; auto. unfold release. destruct (lock X) as [t'|]; [destruct (t' =? t0)|]; reflexivity. }
      match goal with |- Qb (add_log (set_thr (release ?X t0) t0 (PDone true)) _) =>
        destruct (EQ X eq_refl) as (RN & (a&b&c0&ff&g&h&i) & RT & RL); simpl in * end.
      split; [simpl; rewrite RN; exact N0|]. simpl. rewrite RN. intros H.
      destruct (QQ H) as (F1 & F2 & MG & LE & (new & LN & NR) & B3).
      assert (WC : In (n, o) (g_snap_scan s) -> calledB s f).
      { intros X. eapply (I H); eauto. }
      unfold QBb; simpl. rewrite a, c0, ff, g, i, RT, RL. simpl.
      split; [exact F2|split; [exact F2|split; [exact MG|split; [exact LE|split]]]].
      * exists (EvRet t0 true :: new). split; [rewrite LN; reflexivity|].
        intros NC [X|X].
        -- inversion X; subst t0.
           assert (NC' : ~ calledB s f).
           { intros (a0 & d0 & Y). apply NC. exists a0, d0. simpl. rewrite RL. right. exact Y. }
           destruct (B3 NC') as (_ & _ & _ & SC). apply NC'. apply WC. eapply SC. rewrite E. reflexivity.
        -- assert (NC' : ~ calledB s f).
           { intros (a0 & d0 & Y). apply NC. exists a0, d0. simpl. rewrite RL. right. exact Y. }
           exact (NR NC' X).
      * intros NC.
        assert (NC' : ~ calledB s f).
        { intros (a0 & d0 & Y). apply NC. exists a0, d0. simpl. rewrite RL. right. exact Y. }
        destruct (B3 NC') as (CL & [IN|LT] & RD & SC); [elim NC'; apply WC; exact IN|].
        split; [lia|split; [right; exact LT|split]].
        -- intros l X. destruct (t =? t0); [discriminate|apply RD; exact X].
        -- intros x X. destruct (t =? t0); [discriminate|eapply SC; exact X].
    + (* visit *)
      destruct (visit_spec c w t0 nm todo k s Hpop) as (_ & _ & LG & T & MO & CA & _ & SC & SS & NR & _ & _ & _ & SNS).
      split; [rewrite NR; exact N0|]. rewrite NR. intros H. specialize (QQ H).
      eapply QBb_frame with (s := s) (evs := @nil event); auto.
      * unfold keeps. rewrite SC, SS, MO. repeat split; auto.
      * intros _ l X. rewrite T in X. unfold upd in X. destruct (t =? t0); [|left; exact X].
        unfold visit_pc in X. destruct (some_or _ _); discriminate.
      * intros _ x X. rewrite T in X. unfold upd in X. destruct (Nat.eqb_spec t t0); [|eauto].
        subst. rewrite E. simpl. eauto.
  - (* call *)
    destruct (call_nrem c w t0 nm mf bf cur todo k s) as (A & CA & SS & B).
    destruct (call_log c w t0 nm mf bf cur todo k s) as (evs & LG & EV).
    destruct (call_spec c w t0 nm mf bf cur todo k s) as (_ & _ & (p' & T & PP) & _).
    split; [lia|]. intros H. assert (H0 : g_nrem s = nrem0) by lia. specialize (QQ H0).
    eapply QBb_frame with (s := s) (evs := evs); auto.
    + apply B. lia.
    + intros _ X. apply EV in X. destruct X as [X|[[b X]|X]]; try discriminate.
      unfold call_event in X. destruct mf; [discriminate|destruct bf; discriminate].
    + intros _ l X. rewrite T in X. unfold upd in X. destruct (t =? t0); [|left; exact X].
      destruct PP; subst p'; discriminate.
    + intros _ x X. rewrite T in X. unfold upd in X. destruct (Nat.eqb_spec t t0); [|eauto].
      subst. rewrite E. simpl. eauto.
  - (* start again *)
    split; [exact N0|]. simpl. intros H. specialize (QQ H). frame_tacb s (@nil event); simpl.
    + intros _ l X. destruct (t =? t0); [discriminate|left; exact X].
    + intros _ x X. destruct (t =? t0); [discriminate|eauto].
Qed.
End TimelyB.

Lemma env_pend w e s a : m_get (mods s) a <> None -> m_get (pend (apply_env w e s)) a = m_get (pend s) a.
Proof.
  intros H. destruct e as [i|n]; simpl.
  - destruct (apply_ir_fields i s) as (_&P&_). rewrite P. reflexivity.
  - destruct (m_get (pend s) n); [reflexivity|].
    destruct (m_get (mods s) n) as [o'|] eqn:MO.
    + destruct (has_own w s o'); simpl; irs_rw; reflexivity.
    + simpl. apply m_get_app_other. intros ->. contradiction.
Qed.

Lemma settled_visit_mf w s nm o : m_get (mods s) nm = Some o -> settled w s o -> visit_mf w s nm = None.
Proof.
  intros M [H|H]; unfold visit_mf; rewrite M.
  - rewrite H. reflexivity.
  - destruct (glue_of w o); [|reflexivity]. apply mem_nat_In in H. rewrite H. reflexivity.
Qed.

Lemma call_logs_event c w t nm mf bf cur todo k s :
  some_or mf bf = true -> In (call_event t nm mf bf cur) (log (call c w t nm mf bf cur todo k s)).
Proof.
  intros SO. unfold call, abort, call_event.
  destruct mf as [o'|]; [|destruct bf as [f|]; [|discriminate]];
    (destruct (fbeh _); [|destruct (c_guarded c)|]); simpl; rel_rw; irs_rw; simpl; auto.
Qed.

Lemma tstep_quiet_nrem c w t s :
  is_pcall (thr s t) = false -> g_nrem (tstep c w t s) = g_nrem s.
Proof.
  intros NC. unfold tstep.
  destruct (thr s t) as [| |l| | |todo n|nm mf bf cur todo n|ok] eqn:E; try discriminate; simpl; auto.
  - destruct (l =? cache s); reflexivity.
  - destruct (c_locked c); [destruct (lock s)|]; reflexivity.
  - destruct todo; [|reflexivity]. simpl.
    unfold release; simpl. destruct (lock s) as [t'|]; [destruct (t' =? t)|]; reflexivity.
Qed.

Section TrackB.
Variable c : cfg.
Variable w : world.
Hypothesis Hpop : c_pop c = true.
Variables n o f nrem0 : nat.

Definition holdsB (s : st) : Prop := exists t' cur todo k, thr s t' = PCall n None (Some f) cur todo k.

Definition TBb (s : st) : Prop :=
  m_get (mods s) n = Some o /\ settled w s o
  /\ (m_get (pend s) n = Some f \/ holdsB s \/ calledB s f).
Definition TB (s : st) : Prop := nrem0 <= g_nrem s /\ (g_nrem s = nrem0 -> TBb s).

Lemma TB_env e s : TB s -> TB (apply_env w e s).
Proof.
  intros [N0 B]. destruct (env_shape w e s) as ((evs & L & _) & T & _ & _ & A & K).
  split; [lia|]. intros H. assert (H0 : g_nrem s = nrem0) by lia.
  destruct (B H0) as (MG & ST & D). destruct (K ltac:(lia)) as (_ & _ & KM & _).
  destruct (nM_env w 0 e s) as (_ & P & _).
  split; [apply KM; exact MG|split].
  - destruct ST as [X|X]; [left; exact X|right; rewrite P; exact X].
  - destruct D as [D|[D|D]].
    + left. rewrite env_pend; [exact D|congruence].
    + right. left. unfold holdsB. rewrite T. exact D.
    + right. right. destruct D as (a & d & X). exists a, d. rewrite L. apply in_or_app. right. exact X.
Qed.

Lemma TB_tstep t0 s : TB s -> TB (tstep c w t0 s).
Proof.
  intros [N0 B].
  destruct (is_pcall (thr s t0)) eqn:IC; [|destruct (is_scan_cons (thr s t0)) eqn:IS].
  - (* call *)
    destruct (thr s t0) as [| |l| | |todo k|nm mf bf cur todo k|ok] eqn:E; try discriminate.
    unfold tstep. rewrite E.
    destruct (call_nrem c w t0 nm mf bf cur todo k s) as (A & _ & _ & K).
    destruct (call_spec c w t0 nm mf bf cur todo k s) as (PO & PE & (p' & T & PP) & _).
    destruct (call_log c w t0 nm mf bf cur todo k s) as (evs & LG & _).
    split; [lia|]. intros H. assert (H0 : g_nrem s = nrem0) by lia.
    destruct (B H0) as (MG & ST & D). destruct (K ltac:(lia)) as (_ & _ & KM & _).
    split; [apply KM; exact MG|split].
    + destruct ST as [X|X]; [left; exact X|right; rewrite PO; exact X].
    + destruct D as [D|[D|D]].
      * left. rewrite PE. exact D.
      * destruct D as (t' & cur' & todo' & k' & D). destruct (Nat.eq_dec t' t0) as [->|NE].
        -- right. right. rewrite E in D. inversion D; subst.
           exists n, cur'. apply (call_logs_event c w t0 n None (Some f) cur' todo' k' s eq_refl).
        -- right. left. exists t', cur', todo', k'. rewrite T, upd_other by exact NE. exact D.
      * right. right. destruct D as (a & d & X). exists a, d. rewrite LG. apply in_or_app. right. exact X.
  - (* visit *)
    destruct (thr s t0) as [| |l| | |todo k|nm mf bf cur todo k|ok] eqn:E; try discriminate.
    destruct todo as [|nm todo]; [discriminate|].
    unfold tstep. rewrite E.
    destruct (visit_spec c w t0 nm todo k s Hpop) as (PO & PE & LG & T & MO & _ & _ & _ & _ & NR & _).
    split; [rewrite NR; exact N0|]. rewrite NR. intros H. destruct (B H) as (MG & ST & D).
    split; [rewrite MO; exact MG|split].
    + destruct ST as [X|X]; [left; exact X|right]. rewrite PO. destruct (visit_mf w s nm); [right|]; exact X.
    + destruct D as [D|[D|D]].
      * destruct (Nat.eq_dec nm n) as [->|NE].
        -- right. left. exists t0, (m_get (mods s) n), todo, k. rewrite T, upd_same.
           unfold visit_pc. rewrite (@settled_visit_mf w s n o MG ST), D. reflexivity.
        -- left. rewrite PE, m_get_del_other by exact NE. exact D.
      * right. left. destruct D as (t' & cur' & todo' & k' & D). exists t', cur', todo', k'.
        destruct (Nat.eq_dec t' t0) as [->|NE]; [rewrite E in D; discriminate|].
        rewrite T, upd_other by exact NE. exact D.
      * right. right. destruct D as (a & d & X). exists a, d. rewrite LG. exact X.
  - (* everything else *)
    destruct (tstep_quiet c w t0 s IC IS) as (PO & PE & MO & _ & L2 & (p' & NP & T) & _).
    assert (NR := tstep_quiet_nrem c w t0 s IC).
    split; [rewrite NR; exact N0|]. rewrite NR. intros H. destruct (B H) as (MG & ST & D).
    split; [rewrite MO; exact MG|split].
    + destruct ST as [X|X]; [left; exact X|right; rewrite PO; exact X].
    + destruct D as [D|[D|D]].
      * left. rewrite PE. exact D.
      * right. left. destruct D as (t' & cur' & todo' & k' & D). exists t', cur', todo', k'.
        destruct T as [T|T]; rewrite T; [|exact D].
        destruct (Nat.eq_dec t' t0) as [->|NE]; [rewrite D in IC; discriminate|].
        rewrite upd_other by exact NE. exact D.
      * right. right. destruct D as (a & d & X). exists a, d. apply L2. exact X.
Qed.
End TrackB.

Lemma GP_reachable (w : world) (scanned : bool) (s : st) :
  glue_pop_before_call = true -> glue_under_lock = true -> 1 <= w_base w ->
  reachable src_cfg w scanned s -> GI w s /\ GP s.
Proof.
  intros Hp Hl Hb R.
  refine (@reachable_ind src_cfg w scanned (fun s => GI w s /\ GP s) _ _ s R).
  - split; [apply GI_init; assumption|apply GP_init].
  - intros s0 l [G P]. destruct l as [e|t]; simpl.
    + split; [apply GI_env; exact G|apply GP_env; assumption].
    + split; [apply GI_tstep; assumption|apply GP_tstep; assumption].
Qed.

Lemma calledB_dec f (l : list event) :
  (exists n d, In (EvCallB f n d) l) \/ ~ (exists n d, In (EvCallB f n d) l).
Proof.
  induction l as [|e l [IH|IH]].
  - right. intros (n & d & []).
  - left. destruct IH as (n & d & H). exists n, d. right. exact H.
  - destruct e as [o0 n0 d0|f' n' d'|f1 n1 o1|b1 n1|n1|t1 b1];
      try (right; intros (n & d & [H|H]); [discriminate|apply IH; eauto]).
    destruct (Nat.eq_dec f' f) as [->|NE].
    + left. exists n', d'. left. reflexivity.
    + right. intros (n & d & [H|H]); [inversion H; congruence|apply IH; eauto].
Qed.

Theorem timely_builtin (w : world) (scanned : bool) (ls1 ls2 : list label) (t n f : nat) :
  glue_pop_before_call = true -> glue_under_lock = true -> 1 <= w_base w ->
  let s1 := run src_cfg w ls1 (init w scanned) in
  (thr s1 t = PIdle \/ exists b, thr s1 t = PDone b) ->
  pendingB w s1 n f -> g_since_cache s1 = false -> g_since_snap s1 = false ->
  let s2 := run src_cfg w ls2 s1 in
  g_nrem s2 = g_nrem s1 ->
  forall new, log s2 = new ++ log s1 -> In (EvRet t true) new -> calledB s2 f.
Proof.
  intros Hp Hl Hb s1 IDLE ((o & MG & ST) & PD) F1 F2 s2 NR new LG RET.
  assert (R1 : reachable src_cfg w scanned s1) by (exists ls1; reflexivity).
  destruct (GP_reachable Hp Hl Hb R1) as [G1 P1].
  set (QQ := Qb w t n o f (length (mods s1)) (g_nrem s1) (log s1)).
  set (TT := TB w n o f (g_nrem s1)).
  assert (T1 : TT s1).
  { split; [apply le_n|]. intros _. split; [exact MG|split; [exact ST|left; exact PD]]. }
  assert (Q1 : QQ s1).
  { split; [apply le_n|]. intros _. unfold QBb.
    split; [exact F1|split; [exact F2|split; [exact MG|split; [apply le_n|split]]]].
    - exists []. split; [reflexivity|]. intros _ [].
    - intros _. split; [|split; [|split]].
      + destruct (gi_A1 G1 F1) as [Z|Z]; [lia|]. rewrite Z.
        assert (length (g_snap_cache s1) < length (mods s1)); [|lia].
        eapply pigeon; [exact (gi_A4 G1)|exact (gi_A2 G1 F1)| |exact MG].
        intros H. apply In_fst_ex in H. destruct H as [b H].
        rewrite (gp_A P1 F1 _ _ H) in PD. discriminate.
      + destruct (in_dec Nat.eq_dec n (map fst (g_snap_scan s1))) as [IN|NIN].
        * left. apply In_fst_ex in IN. destruct IN as [b H].
          assert (b = o) by (pose proof (gi_K2 G1 F2 _ _ H); congruence). subst. exact H.
        * right. eapply pigeon; [exact (gi_K4 G1)|exact (gi_K2 G1 F2)|exact NIN|exact MG].
      + intros l X. destruct IDLE as [Y|[b Y]]; rewrite Y in X; discriminate.
      + intros x X. destruct IDLE as [Y|[b Y]]; rewrite Y in X; discriminate. }
  assert (STEP : forall ls s, reachable src_cfg w scanned s -> QQ s -> TT s ->
            reachable src_cfg w scanned (run src_cfg w ls s) /\ QQ (run src_cfg w ls s)).
  { induction ls as [|l r IH]; intros s R H HT; [split; assumption|].
    simpl.
    destruct (GP_reachable Hp Hl Hb R) as [G P].
    assert (WC : WCB n o f (g_nrem s1) s).
    { intros NE t0 k E FS I. destruct HT as [_ HT]. destruct (HT NE) as (_ & _ & D).
      assert (SC : scan_of (thr s t0) = Some ([], k)) by (rewrite E; reflexivity).
      destruct (gp_K P FS _ SC _ _ I) as [[]|PN].
      destruct D as [D|[(t' & cur & todo & k' & D)|D]]; [congruence| |exact D].
      exfalso.
      assert (L1 : lock s = Some t') by (apply (@gi_L1 w s G t'); rewrite D; reflexivity).
      assert (L2 : lock s = Some t0) by (apply (@gi_L1 w s G t0); rewrite E; reflexivity).
      assert (t' = t0) by congruence. subst. rewrite E in D. discriminate. }
    apply IH.
    - destruct R as [ms E]. exists (ms ++ [l]). rewrite run_app. simpl. rewrite <- E. reflexivity.
    - destruct l as [e|t0]; simpl; [apply Qb_env; [exact Hb|exact H]|].
      apply Qb_tstep; auto.
    - destruct l as [e|t0]; simpl; [apply TB_env; exact HT|apply TB_tstep; [exact Hp|exact HT]]. }
  destruct (STEP ls2 s1 R1 Q1 T1) as [R2 [_ Q2]]. fold s2 in Q2, R2.
  destruct (Q2 NR) as (_ & _ & _ & _ & (new' & LN & NRT) & _).
  assert (new' = new) by (rewrite LG in LN; apply app_inv_tail in LN; congruence). subst new'.
  destruct (calledB_dec f (log s2)) as [C|C]; [exact C|].
  exfalso. apply NRT; [exact C|exact RET].
Qed.

Definition tb_world := mkworld 1 [OMod None; OMod (Some (mkfn BOk []))] [mkfn BOk []].
Definition tb_hist :=
  [LEnv (EReg 0); LEnv (EIR (IIns 1 1))] ++ repeat (LThr 0) 8 ++ [LEnv (EIR (IIns 0 0))] ++ repeat (LThr 1) 4.
Example timely_builtin_hyp_met :
  let s1 := run src_cfg tb_world tb_hist (init tb_world true) in
  thr s1 0 = PDone true /\ thr s1 1 = PLocked /\ thr s1 2 = PIdle
  /\ pendingB tb_world s1 0 0 /\ g_since_cache s1 = false /\ g_since_snap s1 = false /\ g_late s1 = false.
Proof.
  vm_compute. repeat split; auto. exists 0. split; [reflexivity|left; reflexivity].
Qed.

(* ------------------------------------------------------------------ odd sys.modules entries *)
Lemma odd_entry_no_glue w o : obj_of w o = ONoDict -> glue_of w o = None.
Proof. unfold glue_of. intros ->. reflexivity. Qed.

(* the visit of an odd entry is the identity on module-provided glue: nothing is consumed, no
   module function is selected; what was pending as built-in for that name is selected *)
Lemma odd_entry_visit c w t nm todo k s o :
  c_pop c = true -> obj_of w o = ONoDict -> m_get (mods s) nm = Some o ->
  let s' := visit c w t nm todo k s in
  popped s' = popped s /\ mods s' = mods s
  /\ thr s' t = match m_get (pend s) nm with
                | Some f => PCall nm None (Some f) (Some o) todo k
                | None => PScan todo k
                end.
Proof.
  intros Hp OD MG. destruct (visit_spec c w t nm todo k s Hp) as (PO & _ & _ & T & MO & _).
  assert (V : visit_mf w s nm = None).
  { unfold visit_mf. rewrite MG, (odd_entry_no_glue w o OD). reflexivity. }
  cbv zeta. rewrite PO, T, V, upd_same. unfold visit_pc. rewrite V, MG.
  split; [reflexivity|split; [exact MO|]]. destruct (m_get (pend s) nm); reflexivity.
Qed.

(* ... hence an odd entry with a pending built-in meets the hypothesis of [timely_builtin] *)
Lemma odd_entry_pendingB w s n o f :
  obj_of w o = ONoDict -> m_get (mods s) n = Some o -> m_get (pend s) n = Some f -> pendingB w s n f.
Proof.
  intros OD MG PD. split; [exists o; split; [exact MG|left; apply odd_entry_no_glue; exact OD]|exact PD].
Qed.

(* a scan over [module; odd+built-in; odd; module-with-raising-glue; odd+raising built-in; module] *)
Definition odd_world := mkworld 1
  [OMod (Some (mkfn BOk [])); ONoDict; ONoDict; OMod (Some (mkfn BRaise [])); ONoDict; OMod (Some (mkfn BOk []))]
  [mkfn BOk []; mkfn BRaise []].
Definition odd_hist :=
  [CEnv (EReg 1); CEnv (EReg 4); CEnv (EIR (IIns 0 0)); CEnv (EIR (IIns 1 1)); CEnv (EIR (IIns 2 2));
   CEnv (EIR (IIns 3 3)); CEnv (EIR (IIns 4 4)); CEnv (EIR (IIns 5 5)); CFull 0].
Example odd_entries_are_skipped :
  let r := crun src_cfg odd_world odd_hist (init odd_world true) in
  map erase (rev (log (fst r))) =
    [OCallM 0 0; OCallB 0 1; OCallM 3 3; OWarn true 3; OCallB 1 4; OWarn false 4; OCallM 5 5; ORet 0 true]
  /\ pend (fst r) = [] /\ cache (fst r) = 7.
Proof. vm_compute. repeat split. Qed.
