(* C17 — library glue is installed exactly once, in time, module-provided beats built-in.
   Property theorems only (proved in P_Glue.v about the model M_Glue.v that the correspondence
   evaluates; [run] = all interleavings of micro-steps of any number of threads with
   environment steps; coarse runs used by the correspondence are such runs: crun_is_run). *)
Require Import Base M_Glue P_Glue.
From SS.gen Require Import SrcFacts.

(* every coarse (checkpoint-level / sequential) run evaluated by the correspondence is a micro-step run *)
Theorem C17_model_runs_are_runs :
  forall c w ls s, exists ms, fst (crun c w ls s) = run c w ms s.
Proof. exact crun_is_run. Qed.
Print Assumptions C17_model_runs_are_runs.

(* per module object: its _stackscope_install_glue_ is called at most once, on every schedule *)
Theorem C17_at_most_once :
  forall w scanned ls o, nM o (log (run src_cfg w ls (init w scanned))) <= 1.
Proof. exact (fun w scanned ls o => at_most_once_M w scanned ls o eq_refl). Qed.
Print Assumptions C17_at_most_once.

Theorem C17_F4_refuted :
  exists w scanned h t n o,
    hist_ok h = true /\
    let r := crun src_cfg w h (init w scanned) in
    ~ In Stuck (snd r) /\ pendingM w (fst r) n o /\
    let s2 := extraction src_cfg w t (fst r) in
    thr s2 t = PDone true /\ g_nrem s2 = g_nrem (fst r) /\ ~ calledM s2 o.
Proof. exact F4_refuted. Qed.
Print Assumptions C17_F4_refuted.

Theorem C17_never_both_refuted :
  exists w scanned h n o f,
    hist_ok h = true /\
    let s := fst (crun src_cfg w h (init w scanned)) in
    In (EvImm f n) (log s) /\ (exists d, In (EvCallM o n d) (log s)) /\ g_bad s = true.
Proof. exact never_both_refuted. Qed.
Print Assumptions C17_never_both_refuted.
