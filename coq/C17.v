(* C17 — library glue is installed exactly once, in time, module-provided beats built-in.
   Property theorems only (proved in P_Glue.v about the model M_Glue.v that the correspondence
   evaluates; [run] = all interleavings of micro-steps of any number of threads with
   environment steps; coarse runs used by the correspondence are such runs: crun_is_run). *)
Require Import Base M_Glue P_Glue.
From SS.gen Require Import SrcFacts.

(* every coarse (checkpoint-level / sequential) run evaluated by the correspondence is a micro-step run *)
Theorem C17_model_runs_are_runs :
  forall c w ls s, exists ms, fst (crun c w ls s) = run c w ms s.
Proof. exact crun_is_run. Qed.
Print Assumptions C17_model_runs_are_runs.

(* per module object: its _stackscope_install_glue_ is called at most once, on every schedule *)
Theorem C17_at_most_once :
  forall w scanned ls o, nM o (log (run src_cfg w ls (init w scanned))) <= 1.
Proof. exact (fun w scanned ls o => at_most_once_M w scanned ls o eq_refl). Qed.
Print Assumptions C17_at_most_once.

(* whenever the installation routine ran a built-in glue function for a module object, that object
   offered no (not yet consumed) glue of its own: module-provided glue is never passed over *)
Theorem C17_prefers_module :
  forall w scanned ls f n o,
    let s := run src_cfg w ls (init w scanned) in
    In (EvCallB f n (Some o)) (log s) -> glue_of w o = None \/ In o (popped s).
Proof. exact (fun w scanned ls f n o => prefers_module w scanned ls f n o eq_refl). Qed.
Print Assumptions C17_prefers_module.

(* a glue function that raises Exception costs one RuntimeWarning: the thread keeps the lock and
   goes on with the rest of its snapshot (any state, hence any schedule before it) ... *)
Theorem C17_failure_is_warning :
  forall w s t nm mf bf cur todo n fs mk,
    thr s t = PCall nm mf bf cur todo n ->
    selected w mf bf = Some (fs, mk) -> fbeh fs = BRaise ->
    let s' := step src_cfg w (LThr t) s in
    (exists ev, log s' = EvWarn mk nm :: ev :: log s /\ is_call ev = true)
    /\ thr s' t = PScan todo n /\ lock s' = lock s /\ cache s' = cache s /\ pend s' = pend s.
Proof. exact (fun w s t nm mf bf cur todo n fs mk => @raise_is_warning w s t nm mf bf cur todo n fs mk eq_refl). Qed.
Print Assumptions C17_failure_is_warning.

(* ... and, left to run, visits every remaining name, writes the cache and returns normally,
   whatever the remaining glue functions do short of raising BaseException *)
Theorem C17_failure_scan_completes :
  forall w t, no_base w ->
  forall todo s n, thr s t = PScan todo n ->
  exists k, let s' := run src_cfg w (repeat (LThr t) k) s in
    thr s' t = PDone true /\ cache s' = n /\ In (EvRet t true) (log s').
Proof. exact (fun w t => @scan_completes w t eq_refl). Qed.
Print Assumptions C17_failure_scan_completes.

Example C17_failure_hypotheses_met :
  no_base g1_world /\
  selected (mkworld 1 [OMod (Some (mkfn BRaise []))] []) (Some 0) (Some 3) = Some (mkfn BRaise [], true).
Proof. split; [split; [intros [|[|o]] fs H; inversion H; discriminate | intros [|[|f]]; discriminate]|reflexivity]. Qed.

Theorem C17_F4_refuted :
  exists w scanned h t n o,
    hist_ok h = true /\
    let r := crun src_cfg w h (init w scanned) in
    ~ In Stuck (snd r) /\ pendingM w (fst r) n o /\
    let s2 := extraction src_cfg w t (fst r) in
    thr s2 t = PDone true /\ g_nrem s2 = g_nrem (fst r) /\ ~ calledM s2 o.
Proof. exact F4_refuted. Qed.
Print Assumptions C17_F4_refuted.

(* never both kinds for one module object, on every schedule of every history in which all
   builtin_glue registrations precede the first extraction (g_late = false: built-in glue is
   registered when stackscope is imported).  [EvImm f n o]: built-in f run at registration time
   for module n whose object was o; [EvCallB f n (Some o)]: built-in f run by the installation
   routine on a visit of name n that found object o. *)
Theorem C17_never_both :
  forall w scanned ls n o,
    let s := run src_cfg w ls (init w scanned) in
    g_late s = false ->
    forall d, In (EvCallM o n d) (log s) ->
    (forall f, ~ In (EvCallB f n (Some o)) (log s)) /\ (forall f, ~ In (EvImm f n o) (log s)).
Proof. exact (fun w scanned ls n o => @never_both w scanned ls n o eq_refl). Qed.
Print Assumptions C17_never_both.

Example C17_never_both_hypothesis_met :
  let s := run src_cfg nb_world nb_hist (init nb_world true) in
  g_late s = false /\ In (EvCallM 0 0 (Some 0)) (log s) /\ In (EvImm 1 1 1) (log s).
Proof. exact never_both_hyp_met. Qed.

(* TIMELINESS, all schedules.  Thread t is not inside add_glue_as_needed at s1; module object o
   is in sys.modules under n with its glue not yet consumed; no removal/replacement has happened
   since the snapshot the cache value stems from nor since the snapshot of a scan in progress
   (no_removal_since_last_scan = the two ghost flags), and none happens in the window ls2.  Then
   whenever t returns normally from add_glue_as_needed within the window, o's glue has been called
   (by t or by another thread) -- for every interleaving ls2 of any number of threads and
   environment steps; since the statement holds for the window that ends with the returning step,
   the call precedes the return.  C17_F4_refuted shows the flags cannot be dropped. *)
Theorem C17_timely :
  forall w scanned ls1 ls2 t n o,
    1 <= w_base w ->
    let s1 := run src_cfg w ls1 (init w scanned) in
    (thr s1 t = PIdle \/ exists b, thr s1 t = PDone b) ->
    pendingM w s1 n o -> g_since_cache s1 = false -> g_since_snap s1 = false ->
    let s2 := run src_cfg w ls2 s1 in
    g_nrem s2 = g_nrem s1 ->
    forall new, log s2 = new ++ log s1 -> In (EvRet t true) new -> calledM s2 o.
Proof. exact (fun w scanned ls1 ls2 t n o => @timely w scanned ls1 ls2 t n o eq_refl eq_refl). Qed.
Print Assumptions C17_timely.

(* 3 threads, 4 modules: thread 0 finished a scan, thread 1 is inside one, thread 2 idle, m3 pending *)
Example C17_timely_hypotheses_met :
  let s1 := run src_cfg tm_world tm_hist (init tm_world true) in
  thr s1 0 = PDone true /\ is_pcall (thr s1 1) = true /\ thr s1 2 = PIdle
  /\ pendingM tm_world s1 3 3 /\ g_since_cache s1 = false /\ g_since_snap s1 = false.
Proof. exact timely_hyp_met. Qed.

(* the invariant behind C17_timely, for every reachable state: mutual exclusion of the locked
   region; the cache value is 0 or the length of a snapshot all of whose modules are served (as
   long as nothing was removed since); the scan in progress has served every name it has passed *)
Theorem C17_cache_invariant :
  forall w scanned s, 1 <= w_base w -> reachable src_cfg w scanned s -> GI w s.
Proof. exact (fun w scanned s => @GI_reachable src_cfg w eq_refl eq_refl scanned s). Qed.
Print Assumptions C17_cache_invariant.

(* TIMELINESS for a module whose pending glue is a BUILT-IN function f (the module object under n
   offers no unconsumed glue of its own and builtin_glue_pending[n] = f): same hypotheses and
   conclusion as C17_timely, all schedules. *)
Theorem C17_timely_builtin :
  forall w scanned ls1 ls2 t n f,
    1 <= w_base w ->
    let s1 := run src_cfg w ls1 (init w scanned) in
    (thr s1 t = PIdle \/ exists b, thr s1 t = PDone b) ->
    pendingB w s1 n f -> g_since_cache s1 = false -> g_since_snap s1 = false ->
    let s2 := run src_cfg w ls2 s1 in
    g_nrem s2 = g_nrem s1 ->
    forall new, log s2 = new ++ log s1 -> In (EvRet t true) new -> calledB s2 f.
Proof. exact (fun w scanned ls1 ls2 t n f => @timely_builtin w scanned ls1 ls2 t n f eq_refl eq_refl). Qed.
Print Assumptions C17_timely_builtin.

Example C17_timely_builtin_hypotheses_met :
  let s1 := run src_cfg tb_world tb_hist (init tb_world true) in
  thr s1 0 = PDone true /\ thr s1 1 = PLocked /\ thr s1 2 = PIdle
  /\ pendingB tb_world s1 0 0 /\ g_since_cache s1 = false /\ g_since_snap s1 = false /\ g_late s1 = false.
Proof. exact timely_builtin_hyp_met. Qed.

(* per built-in function object (the k-th builtin_glue registration creates function k): called at
   most once, counting calls by the installation routine and the call at registration time *)
Theorem C17_at_most_once_builtin :
  forall w scanned ls f, nB f (log (run src_cfg w ls (init w scanned))) <= 1.
Proof. exact (fun w scanned ls f => @at_most_once_B w scanned ls f eq_refl). Qed.
Print Assumptions C17_at_most_once_builtin.

(* a glue function that raises BaseException: the exception escapes from extract (outside the
   property) but, in every state satisfying the invariant (i.e. every reachable state, under any
   interleaving), the step releases glue_lock, leaves the cache and the pending table untouched
   (so the next extraction rescans), changes no other thread, and re-establishes the invariant.
   C17_cache_invariant, C17_timely, C17_timely_builtin, C17_never_both, C17_at_most_once* carry no
   "no BaseException" hypothesis: they hold for the other threads whatever escapes. *)
Theorem C17_base_exception_is_contained :
  forall w s t nm mf bf cur todo k fs mk,
    GI w s -> thr s t = PCall nm mf bf cur todo k ->
    selected w mf bf = Some (fs, mk) -> fbeh fs = BBase ->
    let s' := step src_cfg w (LThr t) s in
    thr s' t = PDone false /\ lock s' = None /\ cache s' = cache s /\ pend s' = pend s
    /\ (exists ev, log s' = EvRet t false :: ev :: log s /\ is_call ev = true)
    /\ (forall t', t' <> t -> thr s' t' = thr s t')
    /\ GI w s'.
Proof. exact (fun w s t nm mf bf cur todo k fs mk => @base_escapes w s t nm mf bf cur todo k fs mk eq_refl eq_refl). Qed.
Print Assumptions C17_base_exception_is_contained.

(* candidate finding C17-G2 (signature C17G2_builtin_registered_after_module_glue_ran: the
   built-in runs at registration for a module whose own glue has already run) is outside the
   property's space -- registration happens when stackscope is imported, before any extraction.
   In that space (g_late = false, the hypothesis of C17_never_both) it cannot occur: *)
Corollary C17_G2_cannot_occur :
  forall w scanned ls n o,
    let s := run src_cfg w ls (init w scanned) in
    g_late s = false ->
    ~ (exists f d, In (EvImm f n o) (log s) /\ In (EvCallM o n d) (log s)).
Proof. exact (fun w scanned ls n o => @g2_cannot_occur w scanned ls n o eq_refl). Qed.
Print Assumptions C17_G2_cannot_occur.

(* ODD sys.modules ENTRIES (None, an object without __dict__, a module whose attribute access raises
   -- failed LazyLoader import --): entry kind ONoDict of the model.  All theorems above quantify over
   worlds that contain such entries at any position of the scan order.  Explicitly: the visit of an
   odd entry consumes nothing and selects no module glue, only what is pending as built-in for that
   name; with a pending built-in it meets the hypothesis of C17_timely_builtin (so that built-in has
   run when the extraction returns) and C17_at_most_once_builtin bounds it by one; the neighbours
   are covered by C17_timely / C17_at_most_once.  A module whose _stackscope_install_glue_ is not
   callable is an [OMod] whose glue raises (TypeError): C17_failure_is_warning. *)
Theorem C17_odd_entry_is_skipped :
  forall w t nm todo k s o,
    obj_of w o = ONoDict -> m_get (mods s) nm = Some o ->
    let s' := visit src_cfg w t nm todo k s in
    popped s' = popped s /\ mods s' = mods s
    /\ thr s' t = match m_get (pend s) nm with
                  | Some f => PCall nm None (Some f) (Some o) todo k
                  | None => PScan todo k
                  end.
Proof. exact (fun w t nm todo k s o => @odd_entry_visit src_cfg w t nm todo k s o eq_refl). Qed.
Print Assumptions C17_odd_entry_is_skipped.

Theorem C17_odd_entry_builtin_is_pending :
  forall w s n o f,
    obj_of w o = ONoDict -> m_get (mods s) n = Some o -> m_get (pend s) n = Some f -> pendingB w s n f.
Proof. exact odd_entry_pendingB. Qed.
Print Assumptions C17_odd_entry_builtin_is_pending.

Example C17_odd_entries_example :
  let r := crun src_cfg odd_world odd_hist (init odd_world true) in
  map erase (rev (log (fst r))) =
    [OCallM 0 0; OCallB 0 1; OCallM 3 3; OWarn true 3; OCallB 1 4; OWarn false 4; OCallM 5 5; ORet 0 true]
  /\ pend (fst r) = [] /\ cache (fst r) = 7.
Proof. exact odd_entries_are_skipped. Qed.

(* "Every extraction starts with a scan": in the model an extraction IS a thread entering the
   installation routine (PIdle -> PEnter), which is the situation C17_timely / C17_timely_builtin speak
   about.  That the code matches this for EVERY public entry point is a structural source fact,
   re-extracted on every run (harness/facts_c17.py, fail-closed): extract_iter -- the generator driven
   by extract, extract_child, extract_outermost, and through extract by extract_since / extract_until --
   calls add_glue_as_needed() unconditionally before its first yield.  (fill_context() outside an
   extraction is not an extraction and performs no scan: modelled as no step, checked by the
   correspondence.)  The correspondence exercises all entry points, the re-entrant extract_child included. *)
Theorem C17_every_entry_point_scans : SrcFacts.c17_scan_at_every_entry = true.
Proof. reflexivity. Qed.
Print Assumptions C17_every_entry_point_scans.

(* Remaining gap (stated, not proved): liveness-style "the scanning thread completes" is proved for
   the thread running on its own (C17_failure_scan_completes); under interleaving no other thread
   can enter the locked region (C17_cache_invariant, gi_L1), and the safety consequences --
   timeliness, cache soundness -- are the theorems above. *)
