(* C17 — library glue is installed exactly once, in time, module-provided beats built-in.
   Property theorems only (proved in P_Glue.v about the model M_Glue.v that the correspondence
   evaluates; [run] = all interleavings of micro-steps of any number of threads with
   environment steps; coarse runs used by the correspondence are such runs: crun_is_run). *)
Require Import Base M_Glue P_Glue.
From SS.gen Require Import SrcFacts.

(* every coarse (checkpoint-level / sequential) run evaluated by the correspondence is a micro-step run *)
Theorem C17_model_runs_are_runs :
  forall c w ls s, exists ms, fst (crun c w ls s) = run c w ms s.
Proof. exact crun_is_run. Qed.
Print Assumptions C17_model_runs_are_runs.

(* per module object: its _stackscope_install_glue_ is called at most once, on every schedule *)
Theorem C17_at_most_once :
  forall w scanned ls o, nM o (log (run src_cfg w ls (init w scanned))) <= 1.
Proof. exact (fun w scanned ls o => at_most_once_M w scanned ls o eq_refl). Qed.
Print Assumptions C17_at_most_once.

(* whenever the installation routine ran a built-in glue function for a module object, that object
   offered no (not yet consumed) glue of its own: module-provided glue is never passed over *)
Theorem C17_prefers_module :
  forall w scanned ls f n o,
    let s := run src_cfg w ls (init w scanned) in
    In (EvCallB f n (Some o)) (log s) -> glue_of w o = None \/ In o (popped s).
Proof. exact (fun w scanned ls f n o => prefers_module w scanned ls f n o eq_refl). Qed.
Print Assumptions C17_prefers_module.

(* a glue function that raises Exception costs one RuntimeWarning: the thread keeps the lock and
   goes on with the rest of its snapshot (any state, hence any schedule before it) ... *)
Theorem C17_failure_is_warning :
  forall w s t nm mf bf cur todo n fs mk,
    thr s t = PCall nm mf bf cur todo n ->
    selected w mf bf = Some (fs, mk) -> fbeh fs = BRaise ->
    let s' := step src_cfg w (LThr t) s in
    (exists ev, log s' = EvWarn mk nm :: ev :: log s /\ is_call ev = true)
    /\ thr s' t = PScan todo n /\ lock s' = lock s /\ cache s' = cache s /\ pend s' = pend s.
Proof. exact (fun w s t nm mf bf cur todo n fs mk => @raise_is_warning w s t nm mf bf cur todo n fs mk eq_refl). Qed.
Print Assumptions C17_failure_is_warning.

(* ... and, left to run, visits every remaining name, writes the cache and returns normally,
   whatever the remaining glue functions do short of raising BaseException *)
Theorem C17_failure_scan_completes :
  forall w t, no_base w ->
  forall todo s n, thr s t = PScan todo n ->
  exists k, let s' := run src_cfg w (repeat (LThr t) k) s in
    thr s' t = PDone true /\ cache s' = n /\ In (EvRet t true) (log s').
Proof. exact (fun w t => @scan_completes w t eq_refl). Qed.
Print Assumptions C17_failure_scan_completes.

Example C17_failure_hypotheses_met :
  no_base g1_world /\
  selected (mkworld 1 [OMod (Some (mkfn BRaise []))] []) (Some 0) (Some 3) = Some (mkfn BRaise [], true).
Proof. split; [split; [intros [|[|o]] fs H; inversion H; discriminate | intros [|[|f]]; discriminate]|reflexivity]. Qed.

Theorem C17_F4_refuted :
  exists w scanned h t n o,
    hist_ok h = true /\
    let r := crun src_cfg w h (init w scanned) in
    ~ In Stuck (snd r) /\ pendingM w (fst r) n o /\
    let s2 := extraction src_cfg w t (fst r) in
    thr s2 t = PDone true /\ g_nrem s2 = g_nrem (fst r) /\ ~ calledM s2 o.
Proof. exact F4_refuted. Qed.
Print Assumptions C17_F4_refuted.

(* ---------------------------------------------------------------------------------------------
   NOT PROVED (statements kept; each is checked by the direct oracle of harness/c17.py on every
   generated history and checkpoint-driven schedule, see CONFIG["unproved_legs"]):

   C17_timely (under no_removal_since_last_scan):
     forall w scanned ls1 t ls2 n o, 1 <= w_base w ->
       let s1 := run src_cfg w ls1 (init w scanned) in
       (thr s1 t = PIdle \/ exists b, thr s1 t = PDone b) -> pendingM w s1 n o ->
       g_since_cache s1 = false -> g_since_snap s1 = false ->
       let s2 := run src_cfg w (LThr t :: ls2) s1 in
       g_nrem s2 = g_nrem s1 -> first_return_of t (LThr t :: ls2) s1 = Some true -> calledM s2 o.
     (proof route worked out in the builder's notes: invariants L1 mutual exclusion, A1-A5 "cache value
      = length of a snapshot all of whose modules are settled", K1-K4 loop invariant of the scan in
      progress; the ghost fields g_since_*, g_snap_* of M_Glue.st exist for this proof.)
     C17_F4_refuted above is the witness that the hypothesis cannot be dropped.

   C17_never_both (under g_bad = false, i.e. built-in glue registered before the module's first import):
     forall w scanned ls n o f d, let s := run src_cfg w ls (init w scanned) in g_bad s = false ->
       ~ (In (EvCallM o n d) (log s) /\ In (EvCallB f n (Some o)) (log s)) /\ ~ In (EvImm f n) (log s).
     C17_never_both_refuted above is the witness that the hypothesis cannot be dropped (candidate
     finding C17-G1: reproduced on the real implementation by harness/c17.py, extra_legs).

   C17_at_most_once for built-in functions: forall f, at most one EvCallB f / EvImm f event. *)
