(* C02 — contexts of a frame running on the calling thread are exact, also mid-enter/exit.
   Property theorems only (proved in P_Cert.v). *)
Require Import Base M_Bytecode M_Analysis M_WithMachine M_Cert P_Cert X_WMExample.

(* For a code object whose certificate passes [check]: in EVERY reachable state of the
   with-machine and for EVERY observation made while the frame is executing — from a call in
   the body, from inside __enter__/__aenter__ (BEFORE_WITH: the manager is not listed yet),
   from inside __exit__/__aexit__ (exit CALL or WITH_EXCEPT_START: listed last, exiting,
   whether reached by fall-through, return, break, continue or an exception), from inside an
   awaited __aenter__/__aexit__ coroutine (SEND, f_lasti on its inline cache) — the analysis,
   which only sees the slots below the current handler depth, returns exactly the ground truth. *)
Theorem C02_exact_running : forall v c t ct, checkk v KRun c t ct = true ->
  forall s, reach v c t s ->
  forall lasti st tr, In (true, lasti, st, tr) (obs c s) ->
  trickery v c t true lasti st = TOk (expected tr).
Proof. intros v c t ct Hc s Hr lasti st tr Hin. exact (analysis_exact v KRun c t ct Hc s Hr true lasti st tr Hin (or_intror (conj eq_refl eq_refl))). Qed.
Print Assumptions C02_exact_running.

(* every slot the analysis reads for a running frame lies below the trim depth and holds the
   exit method of the very manager it reports (used by C07: reads are in bounds) *)
Theorem C02_trim_safe : forall v c t ct, checkk v KRun c t ct = true ->
  forall s, reach v c t s ->
  forall lasti st tr, In (true, lasti, st, tr) (obs c s) ->
  forall x i, In x (expected tr) -> c_obj x = Some i ->
  In (VX (c_site x) i) (keep_bottom (trim_depth t lasti) st).
Proof. exact trim_safe. Qed.
Print Assumptions C02_trim_safe.

Example C02_example_inside_exit :
  exists s, reach V312 ex_code ex_table s /\
            exists lasti st tr, In (true, lasti, st, tr) (obs ex_code s)
                                /\ map (@c_exiting nat) (expected tr) = [true].
Proof.
  destruct (exec V312 ex_code ex_table ex_path_exit (mk 0 [] [])) as [s|] eqn:E; [|vm_compute in E; discriminate].
  exists s. split; [eapply exec_reach; [apply reach_init|exact E]|].
  vm_compute in E. inversion E; subst; clear E.
  eexists _, _, _. split; [left; reflexivity|reflexivity].
Qed.
