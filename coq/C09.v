(* C09 — generator-based managers and exit stacks unfold into the exact nested tree.
   Property theorems only (proved in P_ExitStack.v).  Model functions: M_ExitStack.classify,
   fill, series — the very functions the generated cases files evaluate. *)
Require Import Base M_ExitStack P_ExitStack.

(* For EVERY registration sequence [cbs] (any length, any order, registered managers arbitrary
   trees, falsy managers included) whose callbacks are stored as the modelled contextlib stores
   them and that avoids the registrations contextlib makes indistinguishable (F10): the exit-stack
   context has exactly one child per callback, in registration order (child j carries index j in
   varname and description), its obj is the registered manager / callable, its is_async and the
   method name in its description are those of the registration that was used. *)
Theorem C09_children_exact : forall n cbs ex r p i oid a nm,
  seq_modelled cbs = true -> seq_nof10 cbs = true ->
  exists kids,
    fill (S (S n)) ex r p i (Wth oid a nm (MStack cbs)) = COut oid a ex None kids i /\
    length kids = length cbs /\
    forall j k falsy x av oself ocb m,
      nth_error cbs j = Some (Cb k falsy x av oself ocb m) ->
      exists inner gk arg,
        nth_error kids j =
          Some (COut (spec_oid k oself ocb) (spec_async k) false inner gk
                     (KChild (spec_sel k) r p j (spec_await k) (spec_meth k) arg))
        /\ (arg = spec_arg k \/ arg = AChildDesc).
Proof. exact children_exact. Qed.
Print Assumptions C09_children_exact.

(* the hypotheses are met by a non-trivial sequence: P_ExitStack.ex_seq_hyps *)

(* Known finding F10: without the excluding hypothesis the statement fails — push(manager) is
   described as enter_context (sync) and push_async_exit(manager) as an awaited
   enter_async_context. *)
Theorem C09_F10_refuted :
  exists cbs, seq_modelled cbs = true /\ seq_nof10 cbs = false /\
    exists k falsy x av oself ocb m kid,
      nth_error cbs 0 = Some (Cb k falsy x av oself ocb m) /\
      fill 2 false RName [] KTop (Wth 7 false true (MStack cbs)) = COut 7 false false None [kid] KTop /\
      kid_meth kid <> Some (spec_meth k).
Proof. exact f10_refuted. Qed.
Print Assumptions C09_F10_refuted.

Theorem C09_F10_refuted_async :
  exists kid, fill 2 false RName [] KTop (Wth 7 true true (MStack (f10_witness KPushAMgr)))
              = COut 7 true false None [kid] KTop /\
              kid_meth kid = Some MEnterA /\ spec_meth KPushAMgr = MPushA /\
              kid_await kid = Some true /\ spec_await KPushAMgr = false.
Proof. exact f10_refuted_async. Qed.
Print Assumptions C09_F10_refuted_async.

(* ... and it is inherent: contextlib stores identical callbacks, so no classifier reading only the
   stored callback can name push(manager) and enter_context both correctly. *)
Theorem C09_F10_inherent : forall (cl : avec -> cls) falsy,
  ~ (c_meth (cl (cl_attrs KPushMgr falsy false)) = spec_meth KPushMgr /\
     c_meth (cl (cl_attrs KEnter falsy false)) = spec_meth KEnter).
Proof. exact f10_inherent. Qed.
Print Assumptions C09_F10_inherent.

(* every distinguishable registration form, with a truthy or falsy manager, is classified as itself *)
Theorem C09_classifier : forall k falsy x,
  f10 k x = false -> classify (cl_attrs k falsy x) = spec_cls k.
Proof. exact classify_modelled. Qed.
Print Assumptions C09_classifier.

(* For ALL manager trees of depth <= fuel (plain managers, generator-based managers with or without
   delegation, exit stacks, nested in any way, observed in the body or exiting) the context tree the
   model computes is the tree the property describes: [spec_series], defined by structural
   recursion on the tree — inner_stack = the generator's own frames for a generator-based manager
   that is not exiting, none when it is exiting and then its frames follow in the main series,
   children per registration form, recursively. *)
Theorem C09_tree : forall fuel f,
  depth_frm f <= fuel -> modelled_frm f = true -> nof10_frm f = true ->
  series fuel f = spec_series f.
Proof. exact tree_correct. Qed.
Print Assumptions C09_tree.

(* hypotheses met by a non-trivial tree: P_ExitStack.ex_tree_hyps *)

Theorem C09_context : forall fuel m ex r p i oid a nm,
  depth_mgr m <= fuel -> modelled_mgr m = true -> nof10_mgr m = true ->
  fill fuel ex r p i (Wth oid a nm m) = spec_mgr ex r p i oid a m.
Proof. exact ctx_correct. Qed.
Print Assumptions C09_context.

(* fuel = depth suffices for every tree (no hypothesis on the callbacks): the out-of-fuel values
   CFuel / FFuel occur nowhere in the result *)
Theorem C09_fuel_suffices : forall fuel f,
  depth_frm f <= fuel -> forallb fuel_free_f (series fuel f) = true.
Proof. exact tree_fuel_suffices. Qed.
Print Assumptions C09_fuel_suffices.

(* read directly off the model, for all inputs: inner_stack unless exiting ... *)
Theorem C09_inner_stack_unless_exiting : forall n ex r p i oid a nm f,
  fill (S n) ex r p i (Wth oid a nm (MGen f))
  = COut oid a ex (if ex then None else Some (series n f)) [] i.
Proof. exact gen_inner. Qed.
Print Assumptions C09_inner_stack_unless_exiting.

(* ... in which case the manager's frames follow the owner's frame in the main frame series *)
Theorem C09_exiting_frames_in_series : forall n code ws oid a nm g,
  exists cs, series (S (S n)) (Frm code ws (TExit (Wth oid a nm (MGen g))))
             = FOut code (cs ++ [COut oid a true None [] KTop]) :: series (S n) g
             /\ length cs = length ws.
Proof. exact exiting_in_series. Qed.
Print Assumptions C09_exiting_frames_in_series.

(* An exit stack observed in the middle of its own __exit__ / __aexit__ (for every sequence of
   callbacks still registered, every popped callback [cur]): the stack's context is exiting, it has
   one child per callback still registered, and every generator-based manager among them is NOT
   exiting — it keeps inner_stack = the extraction of its generator; the frames of the manager
   being exited follow in the main series. *)
Theorem C09_exiting_stack_children : forall n cbs oid a nm code ws cur,
  seq_modelled cbs = true -> seq_nof10 cbs = true ->
  raises (S (S n)) (MStack cbs) = false ->   (* its unfolding does not fail; met by P_ExitStack.ex_mid_exit_hyps *)
  exists cs kids rest,
    series (S (S (S n))) (Frm code ws (TExitS (Wth oid a nm (MStack cbs)) cur))
      = FOut code (cs ++ [COut oid a true None kids KTop]) :: rest /\
    rest = match cur with MGen g => series (S (S n)) g | _ => [] end /\
    length kids = length cbs /\
    forall j k falsy x av oself ocb g,
      nth_error cbs j = Some (Cb k falsy x av oself ocb (MGen g)) -> has_receiver k = true ->
      exists info,
        nth_error kids j = Some (COut oself (spec_async k) false (Some (series n g)) [] info).
Proof. exact exiting_stack_children. Qed.
Print Assumptions C09_exiting_stack_children.

(* Concurrent registration: elaborate_exit_stack works on a snapshot of the callback list and
   contextlib only appends, so the children for the callbacks registered at snapshot time are
   exactly a prefix of the children seen after any further registrations (never a partial or empty
   list). *)
Theorem C09_snapshot_prefix : forall n cbs extra ex r p i oid a nm,
  exists kids more,
    fill (S n) ex r p i (Wth oid a nm (MStack cbs)) = COut oid a ex None kids i /\
    fill (S n) ex r p i (Wth oid a nm (MStack (cbs ++ extra))) = COut oid a ex None (kids ++ more) i /\
    length kids = length cbs /\ length more = length extra.
Proof. exact snapshot_prefix. Qed.
Print Assumptions C09_snapshot_prefix.

(* Repeated use: the model (like the code) carries nothing from one extraction to the next; after
   any history, including extractions that failed part-way, an extraction yields the unfolding of the
   tree as it is at that moment. *)
Theorem C09_history_stateless : forall fuel pre f post,
  nth_error (extract_seq fuel (pre ++ Some f :: post)) (length pre) = Some (HOk (series fuel f)).
Proof. exact history_stateless. Qed.
Print Assumptions C09_history_stateless.

(* Contained faults (extract_iter fills each context inside its own try/except): in every frame,
   the j-th with-block is unfolded from that with-block alone; with-blocks whose unfolding fails
   stay bare and do not disturb the others (example: P_ExitStack.ex_faulty_contained). *)
Theorem C09_fault_contained : forall n code ws,
  exists cs, series (S n) (Frm code ws TStop) = [FOut code cs] /\ length cs = length ws /\
    forall j oid a nm m, nth_error ws j = Some (Wth oid a nm m) ->
      nth_error cs j = Some (if raises n m then COut oid a false None [] KTop
                             else fill n false (if nm then RName else RUnderscore) [] KTop (Wth oid a nm m)).
Proof. exact fault_contained. Qed.
Print Assumptions C09_fault_contained.

(* ... and which unfoldings fail is what the property-level reading says: exactly the exit stacks
   holding (transitively through registered stacks) a manager or bound-method receiver whose repr
   fails; functions, callbacks and generator-based managers never make it fail. *)
Theorem C09_raises : forall fuel m,
  depth_mgr m <= fuel -> modelled_mgr m = true -> nof10_mgr m = true -> raises fuel m = spec_raises m.
Proof. exact raises_correct. Qed.
Print Assumptions C09_raises.

(* A function registered with push / push_async_exit is described as such whatever it looks like
   (functools.wraps closure over *args/**kwds, a function called _exit_wrapper, ...). *)
Theorem C09_lookalike_is_push : forall lk,
  c_meth (classify (cl_attrs (KPushFn lk) false false)) = MPush /\
  c_meth (classify (cl_attrs (KPushAFn lk) false false)) = MPushA /\
  c_arg (classify (cl_attrs (KPushFn lk) false false)) = AFuncname.
Proof. exact lookalike_is_push. Qed.
Print Assumptions C09_lookalike_is_push.
