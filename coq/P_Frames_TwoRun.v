(* P_Frames_TwoRun.v — C05, two-run statements: the same tables run under two fault sets.
   About M_Frames.run / flatten / fill_all / ctx_step / elab_step themselves. *)
Require Import Base M_Frames M_Frames_Fault P_Frames_Fault.

(* the two fault sets give the same answer on every tick in [a,b) *)
Definition agree (c : cfg) (fl : nat -> bool) (a b : nat) : Prop :=
  forall x, a <= x < b -> fl x = fault c x.

Lemma agree_sub c fl a b a' b' : a <= a' -> b' <= b -> agree c fl a b -> agree c fl a' b'.
Proof. intros L1 L2 H x Hx. apply H. lia. Qed.

Lemma with_faults_back c fl : with_faults (with_faults c fl) (fault c) = c.
Proof. destruct c. reflexivity. Qed.

(* ---- locality: a successful step consults only the fault ticks it consumes ---- *)

Lemma iter_local c fl o : forall l raises t k e t',
  iter_steps c o l raises t = (k, e, t') -> agree c fl t t' ->
  iter_steps (with_faults c fl) o l raises t = (k, e, t').
Proof.
  induction l as [|i l IH]; intros raises t k e t' H A; simpl in *.
  - destruct (fault c t) eqn:F; inversion H; subst; rewrite (A t), F by lia; reflexivity.
  - destruct (fault c t) eqn:F.
    + inversion H; subst. rewrite (A t), F by lia. reflexivity.
    + destruct (iter_steps c o l raises (S t)) as [[k1 e1] t1] eqn:E. inversion H; subst.
      assert (L : S t <= t') by (pose proof (iter_step_ord c o [] _ _ _ _ _ _ E) as [L _]; exact L).
      rewrite (A t), F by lia. rewrite (IH _ _ _ _ _ E) by (eapply agree_sub; [| |exact A]; lia). reflexivity.
Qed.

Lemma flatten_local fuel fl : forall cnt c tu te errs t te' errs' t',
  flatten fuel cnt c tu te errs t = FlOk te' errs' t' -> agree c fl t t' ->
  flatten fuel cnt (with_faults c fl) tu te errs t = FlOk te' errs' t'.
Proof.
  induction fuel as [|fuel IH]; intros cnt c tu te errs t te' errs' t' H A; [discriminate|].
  pose proof (flatten_ord _ _ _ _ _ _ _ _ _ _ H) as [L0 _].
  simpl in *.
  destruct tu as [|[[org cur] d] tu']; [exact H|].
  assert (Rec : forall cnt0 tu0 te0 errs0 t0, t <= t0 ->
            flatten fuel cnt0 c tu0 te0 errs0 t0 = FlOk te' errs' t' ->
            flatten fuel cnt0 (with_faults c fl) tu0 te0 errs0 t0 = FlOk te' errs' t').
  { intros cnt0 tu0 te0 errs0 t0 L E. apply IH; [exact E|]. eapply agree_sub; [| |exact A]; lia. }
  destruct cur; try (apply Rec; [lia|exact H]).
  - assert (Lt : forall cnt0 tu0 te0 errs0, flatten fuel cnt0 c tu0 te0 errs0 (S t) = FlOk te' errs' t' -> t < t').
    { intros cnt0 tu0 te0 errs0 E. pose proof (flatten_ord _ _ _ _ _ _ _ _ _ _ E) as [L _]. lia. }
    destruct (fault c t) eqn:F.
    { destruct (g_unwrap (grd c)); [|discriminate]. rewrite (A t), F by (pose proof (Lt _ _ _ _ H); lia).
      apply Rec; [lia|exact H]. }
    destruct (unwrap c o) eqn:Eu;
      try (destruct (uguard c <? S cnt) eqn:Eg);
      try (destruct (g_unwrap (grd c)); [|discriminate]);
      try (rewrite (A t), F by (pose proof (Lt _ _ _ _ H); lia); apply Rec; [lia|exact H]).
    destruct (iter_steps c o l raises (S t)) as [[k er] t2] eqn:Ei.
    pose proof (iter_step_ord c o [] _ _ _ _ _ _ Ei) as [Li _].
    assert (L2 : t2 <= t').
    { destruct er; [destruct (g_iter (grd c)); [|discriminate]|];
        pose proof (flatten_ord _ _ _ _ _ _ _ _ _ _ H) as [L _]; exact L. }
    rewrite (A t), F by lia.
    rewrite (iter_local c fl o _ _ _ _ _ _ Ei) by (eapply agree_sub; [| |exact A]; lia).
    destruct er; [destruct (g_iter (grd c)); [|discriminate]|]; (apply Rec; [lia|exact H]).
  - assert (Lt : forall cnt0 tu0 te0 errs0, flatten fuel cnt0 c tu0 te0 errs0 (S t) = FlOk te' errs' t' -> t < t').
    { intros cnt0 tu0 te0 errs0 E. pose proof (flatten_ord _ _ _ _ _ _ _ _ _ _ E) as [L _]. lia. }
    destruct (fault c t) eqn:F.
    { destruct (g_unwrap (grd c)); [|discriminate]. rewrite (A t), F by (pose proof (Lt _ _ _ _ H); lia).
      apply Rec; [lia|exact H]. }
    destruct (uguard c <? S cnt); try (destruct (g_unwrap (grd c)); [|discriminate]);
      (rewrite (A t), F by (pose proof (Lt _ _ _ _ H); lia); apply Rec; [lia|exact H]).
Qed.

Definition runner_local (c : cfg) (fl : nat -> bool) (r1 r2 : item -> nat -> outcome * nat) : Prop :=
  forall k t s t', r1 k t = (Ok s, t') -> agree c fl t t' -> r2 k t = (Ok s, t').

Lemma run_kids_local c fl r1 r2 : runner_local c fl r1 r2 -> runner_mono r1 ->
  forall kids acc t ks t', run_kids r1 kids acc t = (ks, None, t') -> agree c fl t t' ->
  run_kids r2 kids acc t = (ks, None, t').
Proof.
  intros Hl Hm. induction kids as [|k r IH]; intros acc t ks t' H A; simpl in *; [exact H|].
  destruct (r1 k t) as [o t1] eqn:E. destruct o as [s| |]; try discriminate.
  pose proof (Hm _ _ _ _ E) as L1. pose proof (run_kids_mono r1 Hm _ _ _ _ _ _ H) as L2.
  rewrite (Hl _ _ _ _ E) by (eapply agree_sub; [| |exact A]; lia).
  apply IH; [exact H|]. eapply agree_sub; [| |exact A]; lia.
Qed.

Lemma fill_all_local c fl r1 r2 : runner_local c fl r1 r2 -> runner_mono r1 -> runner_total r1 ->
  g_fill (grd c) = true ->
  forall l acc errs t cx errs' t', fill_all c r1 l acc errs t = (cx, errs', t', None) -> agree c fl t t' ->
  fill_all (with_faults c fl) r2 l acc errs t = (cx, errs', t', None).
Proof.
  intros Hl Hm Ht Hg. induction l as [|cid r IH]; intros acc errs t cx errs' t' H A; simpl in *; [exact H|].
  rewrite Hg in *.
  assert (Lall : t < t').
  { destruct (fault c t); [pose proof (fill_all_ord c r1 Hm Ht Hg _ _ _ _ _ _ _ _ H) as [L _]; lia|].
    destruct (fill c cid); [|pose proof (fill_all_ord c r1 Hm Ht Hg _ _ _ _ _ _ _ _ H) as [L _]; lia].
    destruct (run_kids r1 kids [] (S t)) as [[ks ob1] t1] eqn:Ek.
    pose proof (run_kids_mono r1 Hm _ _ _ _ _ _ Ek) as L1.
    destruct ob1 as [b|]; [destruct b|];
      try (pose proof (fill_all_ord c r1 Hm Ht Hg _ _ _ _ _ _ _ _ H) as [L _]; lia); discriminate. }
  rewrite (A t) by lia.
  destruct (fault c t).
  { apply IH; [exact H|]. eapply agree_sub; [| |exact A]; lia. }
  destruct (fill c cid).
  2:{ apply IH; [exact H|]. eapply agree_sub; [| |exact A]; lia. }
  destruct (run_kids r1 kids [] (S t)) as [[ks ob1] t1] eqn:Ek.
  pose proof (run_kids_mono r1 Hm _ _ _ _ _ _ Ek) as L1.
  destruct ob1 as [b|].
  - apply run_kids_from_runner in Ek. destruct Ek as (k0 & t0 & E0 & Nok).
    destruct b; [exfalso; eapply Nok; reflexivity| |discriminate].
    exfalso. eapply (Ht k0 t0 e). rewrite E0. reflexivity.
  - pose proof (fill_all_ord c r1 Hm Ht Hg _ _ _ _ _ _ _ _ H) as [L2 _].
    rewrite (run_kids_local c fl r1 r2 Hl Hm _ _ _ _ _ Ek) by (eapply agree_sub; [| |exact A]; lia).
    apply IH; [exact H|]. eapply agree_sub; [| |exact A]; lia.
Qed.

Lemma ctx_step_local c fl r1 r2 : runner_local c fl r1 r2 -> runner_mono r1 -> runner_total r1 ->
  g_fill (grd c) = true -> g_ctx (grd c) = true ->
  forall f errs t cx errs' t', ctx_step c r1 f errs t = (cx, errs', t', None) -> agree c fl t t' ->
  ctx_step (with_faults c fl) r2 f errs t = (cx, errs', t', None).
Proof.
  intros Hl Hm Ht Hf Hc f errs t cx errs' t' H A. unfold ctx_step in *. simpl. rewrite Hc in *.
  destruct (negb (with_ctx c)); [exact H|].
  assert (L : t < t').
  { destruct (fault c t); [inversion H; lia|]. destruct (ctxs c f); [|inversion H; lia].
    pose proof (fill_all_ord c r1 Hm Ht Hf _ _ _ _ _ _ _ _ H) as [L _]. lia. }
  rewrite (A t) by lia.
  destruct (fault c t); [exact H|]. destruct (ctxs c f); [|exact H].
  apply (fill_all_local c fl r1 r2 Hl Hm Ht Hf); [exact H|]. eapply agree_sub; [| |exact A]; lia.
Qed.

Lemma elab_step_local c fl f errs t r errs' h t' oe :
  elab_step c f errs t = (r, errs', h, t', oe) -> agree c fl t t' ->
  elab_step (with_faults c fl) f errs t = (r, errs', h, t', oe).
Proof.
  unfold elab_step. simpl. intros H A.
  assert (L : t' = S t) by (destruct (g_elab (grd c)); destruct (fault c t); try destruct (elab c f); inversion H; reflexivity).
  rewrite (A t) by lia. exact H.
Qed.

Lemma run_local fuel fl : forall first c tu te errs out t s t',
  grd c = all_guards ->
  run fuel first c tu te errs out t = (Ok s, t') -> agree c fl t t' ->
  run fuel first (with_faults c fl) tu te errs out t = (Ok s, t').
Proof.
  induction fuel as [|fuel IH]; intros first c tu te errs out t s t' Hg H A; [discriminate|].
  destruct (all_guards_fields c Hg) as (Hu & Hi & Hc & Hf & He).
  pose proof (run_ord _ _ _ _ _ _ _ _ _ _ Hg H) as [Lall _].
  cbn [run] in *.
  change (better_origin (with_faults c fl)) with (better_origin c).
  destruct (flatten (S fuel) 0 c tu (rev te) errs t) as [te1 errs1 t1|e1|] eqn:Efl; try discriminate.
  pose proof (flatten_ord _ _ _ _ _ _ _ _ _ _ Efl) as [L1 _].
  set (r1 := fun k t => run fuel false c [(better_origin c (q_of k) None, q_of k, 0)] [] [] [] t) in *.
  set (r2 := fun k t => run fuel false (with_faults c fl) [(better_origin c (q_of k) None, q_of k, 0)] [] [] [] t).
  assert (Hl : runner_local c fl r1 r2) by (intros k t0 s0 t0' E A0; apply IH; assumption).
  assert (Hm : runner_mono r1) by (intros k t0 o0 t0' E; apply (run_ord _ _ _ _ _ _ _ _ _ _ Hg E)).
  assert (Ht : runner_total r1) by (intros k t0 e0; apply run_total; assumption).
  assert (Lfin : t1 <= t').
  { destruct te1 as [|[q d] rest]; [inversion H; lia|].
    destruct q; try (inversion H; lia).
    destruct (ctx_step c r1 f errs1 t1) as [[[cx errs2] t2] ob] eqn:Ecx.
    pose proof (ctx_step_ord c r1 Hm Ht Hf Hc _ _ _ _ _ _ _ Ecx) as [L2 _].
    destruct ob; [inversion H; subst; lia|].
    destruct (elab_step c f errs2 t2) as [[[[r errs3] hide] t3] oe] eqn:Eel.
    pose proof (elab_step_ord _ _ _ _ _ _ _ _ _ He Eel) as [L3 _].
    destruct oe; [discriminate|].
    assert (Hk : forall first' tu' te' outN, run fuel first' c tu' te' errs3 outN t3 = (Ok s, t') -> t1 <= t')
      by (intros first' tu' te' outN E; pose proof (run_ord _ _ _ _ _ _ _ _ _ _ Hg E) as [L _]; lia).
    destruct first; [inversion H; lia|].
    destruct r as [|l|[i| |]|]; try (eapply Hk; eassumption).
    destruct (next_of rest) as [[| | |]|]; eapply Hk; eassumption. }
  rewrite (flatten_local _ fl _ _ _ _ _ _ _ _ _ Efl) by (eapply agree_sub; [| |exact A]; lia).
  destruct te1 as [|[q d] rest]; [exact H|].
  destruct q; try exact H.
  destruct (ctx_step c r1 f errs1 t1) as [[[cx errs2] t2] ob] eqn:Ecx.
  pose proof (ctx_step_ord c r1 Hm Ht Hf Hc _ _ _ _ _ _ _ Ecx) as [L2 _].
  destruct ob as [bad|].
  { inversion H; subst. exfalso. eapply ctx_step_bad_not_ok; eauto. }
  destruct (elab_step c f errs2 t2) as [[[[r errs3] hide] t3] oe] eqn:Eel.
  pose proof (elab_step_ord _ _ _ _ _ _ _ _ _ He Eel) as [L3 _].
  destruct oe as [e3|]; [discriminate|].
  assert (L4 : t3 <= t').
  { assert (Hk : forall first' tu' te' outN, run fuel first' c tu' te' errs3 outN t3 = (Ok s, t') -> t3 <= t')
      by (intros first' tu' te' outN E; apply (run_ord _ _ _ _ _ _ _ _ _ _ Hg E)).
    destruct first; [inversion H; lia|].
    destruct r as [|l|[i| |]|]; try (eapply Hk; eassumption).
    destruct (next_of rest) as [[| | |]|]; eapply Hk; eassumption. }
  rewrite (ctx_step_local c fl r1 r2 Hl Hm Ht Hf Hc _ _ _ _ _ _ Ecx) by (eapply agree_sub; [| |exact A]; lia).
  rewrite (elab_step_local c fl _ _ _ _ _ _ _ _ Eel) by (eapply agree_sub; [| |exact A]; lia).
  assert (Hrec : forall first' tu' te' outN, run fuel first' c tu' te' errs3 outN t3 = (Ok s, t') ->
            run fuel first' (with_faults c fl) tu' te' errs3 outN t3 = (Ok s, t')).
  { intros first' tu' te' outN E. apply IH; [assumption|exact E|]. eapply agree_sub; [| |exact A]; lia. }
  destruct first; [exact H|].
  destruct r as [|l|[i| |]|]; try (apply Hrec; exact H).
  destruct (next_of rest) as [[| | |]|]; apply Hrec; exact H.
Qed.

(* faults that did not fire have no effect: a run under fault set fl whose consumed ticks [t,t')
   carry no fault of fl and none of c is the run of c *)
Lemma extract_local c fl root s t' :
  grd c = src_guards -> extract_t c root 0 = (Ok s, t') -> agree c fl 0 t' ->
  extract_t (with_faults c fl) root 0 = (Ok s, t').
Proof.
  intros Hg. unfold extract_t. intros H A.
  change (root_q (with_faults c fl) root) with (root_q c root).
  apply run_local; [rewrite Hg; apply src_guards_all|exact H|exact A].
Qed.

(* ------------------------------------------------------------------------------------- *)
(* instrumented run: the same traversal, additionally recording for every yielded frame the   *)
(* tick at which it was yielded (= number of hook invocations made before the `yield`).       *)
(* [runT_erase] shows that forgetting the ticks gives M_Frames.run itself.                     *)

Inductive iter_res :=
  | IStop (o : outcome) (t : nat)
  | IEmit (fo : fout) (errs : list err) (t : nat) (tu' : list qent) (te' : list tent).

(* one round of the outer loop of extract_iter *)
Definition iterT (fuel' : nat) (c : cfg) (tu : list qent) (te : list tent) (errs : list err)
           (out_rev : list fout) (t : nat) : iter_res :=
  match flatten (S fuel') 0 c tu (rev te) errs t with
  | FlFuel => IStop OutOfFuel t
  | FlRaised e => IStop (Raised e) t
  | FlOk te errs t =>
    match te with
    | [] => IStop (Ok (Stack (rev out_rev) LNone (rev errs))) t
    | (QFr f org, d) :: rest =>
        let next := next_of rest in
        let runner k t := run fuel' false c [(better_origin c (q_of k) None, q_of k, 0)] [] [] [] t in
        match ctx_step c runner f errs t with
        | (_, _, t, Some bad) => IStop bad t
        | (cx, errs, t, None) =>
          match elab_step c f errs t with
          | (_, _, _, t, Some e) => IStop (Raised e) t
          | (r, errs, hide, t, None) =>
            let fo := FOut f hide org cx in
            match r with
            | ENone => IEmit fo errs t [] rest
            | EOne RNone => IEmit fo errs t [] rest
            | EOne RNext =>
                match next with
                | None | Some QNone => IEmit fo errs t [] rest
                | _ => IEmit fo errs t (redepth d (requeue rest)) []
                end
            | _ =>
              let l := match r with ESeq l => l | EOne x => [x] | _ => [] end in
              let mk q := (better_origin c q None, q, d) in
              let tu' :=
                if ends_with_next next l
                then map mk (map (conc next) (removelast l)) ++ redepth d (requeue rest)
                else map mk (map (conc next) l) ++ dropge d (requeue rest) in
              IEmit fo errs t tu' []
            end
          end
        end
    | (q, _) :: rest =>
        IStop (Ok (Stack (rev out_rev)
                         (match rest with [] => LOne q | _ => LMany (map fst te) end)
                         (rev errs))) t
    end
  end.

Fixpoint runT (fuel : nat) (first : bool) (c : cfg) (tu : list qent) (te : list tent)
         (errs : list err) (outp : list (fout * nat)) (t : nat) : outcome * nat * list (fout * nat) :=
  match fuel with
  | 0 => (OutOfFuel, t, [])
  | S fuel' =>
      match iterT fuel' c tu te errs (map fst outp) t with
      | IStop o t' => (o, t', rev outp)
      | IEmit fo errs' t' tu' te' =>
          let outp' := (fo, t') :: outp in
          if first then (Ok (Stack (rev (map fst outp')) LNone (rev errs')), t', rev outp')
          else runT fuel' first c tu' te' errs' outp' t'
      end
  end.

Lemma runT_erase fuel : forall first c tu te errs outp t,
  fst (runT fuel first c tu te errs outp t) = run fuel first c tu te errs (map fst outp) t.
Proof.
  induction fuel as [|fuel IH]; intros first c tu te errs outp t; [reflexivity|].
  cbn [runT run]. unfold iterT.
  destruct (flatten (S fuel) 0 c tu (rev te) errs t) as [te1 errs1 t1|e1|]; try reflexivity.
  destruct te1 as [|[q d] rest]; [reflexivity|].
  destruct q; try reflexivity.
  cbv zeta.
  destruct (ctx_step c _ f errs1 t1) as [[[cx errs2] t2] ob]. destruct ob; [reflexivity|].
  destruct (elab_step c f errs2 t2) as [[[[r errs3] hide] t3] oe]. destruct oe; [reflexivity|].
  destruct first.
  - destruct r as [|l|[i| |]|]; try reflexivity. destruct (next_of rest) as [[| | |]|]; reflexivity.
  - destruct r as [|l|[i| |]|]; try (rewrite IH; reflexivity).
    destruct (next_of rest) as [[| | |]|]; rewrite IH; reflexivity.
Qed.

Lemma iterT_emit fuel c tu te errs out t fo errs' t' tu' te' :
  grd c = all_guards ->
  iterT fuel c tu te errs out t = IEmit fo errs' t' tu' te' ->
  exists f org d rest errs1 t1 cx errs2 t2 r hide,
    flatten (S fuel) 0 c tu (rev te) errs t = FlOk ((QFr f org, d) :: rest) errs1 t1 /\
    ctx_step c (fun k t => run fuel false c [(better_origin c (q_of k) None, q_of k, 0)] [] [] [] t) f errs1 t1
      = (cx, errs2, t2, None) /\
    elab_step c f errs2 t2 = (r, errs', hide, t', None) /\
    t <= t1 /\ t1 <= t2 /\ t' = S t2.
Proof.
  intros Hg H. destruct (all_guards_fields c Hg) as (Hu & Hi & Hc & Hf & He).
  unfold iterT in H.
  destruct (flatten (S fuel) 0 c tu (rev te) errs t) as [te1 errs1 t1|e1|] eqn:Efl; try discriminate.
  destruct te1 as [|[q d] rest]; [discriminate|]. destruct q; try discriminate.
  cbv zeta in H.
  match type of H with context [ctx_step c ?r f errs1 t1] => set (r1 := r) in * end.
  destruct (ctx_step c r1 f errs1 t1) as [[[cx errs2] t2] ob] eqn:Ecx. destruct ob; [discriminate|].
  destruct (elab_step c f errs2 t2) as [[[[r errs3] hide] t3] oe] eqn:Eel. destruct oe; [discriminate|].
  assert (Hm : runner_mono r1) by (intros k t0 o0 t0' E; apply (run_ord _ _ _ _ _ _ _ _ _ _ Hg E)).
  assert (Ht : runner_total r1) by (intros k t0 e0; apply run_total; assumption).
  pose proof (flatten_ord _ _ _ _ _ _ _ _ _ _ Efl) as [L1 _].
  pose proof (ctx_step_ord c r1 Hm Ht Hf Hc _ _ _ _ _ _ _ Ecx) as [L2 _].
  assert (L3 : t3 = S t2).
  { unfold elab_step in Eel. rewrite He in Eel. destruct (fault c t2); [inversion Eel; reflexivity|].
    destruct (elab c f); inversion Eel; reflexivity. }
  assert (E : errs' = errs3 /\ t' = t3).
  { destruct r as [|l|[i| |]|]; try (inversion H; auto; fail).
    destruct (next_of rest) as [[| | |]|]; inversion H; auto. }
  destruct E as [-> ->].
  exists f, org, d, rest, errs1, t1, cx, errs2, t2, r, hide. repeat split; auto.
Qed.

Lemma iterT_local fuel c fl tu te errs out t fo errs' t' tu' te' :
  grd c = all_guards ->
  iterT fuel c tu te errs out t = IEmit fo errs' t' tu' te' -> agree c fl t t' ->
  iterT fuel (with_faults c fl) tu te errs out t = IEmit fo errs' t' tu' te'.
Proof.
  intros Hg H A. destruct (all_guards_fields c Hg) as (Hu & Hi & Hc & Hf & He).
  destruct (iterT_emit _ _ _ _ _ _ _ _ _ _ _ _ Hg H)
    as (f & org & d & rest & errs1 & t1 & cx & errs2 & t2 & r & hide & Efl & Ecx & Eel & L1 & L2 & L3).
  unfold iterT in *.
  change (better_origin (with_faults c fl)) with (better_origin c).
  rewrite Efl in H. cbv zeta in H. rewrite Ecx, Eel in H.
  rewrite (flatten_local _ fl _ _ _ _ _ _ _ _ _ Efl) by (eapply agree_sub; [| |exact A]; lia).
  cbv zeta.
  set (r1 := fun k t => run fuel false c [(better_origin c (q_of k) None, q_of k, 0)] [] [] [] t) in *.
  set (r2 := fun k t => run fuel false (with_faults c fl) [(better_origin c (q_of k) None, q_of k, 0)] [] [] [] t).
  assert (Hl : runner_local c fl r1 r2) by (intros k t0 s0 t0' E A0; apply run_local; assumption).
  assert (Hm : runner_mono r1) by (intros k t0 o0 t0' E; apply (run_ord _ _ _ _ _ _ _ _ _ _ Hg E)).
  assert (Ht : runner_total r1) by (intros k t0 e0; apply run_total; assumption).
  rewrite (ctx_step_local c fl r1 r2 Hl Hm Ht Hf Hc _ _ _ _ _ _ Ecx) by (eapply agree_sub; [| |exact A]; lia).
  rewrite (elab_step_local c fl _ _ _ _ _ _ _ _ Eel) by (eapply agree_sub; [| |exact A]; lia).
  exact H.
Qed.

(* pairs recorded after a state are stamped with later ticks, and nothing recorded is lost *)
Lemma runT_pairs fuel : forall first c tu te errs outp t s t' ps,
  grd c = all_guards ->
  runT fuel first c tu te errs outp t = (Ok s, t', ps) ->
  exists new, ps = rev outp ++ new /\ forall p, In p new -> t < snd p.
Proof.
  induction fuel as [|fuel IH]; intros first c tu te errs outp t s t' ps Hg H; [discriminate|].
  cbn [runT] in H.
  destruct (iterT fuel c tu te errs (map fst outp) t) as [o t1|fo errs1 t1 tu1 te1] eqn:I.
  - inversion H; subst. exists []. split; [symmetry; apply app_nil_r|intros p []].
  - destruct (iterT_emit _ _ _ _ _ _ _ _ _ _ _ _ Hg I) as (f & org & d & rest & e1 & u1 & cx & e2 & u2 & r & hide & _ & _ & _ & L1 & L2 & L3).
    destruct first.
    + inversion H; subst. exists [(fo, S u2)]. split; [reflexivity|]. intros p [<-|[]]. simpl. lia.
    + apply IH in H; [|assumption]. destruct H as (new & -> & Hn).
      exists ((fo, t1) :: new). split; [simpl; rewrite <- app_assoc; reflexivity|].
      intros p [<-|Hp]; [simpl; lia|]. apply Hn in Hp. lia.
Qed.

Definition upto (T : nat) (ps : list (fout * nat)) : list (fout * nat) :=
  filter (fun p => snd p <=? T) ps.

Lemma upto_late T base new : (forall p, In p new -> T < snd p) -> upto T (base ++ new) = upto T base.
Proof.
  intros H. unfold upto. rewrite filter_app.
  replace (filter (fun p : fout * nat => snd p <=? T) new) with (@nil (fout * nat)); [apply app_nil_r|].
  symmetry. induction new as [|p new IH]; [reflexivity|]. simpl.
  destruct (snd p <=? T) eqn:E.
  - apply Nat.leb_le in E. specialize (H p (or_introl eq_refl)). lia.
  - apply IH. intros q Hq. apply H. right. assumption.
Qed.

(* a run whose current round does not yield a frame by tick T yields nothing more by tick T *)
Lemma runT_late fuel first c tu te errs outp t s t' ps T :
  grd c = all_guards ->
  runT (S fuel) first c tu te errs outp t = (Ok s, t', ps) ->
  (forall fo e t3 tu' te', iterT fuel c tu te errs (map fst outp) t = IEmit fo e t3 tu' te' -> T < t3) ->
  upto T ps = upto T (rev outp).
Proof.
  intros Hg H Hl. cbn [runT] in H.
  destruct (iterT fuel c tu te errs (map fst outp) t) as [o t1|fo errs1 t1 tu1 te1] eqn:I.
  - inversion H; subst. reflexivity.
  - specialize (Hl _ _ _ _ _ eq_refl). destruct first.
    + inversion H; subst. simpl. apply upto_late. intros p [<-|[]]. exact Hl.
    + apply runT_pairs in H; [|assumption]. destruct H as (new & -> & Hn). simpl. rewrite <- app_assoc.
      apply upto_late. intros p [<-|Hp]; [exact Hl|]. apply Hn in Hp. lia.
Qed.

(* TWO-RUN PREFIX.  The same tables under two fault sets that agree on every tick below T: both
   runs yield exactly the same frames (same frame, flags, origin, contexts, child stacks), in the
   same order and at the same ticks, up to tick T. *)
Lemma two_run_prefix fuel : forall first c fl T tu te errs outp t s1 t1 ps1 s2 t2 ps2,
  grd c = all_guards -> (forall x, x < T -> fl x = fault c x) ->
  runT fuel first c tu te errs outp t = (Ok s1, t1, ps1) ->
  runT fuel first (with_faults c fl) tu te errs outp t = (Ok s2, t2, ps2) ->
  upto T ps1 = upto T ps2.
Proof.
  induction fuel as [|fuel IH]; intros first c fl T tu te errs outp t s1 t1 ps1 s2 t2 ps2 Hg A H1 H2; [discriminate|].
  set (c2 := with_faults c fl) in *.
  assert (Hg2 : grd c2 = all_guards) by exact Hg.
  assert (Hback : with_faults c2 (fault c) = c) by apply with_faults_back.
  assert (A12 : forall b, b <= T -> agree c fl t b) by (intros b Lb x Hx; apply A; lia).
  assert (A21 : forall b, b <= T -> agree c2 (fault c) t b) by (intros b Lb x Hx; simpl; symmetry; apply A; lia).
  destruct (iterT fuel c tu te errs (map fst outp) t) as [o u1|fo e1 u1 tu1 te1] eqn:I1.
  - (* c stops in this round *)
    rewrite (runT_late fuel first c tu te errs outp t s1 t1 ps1 T Hg H1) by (intros; congruence).
    symmetry. apply (runT_late fuel first c2 tu te errs outp t s2 t2 ps2 T Hg2 H2).
    intros fo e t3 tu' te' I2. destruct (Nat.lt_ge_cases T t3) as [L|L]; [exact L|exfalso].
    pose proof (iterT_local fuel c2 (fault c) _ _ _ _ _ _ _ _ _ _ Hg2 I2 (A21 t3 L)) as I1'.
    rewrite Hback in I1'. congruence.
  - destruct (Nat.lt_ge_cases T u1) as [L|L].
    + (* c yields its next frame only after T *)
      rewrite (runT_late fuel first c tu te errs outp t s1 t1 ps1 T Hg H1) by (intros ? ? ? ? ? E; rewrite I1 in E; inversion E; subst; exact L).
      symmetry. apply (runT_late fuel first c2 tu te errs outp t s2 t2 ps2 T Hg2 H2).
      intros fo' e t3 tu' te' I2. destruct (Nat.lt_ge_cases T t3) as [L'|L']; [exact L'|exfalso].
      pose proof (iterT_local fuel c2 (fault c) _ _ _ _ _ _ _ _ _ _ Hg2 I2 (A21 t3 L')) as I1'.
      rewrite Hback in I1'. rewrite I1 in I1'. inversion I1'; subst. lia.
    + (* the round completes by T: identical under both fault sets, continue in lockstep *)
      pose proof (iterT_local fuel c fl _ _ _ _ _ _ _ _ _ _ Hg I1 (A12 u1 L)) as I2.
      cbn [runT] in H1, H2. fold c2 in I2. rewrite I1 in H1. rewrite I2 in H2.
      destruct first.
      * inversion H1; inversion H2; subst. reflexivity.
      * eapply IH; [exact Hg|exact A|exact H1|exact H2].
Qed.

Lemma iterT_stop_frames fuel c tu te errs out t frs lf es t' :
  iterT fuel c tu te errs out t = IStop (Ok (Stack frs lf es)) t' -> frs = rev out.
Proof.
  unfold iterT. intros H.
  destruct (flatten (S fuel) 0 c tu (rev te) errs t) as [te1 errs1 t1|e1|]; try discriminate.
  destruct te1 as [|[q d] rest]; [inversion H; reflexivity|].
  destruct q; try (inversion H; reflexivity).
  cbv zeta in H.
  match type of H with context [ctx_step c ?r f errs1 t1] => destruct (ctx_step c r f errs1 t1) as [[[cx errs2] t2] ob] eqn:Ecx end.
  destruct ob as [bad|].
  { inversion H; subst. exfalso. eapply ctx_step_bad_not_ok; eauto. }
  destruct (elab_step c f errs2 t2) as [[[[r errs3] hide] t3] oe]. destruct oe; [discriminate|].
  destruct r as [|l|[i| |]|]; try discriminate. destruct (next_of rest) as [[| | |]|]; discriminate.
Qed.

Lemma runT_frames fuel : forall first c tu te errs outp t frs lf es t' ps,
  runT fuel first c tu te errs outp t = (Ok (Stack frs lf es), t', ps) -> frs = map fst ps.
Proof.
  induction fuel as [|fuel IH]; intros first c tu te errs outp t frs lf es t' ps H; [discriminate|].
  cbn [runT] in H.
  destruct (iterT fuel c tu te errs (map fst outp) t) as [o t1|fo errs1 t1 tu1 te1] eqn:I.
  - inversion H; subst. apply iterT_stop_frames in I. rewrite I. symmetry. apply map_rev.
  - destruct first; [|eapply IH; eassumption].
    inversion H; subst. rewrite map_app, map_rev. reflexivity.
Qed.

(* faulty extraction against the fault-free one: with no fault of [fl] below tick T (T = the first
   fired fault), every frame the faulty extraction yields by tick T is yielded by the fault-free
   extraction too, identical and in the same order, and vice versa *)
Lemma extract_prefix_vs_fault_free c fl T root s1 t1 ps1 s2 t2 ps2 :
  grd c = src_guards -> (forall x, x < T -> fl x = false) ->
  runT default_fuel false (no_faults c) (root_q c root) [] [] [] 0 = (Ok s1, t1, ps1) ->
  runT default_fuel false (with_faults c fl) (root_q c root) [] [] [] 0 = (Ok s2, t2, ps2) ->
  upto T ps1 = upto T ps2
  /\ extract (no_faults c) root = Ok s1 /\ s_frames s1 = map fst ps1
  /\ extract (with_faults c fl) root = Ok s2 /\ s_frames s2 = map fst ps2.
Proof.
  intros Hg A H1 H2.
  assert (Hg' : grd (no_faults c) = all_guards) by (simpl; rewrite Hg; apply src_guards_all).
  split; [|split; [|split; [|split]]].
  - change (with_faults c fl) with (with_faults (no_faults c) fl) in H2.
    eapply (two_run_prefix default_fuel false (no_faults c) fl T); [exact Hg'|exact A|exact H1|exact H2].
  - unfold extract, extract_t. change (root_q (no_faults c) root) with (root_q c root).
    pose proof (runT_erase default_fuel false (no_faults c) (root_q c root) [] [] [] 0) as E.
    rewrite H1 in E. cbn [fst map] in E. rewrite <- E. reflexivity.
  - destruct s1 as [frs lf es]. simpl. eapply runT_frames. exact H1.
  - unfold extract, extract_t. change (root_q (with_faults c fl) root) with (root_q c root).
    pose proof (runT_erase default_fuel false (with_faults c fl) (root_q c root) [] [] [] 0) as E.
    rewrite H2 in E. cbn [fst map] in E. rewrite <- E. reflexivity.
  - destruct s2 as [frs lf es]. simpl. eapply runT_frames. exact H2.
Qed.
