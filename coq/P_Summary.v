(* P_Summary.v — lemmas about the summary model M_Summary.v (property C19). *)
Require Import Base M_Format M_Summary P_Format.
From Coq Require Import NArith String.

Definition visb (sh h : bool) : bool := negb h || sh.

Lemma hide_if {X} (h sh : bool) (x : list X) : (if h && negb sh then [] else x) = (if visb sh h then x else []).
Proof. destruct h, sh; reflexivity. Qed.

Lemma flat_map_filter_gen {X Y} (p : X -> bool) (g : X -> list Y) xs :
  flat_map (fun x => if p x then g x else []) xs = flat_map g (filter p xs).
Proof. induction xs as [|x xs IH]; simpl; auto. destruct (p x); simpl; rewrite IH; reflexivity. Qed.

(* without contexts: one entry per visible frame, in order *)
Lemma no_contexts sh cl s :
  summary false sh cl s = map (frame_entry cl) (filter (fun f => visb sh (f_hide f)) (s_frames s)).
Proof.
  unfold summary. destruct s as [r fs lf er]. simpl.
  erewrite flat_map_ext; [|intros f; apply hide_if].
  apply (flat_map_filter (fun f => visb sh (f_hide f)) (frame_entry cl)).
Qed.

(* reference description of the with-contexts projection, written from the property text *)
Definition child_contexts (ks : list child) : list context :=
  flat_map (fun k => match k with KCtx c => [c] | KStk _ => [] end) ks.
Definition c_inner (c : context) := let 'Ctx _ _ _ _ _ _ _ _ _ i _ _ := c in i.
Definition c_kids (c : context) := let 'Ctx _ _ _ _ _ _ _ _ _ _ k _ := c in k.

Lemma with_contexts sh cl :
  (forall s, summary true sh cl s
             = flat_map (sum_frame sh cl) (filter (fun f => visb sh (f_hide f)) (s_frames s)))
  /\ (forall f, sum_frame sh cl f
                = flat_map (sum_ctx f sh cl None) (filter (fun c => visb sh (c_hide c)) (f_ctxs f))
                  ++ (if last_exiting (f_ctxs f) then [] else [frame_entry cl f]))
  /\ (forall p ov c, sum_ctx p sh cl ov c
                = if visb sh (c_hide c)
                  then ctx_entry p cl ov c
                       :: (match c_inner c with Some s => summary true sh cl s | None => [] end)
                       ++ flat_map (fun c' => sum_ctx p sh cl (Some (child_override c')) c') (child_contexts (c_kids c))
                  else []).
Proof.
  split; [|split].
  - intros [r fs lf er]. unfold summary. simpl.
    erewrite flat_map_ext; [|intros f; apply hide_if]. apply flat_map_filter_gen.
  - intros [fn cls md file ln src loc h hl cs]. simpl. f_equal.
    rewrite <- flat_map_filter_gen. apply flat_map_ext. intros c.
    destruct c as [ty asy ex vn sl ds csrc cr orp inn ks hh]. simpl. rewrite hide_if. destruct (visb sh hh); reflexivity.
  - intros p ov [ty asy ex vn sl ds csrc cr orp inn ks hh]. simpl. rewrite hide_if.
    destruct (visb sh hh); auto. f_equal. f_equal.
    unfold child_contexts. induction ks as [|k ks IH]; simpl; auto.
    destruct k as [c1|s1]; simpl; rewrite IH; auto.
Qed.

(* the summary and the tree format select the same visible frames / contexts, in the same
   order, level by level; child task stacks appear in the format only *)
Lemma projection_levels o cl :
  show_ctx o = true ->
  (forall r fs lf er,
      let V := filter (fun f => visb (show_hidden o) (f_hide f)) fs in
      summary true (show_hidden o) cl (Stk r fs lf er) = flat_map (sum_frame (show_hidden o) cl) V
      /\ (let 'SkStack sf _ _ := sk_body o (Stk r fs lf er) in sf) = map (sk_of_frame o) V)
  /\ (forall f,
      let V := filter (fun c => visb (show_hidden o) (c_hide c)) (f_ctxs f) in
      sum_frame (show_hidden o) cl f
      = flat_map (sum_ctx f (show_hidden o) cl None) V ++ (if last_exiting (f_ctxs f) then [] else [frame_entry cl f])
      /\ (let 'SkFrame _ cx _ := sk_of_frame o f in cx) = map (sk_of_ctx o true true) V).
Proof.
  intros Hc. destruct (with_contexts (show_hidden o) cl) as [H1 [H2 _]]. split.
  - intros r fs lf er V. split; [apply (H1 (Stk r fs lf er))|].
    simpl. apply (flat_map_filter (fun f => vis o (f_hide f)) (sk_of_frame o)).
  - intros f V. split; [apply H2|]. destruct f as [fn cls md file ln src loc h hl cs]. simpl. rewrite Hc.
    apply (flat_map_filter (fun c => vis o (c_hide c)) (sk_of_ctx o true true)).
Qed.

Lemma flat_eq (render : list entry -> list text) sc s :
  format_flat render sc s
  = header_text (s_root s)
    :: (if nonempty (s_frames s) then render (summary sc false false s) else [])
    ++ flat_leaf (s_leaf s) ++ flat_err (s_err s).
Proof. reflexivity. Qed.

(* the header and error section of the flat format are those of the tree format *)

(* ------------------------------------------------------------------ whole-tree projection *)
From Coq Require Import Permutation.

(* a header of the tree format: a frame's own line, or the first line of a context (a context
   of a frame: override = None; a child context: override = Some "# ...") *)
Inductive header := HFrame (f : frame) | HCtx (parent : frame) (override : option text) (c : context).

Definition entry_of (cl : bool) (h : header) : entry :=
  match h with HFrame f => frame_entry cl f | HCtx p ov c => ctx_entry p cl ov c end.
Definition is_none {A} (o : option A) : bool := match o with None => true | Some _ => false end.
(* the body of the line that the tree format prints for that header *)
Definition hdr_line (h : header) : text :=
  match h with HFrame f => frame_header f | HCtx _ ov c => ctx_line (is_none ov) (is_none ov) c end.

(* SUMMARY order: per frame the headers of its contexts, then the frame's own header (dropped
   when the last context is exiting); child task stacks are skipped *)
Fixpoint headers_stack (sh : bool) (s : stack) : list header :=
  flat_map (fun f => if visb sh (f_hide f) then headers_frame sh f else []) (s_frames s)
with headers_frame (sh : bool) (f : frame) : list header :=
  flat_map (headers_ctx sh f None) (f_ctxs f)
  ++ (if last_exiting (f_ctxs f) then [] else [HFrame f])
with headers_ctx (sh : bool) (p : frame) (ov : option text) (c : context) : list header :=
  if visb sh (c_hide c) then
    let 'Ctx _ _ _ _ _ _ _ _ _ inn ks _ := c in
    HCtx p ov c
    :: (match inn with Some s => headers_stack sh s | None => [] end)
    ++ flat_map (fun k => match k with
                          | KCtx c' => headers_ctx sh p (Some (child_override c')) c'
                          | KStk _ => []
                          end) ks
  else [].

(* FORMAT order: the frame's own header first (always printed), then its contexts *)
Fixpoint pre_stack (sh : bool) (s : stack) : list header :=
  flat_map (fun f => if visb sh (f_hide f) then pre_frame sh f else []) (s_frames s)
with pre_frame (sh : bool) (f : frame) : list header :=
  HFrame f :: flat_map (pre_ctx sh f None) (f_ctxs f)
with pre_ctx (sh : bool) (p : frame) (ov : option text) (c : context) : list header :=
  if visb sh (c_hide c) then
    let 'Ctx _ _ _ _ _ _ _ _ _ inn ks _ := c in
    HCtx p ov c
    :: (match inn with Some s => pre_stack sh s | None => [] end)
    ++ flat_map (fun k => match k with
                          | KCtx c' => pre_ctx sh p (Some (child_override c')) c'
                          | KStk _ => []
                          end) ks
  else [].

Definition kept (h : header) : bool :=
  match h with HFrame f => negb (last_exiting (f_ctxs f)) | HCtx _ _ _ => true end.

(* ---- T1: the summary is the entry of every header, in summary order *)
Lemma map_flat_map_gen {X Y Z} (g : Y -> Z) (F : X -> list Y) (G : X -> list Z) xs :
  (forall x, In x xs -> map g (F x) = G x) -> map g (flat_map F xs) = flat_map G xs.
Proof. induction xs as [|x xs IH]; simpl; auto. intros H. rewrite map_app, H, IH; auto. Qed.

Section Headers.
  Variables sh cl : bool.

  Definition Hs (s : stack) : Prop := sum_stack true sh cl s = map (entry_of cl) (headers_stack sh s).
  Definition Hf (f : frame) : Prop := sum_frame sh cl f = map (entry_of cl) (headers_frame sh f).
  Definition Hc (c : context) : Prop :=
    forall p ov, sum_ctx p sh cl ov c = map (entry_of cl) (headers_ctx sh p ov c).
  Definition Hk (k : child) : Prop := match k with KCtx c => Hc c | KStk _ => True end.

  Lemma summary_headers_all : (forall s, Hs s) /\ (forall f, Hf f) /\ (forall c, Hc c) /\ (forall k, Hk k).
  Proof.
    apply tree_ind.
    - intros r fs lf er HF. unfold Hs. simpl. symmetry. apply map_flat_map_gen. intros f Hin.
      eapply Forall_forall in HF; [|eassumption]. rewrite hide_if. destruct (visb sh (f_hide f)); [symmetry; apply HF | reflexivity].
    - intros fn cls md file ln src loc h hl cs HC. unfold Hf. simpl. rewrite map_app. f_equal.
      + symmetry. apply map_flat_map_gen. intros c Hin. eapply Forall_forall in HC; [|eassumption]. symmetry. apply HC.
      + destruct (last_exiting cs); reflexivity.
    - intros ty asy ex vn sl ds cs cr orp inn ks h Hi HK p ov. simpl. rewrite hide_if.
      destruct (visb sh h); auto. simpl. f_equal. rewrite map_app. f_equal.
      + destruct inn as [s|]; [apply Hi | reflexivity].
      + symmetry. apply map_flat_map_gen. intros k Hin. eapply Forall_forall in HK; [|eassumption].
        destruct k as [c'|s']; [symmetry; apply HK | reflexivity].
    - intros c H. exact H.
    - intros s _. exact I.
  Qed.

  Theorem summary_is_headers s : summary true sh cl s = map (entry_of cl) (headers_stack sh s).
  Proof. apply summary_headers_all. Qed.
End Headers.

(* ---- T3: summary order is the format order with each frame's own header moved behind the
   headers of its contexts (and dropped when the last context is exiting) *)
Lemma Permutation_flat_map_in {X Y} (F G : X -> list Y) xs :
  (forall x, In x xs -> Permutation (F x) (G x)) -> Permutation (flat_map F xs) (flat_map G xs).
Proof.
  induction xs as [|x xs IH]; simpl; auto. intros H. apply Permutation_app; [apply H; auto | apply IH; auto].
Qed.

Lemma filter_flat_map {X Y} (p : Y -> bool) (F : X -> list Y) xs :
  filter p (flat_map F xs) = flat_map (fun x => filter p (F x)) xs.
Proof. induction xs as [|x xs IH]; simpl; auto. rewrite filter_app, IH. reflexivity. Qed.

Section Reorder.
  Variable sh : bool.
  Definition Rs (s : stack) : Prop := Permutation (headers_stack sh s) (filter kept (pre_stack sh s)).
  Definition Rf (f : frame) : Prop := Permutation (headers_frame sh f) (filter kept (pre_frame sh f)).
  Definition Rc (c : context) : Prop := forall p ov, Permutation (headers_ctx sh p ov c) (filter kept (pre_ctx sh p ov c)).
  Definition Rk (k : child) : Prop := match k with KCtx c => Rc c | KStk _ => True end.

  Lemma reorder_all : (forall s, Rs s) /\ (forall f, Rf f) /\ (forall c, Rc c) /\ (forall k, Rk k).
  Proof.
    apply tree_ind.
    - intros r fs lf er HF. unfold Rs. simpl. rewrite filter_flat_map. apply Permutation_flat_map_in.
      intros f Hin. eapply Forall_forall in HF; [|eassumption]. destruct (visb sh (f_hide f)); simpl; [exact HF | constructor].
    - intros fn cls md file ln src loc h hl cs HC. unfold Rf.
      set (f := Frm fn cls md file ln src loc h hl cs).
      change (headers_frame sh f) with (flat_map (headers_ctx sh f None) cs ++ (if last_exiting cs then [] else [HFrame f])).
      change (pre_frame sh f) with (HFrame f :: flat_map (pre_ctx sh f None) cs).
      simpl filter. change (f_ctxs f) with cs.
      assert (HP : Permutation (flat_map (headers_ctx sh f None) cs) (filter kept (flat_map (pre_ctx sh f None) cs))).
      { rewrite filter_flat_map. apply Permutation_flat_map_in. intros c Hin. eapply Forall_forall in HC; [|eassumption]. apply HC. }
      destruct (last_exiting cs); simpl.
      + rewrite app_nil_r. exact HP.
      + eapply Permutation_trans; [apply Permutation_app_comm|]. simpl. apply perm_skip. exact HP.
    - intros ty asy ex vn sl ds cs cr orp inn ks h Hi HK p ov. simpl.
      destruct (visb sh h); simpl; auto. apply perm_skip. rewrite filter_app. apply Permutation_app.
      + destruct inn as [s|]; simpl; [apply Hi | constructor].
      + rewrite filter_flat_map. apply Permutation_flat_map_in. intros k Hin. eapply Forall_forall in HK; [|eassumption].
        destruct k as [c'|s']; simpl; [apply HK | constructor].
    - intros c H. exact H.
    - intros s _. exact I.
  Qed.
End Reorder.

(* ---- T2: format order = the header lines of the tree format, child task stacks removed.
   [prune] deletes child task stacks; the skeleton below is what C18_roundtrip reads back from
   the formatted text of the pruned tree; [sk_pre_*] lists its header lines top to bottom. *)
Fixpoint prune_stack (s : stack) : stack :=
  let 'Stk r fs lf er := s in Stk r (map prune_frame fs) lf er
with prune_frame (f : frame) : frame :=
  let 'Frm a b c d e g l h hl cs := f in Frm a b c d e g l h hl (map prune_ctx cs)
with prune_ctx (c : context) : context :=
  let 'Ctx a b c0 d e g i j k inn ks h := c in
  Ctx a b c0 d e g i j k
      (match inn with Some s => Some (prune_stack s) | None => None end)
      (flat_map (fun k => match k with KCtx c' => [KCtx (prune_ctx c')] | KStk _ => [] end) ks) h.

Fixpoint sk_pre_stack (s : sk_stack) : list text :=
  let 'SkStack fs _ _ := s in flat_map sk_pre_frame fs
with sk_pre_frame (f : sk_frame) : list text :=
  let 'SkFrame hdr cx _ := f in hdr :: flat_map sk_pre_node cx
with sk_pre_node (n : sk_node) : list text :=
  let 'SkNode line inner kids := n in line :: sk_pre_stack inner ++ flat_map sk_pre_node kids.

Lemma prune_frame_hide f : f_hide (prune_frame f) = f_hide f.
Proof. destruct f; reflexivity. Qed.
Lemma prune_frame_header f : frame_header (prune_frame f) = frame_header f.
Proof. destruct f; reflexivity. Qed.
Lemma prune_ctx_hide c : c_hide (prune_ctx c) = c_hide c.
Proof. destruct c; reflexivity. Qed.
Lemma prune_ctx_line hp sl c : ctx_line hp sl (prune_ctx c) = ctx_line hp sl c.
Proof. destruct c; reflexivity. Qed.

Section FormatOrder.
  Variable o : fopts.
  Hypothesis Hsc : show_ctx o = true.
  Let sh := show_hidden o.

  Definition Ts (s : stack) : Prop :=
    sk_pre_stack (sk_body o (prune_stack s)) = map hdr_line (pre_stack sh s).
  Definition Tf (f : frame) : Prop :=
    sk_pre_frame (sk_of_frame o (prune_frame f)) = map hdr_line (pre_frame sh f).
  Definition Tc (c : context) : Prop :=
    forall p ov, visb sh (c_hide c) = true ->
      sk_pre_node (sk_of_ctx o (is_none ov) (is_none ov) (prune_ctx c)) = map hdr_line (pre_ctx sh p ov c).
  Definition Tk (k : child) : Prop := match k with KCtx c => Tc c | KStk _ => True end.

  Lemma pre_ctx_hidden p ov c : visb sh (c_hide c) = false -> pre_ctx sh p ov c = [].
  Proof. destruct c; simpl. intros ->. reflexivity. Qed.

  Lemma fo_ctxs p cs : Forall Tc cs ->
    flat_map sk_pre_node
      (flat_map (fun c => if vis o (c_hide c) then [sk_of_ctx o true true c] else []) (map prune_ctx cs))
    = map hdr_line (flat_map (pre_ctx sh p None) cs).
  Proof.
    induction 1 as [|c cs Hc _ IH]; simpl; auto.
    rewrite prune_ctx_hide. unfold vis. fold sh. change (negb (c_hide c) || sh) with (visb sh (c_hide c)).
    rewrite map_app, <- IH.
    destruct (visb sh (c_hide c)) eqn:Hv.
    - simpl. f_equal. apply (Hc p None Hv).
    - rewrite (pre_ctx_hidden p None c Hv). reflexivity.
  Qed.

  Lemma fo_kids p ks : Forall Tk ks ->
    flat_map sk_pre_node
      (flat_map (fun k => match k with
                          | KCtx c' => if vis o (c_hide c') then [sk_of_ctx o false false c'] else []
                          | KStk s => [SkNode (child_root_line (s_root s)) (sk_body o s) []]
                          end)
                (flat_map (fun k => match k with KCtx c' => [KCtx (prune_ctx c')] | KStk _ => [] end) ks))
    = map hdr_line (flat_map (fun k => match k with
                                       | KCtx c' => pre_ctx sh p (Some (child_override c')) c'
                                       | KStk _ => []
                                       end) ks).
  Proof.
    induction 1 as [|k ks Hk _ IH]; simpl; auto.
    destruct k as [c'|s']; simpl; [|exact IH].
    rewrite prune_ctx_hide. unfold vis. fold sh. change (negb (c_hide c') || sh) with (visb sh (c_hide c')).
    rewrite map_app, <- IH.
    destruct (visb sh (c_hide c')) eqn:Hv'.
    - simpl. f_equal. apply (Hk p (Some (child_override c')) Hv').
    - rewrite (pre_ctx_hidden _ _ c' Hv'). reflexivity.
  Qed.

  Lemma format_order_all : (forall s, Ts s) /\ (forall f, Tf f) /\ (forall c, Tc c) /\ (forall k, Tk k).
  Proof.
    apply tree_ind.
    - intros r fs lf er HF. unfold Ts. simpl.
      induction HF as [|f fs Hf _ IH]; simpl; auto.
      rewrite prune_frame_hide. unfold vis. fold sh. change (negb (f_hide f) || sh) with (visb sh (f_hide f)).
      destruct (visb sh (f_hide f)); simpl; [|exact IH].
      rewrite map_app, <- IH, <- Hf. reflexivity.
    - intros fn cls md file ln src loc h hl cs HC. unfold Tf.
      set (f := Frm fn cls md file ln src loc h hl cs).
      change (pre_frame sh f) with (HFrame f :: flat_map (pre_ctx sh f None) cs).
      simpl. rewrite Hsc. f_equal. apply fo_ctxs. exact HC.
    - intros ty asy ex vn sl ds cs cr orp inn ks h Hi HK p ov Hv.
      set (c := Ctx ty asy ex vn sl ds cs cr orp inn ks h) in *.
      change (pre_ctx sh p ov c) with
        (if visb sh (c_hide c) then
           HCtx p ov c :: (match inn with Some s => pre_stack sh s | None => [] end)
           ++ flat_map (fun k => match k with KCtx c' => pre_ctx sh p (Some (child_override c')) c' | KStk _ => [] end) ks
         else []).
      rewrite Hv. simpl map. simpl sk_of_ctx. simpl sk_pre_node. f_equal. rewrite map_app. f_equal.
      + destruct inn as [s|]; [apply Hi | reflexivity].
      + apply fo_kids. exact HK.
    - intros c H. exact H.
    - intros s _. exact I.
  Qed.

  Theorem format_order s :
    sk_pre_stack (snd (skeleton_visible o (prune_stack s))) = map hdr_line (pre_stack sh s).
  Proof. apply format_order_all. Qed.
End FormatOrder.


(* child task stacks contribute nothing to the summary: it is the same for the pruned tree *)
Definition same_info (p q : frame) : Prop :=
  f_file p = f_file q /\ f_lineno p = f_lineno q /\ f_func p = f_func q /\ f_src p = f_src q.

Lemma last_exiting_prune cs : last_exiting (map prune_ctx cs) = last_exiting cs.
Proof.
  unfold last_exiting, last_opt. rewrite <- map_rev. destruct (rev cs) as [|c r]; simpl; auto.
  destruct c; reflexivity.
Qed.

Section PruneSummary.
  Variables sh cl : bool.
  Definition Ss (s : stack) : Prop := forall sc, sum_stack sc sh cl (prune_stack s) = sum_stack sc sh cl s.
  Definition Sf (f : frame) : Prop :=
    sum_frame sh cl (prune_frame f) = sum_frame sh cl f /\ frame_entry cl (prune_frame f) = frame_entry cl f.
  Definition Sc (c : context) : Prop :=
    forall p q ov, same_info p q -> sum_ctx q sh cl ov (prune_ctx c) = sum_ctx p sh cl ov c.
  Definition Sk (k : child) : Prop := match k with KCtx c => Sc c | KStk _ => True end.

  Lemma prune_summary_all : (forall s, Ss s) /\ (forall f, Sf f) /\ (forall c, Sc c) /\ (forall k, Sk k).
  Proof.
    apply tree_ind.
    - intros r fs lf er HF sc. simpl. induction HF as [|f fs Hf _ IH]; simpl; auto.
      rewrite prune_frame_hide, IH. destruct Hf as [H1 H2]. rewrite H1, H2. reflexivity.
    - intros fn cls md file ln src loc h hl cs HC. split; [|reflexivity].
      set (f := Frm fn cls md file ln src loc h hl cs).
      change (sum_frame sh cl (prune_frame f))
        with (flat_map (sum_ctx (prune_frame f) sh cl None) (map prune_ctx cs)
              ++ (if last_exiting (map prune_ctx cs) then [] else [frame_entry cl (prune_frame f)])).
      change (sum_frame sh cl f)
        with (flat_map (sum_ctx f sh cl None) cs ++ (if last_exiting cs then [] else [frame_entry cl f])).
      rewrite last_exiting_prune. f_equal.
      assert (SI : same_info f (prune_frame f)) by (repeat split).
      clearbody f. induction HC as [|c cs Hc _ IH]; simpl; auto. rewrite IH, (Hc f (prune_frame f) None SI). reflexivity.
    - intros ty asy ex vn sl ds cs cr orp inn ks h Hi HK p q ov SI. simpl.
      destruct (h && negb sh); auto. f_equal.
      + destruct SI as [E1 [E2 [E3 E4]]]. unfold ctx_entry. simpl. rewrite E1, E2, E3, E4. reflexivity.
      + f_equal.
        * destruct inn as [s|]; [apply Hi | reflexivity].
        * induction HK as [|k ks Hk _ IH]; simpl; auto.
          destruct k as [c'|s']; simpl; [|exact IH]. rewrite IH. f_equal.
          replace (child_override (prune_ctx c')) with (child_override c') by (destruct c'; reflexivity).
          apply Hk. exact SI.
    - intros c H. exact H.
    - intros s _. exact I.
  Qed.

  Theorem prune_summary sc s : summary sc sh cl (prune_stack s) = summary sc sh cl s.
  Proof. apply prune_summary_all. Qed.
End PruneSummary.

(* the two orders differ exactly in where a frame's own header sits *)
Lemma order_equations sh :
  (forall f, pre_frame sh f = HFrame f :: flat_map (pre_ctx sh f None) (f_ctxs f)
             /\ headers_frame sh f = flat_map (headers_ctx sh f None) (f_ctxs f)
                                     ++ (if last_exiting (f_ctxs f) then [] else [HFrame f]))
  /\ (forall p ov c,
        pre_ctx sh p ov c
        = (if visb sh (c_hide c)
           then HCtx p ov c :: (match c_inner c with Some s => pre_stack sh s | None => [] end)
                ++ flat_map (fun c' => pre_ctx sh p (Some (child_override c')) c') (child_contexts (c_kids c))
           else [])
        /\ headers_ctx sh p ov c
        = (if visb sh (c_hide c)
           then HCtx p ov c :: (match c_inner c with Some s => headers_stack sh s | None => [] end)
                ++ flat_map (fun c' => headers_ctx sh p (Some (child_override c')) c') (child_contexts (c_kids c))
           else [])).
Proof.
  split.
  - intros [fn cls md file ln src loc h hl cs]. split; reflexivity.
  - intros p ov [ty asy ex vn sl ds csrc cr orp inn ks hh]. simpl.
    destruct (visb sh hh); [|split; reflexivity].
    split; f_equal; f_equal; unfold child_contexts;
      (induction ks as [|k ks IH]; simpl; auto; destruct k as [c1|s1]; simpl; rewrite IH; auto).
Qed.

Theorem projection o cl t :
  show_ctx o = true ->
  let sh := show_hidden o in
  summary true sh cl t = map (entry_of cl) (headers_stack sh t)
  /\ (exists hdr sk, read_back (fmt_stack_sl o (prune_stack t)) = Some (hdr, sk)
                     /\ sk_pre_stack sk = map hdr_line (pre_stack sh t))
  /\ summary true sh cl (prune_stack t) = summary true sh cl t
  /\ Permutation (headers_stack sh t) (filter kept (pre_stack sh t)).
Proof.
  intros Hsc sh. split; [|split; [|split]].
  - apply summary_is_headers.
  - eexists. eexists. split; [apply roundtrip|]. apply (format_order o Hsc).
  - apply prune_summary.
  - apply reorder_all.
Qed.
