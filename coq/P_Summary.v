(* P_Summary.v — lemmas about the summary model M_Summary.v (property C19). *)
Require Import Base M_Format M_Summary P_Format.
From Coq Require Import NArith String.

Definition visb (sh h : bool) : bool := negb h || sh.

Lemma hide_if {X} (h sh : bool) (x : list X) : (if h && negb sh then [] else x) = (if visb sh h then x else []).
Proof. destruct h, sh; reflexivity. Qed.

Lemma flat_map_filter_gen {X Y} (p : X -> bool) (g : X -> list Y) xs :
  flat_map (fun x => if p x then g x else []) xs = flat_map g (filter p xs).
Proof. induction xs as [|x xs IH]; simpl; auto. destruct (p x); simpl; rewrite IH; reflexivity. Qed.

(* without contexts: one entry per visible frame, in order *)
Lemma no_contexts sh cl s :
  summary false sh cl s = map (frame_entry cl) (filter (fun f => visb sh (f_hide f)) (s_frames s)).
Proof.
  unfold summary. destruct s as [r fs lf er]. simpl.
  erewrite flat_map_ext; [|intros f; apply hide_if].
  apply (flat_map_filter (fun f => visb sh (f_hide f)) (frame_entry cl)).
Qed.

(* reference description of the with-contexts projection, written from the property text *)
Definition child_contexts (ks : list child) : list context :=
  flat_map (fun k => match k with KCtx c => [c] | KStk _ => [] end) ks.
Definition c_inner (c : context) := let 'Ctx _ _ _ _ _ _ _ _ _ i _ _ := c in i.
Definition c_kids (c : context) := let 'Ctx _ _ _ _ _ _ _ _ _ _ k _ := c in k.

Lemma with_contexts sh cl :
  (forall s, summary true sh cl s
             = flat_map (sum_frame sh cl) (filter (fun f => visb sh (f_hide f)) (s_frames s)))
  /\ (forall f, sum_frame sh cl f
                = flat_map (sum_ctx f sh cl None) (filter (fun c => visb sh (c_hide c)) (f_ctxs f))
                  ++ (if last_exiting (f_ctxs f) then [] else [frame_entry cl f]))
  /\ (forall p ov c, sum_ctx p sh cl ov c
                = if visb sh (c_hide c)
                  then ctx_entry p cl ov c
                       :: (match c_inner c with Some s => summary true sh cl s | None => [] end)
                       ++ flat_map (fun c' => sum_ctx p sh cl (Some (child_override c')) c') (child_contexts (c_kids c))
                  else []).
Proof.
  split; [|split].
  - intros [r fs lf er]. unfold summary. simpl.
    erewrite flat_map_ext; [|intros f; apply hide_if]. apply flat_map_filter_gen.
  - intros [fn cls md file ln src loc h hl cs]. simpl. f_equal.
    rewrite <- flat_map_filter_gen. apply flat_map_ext. intros c.
    destruct c as [ty asy ex vn sl ds csrc cr orp inn ks hh]. simpl. rewrite hide_if. destruct (visb sh hh); reflexivity.
  - intros p ov [ty asy ex vn sl ds csrc cr orp inn ks hh]. simpl. rewrite hide_if.
    destruct (visb sh hh); auto. f_equal. f_equal.
    unfold child_contexts. induction ks as [|k ks IH]; simpl; auto.
    destruct k as [c1|s1]; simpl; rewrite IH; auto.
Qed.

(* the summary and the tree format select the same visible frames / contexts, in the same
   order, level by level; child task stacks appear in the format only *)
Lemma projection_levels o cl :
  show_ctx o = true ->
  (forall r fs lf er,
      let V := filter (fun f => visb (show_hidden o) (f_hide f)) fs in
      summary true (show_hidden o) cl (Stk r fs lf er) = flat_map (sum_frame (show_hidden o) cl) V
      /\ (let 'SkStack sf _ _ := sk_body o (Stk r fs lf er) in sf) = map (sk_of_frame o) V)
  /\ (forall f,
      let V := filter (fun c => visb (show_hidden o) (c_hide c)) (f_ctxs f) in
      sum_frame (show_hidden o) cl f
      = flat_map (sum_ctx f (show_hidden o) cl None) V ++ (if last_exiting (f_ctxs f) then [] else [frame_entry cl f])
      /\ (let 'SkFrame _ cx _ := sk_of_frame o f in cx) = map (sk_of_ctx o true true) V).
Proof.
  intros Hc. destruct (with_contexts (show_hidden o) cl) as [H1 [H2 _]]. split.
  - intros r fs lf er V. split; [apply (H1 (Stk r fs lf er))|].
    simpl. apply (flat_map_filter (fun f => vis o (f_hide f)) (sk_of_frame o)).
  - intros f V. split; [apply H2|]. destruct f as [fn cls md file ln src loc h hl cs]. simpl. rewrite Hc.
    apply (flat_map_filter (fun c => vis o (c_hide c)) (sk_of_ctx o true true)).
Qed.

Lemma flat_eq (render : list entry -> list text) sc s :
  format_flat render sc s
  = header_text (s_root s)
    :: (if nonempty (s_frames s) then render (summary sc false false s) else [])
    ++ flat_leaf (s_leaf s) ++ flat_err (s_err s).
Proof. reflexivity. Qed.

(* the header and error section of the flat format are those of the tree format *)
