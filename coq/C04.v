(* C04 -- running-stack extraction and StackSlice slicing equal slices of the true stack.
   Property theorems only (proved in P_Slice.v) about the model functions of M_Slice.v that the
   correspondence (harness/c04.py) evaluates on real stacks. *)
From Coq Require Import ZArith String.
Require Import Base M_Slice P_Slice P_PySlice.
From SS.gen Require Import SrcFacts.

(* wf w = all frames are pairwise distinct objects (nothing else).
   For every world (= every segmentation of the running stack into nested greenlets, any frames
   of stackscope's own between the API and get_true_caller), every outer/inner in the true stack
   or None with outer not inward of inner, every limit >= 1 or None: extract(StackSlice(...))
   yields exactly the contiguous sub-list outer..inner of the flattened true stack; a limit
   keeps the frames nearest outer if only outer is given, else nearest inner / the caller. *)
Theorem C04_slice_exact : forall w o i lim,
  wf w -> true_caller w <> None ->
  anchor_ok w o -> anchor_ok w i -> ordered w o i -> limit_ok lim ->
  unwrap_stackslice w {| s_outer := o; s_inner := i; s_limit := lim |}
  = SFrames (keep_limit lim o i (between o i (true_stack w))).
Proof. exact slice_exact. Qed.
Print Assumptions C04_slice_exact.

(* the true stack is the concatenation of the greenlet segments, outermost greenlet first *)
Theorem C04_true_stack_segments : forall w,
  true_stack w = concat (rev (map (@rev nat) (caller_chain w :: w_parents w))).
Proof. exact true_stack_segments. Qed.
Print Assumptions C04_true_stack_segments.

(* no returned frame is one of stackscope's own (the frames get_true_caller skips) *)
Theorem C04_no_own_frames : forall w o i lim l,
  wf w -> true_caller w <> None ->
  anchor_ok w o -> anchor_ok w i -> ordered w o i -> limit_ok lim ->
  unwrap_stackslice w {| s_outer := o; s_inner := i; s_limit := lim |} = SFrames l ->
  forall f, In f l -> In f (true_stack w) /\ ~ In f (own_frames w).
Proof. exact no_own_frames. Qed.
Print Assumptions C04_no_own_frames.

(* extract_since(None) = the whole true stack, ending with the caller *)
Theorem C04_since_none : forall w,
  wf w -> true_caller w <> None ->
  run_api w (ASince None) = AOk (SFrames (true_stack w))
  /\ exists pre tc, true_caller w = Some tc /\ true_stack w = pre ++ [tc].
Proof. exact since_none. Qed.
Print Assumptions C04_since_none.

(* extract_until(inner, limit=n) *)
Theorem C04_until_int_limit : forall w i lim,
  wf w -> true_caller w <> None -> In i (true_stack w) -> limit_ok lim ->
  run_api w (AUntilN i lim)
  = AOk (SFrames (keep_limit lim None (Some i) (between None (Some i) (true_stack w)))).
Proof. exact until_int_limit. Qed.
Print Assumptions C04_until_int_limit.

(* extract_until(inner, limit=frame): a limit reachable from inner by f_back is in the true
   stack, not inward of inner, and the result is the slice limit..inner; otherwise it raises *)
Theorem C04_until_frame_limit : forall w i lim,
  wf w -> true_caller w <> None -> In i (true_stack w) ->
  (In lim (chain_from w i) ->
     run_api w (AUntilF i lim) = AOk (SFrames (between (Some lim) (Some i) (true_stack w)))
     /\ In lim (true_stack w) /\ In i (from_anchor lim (true_stack w)))
  /\ (~ In lim (chain_from w i) -> run_api w (AUntilF i lim) = ARaised).
Proof. exact until_frame_limit. Qed.
Print Assumptions C04_until_frame_limit.

(* outer on another thread's stack (first such thread in sys._current_frames() order), no
   inner: that thread's frames from outer inward; a limit keeps the frames nearest outer *)
Theorem C04_other_thread_outer : forall w o lim pre ch post,
  wf w -> true_caller w <> None ->
  w_threads w = pre ++ (false, ch) :: post ->
  (forall me c, In (me, c) pre -> me = true \/ ~ In o c) ->
  In o ch -> ~ In o (thread_frames w) -> limit_ok lim ->
  unwrap_stackslice w {| s_outer := Some o; s_inner := None; s_limit := lim |}
  = SFrames (keep_limit lim (Some o) None (from_anchor o (rev ch))).
Proof. exact other_thread_outer. Qed.
Print Assumptions C04_other_thread_outer.

Theorem C04_other_thread_example :
  wf w_thr /\ unwrap_stackslice w_thr {| s_outer := Some 10; s_inner := None; s_limit := Some 2%Z |}
              = SFrames [10; 11].
Proof. exact w_thr_ok. Qed.
Print Assumptions C04_other_thread_example.

(* the hypotheses are met by a non-trivial world (nested greenlets, one parent never started) *)
Theorem C04_hypotheses_satisfiable :
  wf w_ex /\ true_caller w_ex = Some 7 /\ anchor_ok w_ex (Some 1) /\ anchor_ok w_ex (Some 6)
  /\ ordered w_ex (Some 1) (Some 6) /\ limit_ok (Some 2%Z)
  /\ unwrap_stackslice w_ex {| s_outer := Some 1; s_inner := Some 6; s_limit := Some 2%Z |} = SFrames [5; 6].
Proof. exact w_ex_ok. Qed.
Print Assumptions C04_hypotheses_satisfiable.


(* python slicing: the index arithmetic of M_Slice.py_slice (PySlice_AdjustIndices, slice length,
   copy loop) equals the direct recursive definition py_slice_spec -- bounds counted from the end
   if negative, cut to the list, then every |step|-th element of the (reversed, for a negative
   step) segment -- for all lists, all start/stop in {None} + Z and every step *)
Theorem C04_py_slice_correct : forall (l : list nat) (a b : option Z) (step : Z),
  py_slice l a b step = py_slice_spec l a b step.
Proof. exact (@py_slice_correct nat). Qed.
Print Assumptions C04_py_slice_correct.

(* the step the code uses: l[a:b:-1] is the reversed segment between the normalised bounds *)
Theorem C04_py_slice_step_m1 : forall (l : list nat) a b,
  py_slice l a b (-1) =
  rev (skipn (Z.to_nat (match b with None => (-1)%Z | Some v => norm_bwd (Z.of_nat (length l)) v end + 1))
             (firstn (Z.to_nat (match a with None => (Z.of_nat (length l) - 1)%Z | Some v => norm_bwd (Z.of_nat (length l)) v end + 1)) l)).
Proof. exact (@py_slice_step_m1 nat). Qed.
Print Assumptions C04_py_slice_step_m1.

Theorem C04_py_slice_examples :
  py_slice_spec [0;1;2;3;4;5;6] (Some (-2)%Z) (Some (-100)%Z) (-2) = [5; 3; 1]
  /\ py_slice_spec [0;1;2;3;4;5;6] (Some 1%Z) None 3 = [1; 4]
  /\ py_slice_spec [0;1;2;3;4;5;6] None (Some 2%Z) (-1) = [6; 5; 4; 3].
Proof. exact py_slice_spec_examples. Qed.
Print Assumptions C04_py_slice_examples.

(* source fact (regenerated from stackscope/_types.py on every run, fail-closed): StackSlice is a
   plain @dataclass whose fields are declared in the order (outer, inner, limit), all defaulting to
   None -- so the positional constructor StackSlice(a, b, n) means outer=a, inner=b, limit=n, which
   is the argument order of the model's ASlice / sspec in every theorem above *)
Theorem C04_stackslice_positional_order : SrcFacts.c04_stackslice_field_order = true.
Proof. reflexivity. Qed.
Print Assumptions C04_stackslice_positional_order.

(* the argument checks of extract_since / extract_until (isinstance tests; bool is an int): an
   untyped call is exactly the typed call its value selects, anything else is a TypeError raised
   before any extraction — tied by the `sincev` / `untilv` queries of the correspondence *)
Theorem C04_argument_checks : forall w i,
  (forall v, run_api w (ASinceV v) =
             match v with
             | PNone => run_api w (ASince None)
             | PFrame n => run_api w (ASince (Some n))
             | _ => ATypeError
             end)
  /\ (forall v, run_api w (AUntilV i v) =
                match v with
                | PNone => run_api w (AUntilN i None)
                | PInt z => run_api w (AUntilN i (Some z))
                | PBool b => run_api w (AUntilN i (Some (if b then 1 else 0)%Z))
                | PFrame n => run_api w (AUntilF i n)
                | POther => ATypeError
                end).
Proof. intros w i. split; intros v; destruct v; reflexivity. Qed.
Print Assumptions C04_argument_checks.
