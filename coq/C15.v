(* C15 -- greenlet stacks per lifecycle state (proved in P_Greenlet.v) about the model functions
   M_Greenlet.unwrap_greenlet / M_Slice.unwrap_stackslice that harness/c15.py evaluates on real
   greenlet trees.  The greenback bridges: model M_Greenback.gb_extract (the three elaborators over
   the frame shapes recorded from real runs), evaluated by the correspondence kind "gb". *)
From Coq Require Import ZArith String.
Require Import Base M_Slice P_Slice M_Greenlet P_Greenlet M_Greenback P_Greenback P_GreenbackFrames.

(* unstarted or dead: no frames *)
Theorem C15_inactive_empty : forall w g,
  g_frame g = None -> g_active g = false -> unwrap_greenlet w g = GEmpty.
Proof. exact inactive_empty. Qed.
Print Assumptions C15_inactive_empty.

(* running in another thread: an error rather than some other stack *)
Theorem C15_elsewhere_raises : forall w g,
  g_frame g = None -> g_active g = true -> g_current g = false -> unwrap_greenlet w g = GRaise.
Proof. exact elsewhere_raises. Qed.
Print Assumptions C15_elsewhere_raises.

(* the same cell spelled out for the MAIN greenlet (parent None) of another live thread, running
   there: having no parent does not make it the asker's own main greenlet -- every thread has one *)
Theorem C15_foreign_main_raises : forall w g,
  g_parent g = None -> g_frame g = None -> g_active g = true -> g_current g = false ->
  unwrap_greenlet w g = GRaise.
Proof. intros w g _. exact (elsewhere_raises w g). Qed.
Print Assumptions C15_foreign_main_raises.

(* the greenlet making the call: exactly its own portion of the running stack *)
Theorem C15_current_own : forall w g tc,
  wf w -> g_frame g = None -> g_active g = true -> g_current g = true ->
  true_caller w = Some tc ->
  (forall x, g_parent g = Some (Some x) -> ~ In x (caller_chain w)) ->
  (g_parent g = None -> w_parents w = []) ->
  unwrap_greenlet w g = GSlice (SFrames (rev (caller_chain w))).
Proof. exact current_own. Qed.
Print Assumptions C15_current_own.

(* suspended, asked from outside / a sibling / another thread: its own frames entry..switch *)
Theorem C15_suspended_foreign : forall w g fr,
  g_frame g = Some fr ->
  NoDup (chain_from w fr) -> hd_error (chain_from w fr) = Some fr ->
  ~ In fr (thread_frames w) ->
  (has_parent w = true -> true_caller w <> None) ->
  unwrap_greenlet w g = GSlice (SFrames (rev (chain_from w fr))).
Proof. exact suspended_foreign. Qed.
Print Assumptions C15_suspended_foreign.

(* suspended, asked from a child / descendant (finding F8 before the fix): a greenlet whose
   gr_frame heads one of the asker's parent chains yields exactly that chain -- on wf w alone.
   Together with C15_suspended_foreign: the answer does not depend on who asks. *)
Theorem C15_asker_independent_ancestor : forall w g fr p,
  wf w -> true_caller w <> None ->
  g_frame g = Some fr -> In p (w_parents w) -> hd_error p = Some fr ->
  unwrap_greenlet w g = GSlice (SFrames (rev p)).
Proof. exact suspended_ancestor_wf. Qed.
Print Assumptions C15_asker_independent_ancestor.

Theorem C15_hypotheses_satisfiable :
  wf wg
  /\ unwrap_greenlet wg {| g_frame := Some 4; g_active := true; g_current := false; g_parent := Some (Some 2) |}
     = GSlice (SFrames [3; 4])
  /\ unwrap_greenlet wg {| g_frame := Some 21; g_active := true; g_current := false; g_parent := Some (Some 2) |}
     = GSlice (SFrames [20; 21])
  /\ unwrap_greenlet wg {| g_frame := None; g_active := true; g_current := true; g_parent := Some (Some 4) |}
     = GSlice (SFrames [5; 6])
  /\ thread_frames wg = [6; 5] ++ [4; 3] ++ [2; 1; 0] /\ chain_from wg 4 = [4; 3].
Proof. exact wg_examples. Qed.
Print Assumptions C15_hypotheses_satisfiable.

(* greenback, extraction from inside the task, j greenlets below its sync code, for EVERY number n
   of async/sync alternations, whichever level (if any) was last resumed by throw() and under
   either event loop: the visible frames are exactly the user's call stack -- through each await_
   bridge down to the caller's own frames -- and every bridging frame is hidden *)
Theorem C15_greenback_n_inside : forall n j err aio awt,
  exists l, gb_extract {| sc_inside := true; sc_n := n; sc_j := j; sc_err := err; sc_aio := aio; sc_awt := awt |} = GOk l
            /\ visible l = FShimCoro :: FTarget :: ulog awt n ++ [FA 0; FLeaf] ++ repeat FNested (S j) ++ [FProbe]
            /\ (forall k h, In (k, h) l -> bridging k = true -> h = true).
Proof. exact greenback_inside. Qed.
Print Assumptions C15_greenback_n_inside.

(* the same from outside the task (parked in a regular await at level 0); awt = every await_ is
   given a non-coroutine awaitable: adapt_awaitable and __await__ are frames on the way *)
Theorem C15_greenback_n_outside : forall n err aio awt,
  exists l, gb_extract {| sc_inside := false; sc_n := n; sc_j := 0; sc_err := err; sc_aio := aio; sc_awt := awt |} = GOk l
            /\ visible l = FShimCoro :: FTarget :: ulog awt n ++ [FA 0; FWait]
            /\ (forall k h, In (k, h) l -> bridging k = true -> h = true).
Proof. exact greenback_outside. Qed.
Print Assumptions C15_greenback_n_outside.

Theorem C15_greenback_example :
  visible (match gb_extract {| sc_inside := true; sc_n := 2; sc_j := 1; sc_err := Some 1; sc_aio := true; sc_awt := true |}
           with GOk l => l | _ => [] end)
  = [FShimCoro; FTarget; FA 2; FS 2; FAdapt; FDunder; FA 1; FS 1; FAdapt; FDunder; FA 0; FLeaf; FNested; FNested; FProbe].
Proof. exact greenback_example. Qed.
Print Assumptions C15_greenback_example.

(* composition with the general extract_iter model of C10: tabulating the greenback hooks'
   decisions for a scenario (gb_cfg) and running M_Frames.extract on that table yields exactly the
   frames and hide flags of gb_extract, no leaf, no error -- for every scenario with n <= 6
   alternations, j <= 3 nested greenlets, any throw()-resumed level <= 6, inside and outside, trio
   and asyncio (finite sweep, bound as stated) *)
Theorem C15_greenback_composes_with_extract_iter : forall inside aio awt n j err,
  n <= 6 -> j <= 3 -> (forall m, err = Some m -> m <= 6) ->
  compose_ok {| sc_inside := inside; sc_n := n; sc_j := j; sc_err := err; sc_aio := aio; sc_awt := awt |} = true.
Proof. exact greenback_composes. Qed.
Print Assumptions C15_greenback_composes_with_extract_iter.
