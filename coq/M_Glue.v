(* M_Glue.v — executable model of stackscope._glue.add_glue_as_needed / builtin_glue
   (property C17).  Definitions only; proofs live in P_Glue.v.

   What is modelled (hand-written from /repo/stackscope/_glue.py as it is now):
   * the part of sys.modules the history touches: an insertion-ordered association list
     name -> module object id; all other modules are the constant [w_base] (they have no glue);
   * per module object: whether its __dict__ still holds `_stackscope_install_glue_`
     ([popped]); objects without a usable __dict__ (e.g. `None` in sys.modules) are [ONoDict];
   * builtin_glue_pending (name -> function id; the k-th builtin_glue registration of a
     history creates function id k, as a decorator creates a fresh function object);
   * _sys_modules_len_cache[0], glue_lock, one program counter per extracting thread;
   * the chronological log of glue calls, warnings and extraction returns.
   Micro-steps of one thread in add_glue_as_needed: enter; read len(sys.modules); compare with
   the cache; acquire glue_lock; snapshot tuple(sys.modules); per name: pop built-in + pop module
   function (ONE step, see NOTES in harness/c17.py), call; write cache + release.  A step of the
   environment is one atomic dict operation on sys.modules or one builtin_glue registration.
   A glue function returns, raises Exception or raises BaseException, after performing a list
   of sys.modules insertions/removals (a glue that imports something).
   Whether the call is guarded, whether the lock is taken and whether lookups pop are NOT
   hard-wired: they are the [cfg] record regenerated from the source (gen/SrcFacts.v).
   builtin_glue(n)(f), rule of /repo 96b79e1: n already pending -> AssertionError; n imported ->
   f runs at once unless the module still carries its own glue (then f is dropped); else pending.
   Fields named g_* are ghost (history variables): they occur only in the g_* argument
   positions of [mkst], no step reads them to decide anything. *)
Require Import Base.
From SS.gen Require Import SrcFacts.

Inductive beh := BOk | BRaise | BBase.
Inductive irop := IIns (n o : nat) | IRem (n : nat).
Inductive envop := EIR (i : irop) | EReg (n : nat).
Record fnspec := mkfn { fbeh : beh; feff : list irop }.
(* [ONoDict] is the entry kind of every "odd" sys.modules value whose `.__dict__` cannot be used:
   None (import blocked), an object without __dict__, a module whose attribute access raises
   (e.g. a LazyLoader module whose deferred import fails: ModuleNotFoundError / RuntimeError /
   ValueError on ANY attribute, __dict__ included).  The guarded lookup yields no module-provided
   glue: the visit is the identity on module glue, a pending built-in for that name still runs. *)
Inductive objspec := ONoDict | OMod (g : option fnspec).

Record cfg := mkcfg { c_guarded : bool; c_locked : bool; c_pop : bool }.
Record world := mkworld { w_base : nat; w_objs : list objspec; w_bfns : list fnspec }.

Definition obj_of (w : world) (o : nat) : objspec := nth o (w_objs w) (OMod None).
Definition bfn_of (w : world) (f : nat) : fnspec := nth f (w_bfns w) (mkfn BOk []).
Definition glue_of (w : world) (o : nat) : option fnspec :=
  match obj_of w o with OMod g => g | ONoDict => None end.

(* insertion-ordered dict with nat keys *)
Fixpoint m_get (m : list (nat * nat)) (n : nat) : option nat :=
  match m with [] => None | (k, v) :: r => if k =? n then Some v else m_get r n end.
Fixpoint m_set (m : list (nat * nat)) (n o : nat) : list (nat * nat) :=
  match m with
  | [] => [(n, o)]
  | (k, v) :: r => if k =? n then (n, o) :: r else (k, v) :: m_set r n o
  end.
Fixpoint m_del (m : list (nat * nat)) (n : nat) : list (nat * nat) :=
  match m with [] => [] | (k, v) :: r => if k =? n then m_del r n else (k, v) :: m_del r n end.

Inductive event :=
  | EvCallM (o n : nat) (disc : option nat)   (* module glue of object o, visit of name n; disc (ghost) = built-in popped and dropped *)
  | EvCallB (f n : nat) (cur : option nat)    (* built-in f, visit of name n; cur (ghost) = object under n at the visit *)
  | EvImm (f n o : nat)                       (* built-in f run at registration time: module n already imported, o (ghost) = its object *)
  | EvWarn (modkind : bool) (n : nat)
  | EvAssert (n : nat)                        (* registration refused: name already pending *)
  | EvRet (t : nat) (ok : bool).              (* add_glue_as_needed returned (ok) / an exception propagated *)

Inductive pc :=
  | PIdle
  | PEnter
  | PRead (l : nat)
  | PSlow
  | PLocked
  | PScan (todo : list nat) (n : nat)
  | PCall (nm : nat) (mf bf cur : option nat) (todo : list nat) (n : nat)
  | PDone (ok : bool).

Record st := mkst {
  mods : list (nat * nat);
  popped : list nat;
  pend : list (nat * nat);
  cache : nat;
  lock : option nat;
  thr : nat -> pc;
  log : list event;                (* newest first *)
  nreg : nat;                      (* number of registrations so far = next function id *)
  (* ghost *)
  g_since_cache : bool;            (* a removal/replacement happened since the snapshot the cache value stems from *)
  g_since_snap : bool;             (* ... since the snapshot of the scan in progress *)
  g_nrem : nat;                    (* number of removals/replacements so far *)
  g_started : bool;                (* some thread has entered add_glue_as_needed *)
  g_late : bool;                   (* some registration happened after the first extraction had started *)
  g_snap_cache : list (nat * nat); (* the snapshot the cache value stems from *)
  g_snap_scan : list (nat * nat)   (* the snapshot of the scan in progress *)
}.

Definition init (w : world) (scanned : bool) : st :=
  mkst [] [] [] (if scanned then w_base w else 0) None (fun _ => PIdle) [] 0
       false false 0 false false [] [].

Definition set_thr (s : st) (t : nat) (p : pc) : st :=
  mkst (mods s) (popped s) (pend s) (cache s) (lock s)
       (fun t' => if t' =? t then p else thr s t') (log s) (nreg s)
       (g_since_cache s) (g_since_snap s) (g_nrem s) (g_started s) (g_late s) (g_snap_cache s) (g_snap_scan s).
Definition start_thr (s : st) (t : nat) : st :=
  mkst (mods s) (popped s) (pend s) (cache s) (lock s)
       (fun t' => if t' =? t then PEnter else thr s t') (log s) (nreg s)
       (g_since_cache s) (g_since_snap s) (g_nrem s) true (g_late s) (g_snap_cache s) (g_snap_scan s).
Definition add_log (s : st) (e : event) : st :=
  mkst (mods s) (popped s) (pend s) (cache s) (lock s) (thr s) (e :: log s) (nreg s)
       (g_since_cache s) (g_since_snap s) (g_nrem s) (g_started s) (g_late s) (g_snap_cache s) (g_snap_scan s).
Definition set_lock (s : st) (l : option nat) : st :=
  mkst (mods s) (popped s) (pend s) (cache s) l (thr s) (log s) (nreg s)
       (g_since_cache s) (g_since_snap s) (g_nrem s) (g_started s) (g_late s) (g_snap_cache s) (g_snap_scan s).
Definition release (s : st) (t : nat) : st :=
  match lock s with Some t' => if t' =? t then set_lock s None else s | None => s end.

Definition apply_ir (i : irop) (s : st) : st :=
  match i with
  | IIns n o =>
      let dirty := match m_get (mods s) n with Some o' => negb (o' =? o) | None => false end in
      mkst (m_set (mods s) n o) (popped s) (pend s) (cache s) (lock s) (thr s) (log s) (nreg s)
           (g_since_cache s || dirty) (g_since_snap s || dirty)
           (if dirty then S (g_nrem s) else g_nrem s) (g_started s) (g_late s) (g_snap_cache s) (g_snap_scan s)
  | IRem n =>
      match m_get (mods s) n with
      | Some _ =>
          mkst (m_del (mods s) n) (popped s) (pend s) (cache s) (lock s) (thr s) (log s) (nreg s)
               true true (S (g_nrem s)) (g_started s) (g_late s) (g_snap_cache s) (g_snap_scan s)
      | None => s
      end
  end.

Definition apply_irs (l : list irop) (s : st) : st := fold_left (fun s i => apply_ir i s) l s.

(* "_stackscope_install_glue_" in sys.modules[n].__dict__ (an object without __dict__: False) *)
Definition has_own (w : world) (s : st) (o : nat) : bool :=
  match glue_of w o with Some _ => negb (mem_nat o (popped s)) | None => false end.

Definition apply_env (w : world) (e : envop) (s : st) : st :=
  match e with
  | EIR i => apply_ir i s
  | EReg n =>
      let f := nreg s in
      let s1 := mkst (mods s) (popped s) (pend s) (cache s) (lock s) (thr s) (log s) (S (nreg s))
                     (g_since_cache s) (g_since_snap s) (g_nrem s) (g_started s)
                     (g_late s || g_started s) (g_snap_cache s) (g_snap_scan s) in
      match m_get (pend s) n with
      | Some _ => add_log s1 (EvAssert n)
      | None =>
          match m_get (mods s) n with
          | Some o =>
              (* already imported: run now, unless the module still carries its own glue
                 (then the built-in is dropped: neither run nor made pending) *)
              if has_own w s o then s1
              else apply_irs (feff (bfn_of w f)) (add_log s1 (EvImm f n o))
          | None =>
              mkst (mods s1) (popped s1) (pend s1 ++ [(n, f)]) (cache s1) (lock s1) (thr s1) (log s1) (nreg s1)
                   (g_since_cache s1) (g_since_snap s1) (g_nrem s1) (g_started s1) (g_late s1) (g_snap_cache s1) (g_snap_scan s1)
          end
      end
  end.

Definition some_or {A} (a b : option A) : bool :=
  match a, b with None, None => false | _, _ => true end.

(* one visit of the loop body up to (excluding) the call: both pops *)
Definition visit (c : cfg) (w : world) (t nm : nat) (todo : list nat) (n : nat) (s : st) : st :=
  let bf := m_get (pend s) nm in
  let cur := m_get (mods s) nm in
  let mf := match cur with
            | Some o => match glue_of w o with
                        | Some _ => if mem_nat o (popped s) then None else Some o
                        | None => None
                        end
            | None => None
            end in
  let pend' := if c_pop c then m_del (pend s) nm else pend s in
  let popped' := match mf with Some o => if c_pop c then o :: popped s else popped s | None => popped s end in
  let s1 := mkst (mods s) popped' pend' (cache s) (lock s) (thr s) (log s) (nreg s)
                 (g_since_cache s) (g_since_snap s) (g_nrem s) (g_started s) (g_late s) (g_snap_cache s) (g_snap_scan s) in
  set_thr s1 t (if some_or mf bf then PCall nm mf bf cur todo n else PScan todo n).

Definition abort (t : nat) (s : st) : st :=
  add_log (set_thr (release s t) t (PDone false)) (EvRet t false).

(* the call itself: log, side effects of the function, then its outcome *)
Definition call (c : cfg) (w : world) (t nm : nat) (mf bf cur : option nat) (todo : list nat) (n : nat) (s : st) : st :=
  let sel := match mf with
             | Some o => Some (EvCallM o nm bf, match glue_of w o with Some fs => fs | None => mkfn BOk [] end, true)
             | None => match bf with
                       | Some f => Some (EvCallB f nm cur, bfn_of w f, false)
                       | None => None
                       end
             end in
  match sel with
  | None => set_thr s t (PScan todo n)
  | Some (ev, fs, modkind) =>
      let s1 := apply_irs (feff fs) (add_log s ev) in
      match fbeh fs with
      | BOk => set_thr s1 t (PScan todo n)
      | BRaise =>
          if c_guarded c then set_thr (add_log s1 (EvWarn modkind nm)) t (PScan todo n)
          else abort t s1
      | BBase => abort t s1
      end
  end.

Definition tstep (c : cfg) (w : world) (t : nat) (s : st) : st :=
  match thr s t with
  | PIdle | PDone _ => start_thr s t
  | PEnter => set_thr s t (PRead (w_base w + length (mods s)))
  | PRead l =>
      if l =? cache s then add_log (set_thr s t (PDone true)) (EvRet t true)
      else set_thr s t PSlow
  | PSlow =>
      if c_locked c then
        match lock s with
        | None => set_thr (set_lock s (Some t)) t PLocked
        | Some _ => s
        end
      else set_thr s t PLocked
  | PLocked =>
      let s1 := mkst (mods s) (popped s) (pend s) (cache s) (lock s) (thr s) (log s) (nreg s)
                     (g_since_cache s) false (g_nrem s) (g_started s) (g_late s) (g_snap_cache s) (mods s) in
      set_thr s1 t (PScan (map fst (mods s)) (w_base w + length (mods s)))
  | PScan [] n =>
      let s1 := mkst (mods s) (popped s) (pend s) n (lock s) (thr s) (log s) (nreg s)
                     (g_since_snap s) (g_since_snap s) (g_nrem s) (g_started s) (g_late s) (g_snap_scan s) (g_snap_scan s) in
      add_log (set_thr (release s1 t) t (PDone true)) (EvRet t true)
  | PScan (nm :: todo) n => visit c w t nm todo n s
  | PCall nm mf bf cur todo n => call c w t nm mf bf cur todo n s
  end.

Inductive label := LEnv (e : envop) | LThr (t : nat).

Definition step (c : cfg) (w : world) (l : label) (s : st) : st :=
  match l with LEnv e => apply_env w e s | LThr t => tstep c w t s end.

Definition run (c : cfg) (w : world) (ls : list label) (s : st) : st :=
  fold_left (fun s l => step c w l s) ls s.

(* ---------------------------------------------------------------- coarse labels
   The harness can stop a real thread only at the guarded checkpoints of the source; a coarse
   label runs a thread to its next checkpoint ([CRun]) or through a whole call ([CFull]).
   Both are iterations of [step] (P_Glue.crun_is_run). *)
Definition is_stop (s : st) (p : pc) : bool :=
  match p with
  | PRead _ => false
  | PScan (nm :: _) _ => match m_get (pend s) nm with Some _ => true | None => false end
  | _ => true
  end.

Inductive stop := Stop (tag : nat) (name : nat) (locked : bool) | Stuck.

Definition stop_of (s : st) (t : nat) : stop :=
  let lk := match lock s with Some _ => true | None => false end in
  match thr s t with
  | PIdle => Stop 7 0 false
  | PEnter => Stop 0 0 lk
  | PRead _ => Stuck
  | PSlow => Stop 1 0 lk
  | PLocked => Stop 2 0 lk
  | PScan (nm :: _) _ => Stop 3 nm lk
  | PCall nm _ _ _ _ _ => Stop 4 nm lk
  | PScan [] _ => Stop 5 0 lk
  | PDone ok => Stop 6 (if ok then 1 else 0) false
  end.

Fixpoint to_stop (c : cfg) (w : world) (fuel t : nat) (s : st) : st :=
  match fuel with
  | 0 => s
  | S k => if is_stop s (thr s t) then s else to_stop c w k t (tstep c w t s)
  end.

Definition is_done (p : pc) : bool := match p with PDone _ => true | _ => false end.

Fixpoint to_done (c : cfg) (w : world) (fuel t : nat) (s : st) : st :=
  match fuel with
  | 0 => s
  | S k => if is_done (thr s t) then s else to_done c w k t (tstep c w t s)
  end.

Inductive clabel :=
  | CEnv (e : envop)
  | CRun (t : nat)        (* resume thread t (or start a new call) until its next checkpoint *)
  | CFull (t : nat)       (* a whole call of add_glue_as_needed by thread t *)
  | CBlocked (t : nat).   (* thread t was resumed at glue:slowpath and did not get the lock *)

Definition FUEL := 200.

Definition cstep (c : cfg) (w : world) (l : clabel) (s : st) : st * list stop :=
  match l with
  | CEnv e => (apply_env w e s, [])
  | CRun t => let s' := to_stop c w FUEL t (tstep c w t s) in (s', [stop_of s' t])
  | CFull t => let s' := to_done c w FUEL t (tstep c w t s) in
               (s', [if is_done (thr s' t) then stop_of s' t else Stuck])
  | CBlocked t =>
      (s, [match thr s t, lock s with
           | PSlow, Some t' => if t' =? t then Stuck else Stop 1 0 true
           | _, _ => Stuck
           end])
  end.

Fixpoint crun (c : cfg) (w : world) (ls : list clabel) (s : st) : st * list stop :=
  match ls with
  | [] => (s, [])
  | l :: r => let '(s1, a) := cstep c w l s in
              let '(s2, b) := crun c w r s1 in (s2, a ++ b)
  end.

(* ---------------------------------------------------------------- correspondence *)
Inductive oevent :=
  | OCallM (o n : nat) | OCallB (f n : nat) | OImm (f n : nat)
  | OWarn (modkind : bool) (n : nat) | OAssert (n : nat) | ORet (t : nat) (ok : bool).

Definition erase (e : event) : oevent :=
  match e with
  | EvCallM o n _ => OCallM o n
  | EvCallB f n _ => OCallB f n
  | EvImm f n _ => OImm f n
  | EvWarn b n => OWarn b n
  | EvAssert n => OAssert n
  | EvRet t ok => ORet t ok
  end.

Definition oevent_eqb (a b : oevent) : bool :=
  match a, b with
  | OCallM o n, OCallM o' n' => (o =? o') && (n =? n')
  | OCallB o n, OCallB o' n' => (o =? o') && (n =? n')
  | OImm o n, OImm o' n' => (o =? o') && (n =? n')
  | OWarn k n, OWarn k' n' => Bool.eqb k k' && (n =? n')
  | OAssert n, OAssert n' => n =? n'
  | ORet t k, ORet t' k' => (t =? t') && Bool.eqb k k'
  | _, _ => false
  end.

Definition stop_eqb (a b : stop) : bool :=
  match a, b with
  | Stop t n l, Stop t' n' l' => (t =? t') && (n =? n') && Bool.eqb l l'
  | _, _ => false      (* Stuck never matches: the model could not follow the schedule *)
  end.

Definition src_cfg : cfg := mkcfg glue_call_guarded glue_under_lock glue_pop_before_call.

Record glue_case := mkcase {
  gc_world : world;
  gc_scanned : bool;            (* initial cache: just scanned (true) / never scanned (false) *)
  gc_sched : list clabel;
  gc_obs : list oevent;         (* observed chronological log *)
  gc_stops : list stop;         (* observed checkpoint reached after every CRun/CFull/CBlocked *)
  gc_final : list (nat * bool)  (* observed at the end: name -> still in builtin_glue_pending *)
}.

Definition model_run (k : glue_case) : st * list stop :=
  crun src_cfg (gc_world k) (gc_sched k) (init (gc_world k) (gc_scanned k)).

Definition case_ok (k : glue_case) : bool :=
  let '(s, stops) := model_run k in
  list_eqb oevent_eqb (map erase (rev (log s))) (gc_obs k)
  && list_eqb stop_eqb stops (gc_stops k)
  && forallb (fun p => Bool.eqb (match m_get (pend s) (fst p) with Some _ => true | None => false end) (snd p))
             (gc_final k).

Definition mismatches (l : list glue_case) : list nat := false_indices 0 (map case_ok l).

Definition is_call (e : event) : bool :=
  match e with EvCallM _ _ _ | EvCallB _ _ _ | EvImm _ _ _ => true | _ => false end.

Definition count_nontrivial (l : list glue_case) : nat :=
  count_true (map (fun k => existsb is_call (log (fst (model_run k)))) l).
