(* M_Purity.v — stackscope's hidden (module-level) state and what one extraction does to it.
   Definitions only.  The components are the ones harness/facts_c06.py finds written from inside
   functions in stackscope's runtime modules (and nothing else: SrcFacts.c06_module_state_allowlisted):
     - builtin_glue_pending (names of modules whose built-in glue is still to be installed),
     - the sys.modules length cache of add_glue_as_needed,
     - the trickery switch _can_use_trickery,
     - the per-thread option store (None outside any extraction),
     - hook registries (written only by register(); an extraction does not register).
   Values are tagged with their provenance: [FromTarget] marks anything derived from the object
   being inspected (frames, managers, value-stack objects). *)
Require Import Base.

Inductive prov := Own | FromTarget.

Record hidden := {
  pending : list nat;                 (* module ids with built-in glue pending *)
  len_cache : nat;
  trickery_sw : option bool;
  opts : option (bool * bool);        (* this thread's options; None outside extraction *)
  registry_size : nat
}.

(* the environment an extraction runs in: sys.modules (ids of modules present, each with or
   without own glue), auto-detection result *)
Record env := { modules : list nat; detect : bool }.

(* what one top-level extract() does to the hidden state:
   glue scan (if the length changed): pending modules that are present get installed and leave
   the table, the cache is written; trickery auto-detected on first use; options pushed and
   restored.  The result of the extraction is a function of target and environment only. *)
Definition glue_scan (e : env) (h : hidden) : hidden :=
  if length (modules e) =? len_cache h then h else
  {| pending := filter (fun m => negb (mem_nat m (modules e))) (pending h);
     len_cache := length (modules e);
     trickery_sw := trickery_sw h; opts := opts h; registry_size := registry_size h |}.

Definition detect_trickery (e : env) (h : hidden) : hidden :=
  match trickery_sw h with
  | Some _ => h
  | None => {| pending := pending h; len_cache := len_cache h; trickery_sw := Some (detect e);
               opts := opts h; registry_size := registry_size h |}
  end.

Definition extract_hidden (e : env) (wc rc : bool) (h : hidden) : hidden :=
  let h1 := glue_scan e h in
  let h2 := {| pending := pending h1; len_cache := len_cache h1; trickery_sw := trickery_sw h1;
               opts := Some (wc, rc); registry_size := registry_size h1 |} in
  let h3 := if wc then detect_trickery e h2 else h2 in
  (* finally: restore the previous options *)
  {| pending := pending h3; len_cache := len_cache h3; trickery_sw := trickery_sw h3;
     opts := opts h; registry_size := registry_size h3 |}.

(* ghost reference counting of the frame snapshot: +1 per slot read, the list is dropped when
   the FrameDetails is; attempts that are retried drop their partial list *)
Fixpoint refs_after (attempts : list nat) : nat * nat :=   (* (taken, released) *)
  match attempts with
  | [] => (0, 0)
  | n :: r => let '(t, d) := refs_after r in (n + t, n + d)
  end.

(* ---- generated cases: hidden state observed before / after real extractions ---- *)
Definition hidden_eqb (a b : hidden) : bool :=
  list_eqb Nat.eqb (pending a) (pending b) && (len_cache a =? len_cache b)
  && option_eqb Bool.eqb (trickery_sw a) (trickery_sw b)
  && option_eqb (fun x y : bool * bool => Bool.eqb (fst x) (fst y) && Bool.eqb (snd x) (snd y)) (opts a) (opts b)
  && (registry_size a =? registry_size b).
Definition pcase := (env * bool * bool * hidden * hidden)%type.
Definition pcase_ok (k : pcase) : bool :=
  let '(e, wc, rc, h, h') := k in hidden_eqb (extract_hidden e wc rc h) h'.
Definition mismatches (cases : list pcase) : list nat := false_indices 0 (map pcase_ok cases).
Definition count_nontrivial (cases : list pcase) : nat :=
  count_true (map (fun k : pcase => let '(e, wc, rc, h, h') := k in negb (hidden_eqb h h')) cases).
