(* M_ExitStack.v — executable model of
     stackscope._glue.elaborate_exit_stack            (classification of ExitStack callbacks)
     stackscope._glue.elaborate_generatorbased_contextmanager  (inner_stack unless exiting)
   and of their recursion through _extract.fill_context / _extract.extract_child.
   Definitions only; proofs live in P_ExitStack.v.

   Modelled, not verified (validated against the real contextlib on every run, see [avec_ok]):
   [cl_attrs] = the attribute vector contextlib stores in [_exit_callbacks] for each of the
   registration methods.  The classifier [classify] reads nothing but that vector, exactly
   like the Python code reads nothing but attributes of the stored callback. *)
Require Import Base.

(* ------------------------------------------------------------------ registration kinds *)
(* what a function handed to push / push_async_exit looks like: a user function may share some
   (not all three) of the marks of contextlib's own _exit_wrapper closure *)
Inductive look :=
  | LPlain          (* ordinary function *)
  | LWraps          (* functools.wraps closure over *args, **kwds: __wrapped__ and free vars args, kwds *)
  | LFree           (* free vars args, kwds only *)
  | LWrapped        (* __wrapped__ only *)
  | LName           (* called _exit_wrapper, nothing else *)
  | LNameFree       (* called _exit_wrapper, free vars args, kwds *)
  | LNameWrapped.   (* called _exit_wrapper, __wrapped__ *)

Inductive regkind :=
  | KEnter | KPushMgr | KPushFn (lk : look) | KPushMeth | KCallback
  | KEnterA | KPushAMgr | KPushAFn (lk : look) | KPushAMeth | KACallback.

Definition lk_wrapped (l : look) : bool := match l with LWraps | LWrapped | LNameWrapped => true | _ => false end.
Definition lk_name (l : look) : bool := match l with LName | LNameFree | LNameWrapped => true | _ => false end.
Definition lk_free (l : look) : bool := match l with LWraps | LFree | LNameFree => true | _ => false end.

(* how the object handed to the registration method is reachable from the stored callback *)
Inductive crel := RSelfIs     (* callback.__self__ is the registered manager *)
                | RIs         (* callback is the registered function / bound method *)
                | RWrappedIs  (* callback.__wrapped__ is the registered callable *)
                | ROther.

Record avec := {
  a_sync : bool;          (* first component of the _exit_callbacks entry *)
  a_has_self : bool;      (* hasattr(callback, "__self__") *)
  a_is_method : bool;     (* isinstance(callback, types.MethodType) *)
  a_exitish : bool;       (* callback.__func__.__name__ in ("__exit__", "__aexit__") *)
  a_wrapped : bool;       (* hasattr(callback, "__wrapped__") *)
  a_wname : bool;         (* callback.__name__ == "_exit_wrapper" *)
  a_isfun : bool;         (* isinstance(callback, types.FunctionType) *)
  a_freevars : bool;      (* co_freevars >= {"args", "kwds"} *)
  a_truthy : bool;        (* bool(callback.__self__) (True when there is no __self__) *)
  a_rel : crel
}.

Definition is_sync_kind (k : regkind) : bool :=
  match k with KEnter | KPushMgr | KPushFn _ | KPushMeth | KCallback => true | _ => false end.

(* contextlib's representation (CPython 3.8+): _push_cm_exit stores MethodType(type(cm).__exit__, cm),
   push(f)/push_async_exit(f) store f itself, callback/push_async_callback store a closure
   _exit_wrapper with __wrapped__ set.  [falsy]: the manager / receiver is falsy;
   [exitname]: the pushed bound method is itself called __exit__ / __aexit__. *)
Definition cl_attrs (k : regkind) (falsy exitname : bool) : avec :=
  let s := is_sync_kind k in
  match k with
  | KEnter | KPushMgr | KEnterA | KPushAMgr =>
      {| a_sync := s; a_has_self := true; a_is_method := true; a_exitish := true; a_wrapped := false;
         a_wname := false; a_isfun := false; a_freevars := false; a_truthy := negb falsy; a_rel := RSelfIs |}
  | KPushMeth | KPushAMeth =>
      {| a_sync := s; a_has_self := true; a_is_method := true; a_exitish := exitname; a_wrapped := false;
         a_wname := false; a_isfun := false; a_freevars := false; a_truthy := negb falsy; a_rel := RIs |}
  | KPushFn lk | KPushAFn lk =>
      {| a_sync := s; a_has_self := false; a_is_method := false; a_exitish := false; a_wrapped := lk_wrapped lk;
         a_wname := lk_name lk; a_isfun := true; a_freevars := lk_free lk; a_truthy := true; a_rel := RIs |}
  | KCallback | KACallback =>
      {| a_sync := s; a_has_self := false; a_is_method := false; a_exitish := false; a_wrapped := true;
         a_wname := true; a_isfun := true; a_freevars := true; a_truthy := true; a_rel := RWrappedIs |}
  end.

(* ------------------------------------------------------------------ the classifier *)
Inductive meth := MEnter | MEnterA | MPush | MPushA | MCallback | MACallback
                | MOtherMeth (* observation only: any other text *).
Inductive argk :=
  | AReprSelf     (* repr(manager) *)
  | AFuncname     (* format_funcname(callback) *)
  | ACallArgs     (* format_funcname(callback.__wrapped__), *args, **kwds from the closure cells *)
  | AChildDesc    (* the description the child context got from its own elaborate_context *)
  | AOther.
Inductive osel := SelSelf | SelCallback.    (* Context.obj = callback.__self__ | callback *)

Record cls := { c_sel : osel; c_await : bool; c_meth : meth; c_arg : argk }.

(* body of the for-loop of elaborate_exit_stack up to the construction of child_context *)
Definition classify (a : avec) : cls :=
  let s := a_sync a in
  if a_has_self a then
    if negb (a_is_method a) || a_exitish a
    then {| c_sel := SelSelf; c_await := negb s; c_meth := if s then MEnter else MEnterA; c_arg := AReprSelf |}
    else {| c_sel := SelSelf; c_await := false; c_meth := if s then MPush else MPushA; c_arg := AFuncname |}
  else if a_wrapped a && a_wname a && a_isfun a && a_freevars a
    then {| c_sel := SelCallback; c_await := false; c_meth := if s then MCallback else MACallback; c_arg := ACallArgs |}
    else {| c_sel := SelCallback; c_await := false; c_meth := if s then MPush else MPushA; c_arg := AFuncname |}.

(* ------------------------------------------------------------------ manager trees *)
(* A suspended (or running) generator/coroutine is its outermost frame [frm]; a frame knows the
   with-blocks active in it (outermost first) and how the frame series goes on:
   [TStop] nothing of interest further in, [TDeleg f] it delegates (yield from / await) to another
   generator/coroutine, [TExit w] it is inside the exit of one more, innermost with-block [w]. *)
Inductive mgr :=
  | MPlain                         (* class-based manager, function, anything without glue *)
  | MGen (f : frm)                 (* made by @contextmanager / @asynccontextmanager; f = mgr.gen *)
  | MStack (cbs : list cb)         (* ExitStack / AsyncExitStack and its _exit_callbacks *)
  | MFaulty                        (* like MPlain, but its __repr__ raises (fault injection) *)
with frm := Frm (code : nat) (ws : list wth) (t : tail)
with tail := TStop | TDeleg (f : frm) | TExit (w : wth)
          | TExitS (w : wth) (cur : mgr)   (* w is an exit stack in the middle of its __exit__: its callbacks are
                                              the ones still registered; cur is the one just popped and running *)
with wth := Wth (oid : nat) (async named : bool) (m : mgr)
with cb := Cb (k : regkind) (falsy exitname : bool)
              (a : avec)           (* attribute vector OBSERVED on the real callback *)
              (oself ocb : nat)    (* identities of callback.__self__ (0 if none) and of callback *)
              (m : mgr).           (* what callback.__self__ is (MPlain if none) *)

(* ------------------------------------------------------------------ observable results *)
Inductive rootk := RName | RUnderscore | ROtherRoot.
(* description / varname of a child context of an exit stack:
   "{tag}{stackname}.{method}({arg})" and "{stackname}[{idx}]", stackname = root + index path *)
Inductive kinfo :=
  | KTop
  | KChild (sel : osel) (root : rootk) (path : list nat) (idx : nat) (aw : bool) (m : meth) (arg : argk).

Inductive cout :=
  | COut (oid : nat) (async exiting : bool) (inner : option (list fout)) (kids : list cout) (i : kinfo)
  | CFuel
with fout := FOut (code : nat) (cs : list cout) | FFuel.

(* ------------------------------------------------------------------ contained faults *)
(* Does fill_context on this manager raise?  elaborate_exit_stack calls repr(manager) for the
   enter_context form and format_funcname (-> repr of the receiver) for a pushed bound method; an
   exception there, or in the fill_context of a child, leaves the loop and propagates.  A
   generator-based manager never raises: its inner extraction contains faults itself. *)
Definition is_faulty (m : mgr) : bool := match m with MFaulty => true | _ => false end.
Definition needs_repr (c : cls) : bool :=
  match c_sel c, c_arg c with
  | SelSelf, AReprSelf | SelSelf, AFuncname => true
  | _, _ => false
  end.
Fixpoint raises (fuel : nat) (m : mgr) : bool :=
  match fuel with
  | 0 => false
  | S n =>
    match m with
    | MStack cbs =>
        existsb (fun c => match c with Cb _ _ _ a _ _ m' =>
                   let c0 := classify a in
                   match c_sel c0 with
                   | SelSelf => (is_faulty m' && needs_repr c0) || raises n m'
                   | SelCallback => false
                   end end) cbs
    | _ => false
    end
  end.

(* ------------------------------------------------------------------ the unfolding *)
Section Mapi.
  Context {A B : Type} (f : nat -> A -> B).
  Fixpoint mapi (n : nat) (l : list A) : list B :=
    match l with [] => [] | x :: r => f n x :: mapi (S n) r end.
End Mapi.

Definition has_desc (m : mgr) : bool := match m with MGen _ => true | _ => false end.

(* fuel = nesting depth still allowed.
   [fill]   = fill_context on one Context (elaborate_context dispatch; unwrap_context is None for
              every manager type in scope, so the hook loop stops after one round);
   [series] = extract_child / extract of a generator: its frames, each with filled contexts;
   [child]  = one iteration of the loop of elaborate_exit_stack. *)
Fixpoint fill (fuel : nat) (exiting : bool) (root : rootk) (path : list nat) (i : kinfo) (w : wth) : cout :=
  match fuel with
  | 0 => CFuel
  | S n =>
    match w with
    | Wth oid async named m =>
      match m with
      | MPlain | MFaulty => COut oid async exiting None [] i
      | MGen f => COut oid async exiting (if exiting then None else Some (series n f)) [] i
      | MStack cbs =>
          COut oid async exiting None
               (mapi (fun idx c =>
                  match c with
                  | Cb k falsy exitname a oself ocb m' =>
                    let c0 := classify a in
                    let tgt := match c_sel c0 with SelSelf => m' | SelCallback => MPlain end in
                    let o := match c_sel c0 with SelSelf => oself | SelCallback => ocb end in
                    let arg := if has_desc tgt then AChildDesc else c_arg c0 in
                    fill n false root (path ++ [idx])
                         (KChild (c_sel c0) root path idx (c_await c0) (c_meth c0) arg)
                         (Wth o (negb (a_sync a)) true tgt)
                  end) 0 cbs) i
      end
    end
  end
with series (fuel : nat) (f : frm) : list fout :=
  match fuel with
  | 0 => [FFuel]
  | S n =>
    match f with
    | Frm code ws t =>
      (* each context of a frame is filled inside its own try/except (extract_iter): one whose
         fill_context raises stays as contexts_active_in_frame made it (no children, no
         inner_stack); the others are unaffected *)
      let top := fun ex w => match w with Wth oid async named m =>
                   if raises n m then COut oid async ex None [] KTop
                   else fill n ex (if named then RName else RUnderscore) [] KTop w end in
      let cs := map (top false) ws in
      match t with
      | TStop => [FOut code cs]
      | TDeleg g => FOut code cs :: series n g
      | TExit w =>
          FOut code (cs ++ [top true w])
          :: match w with Wth _ _ _ (MGen g) => series n g | _ => [] end
      | TExitS w cur =>
          FOut code (cs ++ [top true w])
          :: match cur with MGen g => series n g | _ => [] end
      end
    end
  end.

(* ------------------------------------------------------------------ equality of results *)
Definition crel_eqb (a b : crel) : bool :=
  match a, b with RSelfIs, RSelfIs | RIs, RIs | RWrappedIs, RWrappedIs | ROther, ROther => true | _, _ => false end.
Definition avec_eqb (a b : avec) : bool :=
  Bool.eqb (a_sync a) (a_sync b) && Bool.eqb (a_has_self a) (a_has_self b) &&
  Bool.eqb (a_is_method a) (a_is_method b) && Bool.eqb (a_exitish a) (a_exitish b) &&
  Bool.eqb (a_wrapped a) (a_wrapped b) && Bool.eqb (a_wname a) (a_wname b) &&
  Bool.eqb (a_isfun a) (a_isfun b) && Bool.eqb (a_freevars a) (a_freevars b) &&
  Bool.eqb (a_truthy a) (a_truthy b) && crel_eqb (a_rel a) (a_rel b).
Definition meth_eqb (a b : meth) : bool :=
  match a, b with MEnter, MEnter | MEnterA, MEnterA | MPush, MPush | MPushA, MPushA
                | MCallback, MCallback | MACallback, MACallback | MOtherMeth, MOtherMeth => true | _, _ => false end.
Definition argk_eqb (a b : argk) : bool :=
  match a, b with AReprSelf, AReprSelf | AFuncname, AFuncname | ACallArgs, ACallArgs
                | AChildDesc, AChildDesc | AOther, AOther => true | _, _ => false end.
Definition osel_eqb (a b : osel) : bool :=
  match a, b with SelSelf, SelSelf | SelCallback, SelCallback => true | _, _ => false end.
Definition rootk_eqb (a b : rootk) : bool :=
  match a, b with RName, RName | RUnderscore, RUnderscore | ROtherRoot, ROtherRoot => true | _, _ => false end.
Definition kinfo_eqb (a b : kinfo) : bool :=
  match a, b with
  | KTop, KTop => true
  | KChild s r p i w m g, KChild s' r' p' i' w' m' g' =>
      osel_eqb s s' && rootk_eqb r r' && list_eqb Nat.eqb p p' && Nat.eqb i i' && Bool.eqb w w'
      && meth_eqb m m' && argk_eqb g g'
  | _, _ => false
  end.

Section ListEq.
  Context {A : Type} (eq : A -> A -> bool).
  Fixpoint leqb (a b : list A) : bool :=
    match a, b with
    | [], [] => true
    | x :: a', y :: b' => eq x y && leqb a' b'
    | _, _ => false
    end.
End ListEq.

Fixpoint cout_eqb (a b : cout) {struct a} : bool :=
  match a, b with
  | COut o s e inn kids i, COut o' s' e' inn' kids' i' =>
      Nat.eqb o o' && Bool.eqb s s' && Bool.eqb e e' && kinfo_eqb i i' &&
      match inn, inn' with
      | None, None => true
      | Some l, Some l' => leqb fout_eqb l l'
      | _, _ => false
      end && leqb cout_eqb kids kids'
  | _, _ => false        (* CFuel never equals an observation *)
  end
with fout_eqb (a b : fout) {struct a} : bool :=
  match a, b with
  | FOut c cs, FOut c' cs' => Nat.eqb c c' && leqb cout_eqb cs cs'
  | _, _ => false
  end.

(* ------------------------------------------------------------------ cases *)
(* every observed attribute vector is the one the modelled contextlib map predicts *)
Fixpoint avec_ok_mgr (fuel : nat) (m : mgr) : bool :=
  match fuel with 0 => false | S n =>
    match m with
    | MPlain | MFaulty => true
    | MGen f => avec_ok_frm n f
    | MStack cbs => forallb (fun c => match c with Cb k falsy exitname a _ _ m' =>
                       avec_eqb a (cl_attrs k falsy exitname) && avec_ok_mgr n m' end) cbs
    end
  end
with avec_ok_frm (fuel : nat) (f : frm) : bool :=
  match fuel with 0 => false | S n =>
    match f with Frm _ ws t =>
      forallb (fun w => match w with Wth _ _ _ m => avec_ok_mgr n m end) ws &&
      match t with
      | TStop => true
      | TDeleg g => avec_ok_frm n g
      | TExit (Wth _ _ _ m) => avec_ok_mgr n m
      | TExitS (Wth _ _ _ m) cur => avec_ok_mgr n m && avec_ok_mgr n cur
      end
    end
  end.

Record es_case := { es_root : frm; es_obs : list fout }.

Definition case_fuel := 40.

Definition case_ok (c : es_case) : bool :=
  avec_ok_frm case_fuel (es_root c) && leqb fout_eqb (series case_fuel (es_root c)) (es_obs c).

Definition mismatches (cs : list es_case) : list nat := false_indices 0 (map case_ok cs).

(* non-trivial: the root carries an exit stack with >= 1 callback, a generator-based manager, or
   is exiting *)
Definition nontrivial (c : es_case) : bool :=
  match es_root c with
  | Frm _ ws t =>
      existsb (fun w => match w with Wth _ _ _ (MStack (_ :: _)) | Wth _ _ _ (MGen _) => true | _ => false end) ws
      || match t with TExit _ | TExitS _ _ => true | _ => false end
  end.
Definition count_nontrivial (cs : list es_case) : nat := count_true (map nontrivial cs).

(* ------------------------------------------------------------------ repeated / concurrent use *)
(* The code keeps no state between extractions, so a history of extractions (some of which failed
   part-way: None) is modelled by running [series] afresh on the tree of each step. *)
Inductive hres := HFaulted | HOk (fs : list fout).
Definition extract_seq (fuel : nat) (h : list (option frm)) : list hres :=
  map (fun s => match s with None => HFaulted | Some f => HOk (series fuel f) end) h.

(* hist: the same (still entered) tree extracted several times, with a faulted extraction in between *)
(* h_faulty = the same tree with the managers whose __repr__ raised during the faulted extraction
   marked MFaulty; h_fobs = what that faulted extraction returned *)
Record hist_case := { h_root : frm; h_obs : list (list fout); h_faulty : frm; h_fobs : list fout }.
Definition hist_ok (c : hist_case) : bool :=
  avec_ok_frm case_fuel (h_root c) && (2 <=? length (h_obs c)) &&
  forallb (fun o => leqb fout_eqb (series case_fuel (h_root c)) o) (h_obs c) &&
  leqb fout_eqb (series case_fuel (h_faulty c)) (h_fobs c).
Definition hist_mismatches (cs : list hist_case) : list nat := false_indices 0 (map hist_ok cs).
Definition hist_nontrivial (cs : list hist_case) : nat := length cs.

(* conc: elaborate_exit_stack iterates over a snapshot list(stack._exit_callbacks); a callback that
   the owner thread registers during the unfolding is either wholly in the snapshot or not at all *)
Record conc_case := { c_before : frm; c_after : frm; c_obs1 : list fout; c_obs2 : list fout }.
Definition conc_ok (c : conc_case) : bool :=
  avec_ok_frm case_fuel (c_after c) &&
  (leqb fout_eqb (series case_fuel (c_before c)) (c_obs1 c) || leqb fout_eqb (series case_fuel (c_after c)) (c_obs1 c)) &&
  leqb fout_eqb (series case_fuel (c_after c)) (c_obs2 c).
Definition conc_mismatches (cs : list conc_case) : list nat := false_indices 0 (map conc_ok cs).
Definition conc_nontrivial (cs : list conc_case) : nat := length cs.
