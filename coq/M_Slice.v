(* M_Slice.v -- executable model of stackscope._glue.unwrap_stackslice / get_true_caller and of
   the argument mapping of stackscope._extract.extract_since / extract_until (CPython path).
   Definitions only; proofs live in P_Slice.v.

   Abstraction.  Frames are numbers.  What the code can see of the interpreter state is a
   [world]: the f_back chain of the running greenlet starting at the frame that called
   get_true_caller (each frame with the __name__ of its globals and whether its code is the
   functools.singledispatch wrapper), the
   f_back chains hanging off gr_frame of the parent, grandparent, ..., the entries of
   sys._current_frames() in order, and any further f_back chains (suspended greenlets,
   generators, ...).  A chain is a list, innermost frame first; f_back = "next element". *)
From Coq Require Import ZArith String.
Require Import Base.

(* ------------------------------------------------------------------ python slicing *)

(* PySlice_AdjustIndices for one bound *)
Definition clamp (len v step : Z) : Z :=
  if (v <? 0)%Z then
    (let v' := (v + len)%Z in
     if (v' <? 0)%Z then (if (step <? 0)%Z then (-1)%Z else 0%Z) else v')
  else if (len <=? v)%Z then (if (step <? 0)%Z then (len - 1)%Z else len)
  else v.

Definition adj_start (len : Z) (s : option Z) (step : Z) : Z :=
  match s with
  | None => if (step <? 0)%Z then (len - 1)%Z else 0%Z
  | Some v => clamp len v step
  end.

Definition adj_stop (len : Z) (s : option Z) (step : Z) : Z :=
  match s with
  | None => if (step <? 0)%Z then (-1)%Z else len
  | Some v => clamp len v step
  end.

Definition slice_len (start stop step : Z) : Z :=
  if (step <? 0)%Z
  then (if (stop <? start)%Z then ((start - stop - 1) / (- step) + 1)%Z else 0%Z)
  else (if (start <? stop)%Z then ((stop - start - 1) / step + 1)%Z else 0%Z).

(* the copy loop of list_subscript: n items starting at index cur, stride step *)
Fixpoint gather {A} (l : list A) (n : nat) (cur step : Z) : list A :=
  match n with
  | 0 => []
  | S n' =>
      match nth_error l (Z.to_nat cur) with
      | Some x => x :: gather l n' (cur + step)%Z step
      | None => gather l n' (cur + step)%Z step
      end
  end.

(* l[start:stop:step]; step = 0 (ValueError in Python) is mapped to [] *)
Definition py_slice {A} (l : list A) (start stop : option Z) (step : Z) : list A :=
  if (step =? 0)%Z then [] else
  let len := Z.of_nat (length l) in
  let a := adj_start len start step in
  let b := adj_stop len stop step in
  gather l (Z.to_nat (slice_len a b step)) a step.

(* del l[start:stop] *)
Definition del_slice {A} (l : list A) (start stop : option Z) : list A :=
  let len := Z.of_nat (length l) in
  let a := adj_start len start 1 in
  let b := adj_stop len stop 1 in
  if (a <? b)%Z then firstn (Z.to_nat a) l ++ skipn (Z.to_nat b) l else l.

(* list.index *)
Fixpoint index_of (x : nat) (l : list nat) : option nat :=
  match l with
  | [] => None
  | y :: r => if x =? y then Some 0 else option_map S (index_of x r)
  end.

(* ------------------------------------------------------------------ the visible world *)

Record cframe := { cf_id : nat; cf_mod : string; cf_sd : bool }.

Record world := {
  w_cur : list cframe;               (* running chain from the caller of get_true_caller outward *)
  w_parents : list (list nat);       (* chains from gr_frame of .parent, .parent.parent, ...
                                        (an unstarted / dead parent contributes []); empty iff
                                        greenlet.getcurrent().parent is None *)
  w_threads : list (bool * list nat);(* sys._current_frames().items(): (is this thread, chain) *)
  w_chains : list (list nat)         (* every other f_back chain *)
}.

(* get_true_caller.is_mine *)
Definition is_mine (name : string) : bool :=
  prefix "stackscope."%string name && negb (prefix "stackscope._tests."%string name).

Definition skipped (f : cframe) : bool := is_mine (cf_mod f) || cf_sd f.

Fixpoint drop_mine (l : list cframe) : list cframe :=
  match l with
  | f :: r => if skipped f then drop_mine r else l
  | [] => []
  end.

(* the true caller and everything outward of it in the running greenlet *)
Definition caller_chain (w : world) : list nat := map cf_id (drop_mine (w_cur w)).
Definition true_caller (w : world) : option nat := hd_error (caller_chain w).

Fixpoint suffix_from (x : nat) (l : list nat) : option (list nat) :=
  match l with
  | [] => None
  | y :: r => if x =? y then Some l else suffix_from x r
  end.

Fixpoint find_chain (x : nat) (cs : list (list nat)) : list nat :=
  match cs with
  | [] => [x]                          (* f_back is None *)
  | c :: r => match suffix_from x c with Some s => s | None => find_chain x r end
  end.

Definition all_chains (w : world) : list (list nat) :=
  map cf_id (w_cur w) :: w_parents w ++ map snd (w_threads w) ++ w_chains w.

(* x, x.f_back, x.f_back.f_back, ... *)
Definition chain_from (w : world) (x : nat) : list nat := find_chain x (all_chains w).

(* prefix of a chain up to and including o *)
Fixpoint take_until (o : nat) (l : list nat) : option (list nat) :=
  match l with
  | [] => None
  | y :: r => if o =? y then Some [y] else option_map (cons y) (take_until o r)
  end.

(* try_from, on the f_back chain of potential_inner_frame *)
Definition try_chain (outer : option nat) (ch : list nat) : list nat :=
  match outer with
  | None => rev ch
  | Some o => match take_until o ch with Some pre => rev pre | None => [] end
  end.

Definition is_nil {A} (l : list A) : bool := match l with [] => true | _ => false end.

Record sspec := { s_outer : option nat; s_inner : option nat; s_limit : option Z }.

(* frames yielded; SError = frames yielded, then RuntimeError; SAssert = AssertionError *)
Inductive sres := SFrames (l : list nat) | SError (l : list nat) | SAssert.

(* this_thread_frames *)
Definition thread_frames (w : world) : list nat := caller_chain w ++ concat (w_parents w).

(* the greenlet-stitched attempt; a ValueError of list.index leaves frames = [] *)
Definition greenlet_branch (w : world) (outer inner : option nat) : list nat :=
  let ttf := thread_frames w in
  let from_idx : option (option Z) :=
    match inner with
    | None => Some None
    | Some i =>
        if option_eqb Nat.eqb (hd_error ttf) (Some i) then Some None
        else match index_of i ttf with
             | Some k => Some (Some (Z.of_nat k - 1)%Z)
             | None => None
             end
    end in
  match from_idx with
  | None => []
  | Some fi =>
      let to_idx : option Z :=
        match outer with
        | None => Some (Z.of_nat (length ttf))
        | Some o => option_map Z.of_nat (index_of o ttf)
        end in
      match to_idx with
      | None => []
      | Some ti => py_slice ttf (Some ti) fi (-1)%Z
      end
  end.

(* the loop over sys._current_frames(): first other thread on whose stack outer is found *)
Fixpoint search_threads (outer : option nat) (ths : list (bool * list nat)) : list nat :=
  match ths with
  | [] => []
  | (me, ch) :: r =>
      if me then search_threads outer r
      else let fr := try_chain outer ch in
           if is_nil fr then search_threads outer r else fr
  end.

Definition apply_limit (frames : list nat) (limit : option Z) (inner_none outer_some : bool) : list nat :=
  match limit with
  | None => frames
  | Some n =>
      if (n <? Z.of_nat (length frames))%Z then
        if inner_none && outer_some then del_slice frames (Some n) None
        else del_slice frames None (Some (- n)%Z)
      else frames
  end.

Definition is_some {A} (o : option A) : bool := match o with Some _ => true | None => false end.

(* `greenlet_getcurrent().parent is not None` *)
Definition has_parent (w : world) : bool := negb (is_nil (w_parents w)).

Definition unwrap_stackslice (w : world) (s : sspec) : sres :=
  let outer := s_outer s in
  let inner := s_inner s in
  let tc := true_caller w in
  if has_parent w && negb (is_some tc) then SAssert else
  let frames1 := if has_parent w then greenlet_branch w outer inner else [] in
  let start : option nat := match inner with Some i => Some i | None => tc end in
  let frames2 : option (list nat) :=
    if is_nil frames1
    then match start with
         | Some p => Some (try_chain outer (chain_from w p))
         | None => None                                 (* get_true_caller's assert *)
         end
    else Some frames1 in
  match frames2 with
  | None => SAssert
  | Some frames2 =>
      let frames3 :=
        if is_nil frames2 && negb (is_some inner)
        then search_threads outer (w_threads w)
        else frames2 in
      if is_nil frames3 then
        match outer with Some o => SError [o] | None => SAssert end
      else SFrames (apply_limit frames3 (s_limit s) (negb (is_some inner)) (is_some outer))
  end.

(* ------------------------------------------------------------------ the three entry points *)

(* a Python value handed to extract_since / extract_until where a frame or a limit is expected
   (their isinstance checks): None, an int, a bool (bool is a subclass of int), a frame, anything else *)
Inductive pyarg := PNone | PInt (z : Z) | PBool (b : bool) | PFrame (n : nat) | POther.

Inductive api :=
  | ASlice (outer inner : option nat) (limit : option Z)     (* extract(StackSlice(...)) *)
  | ASince (outer : option nat)                              (* extract_since *)
  | AUntilN (inner : nat) (limit : option Z)                 (* extract_until, int/None limit *)
  | AUntilF (inner : nat) (limit : nat)                      (* extract_until, frame limit *)
  | ASinceV (outer : pyarg)                                  (* extract_since(<any value>) *)
  | AUntilV (inner : nat) (limit : pyarg).                   (* extract_until(frame, limit=<any value>) *)

Inductive ares := AOk (r : sres) | ARaised | ATypeError.

Definition until_frame (w : world) (i lim : nat) : ares :=
  match take_until lim (chain_from w i) with
  | Some _ => AOk (unwrap_stackslice w {| s_outer := Some lim; s_inner := Some i; s_limit := None |})
  | None => ARaised
  end.

Definition run_api (w : world) (a : api) : ares :=
  match a with
  | ASlice o i l => AOk (unwrap_stackslice w {| s_outer := o; s_inner := i; s_limit := l |})
  | ASince o => AOk (unwrap_stackslice w {| s_outer := o; s_inner := None; s_limit := None |})
  | AUntilN i l => AOk (unwrap_stackslice w {| s_outer := None; s_inner := Some i; s_limit := l |})
  | AUntilF i lim =>
      match take_until lim (chain_from w i) with
      | Some _ => AOk (unwrap_stackslice w {| s_outer := Some lim; s_inner := Some i; s_limit := None |})
      | None => ARaised
      end
  (* the isinstance checks of extract_since / extract_until on untyped arguments *)
  | ASinceV PNone => AOk (unwrap_stackslice w {| s_outer := None; s_inner := None; s_limit := None |})
  | ASinceV (PFrame n) => AOk (unwrap_stackslice w {| s_outer := Some n; s_inner := None; s_limit := None |})
  | ASinceV _ => ATypeError
  | AUntilV i PNone => AOk (unwrap_stackslice w {| s_outer := None; s_inner := Some i; s_limit := None |})
  | AUntilV i (PInt z) => AOk (unwrap_stackslice w {| s_outer := None; s_inner := Some i; s_limit := Some z |})
  | AUntilV i (PBool b) =>
      AOk (unwrap_stackslice w {| s_outer := None; s_inner := Some i; s_limit := Some (if b then 1 else 0)%Z |})
  | AUntilV i (PFrame n) => until_frame w i n
  | AUntilV i POther => ATypeError
  end.

(* ------------------------------------------------------------------ generated cases *)

Definition sres_eqb (a b : sres) : bool :=
  match a, b with
  | SFrames x, SFrames y | SError x, SError y => list_eqb Nat.eqb x y
  | SAssert, SAssert => true
  | _, _ => false
  end.

Definition ares_eqb (a b : ares) : bool :=
  match a, b with
  | AOk x, AOk y => sres_eqb x y
  | ARaised, ARaised => true
  | ATypeError, ATypeError => true
  | _, _ => false
  end.

(* one case = one live stack and a batch of queries with the observed results *)
Definition slice_case := (world * list (api * ares))%type.
Definition query_ok (w : world) (q : api * ares) : bool := ares_eqb (run_api w (fst q)) (snd q).
Definition case_ok (c : slice_case) : bool := forallb (query_ok (fst c)) (snd c).
Definition mismatches (cases : list slice_case) : list nat := false_indices 0 (map case_ok cases).

(* a query is non-trivial when the model trims by a limit, stitches greenlet segments,
   or ends in an error *)
Definition query_nontrivial (w : world) (q : api * ares) : bool :=
  match run_api w (fst q) with
  | AOk (SFrames l) => 2 <=? length l
  | AOk (SError _) => true
  | _ => false
  end.
Definition count_nontrivial (cases : list slice_case) : nat :=
  count_true (map (fun c : slice_case => existsb (query_nontrivial (fst c)) (snd c)) cases).
Definition count_queries (cases : list slice_case) : nat :=
  fold_right (fun c n => length (snd c) + n) 0 cases.

(* a history: several extractions from the SAME frame of the same greenlet, the enclosing stack
   changed in between; every round is compared with the model on the world as it is then *)
Definition hist_case := list slice_case.
Definition hist_ok (h : hist_case) : bool := forallb case_ok h.
Definition hist_mismatches (cases : list hist_case) : list nat := false_indices 0 (map hist_ok cases).
Definition hist_nontrivial (cases : list hist_case) : nat :=
  count_true (map (fun h : hist_case => (2 <=? length h)
                                        && existsb (fun c : slice_case => existsb (query_nontrivial (fst c)) (snd c)) h) cases).

(* py_slice / del_slice against real Python slicing: a list, a start, and for every stop the
   results of l[start:stop:step] for several steps and of `del l[start:stop]` *)
Definition pyslice_row := (option Z * list (Z * list nat) * list nat)%type.
Definition pyslice_case := (list nat * option Z * list pyslice_row)%type.
Definition pyslice_row_ok (l : list nat) (a : option Z) (r : pyslice_row) : bool :=
  let '(b, sl, d) := r in
  forallb (fun x : Z * list nat => list_eqb Nat.eqb (py_slice l a b (fst x)) (snd x)) sl
  && list_eqb Nat.eqb (del_slice l a b) d.
Definition pyslice_ok (c : pyslice_case) : bool :=
  let '(l, a, rows) := c in forallb (pyslice_row_ok l a) rows.
Definition pyslice_mismatches (cases : list pyslice_case) : list nat :=
  false_indices 0 (map pyslice_ok cases).
