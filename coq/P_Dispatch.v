(* P_Dispatch.v — reference specifications and proofs for M_Dispatch (property C12). *)
From Coq Require Import String.
Require Import Base M_Dispatch.

(* ================================================================== 1. get_code on towers *)
(* Reference: the function / code object at the bottom of the tower.  Calling a partial, a bound
   method, a classmethod or staticmethod runs what calling its target runs; a functools.wraps
   wrapper stands for the decorated original. *)
Fixpoint innermost (t : tower) : option code :=
  match t with
  | TFn c | TCode c => Some c
  | TPartial f | TMethod f | TClassM f | TStaticM f => innermost f
  | TWrapped _ i => innermost i
  | TOther => None
  end.

Fixpoint leaf (t : tower) : tower :=
  match t with
  | TPartial f | TMethod f | TClassM f | TStaticM f => leaf f
  | TWrapped _ i => leaf i
  | _ => t
  end.

Lemma tower_size_pos t : 1 <= tower_size t.
Proof. destruct t; simpl; lia. Qed.

Lemma wrapped_of_smaller t : has_wrapped t = true -> tower_size (wrapped_of t) < tower_size t.
Proof. induction t; simpl; intros Hw; try discriminate; try lia. specialize (IHt Hw). lia. Qed.

Lemma wrapped_of_leaf t : has_wrapped t = true -> leaf (wrapped_of t) = leaf t.
Proof. induction t; simpl; intros Hw; try discriminate; auto. Qed.

Lemma leaf_no_wrapped t : has_wrapped (leaf t) = false.
Proof. induction t; simpl; auto. Qed.

Lemma leaf_idem t : leaf (leaf t) = leaf t.
Proof. induction t; simpl; auto. Qed.

Lemma unwrap_chain_spec fuel : forall t, tower_size t <= fuel ->
  exists u, unwrap_chain fuel t = Some u /\ has_wrapped u = false /\ leaf u = leaf t /\
            tower_size u <= tower_size t /\ (has_wrapped t = true -> tower_size u < tower_size t).
Proof.
  induction fuel as [|n IH]; intros t Hs.
  - pose proof (tower_size_pos t). lia.
  - simpl. destruct (has_wrapped t) eqn:Hw.
    + pose proof (wrapped_of_smaller t Hw) as Hlt.
      destruct (IH (wrapped_of t)) as (u & E & Hu & Hl & Hsz & _); [lia|].
      exists u. rewrite E, Hl, (wrapped_of_leaf t Hw). repeat split; auto; try lia.
    + exists t. repeat split; auto. intros; discriminate.
Qed.

Lemma peel_spec fuel : forall t, tower_size t <= fuel -> peel fuel t = Some (leaf t).
Proof.
  induction fuel as [|n IH]; intros t Hs.
  - pose proof (tower_size_pos t). lia.
  - destruct t; simpl in Hs; try (simpl; apply IH; lia); try reflexivity.
    (* TWrapped: inspect.unwrap follows the chain, then the loop goes on *)
    destruct (unwrap_chain_spec n t) as (u & E & Hu & Hl & Hsz & _); [lia|].
    change (peel (S n) (TWrapped outer t))
      with (match unwrap_chain n t with Some u => peel n u | None => None end).
    rewrite E. rewrite IH by lia. now rewrite Hl.
Qed.

Lemma code_of_leaf t :
  code_of (leaf t) = match innermost t with Some c => GOk c | None => GErr ETypeError end.
Proof. induction t; simpl; auto. Qed.

(* get_code = reference, for all towers and all name paths (fuel is internal and sufficient) *)
Lemma get_code_spec t names :
  get_code t names = match innermost t with
                     | Some c => walk_names 0 c names
                     | None => GErr ETypeError
                     end.
Proof.
  unfold get_code, get_code_fuel. rewrite peel_spec by lia. rewrite code_of_leaf.
  destruct (innermost t); reflexivity.
Qed.

Lemma get_code_tower t :
  get_code t [] = match innermost t with Some c => GOk c | None => GErr ETypeError end.
Proof. rewrite get_code_spec. destruct (innermost t); reflexivity. Qed.

Lemma walk_names_fuel_free i c names : walk_names i c names <> GErr EOutOfFuel.
Proof.
  revert i c; induction names as [|n r IH]; intros i c; simpl; [discriminate|].
  destruct (find_named n (code_consts c)); [apply IH|discriminate].
Qed.

Lemma get_code_total t names : get_code t names <> GErr EOutOfFuel.
Proof.
  rewrite get_code_spec. destruct (innermost t); [apply walk_names_fuel_free|discriminate].
Qed.

(* more fuel never changes the answer *)
Lemma get_code_fuel_enough fuel t names :
  tower_size t <= fuel -> get_code_fuel fuel t names = get_code t names.
Proof.
  intros Hs. unfold get_code, get_code_fuel. rewrite !peel_spec by lia. reflexivity.
Qed.

(* ================================================================== 2. nested names *)
(* [FirstNamed n consts c]: c is the first code constant called n, in co_consts order *)
Definition FirstNamed (n : string) (consts : list (option code)) (c : code) : Prop :=
  exists pre post, consts = pre ++ Some c :: post /\ code_name c = n /\
                   forall x, In (Some x) pre -> code_name x <> n.
Definition NoneNamed (n : string) (consts : list (option code)) : Prop :=
  forall x, In (Some x) consts -> code_name x <> n.

(* reference: resolve a path of names from a code object; idx counts the names consumed *)
Inductive Resolves : code -> list string -> nat -> gres -> Prop :=
  | R_done c i : Resolves c [] i (GOk c)
  | R_step c n r i c' res :
      FirstNamed n (code_consts c) c' -> Resolves c' r (S i) res -> Resolves c (n :: r) i res
  | R_miss c n r i :
      NoneNamed n (code_consts c) -> Resolves c (n :: r) i (GErr (EValueError i)).

Lemma find_named_some n consts c : find_named n consts = Some c -> FirstNamed n consts c.
Proof.
  induction consts as [|[x|] r IH]; simpl; intros E; try discriminate.
  - destruct (String.eqb (code_name x) n) eqn:En.
    + injection E as <-. exists [], r. split; [reflexivity|split; [now apply String.eqb_eq|intros ? []]].
    + destruct (IH E) as (pre & post & -> & Hn & Hp). exists (Some x :: pre), post. repeat split; auto.
      intros y [Hy|Hy]; [injection Hy as <-; now apply String.eqb_neq|auto].
  - destruct (IH E) as (pre & post & -> & Hn & Hp). exists (None :: pre), post. repeat split; auto.
    intros y [Hy|Hy]; [discriminate|auto].
Qed.

Lemma find_named_none n consts : find_named n consts = None -> NoneNamed n consts.
Proof.
  induction consts as [|[x|] r IH]; simpl; intros E y Hy; try contradiction.
  - destruct (String.eqb (code_name x) n) eqn:En; [discriminate|].
    destruct Hy as [Hy|Hy]; [injection Hy as <-; now apply String.eqb_neq|now apply IH].
  - destruct Hy as [Hy|Hy]; [discriminate|now apply IH].
Qed.

Lemma FirstNamed_find n consts c : FirstNamed n consts c -> find_named n consts = Some c.
Proof.
  intros (pre & post & -> & Hn & Hp). induction pre as [|[x|] pre IH]; simpl.
  - apply String.eqb_eq in Hn. now rewrite Hn.
  - assert (code_name x <> n) as Hx by (apply Hp; now left).
    apply String.eqb_neq in Hx. rewrite Hx. apply IH. intros y Hy. apply Hp. now right.
  - apply IH. intros y Hy. apply Hp. now right.
Qed.

Lemma NoneNamed_find n consts : NoneNamed n consts -> find_named n consts = None.
Proof.
  intros H. destruct (find_named n consts) eqn:E; auto.
  destruct (find_named_some _ _ _ E) as (pre & post & -> & Hn & _).
  exfalso. apply (H c); auto. apply in_or_app. right. now left.
Qed.

Lemma walk_names_sound names : forall i c, Resolves c names i (walk_names i c names).
Proof.
  induction names as [|n r IH]; intros i c; simpl; [constructor|].
  destruct (find_named n (code_consts c)) eqn:E.
  - eapply R_step; [apply find_named_some; exact E|apply IH].
  - apply R_miss. now apply find_named_none.
Qed.

Lemma Resolves_deterministic c names i res : Resolves c names i res -> res = walk_names i c names.
Proof.
  induction 1; simpl; auto.
  - now rewrite (FirstNamed_find _ _ _ H).
  - now rewrite (NoneNamed_find _ _ H).
Qed.

Lemma get_code_nested t names c :
  innermost t = Some c -> forall res, get_code t names = res <-> Resolves c names 0 res.
Proof.
  intros Hi res. rewrite get_code_spec, Hi. split.
  - intros <-. apply walk_names_sound.
  - intros H. symmetry. now apply Resolves_deterministic.
Qed.

(* ================================================================== 3. IdentityDict *)
Section IDictFacts.
  Context {K V : Type}.
  Notation dict := (idict K V).

  Definition ids (d : dict) : list nat := map fst d.

  Lemma find_set (d : dict) i x j : d_find (d_set d i x) j = if j =? i then Some x else d_find d j.
  Proof.
    induction d as [|[a kv] r IH]; simpl.
    - destruct (j =? i); reflexivity.
    - destruct (i =? a) eqn:Eia; simpl.
      + apply Nat.eqb_eq in Eia; subst a. destruct (j =? i); reflexivity.
      + destruct (j =? a) eqn:Eja.
        * apply Nat.eqb_eq in Eja; subst a. rewrite Nat.eqb_sym in Eia.
          destruct (j =? i) eqn:Eji; [congruence|reflexivity].
        * apply IH.
  Qed.

  Lemma find_not_in (d : dict) i : ~ In i (ids d) -> d_find d i = None.
  Proof.
    induction d as [|[a kv] r IH]; simpl; auto. intros H.
    destruct (i =? a) eqn:E; [apply Nat.eqb_eq in E; subst; tauto|]. apply IH. tauto.
  Qed.

  Lemma find_in (d : dict) i kv : d_find d i = Some kv -> In (i, kv) d.
  Proof.
    induction d as [|[a x] r IH]; simpl; [discriminate|].
    destruct (i =? a) eqn:E; [apply Nat.eqb_eq in E; subst; intros [= ->]; now left|].
    intros H; right; auto.
  Qed.

  Lemma in_ids (d : dict) i kv : In (i, kv) d -> In i (ids d).
  Proof. intros H. change i with (fst (i, kv)). now apply in_map. Qed.

  Lemma ids_in (d : dict) i : In i (ids d) -> exists kv, In (i, kv) d.
  Proof. intros H. apply in_map_iff in H as ([j kv] & E & Hin). simpl in E; subst. eauto. Qed.

  Lemma in_find (d : dict) i kv : NoDup (ids d) -> In (i, kv) d -> d_find d i = Some kv.
  Proof.
    induction d as [|[a x] r IH]; simpl; [tauto|]. intros Hn [H|H].
    - injection H as -> ->. now rewrite Nat.eqb_refl.
    - inversion Hn; subst. destruct (i =? a) eqn:E.
      + apply Nat.eqb_eq in E; subst a. exfalso. apply H2. eapply in_ids; eauto.
      + auto.
  Qed.

  Lemma ids_remove_subset (d : dict) i j : In j (ids (d_remove d i)) -> In j (ids d).
  Proof.
    induction d as [|[a x] r IH]; simpl; auto.
    destruct (i =? a); simpl; [now right|]. intros [H|H]; auto.
  Qed.

  Lemma nodup_remove (d : dict) i : NoDup (ids d) -> NoDup (ids (d_remove d i)).
  Proof.
    induction d as [|[a x] r IH]; simpl; auto. intros Hn; inversion Hn; subst.
    destruct (i =? a); simpl; auto. constructor; auto. intros H. apply H1. eapply ids_remove_subset; eauto.
  Qed.

  Lemma find_remove (d : dict) i j : NoDup (ids d) ->
    d_find (d_remove d i) j = if j =? i then None else d_find d j.
  Proof.
    induction d as [|[a x] r IH]; simpl; intros Hn.
    - destruct (j =? i); reflexivity.
    - inversion Hn; subst. destruct (i =? a) eqn:Eia.
      + apply Nat.eqb_eq in Eia; subst a. destruct (j =? i) eqn:Eji; auto.
        apply Nat.eqb_eq in Eji; subst. now apply find_not_in.
      + simpl. destruct (j =? a) eqn:Eja.
        * apply Nat.eqb_eq in Eja; subst a. rewrite Nat.eqb_sym in Eia. now rewrite Eia.
        * auto.
  Qed.

  Lemma in_remove (d : dict) i e : In e (d_remove d i) -> In e d.
  Proof.
    induction d as [|[a x] r IH]; simpl; auto.
    destruct (i =? a); simpl; [now right|]. intros [H|H]; auto.
  Qed.

  Lemma ids_set (d : dict) i x j : In j (ids (d_set d i x)) <-> j = i \/ In j (ids d).
  Proof.
    induction d as [|[a y] r IH]; simpl.
    - intuition.
    - destruct (i =? a) eqn:E; simpl.
      + apply Nat.eqb_eq in E; subst. intuition.
      + rewrite IH. intuition.
  Qed.

  Lemma nodup_set (d : dict) i x : NoDup (ids d) -> NoDup (ids (d_set d i x)).
  Proof.
    induction d as [|[a y] r IH]; simpl; intros Hn.
    - repeat constructor; auto.
    - inversion Hn; subst. destruct (i =? a) eqn:E; simpl.
      + constructor; auto.
      + constructor; auto. rewrite ids_set. intros [->|H]; [now rewrite Nat.eqb_refl in E|auto].
  Qed.

  Lemma in_set (d : dict) i x e : In e (d_set d i x) -> e = (i, x) \/ In e d.
  Proof.
    induction d as [|[a y] r IH]; simpl.
    - intuition.
    - destruct (i =? a) eqn:E; simpl.
      + apply Nat.eqb_eq in E; subst. intuition.
      + intros [H|H]; auto. destruct (IH H); auto.
  Qed.

  Variable kid : K -> nat.
  (* invariant: one slot per identity, and each slot is filed under its own key's identity *)
  Definition wf (d : dict) : Prop :=
    NoDup (ids d) /\ forall i k v, In (i, (k, v)) d -> kid k = i.

  Lemma wf_nil : wf [].
  Proof. split; [constructor|intros ? ? ? []]. Qed.

  Lemma wf_setitem d k v : wf d -> wf (id_setitem kid d k v).
  Proof.
    intros [Hn Hk]. split; [now apply nodup_set|].
    intros i k' v' H. apply in_set in H as [H|H]; [now injection H as -> -> ->|eauto].
  Qed.

  Lemma wf_remove d i : wf d -> wf (d_remove d i).
  Proof.
    intros [Hn Hk]. split; [now apply nodup_remove|]. intros j k v H. apply in_remove in H. eauto.
  Qed.

  Lemma d_set_fresh (d : dict) i x : d_find d i = None -> d_set d i x = d ++ [(i, x)].
  Proof.
    induction d as [|[a y] r IH]; simpl; auto.
    destruct (i =? a); [discriminate|]. intros H. now rewrite IH.
  Qed.

  Lemma wf_update d items : wf d -> wf (id_update kid d items).
  Proof.
    revert d; induction items as [|[k v] r IH]; simpl; intros d H; auto. apply IH. now apply wf_setitem.
  Qed.

  Lemma init_is_update items : id_init kid items = id_update kid ([] : dict) items.
  Proof.
    unfold id_init, id_update. generalize ([] : dict).
    induction items as [|[k v] r IH]; simpl; intros d; auto.
  Qed.

  Lemma wf_init items : wf (id_init kid items).
  Proof. rewrite init_is_update. apply wf_update, wf_nil. Qed.

  Lemma wf_rev_tail (d : dict) e r : wf d -> rev d = e :: r -> wf (rev r).
  Proof.
    intros [Hn Hk] E. assert (d = rev r ++ [e]) as ->.
    { rewrite <- (rev_involutive d), E. reflexivity. }
    split.
    - unfold ids in *. rewrite map_app in Hn. simpl in Hn. apply NoDup_remove_1 in Hn.
      now rewrite app_nil_r in Hn.
    - intros i k v H. apply (Hk i k v). apply in_or_app. now left.
  Qed.
End IDictFacts.

(* ---- the reference: a finite map on identities; order-dependent observations are only
   required to enumerate the map *)
Definition fmap := nat -> option (key * nat).
Definition fempty : fmap := fun _ => None.
Definition upd (m : fmap) (i : nat) (x : option (key * nat)) : fmap :=
  fun j => if j =? i then x else m j.
Definition fset (m : fmap) (kv : key * nat) : fmap := upd m (k_id (fst kv)) (Some kv).
Definition fsets (m : fmap) (items : list (key * nat)) : fmap := fold_left fset items m.
Definition feq (m m' : fmap) : Prop := forall i, m i = m' i.
(* l lists every binding of m exactly once *)
Definition enumerates (m : fmap) (l : list (key * nat)) : Prop :=
  NoDup (map (fun kv => k_id (fst kv)) l) /\ forall kv, In kv l <-> m (k_id (fst kv)) = Some kv.

Inductive spec_step : fmap -> iop -> iobs -> fmap -> Prop :=
  | S_init m items m' : feq m' (fsets fempty items) -> spec_step m (OInit items) BNone m'
  | S_set m k v m' : feq m' (fset m (k, v)) -> spec_step m (OSet k v) BNone m'
  | S_get_hit m k k' v : m (k_id k) = Some (k', v) -> spec_step m (OGet k) (BVal v) m
  | S_get_miss m k : m (k_id k) = None -> spec_step m (OGet k) BKeyErr m
  | S_del_hit m k kv m' : m (k_id k) = Some kv -> feq m' (upd m (k_id k) None) -> spec_step m (ODel k) BNone m'
  | S_del_miss m k : m (k_id k) = None -> spec_step m (ODel k) BKeyErr m
  | S_pop_hit m k k' v m' : m (k_id k) = Some (k', v) -> feq m' (upd m (k_id k) None) ->
                            spec_step m (OPop k) (BVal v) m'
  | S_pop_miss m k : m (k_id k) = None -> spec_step m (OPop k) BKeyErr m
  | S_popd_hit m k df k' v m' : m (k_id k) = Some (k', v) -> feq m' (upd m (k_id k) None) ->
                                spec_step m (OPopD k df) (BVal v) m'
  | S_popd_miss m k df : m (k_id k) = None -> spec_step m (OPopD k df) (BVal df) m
  | S_popitem m k v m' : m (k_id k) = Some (k, v) -> feq m' (upd m (k_id k) None) ->
                         spec_step m OPopItem (BItem (k_id k) (k_cls k) v) m'
  | S_popitem_empty m : feq m fempty -> spec_step m OPopItem BKeyErr m
  | S_clear m m' : feq m' fempty -> spec_step m OClear BNone m'
  | S_setdefault_hit m k v k' v' : m (k_id k) = Some (k', v') -> spec_step m (OSetDefault k v) (BVal v') m
  | S_setdefault_miss m k v m' : m (k_id k) = None -> feq m' (fset m (k, v)) ->
                                 spec_step m (OSetDefault k v) (BVal v) m'
  | S_len m l : enumerates m l -> spec_step m OLen (BLen (length l)) m
  | S_iter m l : enumerates m l -> spec_step m OIter (BKeys (map (fun kv => key_pair (fst kv)) l)) m
  | S_contains m k : spec_step m (OContains k) (BBool (match m (k_id k) with Some _ => true | None => false end)) m
  | S_getd m k df : spec_step m (OGetD k df) (BVal (match m (k_id k) with Some kv => snd kv | None => df end)) m
  | S_items m l : enumerates m l -> spec_step m OItems (BItems (map item_triple l)) m
  | S_update m items m' : feq m' (fsets m items) -> spec_step m (OUpdate items) BNone m'
  | S_eqnew m items b :
      (b = true <-> forall i, option_map snd (m i) = option_map snd (fsets fempty items i)) ->
      spec_step m (OEqNew items) (BBool b) m.

Inductive spec_run : fmap -> list iop -> list iobs -> fmap -> Prop :=
  | SR_nil m : spec_run m [] [] m
  | SR_cons m o b m1 ops bs m2 : spec_step m o b m1 -> spec_run m1 ops bs m2 ->
                                 spec_run m (o :: ops) (b :: bs) m2.

Definition abs (d : kdict) : fmap := d_find d.
Notation kwf := (wf k_id).

Lemma abs_setitem d k v : feq (abs (id_setitem k_id d k v)) (fset (abs d) (k, v)).
Proof. intros i. unfold abs, id_setitem, fset, upd. simpl. apply find_set. Qed.

Lemma fsets_feq items : forall m m', feq m m' -> feq (fsets m items) (fsets m' items).
Proof.
  induction items as [|kv r IH]; simpl; intros m m' H; auto. apply IH.
  intros i. unfold fset, upd. destruct (i =? _); auto.
Qed.

Lemma abs_update items : forall d, feq (abs (id_update k_id d items)) (fsets (abs d) items).
Proof.
  induction items as [|[k v] r IH]; simpl; intros d; [intros i; reflexivity|].
  intros i. rewrite IH. apply fsets_feq. apply abs_setitem.
Qed.

Lemma abs_init items : feq (abs (id_init k_id items)) (fsets fempty items).
Proof. rewrite init_is_update. apply (abs_update items []). Qed.

Lemma abs_remove d i : kwf d -> feq (abs (d_remove d i)) (upd (abs d) i None).
Proof. intros [Hn _] j. unfold abs, upd. now apply find_remove. Qed.

Lemma enumerates_items d : kwf d -> enumerates (abs d) (id_items d).
Proof.
  intros [Hn Hk]. unfold enumerates, id_items. split.
  - rewrite map_map. assert (map (fun x : nat * (key * nat) => k_id (fst (snd x))) d = ids d) as ->; auto.
    unfold ids. apply map_ext_in. intros [i [k v]] Hin. simpl. eauto.
  - intros [k v]. simpl. split.
    + intros H. apply in_map_iff in H as ([i [k' v']] & E & Hin). simpl in E. injection E as -> ->.
      rewrite (Hk _ _ _ Hin). unfold abs. now apply in_find.
    + intros H. apply find_in in H. apply in_map_iff. now exists (k_id k, (k, v)).
Qed.

Lemma abs_nil_iff d : feq (abs d) fempty <-> d = [].
Proof.
  split; [|intros -> i; reflexivity]. destruct d as [|[i kv] r]; auto. intros H. specialize (H i).
  unfold abs, fempty in H. simpl in H. rewrite Nat.eqb_refl in H. discriminate.
Qed.

(* id_eq decides agreement of the two maps on values *)
Lemma id_eq_spec (d e : kdict) : kwf d -> kwf e ->
  id_eq Nat.eqb d e = true <-> forall i, option_map snd (abs d i) = option_map snd (abs e i).
Proof.
  intros [Hnd Hkd] [Hne Hke]. unfold id_eq. rewrite andb_true_iff, forallb_forall, Nat.eqb_eq. split.
  - intros [Hlen Hall].
    assert (incl (ids d) (ids e)) as Hincl.
    { intros i Hi. apply ids_in in Hi as (kv & Hin). specialize (Hall _ Hin). simpl in Hall.
      destruct (d_find e i) eqn:E; [|discriminate]. apply find_in in E. eapply in_ids; eauto. }
    assert (incl (ids e) (ids d)) as Hincl'.
    { apply NoDup_length_incl; auto. unfold ids. rewrite !map_length. lia. }
    intros i. unfold abs. destruct (d_find d i) eqn:Ed.
    + apply find_in in Ed. specialize (Hall _ Ed). simpl in Hall. destruct (d_find e i); [|discriminate].
      simpl. f_equal. now apply Nat.eqb_eq.
    + destruct (d_find e i) eqn:Ee; auto. exfalso. apply find_in in Ee.
      assert (In i (ids d)) as Hi by (apply Hincl'; eapply in_ids; eauto).
      apply ids_in in Hi as (kv & Hin).
      rewrite (in_find _ _ _ Hnd Hin) in Ed. discriminate.
  - intros H. split.
    + assert (incl (ids d) (ids e) /\ incl (ids e) (ids d)) as [H1 H2].
      { split; intros i Hi; apply ids_in in Hi as (kv & Hin).
        - specialize (H i). unfold abs in H. rewrite (in_find _ _ _ Hnd Hin) in H.
          destruct (d_find e i) eqn:E; [|discriminate]. apply find_in in E. eapply in_ids; eauto.
        - specialize (H i). unfold abs in H. rewrite (in_find _ _ _ Hne Hin) in H.
          destruct (d_find d i) eqn:E; [|discriminate]. apply find_in in E. eapply in_ids; eauto. }
      apply Nat.le_antisymm.
      * rewrite <- (map_length fst d), <- (map_length fst e). apply NoDup_incl_length; auto.
      * rewrite <- (map_length fst d), <- (map_length fst e). apply NoDup_incl_length; auto.
    + intros [i kv] Hin. simpl. specialize (H i). unfold abs in H. rewrite (in_find _ _ _ Hnd Hin) in H.
      destruct (d_find e i); [|discriminate]. simpl in H. injection H as ->. apply Nat.eqb_refl.
Qed.

(* one operation: the invariant is kept and the step is one the reference allows *)
Lemma istep_refines d o : kwf d ->
  kwf (fst (istep d o)) /\ spec_step (abs d) o (snd (istep d o)) (abs (fst (istep d o))).
Proof.
  intros Hwf. pose proof Hwf as [Hn Hk]. destruct o; simpl.
  - split; [apply wf_init|]. constructor. apply abs_init.
  - split; [now apply wf_setitem|]. constructor. apply abs_setitem.
  - split; auto. unfold id_getitem. destruct (d_find d (k_id k)) as [[k' v]|] eqn:E; simpl.
    + now apply S_get_hit with k'. + now constructor.
  - unfold id_delitem. destruct (d_find d (k_id k)) as [kv|] eqn:E; simpl.
    + split; [now apply wf_remove|]. apply S_del_hit with kv; auto. now apply abs_remove.
    + split; auto. now constructor.
  - unfold id_pop. destruct (d_find d (k_id k)) as [[k' v]|] eqn:E; simpl.
    + split; [now apply wf_remove|]. apply S_pop_hit with k'; auto. now apply abs_remove.
    + split; auto. now constructor.
  - unfold id_pop. destruct (d_find d (k_id k)) as [[k' v]|] eqn:E; simpl.
    + split; [now apply wf_remove|]. apply S_popd_hit with k'; auto. now apply abs_remove.
    + split; auto. now constructor.
  - unfold id_popitem. destruct (rev d) as [|[i [k v]] r] eqn:E; simpl.
    + split; auto. constructor. apply abs_nil_iff. rewrite <- (rev_involutive d), E. reflexivity.
    + assert (d = rev r ++ [(i, (k, v))]) as Hd by (rewrite <- (rev_involutive d), E; reflexivity).
      assert (In (i, (k, v)) d) as Hin by (rewrite Hd; apply in_or_app; right; now left).
      assert (k_id k = i) as Hi by eauto.
      split; [eapply wf_rev_tail; eauto|].
      apply S_popitem.
      * unfold abs. rewrite Hi. now apply in_find.
      * (* rev r is d without its last slot *)
        intros j. unfold abs, upd. rewrite Hi.
        assert (NoDup (ids (rev r ++ [(i, (k, v))]))) as Hn' by (now rewrite <- Hd).
        unfold ids in Hn'. rewrite map_app in Hn'. simpl in Hn'.
        destruct (j =? i) eqn:Eji.
        -- apply Nat.eqb_eq in Eji; subst j. apply find_not_in.
           apply NoDup_remove_2 in Hn'. rewrite app_nil_r in Hn'. exact Hn'.
        -- rewrite Hd. clear - Eji. induction (rev r) as [|[a x] q IH]; simpl.
           ++ now rewrite Eji.
           ++ destruct (j =? a); auto.
  - split; [apply wf_nil|]. constructor. intros i; reflexivity.
  - unfold id_setdefault. destruct (d_find d (k_id k)) as [[k' v']|] eqn:E; simpl.
    + split; auto. now apply S_setdefault_hit with k'.
    + rewrite <- (d_set_fresh d (k_id k) (k, v) E). split; [now apply (wf_setitem k_id d k v)|].
      apply S_setdefault_miss; auto. apply abs_setitem.
  - split; auto. unfold id_len. rewrite <- (map_length snd d). apply S_len. now apply enumerates_items.
  - split; auto. unfold id_iter.
    assert (map key_pair (map (fun e : nat * (key * nat) => fst (snd e)) d)
            = map (fun kv : key * nat => key_pair (fst kv)) (id_items d)) as ->.
    { unfold id_items. rewrite !map_map. reflexivity. }
    apply S_iter. now apply enumerates_items.
  - split; auto. unfold id_getitem. fold (abs d (k_id k)).
    assert (match option_map snd (abs d (k_id k)) with Some _ => true | None => false end
            = match abs d (k_id k) with Some _ => true | None => false end) as ->
        by (destruct (abs d (k_id k)); reflexivity).
    apply S_contains.
  - split; auto. unfold id_getitem. fold (abs d (k_id k)).
    assert (match option_map snd (abs d (k_id k)) with Some v => v | None => dflt end
            = match abs d (k_id k) with Some kv => snd kv | None => dflt end) as ->
        by (destruct (abs d (k_id k)); reflexivity).
    apply S_getd.
  - split; auto. apply S_items. now apply enumerates_items.
  - split; [now apply wf_update|]. constructor. apply abs_update.
  - split; auto. constructor. rewrite id_eq_spec; auto; [|apply wf_init].
    split; intros H i; specialize (H i).
    + rewrite H. f_equal. apply abs_init.
    + rewrite H. f_equal. symmetry. apply abs_init.
Qed.

Lemma irun_refines ops : forall d, kwf d ->
  kwf (fst (irun d ops)) /\ spec_run (abs d) ops (snd (irun d ops)) (abs (fst (irun d ops))).
Proof.
  induction ops as [|o r IH]; intros d Hwf; simpl.
  - split; auto. constructor.
  - destruct (istep_refines d o Hwf) as [Hwf1 Hs]. destruct (istep d o) as [d1 b] eqn:E1. simpl in *.
    destruct (IH d1 Hwf1) as [Hwf2 Hr]. destruct (irun d1 r) as [d2 bs] eqn:E2. simpl in *.
    split; auto. econstructor; eauto.
Qed.

Lemma irun_refines_empty ops :
  spec_run fempty ops (snd (irun [] ops)) (abs (fst (irun [] ops))).
Proof. apply (irun_refines ops []). apply wf_nil. Qed.

(* lookups see identities only: an equal key with another identity does not reach the slot *)
Lemma getitem_by_identity {K V} (kid : K -> nat) (d : idict K V) k k' :
  kid k = kid k' -> id_getitem kid d k = id_getitem kid d k'.
Proof. unfold id_getitem. now intros ->. Qed.

Lemma setitem_other_identity {K V} (kid : K -> nat) (d : idict K V) k v k' :
  kid k' <> kid k -> id_getitem kid (id_setitem kid d k v) k' = id_getitem kid d k'.
Proof.
  intros H. unfold id_getitem, id_setitem. rewrite find_set.
  apply Nat.eqb_neq in H. now rewrite H.
Qed.

Lemma setitem_same_identity {K V} (kid : K -> nat) (d : idict K V) k v :
  id_getitem kid (id_setitem kid d k v) k = Some v.
Proof. unfold id_getitem, id_setitem. rewrite find_set, Nat.eqb_refl. reflexivity. Qed.

Lemma equal_but_distinct_misses (d : kdict) k1 k2 v :
  k_cls k1 = k_cls k2 -> k_id k1 <> k_id k2 -> id_getitem k_id d k2 = None ->
  id_getitem k_id (id_setitem k_id d k1 v) k1 = Some v /\
  id_getitem k_id (id_setitem k_id d k1 v) k2 = None.
Proof.
  intros _ Hne Hm. split; [apply setitem_same_identity|].
  rewrite setitem_other_identity; auto.
Qed.

(* ================================================================== 4. registry: latest wins *)
Section RegistryFacts.
  Context {H : Type}.
  Notation reg := (registry H).

  Definition resolves_to (x : tower * list string * H) (i : nat) : bool :=
    match get_code (fst (fst x)) (snd (fst x)) with GOk c => code_id c =? i | GErr _ => false end.

  (* reference: the last registration whose target resolves to the code object with identity i *)
  Fixpoint latest (l : list (tower * list string * H)) (i : nat) : option H :=
    match l with
    | [] => None
    | x :: r => match latest r i with
                | Some h => Some h
                | None => if resolves_to x i then Some (snd x) else None
                end
    end.

  Lemma dispatch_register (r : reg) t names h i :
    dispatch (fst (register r t names h)) i =
    if resolves_to (t, names, h) i then Some h else dispatch r i.
  Proof.
    unfold register, resolves_to, dispatch. simpl. destruct (get_code t names) as [c|e]; simpl; auto.
    unfold id_setitem. rewrite find_set. rewrite (Nat.eqb_sym i). destruct (code_id c =? i); reflexivity.
  Qed.

  Lemma register_result (r : reg) t names h :
    snd (register r t names h) = match get_code t names with GOk _ => ROk | GErr e => RErr e end.
  Proof. unfold register. destruct (get_code t names); reflexivity. Qed.

  Lemma latest_wins l : forall (r : reg) i,
    dispatch (fst (register_all r l)) i =
    match latest l i with Some h => Some h | None => dispatch r i end.
  Proof.
    induction l as [|[[t ns] h] rest IH]; intros r i; simpl; auto.
    pose proof (dispatch_register r t ns h i) as Hd.
    destruct (register r t ns h) as [r1 x]. simpl in Hd.
    specialize (IH r1 i). destruct (register_all r1 rest) as [r2 xs]. simpl in *.
    rewrite IH. destruct (latest rest i); auto.
    rewrite Hd. destruct (resolves_to (t, ns, h) i); reflexivity.
  Qed.

  Lemma register_all_results l : forall (r : reg),
    snd (register_all r l) =
    map (fun x => match get_code (fst (fst x)) (snd (fst x)) with GOk _ => ROk | GErr e => RErr e end) l.
  Proof.
    induction l as [|[[t ns] h] rest IH]; intros r; simpl; auto.
    pose proof (register_result r t ns h) as Hr.
    destruct (register r t ns h) as [r1 x]. simpl in Hr. specialize (IH r1).
    destruct (register_all r1 rest) as [r2 xs]. simpl in *. now rewrite Hr, IH.
  Qed.
End RegistryFacts.

(* ================================================================== 5. customize *)
(* the documented effect of customize(..., hide, hide_line, prune, elaborate) on a matching frame *)
Definition documented_effect (o : opts) (fr : frame) (next : option string)
           (res : oframe * eret * list call) : Prop :=
  let '(fo, x, cs) := res in
  of_name fo = f_name fr /\
  of_hide fo = o_hide o /\                                   (* hide *)
  of_hide_line fo = o_hide_line o /\                         (* hide_line *)
  (* elaborate: called exactly once with (frame, next_inner), or never if not given *)
  cs = match o_elab o with ENo => [] | ERet tag _ => [(tag, f_name fr, next)] end /\
  (* a replacement returned by elaborate redirects the rest of the stack; prune takes effect
     exactly if elaborate is unspecified or returned None *)
  x = match o_elab o with
      | ERet _ (Some l) => XRepl l
      | _ => if o_prune o then XRepl [] else XNone
      end.

Lemma customize_effect f (r0 : registry hook) t names o c :
  get_code t names = GOk c ->
  let r := fst (customize f r0 t names o) in
  snd (customize f r0 t names o) = ROk /\
  (forall fr next, f_code fr = code_id c ->
     documented_effect o fr next (run_hook (dispatch r (f_code fr)) fr next)) /\
  (forall i, i <> code_id c -> dispatch r i = dispatch r0 i).
Proof.
  intros Hg. assert (Hd : forall o', fst (customize_direct r0 t names o') = id_setitem code_id r0 c (HCustom o')
                                     /\ snd (customize_direct r0 t names o') = ROk).
  { intros o'. unfold customize_direct, register. rewrite Hg. auto. }
  assert (Hp : partial_kwargs o = o) by (destruct o; reflexivity).
  assert (E : fst (customize f r0 t names o) = id_setitem code_id r0 c (HCustom o)
              /\ snd (customize f r0 t names o) = ROk).
  { destruct f; simpl; [apply Hd|rewrite Hp; apply Hd]. }
  destruct E as [E1 E2]. simpl. rewrite E1. split; auto. split.
  - intros fr next Hc. unfold dispatch, id_setitem. rewrite find_set, Hc, Nat.eqb_refl. simpl.
    destruct o as [h hl p e]; simpl. destruct e as [|tag [l|]]; simpl; repeat split; reflexivity.
  - intros i Hi. unfold dispatch, id_setitem. rewrite find_set. apply Nat.eqb_neq in Hi. now rewrite Hi.
Qed.

Lemma customize_error f (r0 : registry hook) t names o e :
  get_code t names = GErr e -> customize f r0 t names o = (r0, RErr e).
Proof. intros Hg. destruct f; unfold customize, customize_direct, register; rewrite Hg; reflexivity. Qed.

(* The finite sweep asked for by the design: every flag combination x elaborate kind x form on a
   concrete 3-frame chain gives, through [walk], exactly the documented stack. *)
Definition sweep_code (i : nat) : code := MkCode i "f" [].
Definition sweep_stack : list frame := [Frame 0 "f0" false; Frame 1 "f1" true; Frame 2 "f2" false].
Definition sweep_repl : list frame := [Frame 7 "r0" false].
Definition sweep_elabs : list elab := [ENo; ERet 1 None; ERet 1 (Some sweep_repl); ERet 1 (Some [])].
Definition sweep_expected (o : opts) : wres :=
  let cut := match o_elab o with
             | ERet _ (Some l) => Some l
             | _ => if o_prune o then Some [] else None end in
  WOk ([OFrame "f0" false false; OFrame "f1" (o_hide o) (o_hide_line o)] ++
       match cut with
       | None => [OFrame "f2" false false]
       | Some l => map (fun fr => OFrame (f_name fr) (f_tbhide fr) false) l
       end)
      (match o_elab o with ENo => [] | ERet tag _ => [(tag, "f1"%string, Some "f2"%string)] end).
Definition sweep_one (f : form) (o : opts) : bool :=
  wres_eqb (walk 1 (fst (customize f [] (TPartial (TFn (sweep_code 1))) [] o)) sweep_stack) (sweep_expected o).
Definition bools := [false; true].
Definition sweep_all : bool :=
  forallb (fun f => forallb (fun h => forallb (fun hl => forallb (fun p => forallb (fun e =>
    sweep_one f (Opts h hl p e)) sweep_elabs) bools) bools) bools) [Direct; Decorator].

Lemma customize_sweep :
  forall f h hl p e, In f [Direct; Decorator] -> In h bools -> In hl bools -> In p bools -> In e sweep_elabs ->
  walk 1 (fst (customize f [] (TPartial (TFn (sweep_code 1))) [] (Opts h hl p e))) sweep_stack
  = sweep_expected (Opts h hl p e).
Proof.
  assert (Hall : sweep_all = true) by (vm_compute; reflexivity).
  intros f h hl p e Hf Hh Hhl Hp He. unfold sweep_all in Hall.
  rewrite forallb_forall in Hall. specialize (Hall f Hf).
  rewrite forallb_forall in Hall. specialize (Hall h Hh).
  rewrite forallb_forall in Hall. specialize (Hall hl Hhl).
  rewrite forallb_forall in Hall. specialize (Hall p Hp).
  rewrite forallb_forall in Hall. specialize (Hall e He).
  unfold sweep_one in Hall.
  destruct (walk 1 _ sweep_stack) as [fs cs|] eqn:Ew; [|discriminate].
  revert Hall. generalize (sweep_expected (Opts h hl p e)). intros [fs' cs'|]; [|discriminate].
  simpl. rewrite andb_true_iff. intros [H1 H2]. f_equal.
  - apply (list_eqb_eq oframe_eqb); auto. intros [n1 a1 b1] [n2 a2 b2]. unfold oframe_eqb; simpl.
    rewrite !andb_true_iff. intros [[Hn Ha] Hb]. apply String.eqb_eq in Hn. apply Bool.eqb_prop in Ha, Hb. congruence.
  - apply (list_eqb_eq call_eqb); auto. intros [[t1 f1] n1] [[t2 f2] n2]. unfold call_eqb.
    rewrite !andb_true_iff. intros [[Ht Hf'] Hn]. apply Nat.eqb_eq in Ht. apply String.eqb_eq in Hf'.
    apply (option_eqb_eq String.eqb) in Hn; [congruence|]. intros x y. apply String.eqb_eq.
Qed.

(* ---- walk against a fuel-free reference *)
Definition next_name (rest : list frame) : option string :=
  match rest with n :: _ => Some (f_name n) | [] => None end.

Inductive Walk (r : registry hook) : list frame -> list oframe -> list call -> Prop :=
  | W_nil : Walk r [] [] []
  | W_keep fr rest fo cs fs cs' :
      run_hook (dispatch r (f_code fr)) fr (next_name rest) = (fo, XNone, cs) ->
      Walk r rest fs cs' -> Walk r (fr :: rest) (fo :: fs) (cs ++ cs')
  | W_repl fr rest fo l cs fs cs' :
      run_hook (dispatch r (f_code fr)) fr (next_name rest) = (fo, XRepl l, cs) ->
      Walk r l fs cs' -> Walk r (fr :: rest) (fo :: fs) (cs ++ cs').

Lemma walk_nil fuel r : walk fuel r [] = WOk [] [].
Proof. destruct fuel; reflexivity. Qed.

Lemma walk_keep fuel r fr rest fo cs :
  run_hook (dispatch r (f_code fr)) fr (next_name rest) = (fo, XNone, cs) ->
  walk fuel r (fr :: rest) = wcons fo cs (walk fuel r rest).
Proof. unfold next_name. intros H. destruct fuel; simpl; rewrite H; reflexivity. Qed.

Lemma walk_repl_S n r fr rest fo l cs :
  run_hook (dispatch r (f_code fr)) fr (next_name rest) = (fo, XRepl l, cs) ->
  walk (S n) r (fr :: rest) = wcons fo cs (walk n r l).
Proof. unfold next_name. intros H. simpl. rewrite H. reflexivity. Qed.

Lemma walk_repl_0 r fr rest fo l cs :
  run_hook (dispatch r (f_code fr)) fr (next_name rest) = (fo, XRepl l, cs) ->
  walk 0 r (fr :: rest) = WOutOfFuel.
Proof. unfold next_name. intros H. simpl. rewrite H. reflexivity. Qed.

Lemma wcons_ok fo cs w fs cs' :
  wcons fo cs w = WOk fs cs' -> exists fs0 cs0, w = WOk fs0 cs0 /\ fs = fo :: fs0 /\ cs' = cs ++ cs0.
Proof. destruct w as [fs0 cs0|]; simpl; [|discriminate]. intros [= <- <-]. eauto. Qed.

Lemma walk_sound fuel : forall r st fs cs, walk fuel r st = WOk fs cs -> Walk r st fs cs.
Proof.
  induction fuel as [|n IHf]; intros r st; induction st as [|fr rest IH]; intros fs cs.
  - rewrite walk_nil. intros [= <- <-]. constructor.
  - destruct (run_hook (dispatch r (f_code fr)) fr (next_name rest)) as [[fo x] cs0] eqn:E.
    destruct x as [|l].
    + rewrite (walk_keep _ _ _ _ _ _ E). intros H. apply wcons_ok in H as (fs0 & cs1 & Hw & -> & ->).
      eapply W_keep; eauto.
    + rewrite (walk_repl_0 _ _ _ _ _ _ E). discriminate.
  - rewrite walk_nil. intros [= <- <-]. constructor.
  - destruct (run_hook (dispatch r (f_code fr)) fr (next_name rest)) as [[fo x] cs0] eqn:E.
    destruct x as [|l].
    + rewrite (walk_keep _ _ _ _ _ _ E). intros H. apply wcons_ok in H as (fs0 & cs1 & Hw & -> & ->).
      eapply W_keep; eauto.
    + rewrite (walk_repl_S _ _ _ _ _ _ _ E). intros H. apply wcons_ok in H as (fs0 & cs1 & Hw & -> & ->).
      eapply W_repl; eauto.
Qed.

Lemma walk_complete r st fs cs :
  Walk r st fs cs -> exists fuel, forall fuel', fuel <= fuel' -> walk fuel' r st = WOk fs cs.
Proof.
  induction 1.
  - exists 0. intros m _. apply walk_nil.
  - destruct IHWalk as (n & Hn). exists n. intros m Hm.
    rewrite (walk_keep _ _ _ _ _ _ H), (Hn m Hm). reflexivity.
  - destruct IHWalk as (n & Hn). exists (S n). intros m Hm.
    destruct m as [|m]; [lia|]. rewrite (walk_repl_S _ _ _ _ _ _ _ H), (Hn m) by lia. reflexivity.
Qed.

(* the two results can only differ by running out of fuel *)
Lemma walk_fuel_irrelevant fuel fuel' r st fs cs fs' cs' :
  walk fuel r st = WOk fs cs -> walk fuel' r st = WOk fs' cs' -> fs = fs' /\ cs = cs'.
Proof.
  intros H1 H2. apply walk_sound, walk_complete in H1 as (n & Hn).
  apply walk_sound, walk_complete in H2 as (n' & Hn').
  specialize (Hn (n + n') ltac:(lia)). specialize (Hn' (n + n') ltac:(lia)).
  rewrite Hn in Hn'. now injection Hn' as -> ->.
Qed.

(* ================================================================== Examples: the hypotheses of
   the theorems in C12.v are met by non-trivial inputs *)
Open Scope string_scope.
Definition ex_inner_b := MkCode 4 "b" [].
Definition ex_inner_a1 := MkCode 2 "a" [None; Some (MkCode 3 "<lambda>" []); Some ex_inner_b].
Definition ex_inner_a2 := MkCode 5 "a" [].                       (* a later def of the same name *)
Definition ex_top := MkCode 1 "top" [None; Some ex_inner_a1; None; Some ex_inner_a2].
Definition ex_tower :=
  TPartial (TMethod (TWrapped (MkCode 9 "wrapper" []) (TClassM (TWrapped (MkCode 8 "wrapper" []) (TFn ex_top))))).

Example ex_tower_innermost : innermost ex_tower = Some ex_top.
Proof. reflexivity. Qed.
Example ex_nested_first_match : get_code ex_tower ["a"; "b"] = GOk ex_inner_b.
Proof. reflexivity. Qed.
Example ex_nested_resolves : Resolves ex_top ["a"; "b"] 0 (GOk ex_inner_b).
Proof. apply (get_code_nested ex_tower ["a"; "b"] ex_top eq_refl). reflexivity. Qed.
Example ex_nested_too_deep : get_code ex_tower ["b"] = GErr (EValueError 0).   (* b exists only below a *)
Proof. reflexivity. Qed.
Example ex_nested_miss_at_1 : get_code ex_tower ["a"; "nope"] = GErr (EValueError 1).
Proof. reflexivity. Qed.
Example ex_other : get_code (TPartial (TMethod TOther)) [] = GErr ETypeError.
Proof. reflexivity. Qed.

Definition ex_k1 := Key 1 7.
Definition ex_k2 := Key 2 7.       (* equal to ex_k1 (same class), another object *)
Definition ex_dict : kdict := id_init k_id [(Key 3 7, 30); (Key 4 8, 40)].
Example ex_dict_wf : kwf ex_dict.
Proof. apply wf_init. Qed.
Example ex_equal_distinct_hyps :
  k_cls ex_k1 = k_cls ex_k2 /\ k_id ex_k1 <> k_id ex_k2 /\ id_getitem k_id ex_dict ex_k2 = None.
Proof. repeat split. discriminate. Qed.
(* contrast: a dictionary keyed by the keys' own equality would answer the equal key *)
Definition cls_getitem (d : kdict) (k : key) : option nat :=
  option_map (fun e => snd (snd e)) (find (fun e : nat * (key * nat) => (k_cls (fst (snd e)) =? k_cls k)%nat) d).
Example ex_equality_keyed_dict_hits :
  cls_getitem (id_setitem k_id ex_dict ex_k1 5) ex_k2 = Some 30 /\
  id_getitem k_id (id_setitem k_id ex_dict ex_k1 5) ex_k2 = None.
Proof. split; reflexivity. Qed.

Definition ex_opts := Opts true true true (ERet 3 None).
Example ex_customize_hyp : get_code ex_tower ["a"] = GOk ex_inner_a1.
Proof. reflexivity. Qed.
Example ex_customize_walk :
  Walk (fst (customize Decorator [] ex_tower ["a"] ex_opts))
       [Frame 1 "top" false; Frame 2 "a" false; Frame 5 "a" true; Frame 4 "b" false]
       [OFrame "top" false false; OFrame "a" true true] [(3, "a", Some "a")].
Proof. apply (walk_sound 1). reflexivity. Qed.
Example ex_walk_with_replacement :
  Walk (fst (customize Direct [] (TFn ex_top) [] (Opts false true true (ERet 3 (Some [Frame 5 "a" true; Frame 4 "b" false])))))
       [Frame 1 "top" false; Frame 2 "a" false]
       [OFrame "top" false true; OFrame "a" true false; OFrame "b" false false] [(3, "top", Some "a")].
Proof. apply (walk_sound 1). reflexivity. Qed.
