(* P_Chain.v — proofs for C03: M_Frames.extract on a compiled chain of suspended links
   returns the reference path; the with_contexts flag does not change frames or leaf. *)
Require Import Base M_Frames M_Chain.

Lemma node_at_S ch pos : node_at ch (S pos) = child (node_at ch pos).
Proof.
  revert ch; induction pos as [|p IH]; intro ch; [reflexivity|].
  change (node_at ch (S (S p))) with (node_at (child ch) (S p)). rewrite IH. reflexivity.
Qed.

(* queue steps the inner loop spends on a sub-chain *)
Fixpoint cost (s : chain) : nat :=
  match s with
  | Nil => 0
  | Leaf => 1
  | Link _ (Some _) _ n => 2 + cost n
  | Link _ None _ _ => 1
  | CoroWrapper t | ASend t | AThrow t => 1 + cost t
  end.

(* what the inner loop leaves in to_elaborate for a sub-chain at position pos, depth d *)
Fixpoint entries (s : chain) (pos d : nat) : list tent :=
  match s with
  | Link _ (Some f) _ n => (QFr f (Some pos), S d) :: entries n (S pos) (S d)
  | Link _ None _ _ => []
  | CoroWrapper t | ASend t | AThrow t => entries t (S pos) (S d)
  | Leaf => [(QObj pos, d)]
  | Nil => []
  end.

Definition hops (s : chain) : nat :=
  match s with CoroWrapper _ | ASend _ | AThrow _ => 2 | _ => 1 end.

Lemma suspended_not_running k r n : suspended k r n = true -> treated_running k r n = false.
Proof. destruct k, r, n; simpl; intros; try reflexivity; discriminate. Qed.

Section Chain.
Variables (ch : chain) (sl : nat -> list nat) (cx : nat -> cres) (fl : nat -> fres)
          (wc : bool) (g : guards) (ug : nat).
Local Notation c := (chain_cfg_gen ch sl cx fl wc g ug).

Lemma bo_link pos fb k fr r n :
  node_at ch pos = Link k fr r n -> better_origin c (QObj pos) fb = Some pos.
Proof. intros H. unfold better_origin. simpl. rewrite H. reflexivity. Qed.

Lemma flatten_chain :
  forall s pos d cnt org0 fuel te_rev errs t,
    node_at ch pos = s -> wf_susp s = true -> is_nil s = false ->
    2 <= ug -> cnt + hops s <= 2 -> cost s < fuel ->
    flatten fuel cnt c [(better_origin c (QObj pos) org0, QObj pos, d)] te_rev errs t
    = FlOk (rev te_rev ++ entries s pos d) errs (t + chain_len s).
Proof.
  induction s as [| |k fr r n IH|u IH|u IH|u IH]; intros pos d cnt org0 fuel te_rev errs t Hn Hwf Hnil Hug Hcnt Hfuel.
  - discriminate.
  - (* Leaf *)
    destruct fuel as [|fuel]; [simpl in Hfuel; lia|].
    assert (Hlt : (ug <? S cnt) = false) by (apply Nat.ltb_ge; simpl in Hcnt; lia).
    simpl. rewrite Hn. simpl. rewrite Hlt.
    destruct fuel as [|fuel]; [simpl in Hfuel; lia|].
    simpl. rewrite Nat.add_1_r. reflexivity.
  - (* Link *)
    destruct fuel as [|fuel]; [simpl in Hfuel; lia|].
    assert (Hlt : (ug <? S cnt) = false) by (apply Nat.ltb_ge; simpl in Hcnt; lia).
    rewrite (bo_link pos org0 _ _ _ _ Hn).
    destruct fr as [f|].
    + simpl in Hwf. apply andb_true_iff in Hwf as [Hs Hw].
      apply suspended_not_running in Hs.
      simpl. rewrite Hn. simpl. rewrite Hs. simpl. rewrite Hlt.
      destruct fuel as [|fuel]; [simpl in Hfuel; lia|].
      assert (Hfo : frame_origin c (Some pos) f = Some pos).
      { unfold frame_origin. simpl. rewrite Hn. simpl. rewrite Nat.eqb_refl. reflexivity. }
      assert (Hch : node_at ch (S pos) = n) by (rewrite node_at_S, Hn; reflexivity).
      destruct (is_nil n) eqn:En.
      * destruct n; try discriminate.
        simpl. rewrite Hfo.
        destruct fuel as [|fuel]; [simpl in Hfuel; lia|].
        simpl. rewrite Nat.add_1_r. reflexivity.
      * unfold child_item. rewrite En.
        change (flatten (S fuel) (S cnt) c
                  ((Some pos, QPy f, S d)
                   :: map (fun i : item => (better_origin c (q_of i) (Some pos), q_of i, S d)) [IObj (S pos)] ++ [])
                  te_rev errs (S t))
          with (flatten fuel 0 c [(better_origin c (QObj (S pos)) (Some pos), QObj (S pos), S d)]
                  ((QFr f (frame_origin c (Some pos) f), S d) :: te_rev) errs (S t)).
        rewrite Hfo.
        rewrite (IH (S pos) (S d) 0 (Some pos) fuel _ errs (S t) Hch Hw En Hug).
        -- simpl. rewrite <- app_assoc. simpl. f_equal. lia.
        -- destruct n; simpl; lia.
        -- simpl in Hfuel. lia.
    + (* exhausted *)
      simpl in Hwf. apply andb_true_iff in Hwf as [Hr Hw].
      destruct r; [discriminate|]. destruct n; try discriminate.
      simpl. rewrite Hn. simpl.
      replace (match k with KAGen => false | _ => false end) with false by (destruct k; reflexivity).
      simpl. rewrite Hlt.
      destruct fuel as [|fuel]; [simpl in Hfuel; lia|].
      simpl. rewrite app_nil_r, Nat.add_1_r. reflexivity.
  - Show.
Abort.
End Chain.
