(* P_Chain.v — proofs for C03: M_Frames.extract on a compiled chain of suspended links
   returns the reference path; the with_contexts flag does not change frames or leaf. *)
Require Import Base M_Frames M_Chain.

Lemma node_at_S ch pos : node_at ch (S pos) = child (node_at ch pos).
Proof.
  revert ch; induction pos as [|p IH]; intro ch; [reflexivity|].
  change (node_at ch (S (S p))) with (node_at (child ch) (S p)). rewrite IH. reflexivity.
Qed.

(* queue steps the inner loop spends on a sub-chain *)
Fixpoint cost (s : chain) : nat :=
  match s with
  | Nil => 0
  | Leaf => 1
  | Link _ (Some _) _ n => 2 + cost n
  | Link _ None _ _ => 1
  | CoroWrapper t | ASend t | AThrow t => 1 + cost t
  end.

(* what the inner loop leaves in to_elaborate for a sub-chain at position pos, depth d *)
Fixpoint entries (s : chain) (pos d : nat) : list tent :=
  match s with
  | Link _ (Some f) _ n => (QFr f (Some pos), S d) :: entries n (S pos) (S d)
  | Link _ None _ _ => []
  | CoroWrapper t | ASend t | AThrow t => entries t (S pos) (S d)
  | Leaf => [(QObj pos, d)]
  | Nil => []
  end.

Definition hops (s : chain) : nat :=
  match s with CoroWrapper _ | ASend _ | AThrow _ => 2 | _ => 1 end.

Lemma suspended_not_running k r n : suspended k r n = true -> treated_running k r n = false.
Proof. destruct k, r, n; simpl; intros; try reflexivity; discriminate. Qed.

Lemma flatten_done (c : cfg) fuel cnt te_rev errs t :
  flatten (S fuel) cnt c [] te_rev errs t = FlOk (rev te_rev) errs t.
Proof. reflexivity. Qed.

Section Chain.
Variables (ch : chain) (sl : nat -> list nat) (cx : nat -> cres) (fl : nat -> fres)
          (wc : bool) (g : guards) (ug : nat).
Local Notation c := (chain_cfg_gen ch sl cx fl wc g ug).

Lemma bo_link pos fb k fr r n :
  node_at ch pos = Link k fr r n -> better_origin c (QObj pos) fb = Some pos.
Proof. intros H. unfold better_origin. simpl. rewrite H. reflexivity. Qed.

Lemma flatten_py fuel cnt org f d tu te_rev errs t :
  flatten (S fuel) cnt c ((org, QPy f, d) :: tu) te_rev errs t
  = flatten fuel 0 c tu ((QFr f (frame_origin c org f), d) :: te_rev) errs t.
Proof. reflexivity. Qed.

Lemma flatten_wrap pos d cnt o1 fuel te_rev errs t :
  urule sl (node_at ch pos) pos = UOne (IObj (S pos)) -> (ug <? S cnt) = false ->
  flatten (S fuel) cnt c [(o1, QObj pos, d)] te_rev errs t
  = flatten fuel (S cnt) c [(better_origin c (QObj (S pos)) o1, QObj (S pos), S d)] te_rev errs (S t).
Proof. intros H H0. simpl. rewrite H. simpl. rewrite H0. reflexivity. Qed.

Lemma flatten_chain :
  forall s pos d cnt org0 fuel te_rev errs t,
    node_at ch pos = s -> wf_susp s = true -> is_nil s = false ->
    2 <= ug -> cnt + hops s <= 2 -> cost s < fuel ->
    flatten fuel cnt c [(better_origin c (QObj pos) org0, QObj pos, d)] te_rev errs t
    = FlOk (rev te_rev ++ entries s pos d) errs (t + chain_len s).
Proof.
  induction s as [| |k fr r n IH|u IH|u IH|u IH]; intros pos d cnt org0 fuel te_rev errs t Hn Hwf Hnil Hug Hcnt Hfuel.
  - discriminate.
  - (* Leaf *)
    destruct fuel as [|fuel]; [simpl in Hfuel; lia|].
    assert (Hlt : (ug <? S cnt) = false) by (apply Nat.ltb_ge; simpl in Hcnt; lia).
    simpl. rewrite Hn. simpl. rewrite Hlt.
    destruct fuel as [|fuel]; [simpl in Hfuel; lia|].
    simpl. rewrite Nat.add_1_r. reflexivity.
  - (* Link *)
    destruct fuel as [|fuel]; [simpl in Hfuel; lia|].
    assert (Hlt : (ug <? S cnt) = false) by (apply Nat.ltb_ge; simpl in Hcnt; lia).
    rewrite (bo_link pos org0 _ _ _ _ Hn).
    destruct fr as [f|].
    + simpl in Hwf. apply andb_true_iff in Hwf as [Hs Hw].
      apply suspended_not_running in Hs.
      simpl. rewrite Hn. simpl. rewrite Hs. simpl. rewrite Hlt.
      destruct fuel as [|fuel]; [simpl in Hfuel; lia|].
      assert (Hfo : frame_origin c (Some pos) f = Some pos).
      { unfold frame_origin. simpl. rewrite Hn. simpl. rewrite Nat.eqb_refl. reflexivity. }
      assert (Hch : node_at ch (S pos) = n) by (rewrite node_at_S, Hn; reflexivity).
      destruct (is_nil n) eqn:En.
      * destruct n; try discriminate.
        rewrite flatten_py, Hfo.
        destruct fuel as [|fuel]; [simpl in Hfuel; lia|].
        unfold child_item; cbn [is_nil map app].
        rewrite flatten_done. simpl. rewrite Nat.add_1_r. reflexivity.
      * rewrite flatten_py, Hfo.
        unfold child_item. rewrite En. cbn [map app q_of].
        rewrite (IH (S pos) (S d) 0 (Some pos) fuel _ errs (S t) Hch Hw eq_refl Hug).
        -- simpl. rewrite <- app_assoc. simpl. f_equal. lia.
        -- destruct n; simpl; lia.
        -- simpl in Hfuel. lia.
    + (* exhausted *)
      simpl in Hwf. apply andb_true_iff in Hwf as [Hr Hw].
      destruct r; [discriminate|]. destruct n; try discriminate.
      assert (Htr : treated_running k false Nil = false) by (destruct k; reflexivity).
      simpl. rewrite Hn. simpl. rewrite Htr. simpl. rewrite Hlt.
      destruct fuel as [|fuel]; [simpl in Hfuel; lia|].
      simpl. rewrite app_nil_r, Nat.add_1_r. reflexivity.
  - (* CoroWrapper *)
    destruct fuel as [|fuel]; [simpl in Hfuel; lia|].
    simpl in Hwf. apply andb_true_iff in Hwf as [Hk Hw].
    assert (Hlt : (ug <? S cnt) = false) by (apply Nat.ltb_ge; simpl in Hcnt; lia).
    assert (Hch : node_at ch (S pos) = u) by (rewrite node_at_S, Hn; reflexivity).
    rewrite flatten_wrap; [| rewrite Hn; simpl; rewrite Hk; reflexivity | exact Hlt].
    rewrite (IH (S pos) (S d) (S cnt) _ fuel te_rev errs (S t) Hch Hw); try assumption.
    + simpl. f_equal. lia.
    + destruct u; try discriminate; reflexivity.
    + destruct u; try discriminate. simpl in *. lia.
    + simpl in Hfuel. lia.
  - (* ASend *)
    destruct fuel as [|fuel]; [simpl in Hfuel; lia|].
    simpl in Hwf. apply andb_true_iff in Hwf as [Hk Hw].
    assert (Hlt : (ug <? S cnt) = false) by (apply Nat.ltb_ge; simpl in Hcnt; lia).
    assert (Hch : node_at ch (S pos) = u) by (rewrite node_at_S, Hn; reflexivity).
    rewrite flatten_wrap; [| rewrite Hn; simpl; rewrite Hk; reflexivity | exact Hlt].
    rewrite (IH (S pos) (S d) (S cnt) _ fuel te_rev errs (S t) Hch Hw); try assumption.
    + simpl. f_equal. lia.
    + destruct u; try discriminate; reflexivity.
    + destruct u; try discriminate. simpl in *. lia.
    + simpl in Hfuel. lia.
  - (* AThrow *)
    destruct fuel as [|fuel]; [simpl in Hfuel; lia|].
    simpl in Hwf. apply andb_true_iff in Hwf as [Hk Hw].
    assert (Hlt : (ug <? S cnt) = false) by (apply Nat.ltb_ge; simpl in Hcnt; lia).
    assert (Hch : node_at ch (S pos) = u) by (rewrite node_at_S, Hn; reflexivity).
    rewrite flatten_wrap; [| rewrite Hn; simpl; rewrite Hk; reflexivity | exact Hlt].
    rewrite (IH (S pos) (S d) (S cnt) _ fuel te_rev errs (S t) Hch Hw); try assumption.
    + simpl. f_equal. lia.
    + destruct u; try discriminate; reflexivity.
    + destruct u; try discriminate. simpl in *. lia.
    + simpl in Hfuel. lia.
Qed.
End Chain.

(* ---------- what the outer loop makes of a fully unwrapped queue (every hook at default) ---------- *)
Fixpoint te_out (te : list tent) : list fout :=
  match te with
  | (QFr f org, _) :: r => FOut f false org [] :: te_out r
  | _ => []
  end.

Fixpoint te_leaf (te : list tent) : leaf :=
  match te with
  | [] => LNone
  | (QFr _ _, _) :: r => te_leaf r
  | (q, _) :: r => match r with [] => LOne q | _ => LMany (map fst te) end
  end.

Lemma entries_out s : forall pos d,
  te_out (entries s pos d) = map (fun fp => FOut (fst fp) false (Some (snd fp)) []) (ref_path s pos).
Proof.
  induction s as [| |k fr r n IH|u IH|u IH|u IH]; intros pos d; simpl; auto.
  destruct fr; simpl; [rewrite IH|]; reflexivity.
Qed.

Lemma entries_leaf s : forall pos d, te_leaf (entries s pos d) = ref_leaf s pos.
Proof.
  induction s as [| |k fr r n IH|u IH|u IH|u IH]; intros pos d; simpl; auto.
  destruct fr; simpl; [rewrite IH|]; reflexivity.
Qed.

Lemma entries_length s : forall pos d, length (entries s pos d) <= chain_len s.
Proof.
  induction s as [| |k fr r n IH|u IH|u IH|u IH]; intros pos d; simpl;
    try (specialize (IH (S pos) (S d))); try lia.
  destruct fr; simpl; lia.
Qed.

Lemma te_out_le te : length (te_out te) <= length te.
Proof. induction te as [|[q d] r IH]; simpl; [lia|]. destruct q; simpl; lia. Qed.

Lemma cost_le s : cost s <= 2 * chain_len s.
Proof. induction s as [| |k fr r n IH|u IH|u IH|u IH]; simpl; try lia. destruct fr; lia. Qed.

Section Walk.
Variables (ch : chain) (sl : nat -> list nat) (wc : bool) (g : guards) (ug : nat).
Local Notation c := (chain_cfg ch sl wc g ug).

Lemma ctx_step_trivial runner f errs t :
  ctx_step c runner f errs t = ([], errs, if wc then S t else t, None).
Proof. unfold ctx_step. destruct wc; reflexivity. Qed.

(* the outer loop over an unwrapped queue, trivial context tables *)
Lemma run_walk :
  forall te fuel tu te0 errs0 out t errs t1,
    flatten (S fuel) 0 c tu (rev te0) errs0 t = FlOk te errs t1 ->
    length (te_out te) <= fuel ->
    exists t2,
      run (S fuel) false c tu te0 errs0 out t
      = (Ok (Stack (rev out ++ te_out te) (te_leaf te) (rev errs)), t2).
Proof.
  induction te as [|[q d] rest IH]; intros fuel tu te0 errs0 out t errs t1 Hfl Hlen.
  - exists t1. cbn [run]. rewrite Hfl. simpl. rewrite app_nil_r. reflexivity.
  - destruct q as [f|f org|o|].
    + exists t1. cbn [run]. rewrite Hfl. simpl. rewrite app_nil_r. reflexivity.
    + destruct fuel as [|fuel]; [simpl in Hlen; lia|].
      destruct (IH fuel [] rest errs (FOut f false org [] :: out) (S (if wc then S t1 else t1)) errs
                   (S (if wc then S t1 else t1))) as [t2 Ht2].
      * rewrite flatten_done, rev_involutive. reflexivity.
      * simpl in Hlen. lia.
      * exists t2. remember (S fuel) as F eqn:EF in *.
        cbn [run]. rewrite Hfl. rewrite ctx_step_trivial. unfold elab_step. simpl.
        rewrite Ht2. simpl. rewrite <- app_assoc. reflexivity.
    + exists t1. cbn [run]. rewrite Hfl. simpl. rewrite app_nil_r. reflexivity.
    + exists t1. cbn [run]. rewrite Hfl. simpl. rewrite app_nil_r. reflexivity.
Qed.
End Walk.

(* ---------- C03_frames_eq_path ---------- *)
Lemma frames_eq_path_fuel :
  forall ch sl wc g ug fuel,
    wf_susp ch = true -> is_nil ch = false -> 2 <= ug -> 2 * chain_len ch + 2 <= fuel ->
    fst (run fuel false (chain_cfg ch sl wc g ug) (root_q (chain_cfg ch sl wc g ug) chain_root) [] [] [] 0)
    = Ok (ref_stack ch).
Proof.
  intros ch sl wc g ug fuel Hwf Hnil Hug Hfuel.
  destruct fuel as [|fuel]; [lia|].
  pose proof (cost_le ch) as Hc.
  pose proof (entries_length ch 0 0) as Hl.
  assert (Hfl : flatten (S fuel) 0 (chain_cfg ch sl wc g ug)
                  (root_q (chain_cfg ch sl wc g ug) chain_root) (rev []) [] 0
                = FlOk (entries ch 0 0) [] (0 + chain_len ch)).
  { unfold chain_cfg, root_q, chain_root. cbn [q_of rev].
    rewrite (flatten_chain ch sl _ _ wc g ug ch 0 0 0 None (S fuel) [] [] 0); auto.
    - destruct ch; simpl; lia.
    - lia. }
  pose proof (te_out_le (entries ch 0 0)) as Hl2.
  destruct (run_walk ch sl wc g ug (entries ch 0 0) fuel _ [] [] [] 0 [] _ Hfl) as [t2 Ht2]; [lia|].
  rewrite Ht2. simpl. unfold ref_stack. rewrite entries_out, entries_leaf. reflexivity.
Qed.

Lemma frames_eq_path :
  forall ch sl wc,
    wf_susp ch = true -> is_nil ch = false -> 2 * chain_len ch + 2 <= default_fuel ->
    extract (chain_cfg ch sl wc all_guards 100) chain_root = Ok (ref_stack ch).
Proof.
  intros ch sl wc Hwf Hnil Hfuel. unfold extract, extract_t.
  apply frames_eq_path_fuel; auto. repeat constructor.
Qed.

(* ---------- with_contexts does not change frames or leaf ---------- *)
Definition not_ok (o : outcome) : Prop := match o with Ok _ => False | _ => True end.

Lemma run_kids_bad runner kids : forall acc t ks b t',
  run_kids runner kids acc t = (ks, Some b, t') -> not_ok b.
Proof.
  induction kids as [|k r IH]; simpl; intros acc t ks b t' H; [discriminate|].
  destruct (runner k t) as [o t2] eqn:E. destruct o.
  - eapply IH; eauto.
  - inversion H; subst; exact I.
  - inversion H; subst; exact I.
Qed.

Lemma fill_all_bad c runner l : forall acc errs t r1 r2 r3 b,
  fill_all c runner l acc errs t = (r1, r2, r3, Some b) -> not_ok b.
Proof.
  induction l as [|cid r IH]; simpl; intros acc errs t r1 r2 r3 b H; [discriminate|].
  destruct (fault c t).
  { destruct (g_fill (grd c)); [eapply IH; eauto | inversion H; subst; exact I]. }
  destruct (fill c cid) as [kids|].
  - destruct (run_kids runner kids [] (S t)) as [[ks ob] t'] eqn:E.
    destruct ob as [bad|]; [| eapply IH; eauto].
    pose proof (run_kids_bad _ _ _ _ _ _ _ E) as Hb.
    destruct bad; [destruct Hb | |].
    + destruct (g_fill (grd c)); [eapply IH; eauto | inversion H; subst; exact I].
    + inversion H; subst; exact I.
  - destruct (g_fill (grd c)); [eapply IH; eauto | inversion H; subst; exact I].
Qed.

Lemma ctx_step_bad c runner f errs t r1 r2 r3 b :
  ctx_step c runner f errs t = (r1, r2, r3, Some b) -> not_ok b.
Proof.
  unfold ctx_step. intros H.
  destruct (negb (with_ctx c)); [discriminate|].
  destruct (fault c t).
  { destruct (g_ctx (grd c)); inversion H; subst; exact I. }
  destruct (ctxs c f) as [l|].
  - eapply fill_all_bad; eauto.
  - destruct (g_ctx (grd c)); inversion H; subst; exact I.
Qed.

Section Irrel.
Variables (ch : chain) (sl : nat -> list nat) (cx cx' : nat -> cres) (fl fl' : nat -> fres)
          (wc wc' : bool) (g : guards) (ug : nat).
Local Notation cT := (chain_cfg_gen ch sl cx fl wc g ug).
Local Notation cF := (chain_cfg_gen ch sl cx' fl' wc' g ug).

Lemma iter_steps_irrel o l b : forall t, iter_steps cT o l b t = iter_steps cF o l b t.
Proof. induction l as [|x r IH]; intros t; simpl; [reflexivity|]. rewrite IH. reflexivity. Qed.

(* the inner loop never looks at the context tables or the flag *)
Lemma flatten_irrel : forall fuel cnt tu te errs t,
  flatten fuel cnt cT tu te errs t = flatten fuel cnt cF tu te errs t.
Proof.
  induction fuel as [|fuel IH]; [reflexivity|].
  intros cnt tu te errs t. destruct tu as [|[[org cur] d] tu]; [reflexivity|].
  destruct cur as [f|f o|o|].
  - simpl. apply IH.
  - simpl. apply IH.
  - simpl. destruct (urule sl (node_at ch o) o) eqn:E; simpl; repeat rewrite IH; try reflexivity.
    rewrite iter_steps_irrel. destruct (iter_steps cF o l raises (S t)) as [[k e] t2].
    destruct e; repeat rewrite IH; reflexivity.
  - simpl. repeat rewrite IH. reflexivity.
Qed.
End Irrel.

Definition core (f : fout) : nat * bool * option nat := match f with FOut f h o _ => (f, h, o) end.
(* frames without their contexts, and the leaf *)
Definition strip (s : stack) : list (nat * bool * option nat) * leaf :=
  match s with Stack frs lf _ => (map core frs, lf) end.

Section Ctx.
Variables (ch : chain) (sl : nat -> list nat) (cx : nat -> cres) (fl : nat -> fres)
          (wc : bool) (g : guards) (ug : nat).
Local Notation cT := (chain_cfg_gen ch sl cx fl wc g ug).

Lemma run_ctx :
  forall te fuel tu te0 errs0 out t errs t1 s tfin,
    flatten (S fuel) 0 cT tu (rev te0) errs0 t = FlOk te errs t1 ->
    run (S fuel) false cT tu te0 errs0 out t = (Ok s, tfin) ->
    strip s = (map core (rev out ++ te_out te), te_leaf te) /\ length (te_out te) <= fuel.
Proof.
  induction te as [|[q d] rest IH]; intros fuel tu te0 errs0 out t errs t1 s tfin Hfl H.
  - cbn [run] in H. rewrite Hfl in H. simpl in H. inversion H; subst. simpl.
    rewrite app_nil_r. split; [reflexivity|lia].
  - destruct q as [f|f org|o|].
    + cbn [run] in H. rewrite Hfl in H. simpl in H. inversion H; subst. simpl.
      rewrite app_nil_r. split; [reflexivity|lia].
    + cbn [run] in H. rewrite Hfl in H.
      destruct (ctx_step cT
                  (fun k t => run fuel false cT [(better_origin cT (q_of k) None, q_of k, 0)] [] [] [] t)
                  f errs t1) as [[[cxs errs2] t2] [bad|]] eqn:Ectx.
      * apply ctx_step_bad in Ectx. inversion H; subst. destruct Ectx.
      * unfold elab_step in H. simpl in H.
        destruct fuel as [|fuel]; [discriminate|].
        destruct (IH fuel [] rest errs2 (FOut f false org cxs :: out) (S t2) errs2 (S t2) s tfin) as [Hs Hl].
        -- rewrite flatten_done, rev_involutive. reflexivity.
        -- exact H.
        -- split; [| simpl; lia].
           rewrite Hs. simpl. rewrite <- app_assoc. simpl.
           rewrite !map_app. reflexivity.
    + cbn [run] in H. rewrite Hfl in H. simpl in H. inversion H; subst. simpl.
      rewrite app_nil_r. split; [reflexivity|lia].
    + cbn [run] in H. rewrite Hfl in H. simpl in H. inversion H; subst. simpl.
      rewrite app_nil_r. split; [reflexivity|lia].
Qed.
End Ctx.

Lemma contexts_flag_irrelevant_fuel :
  forall ch sl cx fl wc g ug fuel root s t,
    run fuel false (chain_cfg_gen ch sl cx fl wc g ug)
        (root_q (chain_cfg_gen ch sl cx fl wc g ug) root) [] [] [] 0 = (Ok s, t) ->
    exists s' t',
      run fuel false (chain_cfg ch sl false g ug) (root_q (chain_cfg ch sl false g ug) root) [] [] [] 0
      = (Ok s', t') /\ strip s' = strip s.
Proof.
  intros ch sl cx fl wc g ug fuel root s t H.
  destruct fuel as [|fuel]; [discriminate|].
  destruct (flatten (S fuel) 0 (chain_cfg_gen ch sl cx fl wc g ug)
              (root_q (chain_cfg_gen ch sl cx fl wc g ug) root) (rev []) [] 0)
    as [te errs t1|e|] eqn:E.
  - destruct (run_ctx ch sl cx fl wc g ug te fuel _ [] [] [] 0 errs t1 s t E H) as [Hs Hl].
    assert (E' : flatten (S fuel) 0 (chain_cfg ch sl false g ug)
                   (root_q (chain_cfg ch sl false g ug) root) (rev []) [] 0 = FlOk te errs t1).
    { unfold chain_cfg. rewrite <- E. symmetry. apply flatten_irrel. }
    destruct (run_walk ch sl false g ug te fuel _ [] [] [] 0 errs t1 E' Hl) as [t2 Ht2].
    eexists; exists t2. split; [exact Ht2|]. rewrite Hs. reflexivity.
  - cbn [run] in H. rewrite E in H. discriminate.
  - cbn [run] in H. rewrite E in H. discriminate.
Qed.

Lemma contexts_flag_irrelevant_fst :
  forall ch sl cx fl wc g ug fuel root s,
    fst (run fuel false (chain_cfg_gen ch sl cx fl wc g ug)
           (root_q (chain_cfg_gen ch sl cx fl wc g ug) root) [] [] [] 0) = Ok s ->
    exists s',
      fst (run fuel false (chain_cfg ch sl false g ug) (root_q (chain_cfg ch sl false g ug) root) [] [] [] 0)
      = Ok s' /\ strip s' = strip s.
Proof.
  intros ch sl cx fl wc g ug fuel root s H.
  destruct (run fuel false (chain_cfg_gen ch sl cx fl wc g ug)
              (root_q (chain_cfg_gen ch sl cx fl wc g ug) root) [] [] [] 0) as [o t] eqn:E.
  simpl in H. subst o.
  destruct (contexts_flag_irrelevant_fuel _ _ _ _ _ _ _ _ _ _ _ E) as [s' [t' [H1 H2]]].
  exists s'. rewrite H1. split; [reflexivity|exact H2].
Qed.

Lemma contexts_flag_irrelevant :
  forall ch sl cx fl g root s,
    extract (chain_cfg_gen ch sl cx fl true g 100) root = Ok s ->
    exists s', extract (chain_cfg ch sl false g 100) root = Ok s' /\ strip s' = strip s.
Proof.
  intros ch sl cx fl g root s. unfold extract, extract_t.
  generalize default_fuel. intros fuel H.
  eapply contexts_flag_irrelevant_fst. exact H.
Qed.

(* frames and leaf are the reference path whatever the context tables say *)
Lemma frames_eq_path_any_contexts :
  forall ch sl cx fl s,
    wf_susp ch = true -> is_nil ch = false -> 2 * chain_len ch + 2 <= default_fuel ->
    extract (chain_cfg_gen ch sl cx fl true all_guards 100) chain_root = Ok s ->
    strip s = strip (ref_stack ch).
Proof.
  intros ch sl cx fl s Hwf Hnil Hfuel H.
  destruct (contexts_flag_irrelevant _ _ _ _ _ _ _ H) as [s' [H1 H2]].
  rewrite (frames_eq_path ch sl false Hwf Hnil Hfuel) in H1. inversion H1; subst. symmetry. exact H2.
Qed.

Lemma exhausted_no_frames :
  forall k sl wc, extract (chain_cfg (Link k None false Nil) sl wc all_guards 100) chain_root
                  = Ok (Stack [] LNone []).
Proof.
  intros k sl wc. rewrite frames_eq_path; try reflexivity.
  apply Nat.leb_le. vm_compute. reflexivity.
Qed.

(* ---------- the hypotheses are met by non-trivial inputs ---------- *)
Definition ex_chain : chain :=
  Link KCoro (Some 10) false
    (CoroWrapper (Link KCoro (Some 12) false
       (ASend (Link KAGen (Some 14) true          (* blocked in an await: ag_running = True *)
          (AThrow (Link KAGen (Some 16) true
             (Link KGen (Some 17) false Leaf))))))).

Example ex_chain_hyps :
  wf_susp ex_chain = true /\ is_nil ex_chain = false /\ 2 * chain_len ex_chain + 2 <= default_fuel.
Proof. repeat split; try reflexivity. apply Nat.leb_le. vm_compute. reflexivity. Qed.

Example ex_chain_path :
  ref_stack ex_chain
  = Stack [FOut 10 false (Some 0) []; FOut 12 false (Some 2) []; FOut 14 false (Some 4) [];
           FOut 16 false (Some 6) []; FOut 17 false (Some 7) []] (LOne (QObj 8)) [].
Proof. reflexivity. Qed.

(* a context table under which the with-contexts run is a Stack with contexts and a nested
   child extraction, so the hypothesis of contexts_flag_irrelevant is satisfiable non-trivially *)
Definition ex_cx (f : nat) : cres := if f =? 10 then CtxOk [7; 8] else if f =? 14 then CtxRaise else CtxOk [].
Definition ex_fl (c : nat) : fres := if c =? 7 then FillOk [IObj 4] else FillRaise.

Example ex_ctx_ok :
  match extract (chain_cfg_gen ex_chain (fun _ => []) ex_cx ex_fl true all_guards 100) chain_root with
  | Ok (Stack (FOut 10 _ _ (COut 7 [Stack (_ :: _) _ _] :: _) :: _) _ (_ :: _)) => True
  | _ => False
  end.
Proof. vm_compute. exact I. Qed.
