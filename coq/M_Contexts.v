(* M_Contexts.v — executable model of stackscope._extract.fill_context together with the
   generator-based-manager glue of stackscope._glue.glue_contextlib
   (elaborate_generatorbased_contextmanager / unwrap_generatorbased_contextmanager and the
   code-dispatched hook unwrap_context_generator).  Definitions only; proofs in P_Contexts.v.

   Abstraction.  Managers are numbers.  A manager is either *synthetic* (its class has
   elaborate_context / unwrap_context hooks registered through singledispatch, or none at
   all) or *generator based* (an instance of contextlib._GeneratorContextManager made by a
   real @contextmanager function).  Hooks are finite stateless tables:
     elaborate_context  : manager -> list of effects on the Context (executed in order)
     unwrap_context     : manager -> None | PRUNE | another manager | raise
     unwrap_context_generator.registry : code object -> the same four results
   Frames are numbers too ([fcode] gives the code object a frame runs, [fctx] the managers of the
   contexts that extracting the frame with with_contexts=True records on it); an extracted
   Stack is abstracted to the list of its frames, each with the objs of its recorded contexts.
   A registered unwrap_context_generator hook either ignores the Frame it is given or returns
   `frame.contexts[0].obj` when the Frame carries contexts ([gctx0]); the contexts it saw are
   part of its log entry.  Managers held open inside a generator body are inert (no hooks),
   so the nested fill_context on them is invisible.  Every call of a user-registered hook is logged
   together with the extract options in force during the call.  The loop bound is a field of
   the configuration; generated cases and the theorems instantiate it with the constant
   regenerated from the source (gen/SrcFacts.context_guard). *)
Require Import Base.

(* ---------- values ---------- *)

(* result of unwrap_context / unwrap_context_generator *)
Inductive ures := UNone | UPrune | UTo (m : nat) | URaise.

(* Context.description is a '+'-joined list of atoms *)
Inductive atom :=
  | ATag (n : nat)                      (* text written by a synthetic hook *)
  | AGcmNew (code : nat) (m : nat)      (* format_funcall(mgr.func, mgr.args, mgr.kwds) *)
  | AGcmEnt (code : nat).               (* f"{mgr.gen.__qualname__}(...)" : func attr gone *)

(* what an elaborate_context hook does to the Context it is given *)
Inductive eff :=
  | ESetDescr (d : nat) | EAppDescr (d : nat)
  | ESetChildren (k : list nat) | EAppChild (k : nat)
  | ESetInner (s : option (list nat))
  | ESetObj (o : nat)
  | ERaise.

(* an extracted Frame: python frame, objs of the Contexts recorded in frame.contexts *)
Definition fobs := (nat * list nat)%type.

Record ctx := {
  obj : nat;
  inner : option (list fobs);     (* inner_stack: None | frames of the Stack *)
  children : list nat;
  hidden : bool;
  descr : option (list atom);
  exiting : bool
}.

Record mattr := {
  gcm : bool;                 (* instance of contextlib._GeneratorContextManagerBase *)
  code : nat;                 (* gcm: code object of its generator *)
  gframes : list nat;         (* gcm: frames obtained by extracting its generator ([] = finished) *)
  hasfunc : bool;             (* gcm: still has .func/.args/.kwds (not entered yet) *)
  hooked : bool;              (* synthetic: hooks registered for its class *)
  eqprune : bool              (* the object compares equal to () *)
}.

Definition opts := option (bool * bool).   (* (with_contexts, recurse_child_tasks); None = unset *)

Record cfg := {
  mattrs : nat -> mattr;
  elabt : nat -> list eff;
  unwrapt : nat -> ures;
  fcode : nat -> nat;                 (* code object run by a frame *)
  fctx : nat -> list nat;             (* managers of the contexts active in a frame *)
  greg : nat -> option ures;          (* unwrap_context_generator.registry *)
  gctx0 : nat -> bool;                (* that hook returns frame.contexts[0].obj if there is one *)
  guard : nat;                        (* the `range(100)` of fill_context *)
  restores : bool                     (* ExtractOptions.push restores in `finally` *)
}.

Inductive ev :=
  | VElab (m : nat) (o : opts)
  | VUnwrap (m : nat) (o : opts)
  | VGen (code f : nat) (inner_none : bool) (cx : list nat) (o : opts).

(* exceptions leaving fill_context *)
Inductive who := WElab (m : nat) | WUnwrap (m : nat) | WGen (code : nat).

Inductive outcome :=
  | Done (c : ctx)
  | RaisedLoop (c : ctx) (next : ures)     (* RuntimeError "... unwrapped more than N times" *)
  | RaisedHook (w : who) (c : ctx).        (* a hook raised; the Context is left as it was *)

(* ---------- elaborate_context ---------- *)

Definition set_obj (c : ctx) (o : nat) : ctx :=
  {| obj := o; inner := inner c; children := children c; hidden := hidden c; descr := descr c; exiting := exiting c |}.
Definition set_inner (c : ctx) (s : option (list fobs)) : ctx :=
  {| obj := obj c; inner := s; children := children c; hidden := hidden c; descr := descr c; exiting := exiting c |}.
Definition set_children (c : ctx) (k : list nat) : ctx :=
  {| obj := obj c; inner := inner c; children := k; hidden := hidden c; descr := descr c; exiting := exiting c |}.
Definition set_descr (c : ctx) (d : option (list atom)) : ctx :=
  {| obj := obj c; inner := inner c; children := children c; hidden := hidden c; descr := d; exiting := exiting c |}.
Definition set_hidden (c : ctx) : ctx :=
  {| obj := obj c; inner := inner c; children := children c; hidden := true; descr := descr c; exiting := exiting c |}.

Definition app_descr (d : option (list atom)) (a : atom) : option (list atom) :=
  match d with None => Some [a] | Some l => Some (l ++ [a]) end.

(* run the effects of one synthetic hook; true = it raised (effects so far are kept) *)
Fixpoint apply_effs (l : list eff) (c : ctx) : ctx * bool :=
  match l with
  | [] => (c, false)
  | ERaise :: _ => (c, true)
  | e :: r =>
      apply_effs r
        match e with
        | ESetDescr d => set_descr c (Some [ATag d])
        | EAppDescr d => set_descr c (app_descr (descr c) (ATag d))
        | ESetChildren k => set_children c k
        | EAppChild k => set_children c (children c ++ [k])
        | ESetInner s => set_inner c (option_map (map (fun f => (f, []))) s)   (* hand-made Frames: no contexts *)
        | ESetObj o => set_obj c o
        | ERaise => c
        end
  end.

Definition wc_of (o : opts) : bool := match o with Some (w, _) => w | None => false end.

(* _glue.elaborate_generatorbased_contextmanager; extract_child(mgr.gen) records the contexts
   of each frame iff with_contexts is in force *)
Definition gcm_elab (cf : cfg) (o : opts) (m : nat) (c : ctx) : ctx :=
  let a := mattrs cf m in
  let c1 := if exiting c then c
            else set_inner c (Some (map (fun f => (f, if wc_of o then fctx cf f else [])) (gframes a))) in
  set_descr c1 (Some [if hasfunc a then AGcmNew (code a) m else AGcmEnt (code a)]).

(* elaborate_context(context.obj, context): new context, log (newest first), raised? *)
Definition elab_step (cf : cfg) (o : opts) (c : ctx) (log : list ev) : ctx * list ev * bool :=
  let m := obj c in
  let a := mattrs cf m in
  if gcm a then (gcm_elab cf o m c, log, false)
  else if hooked a then
    let '(c', r) := apply_effs (elabt cf m) c in (c', VElab m o :: log, r)
  else (c, log, false).

(* ---------- unwrap_context ---------- *)

(* what a registered hook answers when handed a Frame whose contexts have objs [cx] *)
Definition gverdict (cf : cfg) (cd : nat) (cx : list nat) (r : ures) : ures :=
  if gctx0 cf cd then match cx with x :: _ => UTo x | [] => r end else r.

(* unwrap_context_generator(frame, context): dispatch on the code object of [f]; [cx] = objs of
   frame.contexts *)
Definition gen_hook (cf : cfg) (o : opts) (c : ctx) (f : nat) (cx : list nat) (log : list ev)
  : ures * list ev * option who :=
  match greg cf (fcode cf f) with
  | None => (UNone, log, None)                   (* default implementation *)
  | Some r0 =>
      let r := gverdict cf (fcode cf f) cx r0 in
      let log' := VGen (fcode cf f) f (match inner c with None => true | Some _ => false end) cx o :: log in
      (r, log', match r with URaise => Some (WGen (fcode cf f)) | _ => None end)
  end.

(* _glue.unwrap_generatorbased_contextmanager *)
Definition gcm_unwrap (cf : cfg) (o : opts) (m : nat) (c : ctx) (log : list ev) : ures * list ev * option who :=
  let a := mattrs cf m in
  match greg cf (code a) with
  | None => (UNone, log, None)
  | Some _ =>
      match inner c with
      | Some ((f, cx) :: _) => gen_hook cf o c f cx log
      | Some [] => (UNone, log, None)
      | None =>
          match gframes a with
          | f :: _ => gen_hook cf o c f (fctx cf f) log   (* extract_outermost(mgr.gen): with_contexts=True *)
          | [] => (UNone, log, None)                (* RuntimeError "no frames" swallowed *)
          end
      end
  end.

(* unwrap_context(context.obj, context) *)
Definition unwrap_step (cf : cfg) (o : opts) (c : ctx) (log : list ev) : ures * list ev * option who :=
  let m := obj c in
  let a := mattrs cf m in
  if gcm a then gcm_unwrap cf o m c log
  else if hooked a then
    let r := unwrapt cf m in
    (r, VUnwrap m o :: log, match r with URaise => Some (WUnwrap m) | _ => None end)
  else (UNone, log, None).

(* `context.obj = inner_mgr; context.inner_stack = None; context.children = ()` *)
Definition replace (c : ctx) (m : nat) : ctx :=
  {| obj := m; inner := None; children := []; hidden := hidden c; descr := descr c; exiting := exiting c |}.

(* `inner_mgr == PRUNE` *)
Definition is_prune (cf : cfg) (r : ures) : bool :=
  match r with UPrune => true | UTo m => eqprune (mattrs cf m) | _ => false end.

(* the `for _ in range(guard): ... else: ...` loop; [n] = iterations left *)
Fixpoint loop (n : nat) (cf : cfg) (o : opts) (c : ctx) (log : list ev) : outcome * list ev :=
  match n with
  | 0 =>
      match unwrap_step cf o c log with
      | (_, log', Some w) => (RaisedHook w c, log')
      | (r, log', None) => (RaisedLoop c r, log')
      end
  | S n' =>
      match elab_step cf o c log with
      | (c1, log1, true) => (RaisedHook (WElab (obj c)) c1, log1)
      | (c1, log1, false) =>
          match unwrap_step cf o c1 log1 with
          | (_, log2, Some w) => (RaisedHook w c1, log2)
          | (UNone, log2, None) => (Done c1, log2)
          | (r, log2, None) =>
              if is_prune cf r then (Done (set_hidden c1), log2)
              else match r with
                   | UTo m => loop n' cf o (replace c1 m) log2
                   | _ => (Done c1, log2)    (* unreachable: UNone / UPrune / URaise handled above *)
                   end
          end
      end
  end.

Definition is_raise (x : outcome) : bool := match x with Done _ => false | _ => true end.

(* fill_context(context) with the thread's options [o] on entry: outcome, hook-call log in
   call order, options afterwards *)
Definition fill (cf : cfg) (o : opts) (c : ctx) : outcome * list ev * opts :=
  match o with
  | Some _ => let '(x, log) := loop (guard cf) cf o c [] in (x, rev log, o)
  | None =>
      let pushed := Some (true, false) in
      let '(x, log) := loop (guard cf) cf pushed c [] in
      (x, rev log, if restores cf || negb (is_raise x) then None else pushed)
  end.

(* ---------- finite-table configurations and comparison, for generated cases ---------- *)

Definition syn_attr (h e : bool) : mattr :=
  {| gcm := false; code := 0; gframes := []; hasfunc := false; hooked := h; eqprune := e |}.
Definition gcm_attr (cd : nat) (fr : list nat) (hf : bool) : mattr :=
  {| gcm := true; code := cd; gframes := fr; hasfunc := hf; hooked := false; eqprune := false |}.

Definition mkcfg (a : list (nat * mattr)) (e : list (nat * list eff)) (u : list (nat * ures))
           (fc : list (nat * nat)) (fx : list (nat * list nat)) (g : list (nat * ures)) (g0 : list nat)
           (gd : nat) (rs : bool) : cfg :=
  {| mattrs := lookup (syn_attr false false) a;
     elabt := lookup [] e;
     unwrapt := lookup UNone u;
     fcode := lookup 4999 fc;
     fctx := lookup [] fx;
     greg := fun cd => lookup None (map (fun p => (fst p, Some (snd p))) g) cd;
     gctx0 := fun cd => mem_nat cd g0;
     guard := gd; restores := rs |}.

Definition mkctx (o : nat) (i : option (list fobs)) (k : list nat) (h : bool)
           (d : option (list atom)) (x : bool) : ctx :=
  {| obj := o; inner := i; children := k; hidden := h; descr := d; exiting := x |}.

Definition ures_eqb (a b : ures) : bool :=
  match a, b with
  | UNone, UNone | UPrune, UPrune | URaise, URaise => true
  | UTo x, UTo y => x =? y
  | _, _ => false
  end.

Definition atom_eqb (a b : atom) : bool :=
  match a, b with
  | ATag x, ATag y => x =? y
  | AGcmNew c m, AGcmNew c' m' => (c =? c') && (m =? m')
  | AGcmEnt c, AGcmEnt c' => c =? c'
  | _, _ => false
  end.

Definition nats_eqb := list_eqb Nat.eqb.

Definition fobs_eqb (a b : fobs) : bool := (fst a =? fst b) && nats_eqb (snd a) (snd b).

Definition ctx_eqb (a b : ctx) : bool :=
  (obj a =? obj b) && option_eqb (list_eqb fobs_eqb) (inner a) (inner b) && nats_eqb (children a) (children b)
  && Bool.eqb (hidden a) (hidden b) && option_eqb (list_eqb atom_eqb) (descr a) (descr b)
  && Bool.eqb (exiting a) (exiting b).

Definition opts_eqb : opts -> opts -> bool :=
  option_eqb (fun a b => Bool.eqb (fst a) (fst b) && Bool.eqb (snd a) (snd b)).

Definition ev_eqb (a b : ev) : bool :=
  match a, b with
  | VElab m o, VElab m' o' | VUnwrap m o, VUnwrap m' o' => (m =? m') && opts_eqb o o'
  | VGen c f i x o, VGen c' f' i' x' o' => (c =? c') && (f =? f') && Bool.eqb i i' && nats_eqb x x' && opts_eqb o o'
  | _, _ => false
  end.

Definition who_eqb (a b : who) : bool :=
  match a, b with
  | WElab x, WElab y | WUnwrap x, WUnwrap y | WGen x, WGen y => x =? y
  | _, _ => false
  end.

Definition outcome_eqb (a b : outcome) : bool :=
  match a, b with
  | Done c, Done c' => ctx_eqb c c'
  | RaisedLoop c r, RaisedLoop c' r' => ctx_eqb c c' && ures_eqb r r'
  | RaisedHook w c, RaisedHook w' c' => who_eqb w w' && ctx_eqb c c'
  | _, _ => false
  end.

Definition result := (outcome * list ev * opts)%type.

Definition result_eqb (a b : result) : bool :=
  let '(x, l, o) := a in let '(x', l', o') := b in
  outcome_eqb x x' && list_eqb ev_eqb l l' && opts_eqb o o'.

(* one generated case: configuration, options on entry, initial Context, what the real
   fill_context was observed to do *)
Definition ccase := (cfg * opts * ctx * result)%type.

Definition case_ok (k : ccase) : bool :=
  let '(cf, o, c, observed) := k in result_eqb (fill cf o c) observed.

Definition mismatches (l : list ccase) : list nat := false_indices 0 (map case_ok l).

(* non-trivial: the model run replaces the manager at least once, hides the context or raises *)
Definition nontrivial (k : ccase) : bool :=
  let '(cf, o, c, _) := k in
  match fst (fst (fill cf o c)) with
  | Done c' => negb (obj c' =? obj c) || (hidden c' && negb (hidden c))
  | _ => true
  end.

Definition count_nontrivial (l : list ccase) : nat := count_true (map nontrivial l).

(* ---------- several contexts in one frame; histories ---------- *)

(* what extract_iter appends to save_errors when fill_context raises *)
Inductive ferr := FLoop (m : nat) (next : ures) | FHook (w : who).

Definition final_ctx (x : outcome) : ctx :=
  match x with Done c | RaisedLoop c _ | RaisedHook _ c => c end.
Definition err_of (x : outcome) : option ferr :=
  match x with
  | Done _ => None
  | RaisedLoop c r => Some (FLoop (obj c) r)
  | RaisedHook w _ => Some (FHook w)
  end.

(* extract_iter:  for context in frame.contexts:
                      try: fill_context(context)
                      except Exception as ex: save_errors.append(ex)
   contexts so far (newest first), errors so far (newest first), hook calls so far *)
Fixpoint frame_loop (cf : cfg) (o : opts) (cs : list ctx) (done_rev : list ctx)
         (errs_rev : list ferr) (log : list ev) : list ctx * list ferr * list ev :=
  match cs with
  | [] => (rev done_rev, rev errs_rev, log)
  | c :: r =>
      let '(x, l, _) := fill cf o c in
      frame_loop cf o r (final_ctx x :: done_rev)
                 (match err_of x with Some e => e :: errs_rev | None => errs_rev end) (log ++ l)
  end.

Definition frame_result := (list ctx * list ferr * list ev)%type.

(* the contexts of one frame during extract(with_contexts=True, recurse_child_tasks=rc) *)
Definition frame_fill (cf : cfg) (rc : bool) (cs : list ctx) : frame_result :=
  frame_loop cf (Some (true, rc)) cs [] [] [].

Definition ferr_eqb (a b : ferr) : bool :=
  match a, b with
  | FLoop m r, FLoop m' r' => (m =? m') && ures_eqb r r'
  | FHook w, FHook w' => who_eqb w w'
  | _, _ => false
  end.

Definition frame_result_eqb (a b : frame_result) : bool :=
  let '(c, e, l) := a in let '(c', e', l') := b in
  list_eqb ctx_eqb c c' && list_eqb ferr_eqb e e' && list_eqb ev_eqb l l'.

(* A history is a sequence of steps over the same managers; between steps hooks may get
   registered, generator-based managers entered.  Each step carries the hook tables as they
   are AT THAT TIME (printed by the harness from the descriptor's history, not from the
   implementation), so the model's answer for step k depends on the registry at time k only. *)
Inductive hstep :=
  | SFill (k : ccase)
  | SFrame (cf : cfg) (rc : bool) (cs : list ctx) (observed : frame_result).

Definition hcase := list hstep.

Definition step_ok (s : hstep) : bool :=
  match s with
  | SFill k => case_ok k
  | SFrame cf rc cs observed => frame_result_eqb (frame_fill cf rc cs) observed
  end.

Definition hcase_ok (h : hcase) : bool := forallb step_ok h.

Definition hmismatches (l : list hcase) : list nat := false_indices 0 (map hcase_ok l).

(* non-trivial history: some single fill is non-trivial, or some frame holds a context
   after one whose fill failed *)
Fixpoint later_after_failure (cf : cfg) (o : opts) (cs : list ctx) : bool :=
  match cs with
  | [] => false
  | c :: r =>
      (is_raise (fst (fst (fill cf o c))) && negb (Nat.eqb (length r) 0)) || later_after_failure cf o r
  end.

Definition step_nontrivial (s : hstep) : bool :=
  match s with
  | SFill k => nontrivial k
  | SFrame cf rc cs _ => later_after_failure cf (Some (true, rc)) cs
  end.

Definition hcount_nontrivial (l : list hcase) : nat :=
  count_true (map (fun h => existsb step_nontrivial h) l).
