(* P_Options_Frames.v — C13, with_contexts=False in the frame model M_Frames. *)
Require Import Base M_Frames.

(* ---------- with_contexts = False in the frame model (M_Frames): no frame of the result
   carries contexts ---------- *)

Definition fout_cx (f : fout) : list cout := match f with FOut _ _ _ cx => cx end.
Definition no_cx (l : list fout) : Prop := forall f, In f l -> fout_cx f = [].

Lemma ctx_step_off c runner f errs t :
  with_ctx c = false -> ctx_step c runner f errs t = ([], errs, t, None).
Proof. intros H. unfold ctx_step. rewrite H. reflexivity. Qed.

Lemma no_cx_cons f l : fout_cx f = [] -> no_cx l -> no_cx (f :: l).
Proof. intros A B g [<-|I]; auto. Qed.

Lemma no_cx_rev l : no_cx l -> no_cx (rev l).
Proof. intros A g I. apply A. apply in_rev. exact I. Qed.

Lemma ok_inv a l e (t : nat) frs lf es (t' : nat) :
  (Ok (Stack a l e), t) = (Ok (Stack frs lf es), t') -> a = frs.
Proof. intros H. inversion H. reflexivity. Qed.

Lemma run_off c : with_ctx c = false ->
  forall fuel first tu te errs out_rev t frs lf es t',
    no_cx out_rev ->
    run fuel first c tu te errs out_rev t = (Ok (Stack frs lf es), t') ->
    no_cx frs.
Proof.
  intros OFF. induction fuel as [|fuel IH]; intros first tu te errs out_rev t frs lf es t' N R.
  - discriminate.
  - cbn [run] in R.
    destruct (flatten (S fuel) 0 c tu (rev te) errs t) as [te1 errs1 t1| |]; try discriminate.
    destruct te1 as [|[q d] rest].
    + apply ok_inv in R. rewrite <- R. apply no_cx_rev; exact N.
    + destruct q as [f|f org|o|].
      * apply ok_inv in R. rewrite <- R. apply no_cx_rev; exact N.
      * rewrite (ctx_step_off c _ f errs1 t1 OFF) in R.
        destruct (elab_step c f errs1 t1) as [[[[r errs2] hide] t2] [e|]]; try discriminate.
        assert (N' : no_cx (FOut f hide org [] :: out_rev)) by (apply no_cx_cons; auto).
        destruct first.
        { apply ok_inv in R. rewrite <- R. apply no_cx_rev; exact N'. }
        destruct r as [|l|[i| |]|];
          try (eapply IH; [exact N'|exact R]).
        destruct (next_of rest) as [[| | |]|]; eapply IH; try exact R; exact N'.
      * apply ok_inv in R. rewrite <- R. apply no_cx_rev; exact N.
      * apply ok_inv in R. rewrite <- R. apply no_cx_rev; exact N.
Qed.

Lemma extract_unfold c root :
  extract c root = fst (run default_fuel false c (root_q c root) [] [] [] 0).
Proof. reflexivity. Qed.

Lemma frames_model_contexts_off c root frs lf es :
  with_ctx c = false -> extract c root = Ok (Stack frs lf es) -> no_cx frs.
Proof.
  intros OFF E. rewrite extract_unfold in E.
  set (fu := default_fuel) in E. clearbody fu.
  destruct (run fu false c (root_q c root) [] [] [] 0) as [o t'] eqn:R.
  cbn [fst] in E. subst o.
  eapply (run_off c OFF); [|exact R]. intros f [].
Qed.

(* ------------------------------------------------------------------------------------------
   Two-run theorem: with_contexts does not change the frames.
   [ctx_off c] is c with with_ctx := false and every table unchanged.  Tick bookkeeping: the
   contexts step consumes ticks (one per contexts_active_in_frame / fill_context call, plus
   those of nested child extractions), so the k-th-invocation faults of a configuration would
   hit different hook calls in the two runs; the theorem is stated for fault-free
   configurations, where ticks (and the accumulated error lists, which differ: context-hook
   errors are only reported by the with-contexts run) never influence control flow.  The two
   runs may start at different ticks and use the same fuel. *)

Definition ctx_off (c : cfg) : cfg :=
  {| unwrap := unwrap c; elab := elab c; prehide := prehide c; attr := attr c; ctxs := ctxs c;
     fill := fill c; fault := fault c; with_ctx := false; grd := grd c; uguard := uguard c |}.
Definition fault_free (c : cfg) : Prop := forall t, fault c t = false.

Lemma better_origin_off c q fb : better_origin (ctx_off c) q fb = better_origin c q fb.
Proof. reflexivity. Qed.
Lemma frame_origin_off c o f : frame_origin (ctx_off c) o f = frame_origin c o f.
Proof. reflexivity. Qed.

Lemma iter_steps_off c o l b : forall t, iter_steps (ctx_off c) o l b t = iter_steps c o l b t.
Proof. induction l as [|x r IH]; intros t; simpl; [reflexivity|]. rewrite IH. reflexivity. Qed.

Ltac break_match :=
  repeat (rewrite ?iter_steps_off;
          match goal with
          | |- context[match ?x with _ => _ end] => destruct x eqn:?
          end).

Lemma flatten_off c : forall fuel cnt tu te errs t,
  flatten fuel cnt (ctx_off c) tu te errs t = flatten fuel cnt c tu te errs t.
Proof.
  induction fuel as [|fuel IH]; [reflexivity|].
  intros cnt tu te errs t. destruct tu as [|[[org cur] d] tu]; [reflexivity|].
  destruct cur as [f|f o|o|]; cbn [flatten]; cbn [fault grd uguard unwrap ctx_off];
    rewrite ?iter_steps_off; break_match; rewrite ?IH; reflexivity.
Qed.

Lemma iter_ff c (FF : fault_free c) o b : forall l t,
  exists t', iter_steps c o l b t = (l, (if b then Some (EIter o) else None), t').
Proof.
  induction l as [|x r IH]; intros t; simpl; rewrite FF.
  - eexists; reflexivity.
  - destruct (IH (S t)) as [t' E]. rewrite E. eexists; reflexivity.
Qed.

Lemma flatten_indep c (FF : fault_free c) : forall fuel cnt tu te errs t errs' t' te1 e1 t1,
  flatten fuel cnt c tu te errs t = FlOk te1 e1 t1 ->
  exists e2 t2, flatten fuel cnt c tu te errs' t' = FlOk te1 e2 t2.
Proof.
  induction fuel as [|fuel IH]; [discriminate|].
  intros cnt tu te errs t errs' t' te1 e1 t1 H.
  destruct tu as [|[[org cur] d] tu].
  - cbn in *. inversion H. eauto.
  - destruct cur as [f|f o|o|]; cbn [flatten] in H |- *.
    + eapply IH; exact H.
    + eapply IH; exact H.
    + rewrite FF in H |- *.
      destruct (unwrap c o) as [|i|l|l b|] eqn:U;
        destruct (uguard c <? S cnt); destruct (g_unwrap (grd c)); try discriminate;
        try (eapply IH; exact H).
      all: destruct (iter_ff c FF o b l (S t)) as [x Ex]; destruct (iter_ff c FF o b l (S t')) as [y Ey];
        rewrite Ex in H; rewrite Ey; destruct b; destruct (g_iter (grd c)); try discriminate;
        eapply IH; exact H.
    + rewrite FF in H |- *.
      destruct (uguard c <? S cnt); destruct (g_unwrap (grd c)); try discriminate;
        eapply IH; exact H.
Qed.

Lemma flatten_sim c (FF : fault_free c) fuel cnt tu te errs t errs' t' te1 e1 t1 :
  flatten fuel cnt c tu te errs t = FlOk te1 e1 t1 ->
  exists e2 t2, flatten fuel cnt (ctx_off c) tu te errs' t' = FlOk te1 e2 t2.
Proof. intros H. rewrite flatten_off. eapply flatten_indep; eauto. Qed.

(* an outcome that aborts the contexts step is never [Ok] *)
Definition not_ok (o : outcome) : Prop := match o with Ok _ => False | _ => True end.

Lemma run_kids_bad runner kids : forall acc t ks b t',
  run_kids runner kids acc t = (ks, Some b, t') -> not_ok b.
Proof.
  induction kids as [|k r IH]; simpl; intros acc t ks b t' H; [discriminate|].
  destruct (runner k t) as [o t2] eqn:E. destruct o.
  - eapply IH; eauto.
  - inversion H; subst; exact I.
  - inversion H; subst; exact I.
Qed.

Lemma fill_all_bad c runner l : forall acc errs t r1 r2 r3 b,
  fill_all c runner l acc errs t = (r1, r2, r3, Some b) -> not_ok b.
Proof.
  induction l as [|cid r IH]; simpl; intros acc errs t r1 r2 r3 b H; [discriminate|].
  destruct (fault c t).
  { destruct (g_fill (grd c)); [eapply IH; eauto | inversion H; subst; exact I]. }
  destruct (fill c cid) as [kids|].
  - destruct (run_kids runner kids [] (S t)) as [[ks ob] t'] eqn:E.
    destruct ob as [bad|]; [| eapply IH; eauto].
    pose proof (run_kids_bad _ _ _ _ _ _ _ E) as Hb.
    destruct bad; [destruct Hb | |].
    + destruct (g_fill (grd c)); [eapply IH; eauto | inversion H; subst; exact I].
    + inversion H; subst; exact I.
  - destruct (g_fill (grd c)); [eapply IH; eauto | inversion H; subst; exact I].
Qed.

Lemma ctx_step_bad c runner f errs t r1 r2 r3 b :
  ctx_step c runner f errs t = (r1, r2, r3, Some b) -> not_ok b.
Proof.
  unfold ctx_step. intros H.
  destruct (negb (with_ctx c)); [discriminate|].
  destruct (fault c t).
  { destruct (g_ctx (grd c)); inversion H; subst; exact I. }
  destruct (ctxs c f) as [l|].
  - eapply fill_all_bad; eauto.
  - destruct (g_ctx (grd c)); inversion H; subst; exact I.
Qed.

Lemma ctx_step_off' c runner f errs t : ctx_step (ctx_off c) runner f errs t = ([], errs, t, None).
Proof. reflexivity. Qed.

Lemma elab_sim c (FF : fault_free c) f errs t errs' t' r e h tn :
  elab_step c f errs t = (r, e, h, tn, None) ->
  exists e', elab_step (ctx_off c) f errs' t' = (r, e', h, S t', None).
Proof.
  unfold elab_step. cbn [fault grd elab prehide ctx_off]. rewrite !FF.
  destruct (elab c f); destruct (g_elab (grd c)); intros H; inversion H; subst; eexists; reflexivity.
Qed.

Definition core (f : fout) : nat * bool * option nat := match f with FOut f h o _ => (f, h, o) end.
Definition frames_of (s : stack) : list fout := match s with Stack frs _ _ => frs end.
Definition leaf_of (s : stack) : leaf := match s with Stack _ lf _ => lf end.

Lemma run_sim c (FF : fault_free c) : forall fuel first tu te errs out t errs' out' t' s tf,
  run fuel first c tu te errs out t = (Ok s, tf) ->
  map core out' = map core out ->
  exists s' tf', run fuel first (ctx_off c) tu te errs' out' t' = (Ok s', tf')
    /\ map core (frames_of s') = map core (frames_of s) /\ leaf_of s' = leaf_of s.
Proof.
  induction fuel as [|fuel IH]; [discriminate|].
  intros first tu te errs out t errs' out' t' s tf H M.
  cbn [run] in H |- *.
  destruct (flatten (S fuel) 0 c tu (rev te) errs t) as [te1 e1 t1| |] eqn:EF; try discriminate.
  destruct (flatten_sim c FF _ _ _ _ _ _ errs' t' _ _ _ EF) as [e2 [t2 EF2]]. rewrite EF2.
  assert (LEAF : forall lf ea eb, exists s' tf',
            (Ok (Stack (rev out') lf ea), t2) = (Ok s', tf')
            /\ map core (frames_of s') = map core (frames_of (Stack (rev out) lf eb))
            /\ leaf_of s' = leaf_of (Stack (rev out) lf eb)).
  { intros. eexists _, _. split; [reflexivity|]. simpl. rewrite !map_rev, M. auto. }
  destruct te1 as [|[q d] rest].
  - inversion H; subst. apply LEAF.
  - destruct q as [f|f org|o|].
    + inversion H; subst. apply LEAF.
    + rewrite ctx_step_off'.
      match type of H with context[ctx_step c ?r f e1 t1] =>
        destruct (ctx_step c r f e1 t1) as [[[cx e3] t3] [bad|]] eqn:EC end.
      * apply ctx_step_bad in EC. inversion H; subst. destruct EC.
      * destruct (elab_step c f e3 t3) as [[[[r e4] h] t4] [x|]] eqn:EE; [discriminate|].
        destruct (elab_sim c FF f e3 t3 e2 t2 _ _ _ _ EE) as [e5 EE2]. rewrite EE2.
        assert (M' : map core (FOut f h org [] :: out') = map core (FOut f h org cx :: out))
          by (simpl; rewrite M; reflexivity).
        destruct first.
        { remember (rev (FOut f h org cx :: out)) as X eqn:EX in H. inversion H. subst s.
          eexists _, _. split; [reflexivity|].
          cbn [frames_of leaf_of]. rewrite EX, !map_rev, M'. auto. }
        destruct r as [|l|[i| |]|]; try (eapply IH; [exact H | exact M']).
        all: destruct (next_of rest) as [[| | |]|]; try (eapply IH; [exact H | exact M']).
    + inversion H; subst. apply LEAF.
    + inversion H; subst. apply LEAF.
Qed.

Lemma root_q_off c root : root_q (ctx_off c) root = root_q c root.
Proof. reflexivity. Qed.

Lemma ctx_off_mkcfg u e a cx fl faults wc g ug :
  ctx_off (mkcfg u e a cx fl faults wc g ug) = mkcfg u e a cx fl faults false g ug.
Proof. reflexivity. Qed.

Lemma mkcfg_fault_free u e a cx fl wc g ug : fault_free (mkcfg u e a cx fl [] wc g ug).
Proof. intros t. reflexivity. Qed.

Lemma frames_independent_fuel c (FF : fault_free c) fuel root t t' s :
  fst (run fuel false c (root_q c root) [] [] [] t) = Ok s ->
  exists s', fst (run fuel false (ctx_off c) (root_q (ctx_off c) root) [] [] [] t') = Ok s'
    /\ map core (frames_of s') = map core (frames_of s)
    /\ leaf_of s' = leaf_of s
    /\ no_cx (frames_of s').
Proof.
  intros H. destruct (run fuel false c (root_q c root) [] [] [] t) as [o tf] eqn:R.
  cbn [fst] in H. subst o.
  destruct (run_sim c FF fuel false _ _ _ _ _ [] [] t' s tf R eq_refl) as (s' & tf' & R' & A & B).
  exists s'. rewrite root_q_off, R'. repeat split; auto.
  destruct s' as [frs lf es]. cbn [frames_of].
  eapply (run_off (ctx_off c) eq_refl); [|exact R']. intros f [].
Qed.

Lemma frames_independent_of_with_contexts c root s :
  fault_free c -> extract c root = Ok s ->
  exists s', extract (ctx_off c) root = Ok s'
    /\ map core (frames_of s') = map core (frames_of s)
    /\ leaf_of s' = leaf_of s
    /\ no_cx (frames_of s').
Proof.
  intros FF E. rewrite extract_unfold in E. rewrite extract_unfold.
  set (fu := default_fuel) in *. clearbody fu.
  exact (frames_independent_fuel c FF fu root 0 0 s E).
Qed.

(* the hypotheses are met by a non-trivial input: contexts with a nested child extraction, a
   contexts hook that raises (so the error lists of the two runs differ), an inserting
   elaborate_frame hook *)
Definition ex_cfg : cfg :=
  mkcfg [(0, USeq [Some (IPy 0); Some (IObj 1)]); (1, UOne (IPy 1)); (2, UOne (IPy 3))]
        [(0, (ESeq [RItem (IPy 2); RNext], false))] []
        [(0, CtxOk [5; 6]); (1, CtxRaise); (2, CtxOk [7])] [(5, FillOk [IObj 2]); (6, FillRaise)]
        [] true all_guards 100.

Example ex_frames_independent :
  fault_free ex_cfg
  /\ extract ex_cfg (IObj 0)
     = Ok (Stack [FOut 0 false None [COut 5 [Stack [FOut 3 true None []] LNone []]; COut 6 []];
                  FOut 2 true None [COut 7 []]; FOut 1 true None []] LNone [EFill 6; ECtx 1])
  /\ extract (ctx_off ex_cfg) (IObj 0)
     = Ok (Stack [FOut 0 false None []; FOut 2 true None []; FOut 1 true None []] LNone []).
Proof. split; [exact (mkcfg_fault_free _ _ _ _ _ _ _ _)|]. split; vm_compute; reflexivity. Qed.
