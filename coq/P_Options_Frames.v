(* P_Options_Frames.v — C13, with_contexts=False in the frame model M_Frames. *)
Require Import Base M_Frames.

(* ---------- with_contexts = False in the frame model (M_Frames): no frame of the result
   carries contexts ---------- *)

Definition fout_cx (f : fout) : list cout := match f with FOut _ _ _ cx => cx end.
Definition no_cx (l : list fout) : Prop := forall f, In f l -> fout_cx f = [].

Lemma ctx_step_off c runner f errs t :
  with_ctx c = false -> ctx_step c runner f errs t = ([], errs, t, None).
Proof. intros H. unfold ctx_step. rewrite H. reflexivity. Qed.

Lemma no_cx_cons f l : fout_cx f = [] -> no_cx l -> no_cx (f :: l).
Proof. intros A B g [<-|I]; auto. Qed.

Lemma no_cx_rev l : no_cx l -> no_cx (rev l).
Proof. intros A g I. apply A. apply in_rev. exact I. Qed.

Lemma ok_inv a l e (t : nat) frs lf es (t' : nat) :
  (Ok (Stack a l e), t) = (Ok (Stack frs lf es), t') -> a = frs.
Proof. intros H. inversion H. reflexivity. Qed.

Lemma run_off c : with_ctx c = false ->
  forall fuel first tu te errs out_rev t frs lf es t',
    no_cx out_rev ->
    run fuel first c tu te errs out_rev t = (Ok (Stack frs lf es), t') ->
    no_cx frs.
Proof.
  intros OFF. induction fuel as [|fuel IH]; intros first tu te errs out_rev t frs lf es t' N R.
  - discriminate.
  - cbn [run] in R.
    destruct (flatten (S fuel) 0 c tu (rev te) errs t) as [te1 errs1 t1| |]; try discriminate.
    destruct te1 as [|[q d] rest].
    + apply ok_inv in R. rewrite <- R. apply no_cx_rev; exact N.
    + destruct q as [f|f org|o|].
      * apply ok_inv in R. rewrite <- R. apply no_cx_rev; exact N.
      * rewrite (ctx_step_off c _ f errs1 t1 OFF) in R.
        destruct (elab_step c f errs1 t1) as [[[[r errs2] hide] t2] [e|]]; try discriminate.
        assert (N' : no_cx (FOut f hide org [] :: out_rev)) by (apply no_cx_cons; auto).
        destruct first.
        { apply ok_inv in R. rewrite <- R. apply no_cx_rev; exact N'. }
        destruct r as [|l|[i| |]|];
          try (eapply IH; [exact N'|exact R]).
        destruct (next_of rest) as [[| | |]|]; eapply IH; try exact R; exact N'.
      * apply ok_inv in R. rewrite <- R. apply no_cx_rev; exact N.
      * apply ok_inv in R. rewrite <- R. apply no_cx_rev; exact N.
Qed.

Lemma extract_unfold c root :
  extract c root = fst (run default_fuel false c (root_q c root) [] [] [] 0).
Proof. reflexivity. Qed.

Lemma frames_model_contexts_off c root frs lf es :
  with_ctx c = false -> extract c root = Ok (Stack frs lf es) -> no_cx frs.
Proof.
  intros OFF E. rewrite extract_unfold in E.
  set (fu := default_fuel) in E. clearbody fu.
  destruct (run fu false c (root_q c root) [] [] [] 0) as [o t'] eqn:R.
  cbn [fst] in E. subst o.
  eapply (run_off c OFF); [|exact R]. intros f [].
Qed.
