(* M_Options.v — executable model of the option scoping of stackscope._extract
   (ExtractOptions / current_options.push / extract / extract_child / fill_context).
   Definitions only; the proofs live in P_Options.v so the model still runs if a proof breaks.

   What is modelled.  `current_options` holds the pair (with_contexts, recurse_child_tasks) of
   the innermost enclosing extraction, or (None, None) outside any extraction.  `push` is a
   generator-based context manager: it saves the two attributes in a local (`prev`), overwrites
   them, yields, and writes `prev` back in a `finally`.  The saved value therefore lives on the
   *control stack of the calling thread* ([kstack] below), the attributes live in the object
   ([sto]).  Whether the object is per-thread (threading.local) and whether the write-back
   happens on the exception path (`finally`) are NOT hard-wired: they are the [disc] record,
   regenerated from the source on every run (gen/SrcFacts.v, harness/facts_c13.py).

   A thread performs a history of operations
     Enter o     extract(..., with_contexts=fst o, recurse_child_tasks=snd o) is called (push)
     FillEnter   fill_context(ctx) is called: pushes (True, False) iff no extraction is active
     SameEnter   extract_child(item, for_task=False) is called on an item whose hooks run more
                 operations: no push; refuses (RuntimeError) outside an extraction
     LeaveOk     the innermost open call returns normally
     LeaveExc    the innermost open call is left by an exception
     Child ft    extract_child(task, for_task=ft): refuses / frameless stub / full stack
     Read        extract_child(frames inside `with` blocks, for_task=False): refuses /
                 every Frame.contexts empty / filled
   and the global run executes the histories of all threads under an arbitrary schedule
   (a list of thread ids; each entry lets that thread perform its next operation). *)
Require Import Base.
From SS.gen Require Import SrcFacts.

Definition opts := (bool * bool)%type.          (* (with_contexts, recurse_child_tasks) *)

Record disc := { thread_local : bool; restore_finally : bool }.

Inductive op :=
  | Enter (o : opts) | FillEnter | SameEnter | LeaveOk | LeaveExc | Child (ft : bool) | Read.

Inductive cres := CRefuse | CStub | CFull.
Inductive rres := RRefuse | REmpty | RCtx.
(* [OBad]: anything else the harness saw (malformed stub, changed frames, hook not run);
   never produced by the model *)
Inductive obs := OChild (r : cres) | ORead (r : rres) | OSame (inside : bool) | OBad.

(* one entry per open call on a thread's control stack: the `prev` local of a live push()
   generator, or a call that did not push *)
Inductive kent := KPush (prev : option opts) | KNoPush.

(* extract_child: `recurse_child_tasks is None` -> RuntimeError;
   `for_task and not recurse_child_tasks` -> Stack(root=item, frames=[]) *)
Definition child_res (cell : option opts) (ft : bool) : cres :=
  match cell with
  | None => CRefuse
  | Some (_, rc) => if ft && negb rc then CStub else CFull
  end.

(* extract_iter: `if current_options.with_contexts:` fill Frame.contexts *)
Definition read_res (cell : option opts) : rres :=
  match cell with
  | None => RRefuse
  | Some (wc, _) => if wc then RCtx else REmpty
  end.

Definition is_some {A} (x : option A) : bool := match x with Some _ => true | None => false end.

(* one operation of a thread on the cell it sees and on its own control stack *)
Definition step_op (d : disc) (cell : option opts) (k : list kent) (o : op)
  : option opts * list kent * option obs :=
  match o with
  | Enter v => (Some v, KPush cell :: k, None)
  | FillEnter =>
      match cell with
      | None => (Some (true, false), KPush cell :: k, None)
      | Some _ => (cell, KNoPush :: k, None)
      end
  | SameEnter => (cell, KNoPush :: k, Some (OSame (is_some cell)))
  | LeaveOk =>
      match k with
      | KPush p :: k' => (p, k', None)
      | KNoPush :: k' => (cell, k', None)
      | [] => (cell, [], None)
      end
  | LeaveExc =>
      match k with
      | KPush p :: k' => (if restore_finally d then p else cell, k', None)
      | KNoPush :: k' => (cell, k', None)
      | [] => (cell, [], None)
      end
  | Child ft => (cell, k, Some (OChild (child_res cell ft)))
  | Read => (cell, k, Some (ORead (read_res cell)))
  end.

Record tstate := { todo : list op; kstack : list kent; out_rev : list obs }.
Record gstate := { sto : nat -> option opts; thr : nat -> tstate }.

Definition add_obs (o : option obs) (l : list obs) : list obs :=
  match o with Some x => x :: l | None => l end.

(* the storage cell thread [t] reads and writes *)
Definition key (d : disc) (t : nat) : nat := if thread_local d then t else 0.

Definition upd {A} (f : nat -> A) (k : nat) (v : A) : nat -> A :=
  fun x => if x =? k then v else f x.

Definition gstep (d : disc) (st : gstate) (t : nat) : gstate :=
  let ts := thr st t in
  match todo ts with
  | [] => st
  | o :: rest =>
      let '(c', k', ob) := step_op d (sto st (key d t)) (kstack ts) o in
      {| sto := upd (sto st) (key d t) c';
         thr := upd (thr st) t {| todo := rest; kstack := k'; out_rev := add_obs ob (out_rev ts) |} |}
  end.

Fixpoint run (d : disc) (st : gstate) (sched : list nat) : gstate :=
  match sched with
  | [] => st
  | t :: r => run d (gstep d st t) r
  end.

Definition idle : tstate := {| todo := []; kstack := []; out_rev := [] |}.
Definition init_thread (h : list op) : tstate := {| todo := h; kstack := []; out_rev := [] |}.
Definition init (hists : list (list op)) : gstate :=
  {| sto := fun _ => None; thr := fun t => init_thread (nth t hists []) |}.

Definition obs_of (st : gstate) (t : nat) : list obs := rev (out_rev (thr st t)).
Definition cell_of (d : disc) (st : gstate) (t : nat) : option opts := sto st (key d t).

(* ---------- well-nested histories as trees (what the hooks of the harness execute) ---------- *)

Inductive prog :=
  | PNil
  | PExt (o : opts) (body : prog) (exc : bool) (rest : prog)   (* extract(...): hook runs body *)
  | PFill (body : prog) (exc : bool) (rest : prog)              (* fill_context(...): hook runs body *)
  | PSame (body : prog) (exc : bool) (rest : prog)              (* extract_child(item, for_task=False) *)
  | PChild (ft : bool) (rest : prog)
  | PRead (rest : prog).

Definition leave (exc : bool) : op := if exc then LeaveExc else LeaveOk.

Fixpoint flatten (p : prog) : list op :=
  match p with
  | PNil => []
  | PExt o b e r => Enter o :: flatten b ++ leave e :: flatten r
  | PFill b e r => FillEnter :: flatten b ++ leave e :: flatten r
  | PSame b e r => SameEnter :: flatten b ++ leave e :: flatten r
  | PChild ft r => Child ft :: flatten r
  | PRead r => Read :: flatten r
  end.

(* the discipline of the code as it is now *)
Definition facts_disc : disc :=
  {| thread_local := SrcFacts.c13_options_thread_local;
     restore_finally := SrcFacts.c13_push_restores_in_finally |}.

Definition run_progs (d : disc) (progs : list prog) (sched : list nat) : list (list obs) :=
  let st := run d (init (map flatten progs)) sched in
  map (obs_of st) (seq 0 (length progs)).

(* ---------- all interleavings of threads with given operation counts ---------- *)

Fixpoint dec_nth (l : list nat) (t : nat) : list nat :=
  match l, t with
  | x :: r, 0 => pred x :: r
  | x :: r, S t' => x :: dec_nth r t'
  | [], _ => []
  end.

Fixpoint all_schedules (fuel : nat) (counts : list nat) : list (list nat) :=
  match fuel with
  | 0 => [[]]
  | S f =>
      flat_map (fun t => if 0 <? nth t counts 0
                         then map (cons t) (all_schedules f (dec_nth counts t)) else [])
               (seq 0 (length counts))
  end.

Definition schedules_of (progs : list prog) : list (list nat) :=
  let counts := map (fun p => length (flatten p)) progs in
  all_schedules (list_sum counts) counts.

(* ---------- comparison with what the implementation did, for generated cases ---------- *)

Definition cres_eqb (a b : cres) : bool :=
  match a, b with CRefuse, CRefuse | CStub, CStub | CFull, CFull => true | _, _ => false end.
Definition rres_eqb (a b : rres) : bool :=
  match a, b with RRefuse, RRefuse | REmpty, REmpty | RCtx, RCtx => true | _, _ => false end.
Definition obs_eqb (a b : obs) : bool :=
  match a, b with
  | OChild x, OChild y => cres_eqb x y
  | ORead x, ORead y => rres_eqb x y
  | OSame x, OSame y => Bool.eqb x y
  | _, _ => false
  end.

(* a case = the programs of the threads, the schedule they were stepped through, and the
   observations each thread made, in its own order *)
Definition ocase := (list prog * list nat * list (list obs))%type.
Definition ocase_ok (k : ocase) : bool :=
  let '(ps, s, o) := k in list_eqb (list_eqb obs_eqb) (run_progs facts_disc ps s) o.
Definition mismatches (cases : list ocase) : list nat := false_indices 0 (map ocase_ok cases).

(* exhaustive case: the runs under ALL interleavings, in the order of [schedules_of] *)
Definition xcase := (list prog * list (list nat * list (list obs)))%type.
Definition xcase_ok (k : xcase) : bool :=
  let '(ps, runs) := k in
  list_eqb (list_eqb Nat.eqb) (map fst runs) (schedules_of ps)
  && forallb (fun r => ocase_ok (ps, fst r, snd r)) runs.
Definition xmismatches (cases : list xcase) : list nat := false_indices 0 (map xcase_ok cases).

(* non-trivial: some thread nests two pushing calls, or leaves one by exception, or at least
   two threads perform operations *)
Fixpoint depth (p : prog) : nat :=
  match p with
  | PNil => 0
  | PExt _ b _ r | PFill b _ r => Nat.max (S (depth b)) (depth r)
  | PSame b _ r => Nat.max (depth b) (depth r)
  | PChild _ r | PRead r => depth r
  end.
Fixpoint has_exc (p : prog) : bool :=
  match p with
  | PNil => false
  | PExt _ b e r | PFill b e r | PSame b e r => e || has_exc b || has_exc r
  | PChild _ r | PRead r => has_exc r
  end.
Definition active (p : prog) : bool := match p with PNil => false | _ => true end.
Definition nontrivial (ps : list prog) : bool :=
  existsb (fun p => 2 <=? depth p) ps || existsb has_exc ps || (2 <=? count_true (map active ps)).
Definition count_nontrivial (cases : list ocase) : nat :=
  count_true (map (fun k : ocase => let '(ps, _, _) := k in nontrivial ps) cases).
(* counts program sets, not runs (a nat printed by vm_compute must stay small) *)
Definition xcount_nontrivial (cases : list xcase) : nat :=
  count_true (map (fun k : xcase => nontrivial (fst k)) cases).
