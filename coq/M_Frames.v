(* M_Frames.v — executable model of stackscope._extract.extract_iter / extract_child /
   extract_outermost (frames, leaf, errors, origins, contexts step, fault injection).
   Definitions only; proofs live in P_Frames*.v so the model still runs if a proof breaks.

   Abstraction: stack items are raw python frames [IPy f] or other objects [IObj o]; the
   customization hooks are finite tables (unwrap_stackitem per object, elaborate_frame per
   frame, contexts_active_in_frame per frame, fill_context per context); every hook
   invocation consumes one global tick, and [fault t = true] makes the invocation with tick
   [t] raise (the k-th dynamic invocation fault of property C05).  Whether an exception at a
   call site is contained is NOT hard-wired: it is the [guards] record, which the check
   regenerates from the source of extract_iter (gen/SrcFacts.v). *)
Require Import Base.

Inductive item := IPy (f : nat) | IObj (o : nat).
(* element of an elaborate_frame result: an item, the very [next_inner] argument, or None *)
Inductive ritem := RItem (i : item) | RNext | RNone.
Inductive ures :=
  | UNone | UOne (i : item) | USeq (l : list (option item))
  | UIter (l : list item) (raises : bool) | URaise.
Inductive eres := ENone | ESeq (l : list ritem) | EOne (r : ritem) | ERaise.
Inductive cres := CtxOk (l : list nat) | CtxRaise.
Inductive fres := FillOk (kids : list item) | FillRaise.

Record oattr := { wref : bool; gent : bool; ownf : option nat }.
Record guards := { g_unwrap : bool; g_iter : bool; g_ctx : bool; g_fill : bool; g_elab : bool }.

(* things that sit in the two deques *)
Inductive qitem := QPy (f : nat) | QFr (f : nat) (org : option nat) | QObj (o : nat) | QNone.

Inductive err :=
  | EUnwrap (o : nat) | EIter (o : nat) | ELoop (q : qitem) | EElab (f : nat)
  | ECtx (f : nat) | EFill (c : nat) | EFault (t : nat).

Record cfg := {
  unwrap : nat -> ures;
  elab : nat -> eres;
  prehide : nat -> bool;        (* the hook sets frame.hide to this before returning/raising *)
  attr : nat -> oattr;
  ctxs : nat -> cres;
  fill : nat -> fres;
  fault : nat -> bool;
  with_ctx : bool;
  grd : guards;
  uguard : nat                  (* the "100" of the progress guard; regenerated from source *)
}.

Definition qent := (option nat * qitem * nat)%type.   (* to_unwrap: (origin, item, depth) *)
Definition tent := (qitem * nat)%type.                (* to_elaborate: (Frame or leaf, depth) *)

Inductive leaf := LNone | LOne (q : qitem) | LMany (l : list qitem).
Inductive stack := Stack (frames : list fout) (lf : leaf) (errs : list err)
with fout := FOut (f : nat) (hide : bool) (org : option nat) (cx : list cout)
with cout := COut (c : nat) (kids : list stack).
Inductive outcome := Ok (s : stack) | Raised (e : err) | OutOfFuel.

Definition q_of (i : item) : qitem := match i with IPy f => QPy f | IObj o => QObj o end.

Definition is_gen (c : cfg) (o : option nat) : bool :=
  match o with Some x => gent (attr c x) | None => false end.

(* _extract.better_origin: python frames and None cannot be weakly referenced; the queue origin
   of an already-built Frame object is never used, so it is not tracked *)
Definition better_origin (c : cfg) (cand : qitem) (fb : option nat) : option nat :=
  match cand with
  | QObj o =>
      if wref (attr c o)
      then (if gent (attr c o) || negb (is_gen c fb) then Some o else fb)
      else fb
  | _ => fb
  end.

(* origin given to a Frame built from a raw python frame *)
Definition frame_origin (c : cfg) (org : option nat) (f : nat) : option nat :=
  match org with
  | Some o =>
      if gent (attr c o) && option_eqb Nat.eqb (ownf (attr c o)) (Some f) then Some o else None
  | None => None
  end.

(* stepping a FrameIterator: one tick per next(); returns the items obtained, the error that
   ended the iteration (if any) and the new tick *)
Fixpoint iter_steps (c : cfg) (o : nat) (l : list item) (raises : bool) (t : nat)
  : list item * option err * nat :=
  if fault c t then ([], Some (EFault t), S t) else
  match l with
  | [] => ([], if raises then Some (EIter o) else None, S t)
  | x :: r => let '(k, e, t') := iter_steps c o r raises (S t) in (x :: k, e, t')
  end.

Inductive fl_res := FlOk (te : list tent) (errs : list err) (t : nat) | FlRaised (e : err) | FlFuel.

(* the inner "unwrap" while-loop.  Its continuation test
   `len(to_elaborate) < 2 or not isinstance(to_elaborate[0], Frame)` is applied to a tuple and
   is therefore always true: unwrapping is eager. *)
Fixpoint flatten (fuel cnt : nat) (c : cfg) (tu : list qent) (te_rev : list tent)
         (errs : list err) (t : nat) : fl_res :=
  match fuel with
  | 0 => FlFuel
  | S fuel' =>
    match tu with
    | [] => FlOk (rev te_rev) errs t
    | (org, QPy f, d) :: tu' =>
        flatten fuel' 0 c tu' ((QFr f (frame_origin c org f), d) :: te_rev) errs t
    | (_, QFr f o, d) :: tu' => flatten fuel' 0 c tu' ((QFr f o, d) :: te_rev) errs t
    | (org, cur, d) :: tu' =>
        let leafit errs' t' := flatten fuel' 0 c tu' ((cur, d) :: te_rev) errs' t' in
        let fail e t' := if g_unwrap (grd c) then leafit (e :: errs) t' else FlRaised e in
        if fault c t then fail (EFault t) (S t) else
        let t1 := S t in
        let r := match cur with QObj o => unwrap c o | _ => UNone end in
        let o := match cur with QObj o => o | _ => 0 end in
        match r with
        | URaise => fail (EUnwrap o) t1
        | _ =>
          if uguard c <? S cnt then fail (ELoop cur) t1 else
          let push l errs' t' :=
            flatten fuel' (S cnt) c
                    (map (fun i => (better_origin c (q_of i) org, q_of i, S d)) l ++ tu')
                    te_rev errs' t' in
          match r with
          | UNone | URaise => leafit errs t1
          | UOne i => push [i] errs t1
          | USeq l => push (somes l) errs t1
          | UIter l b =>
              let '(k, e, t2) := iter_steps c o l b t1 in
              match e with
              | None => push k errs t2
              | Some e => if g_iter (grd c) then push k (e :: errs) t2 else FlRaised e
              end
          end
        end
    end
  end.

Fixpoint dropge (d : nat) (q : list qent) : list qent :=
  match q with
  | (o, i, d') :: r => if d <=? d' then dropge d r else q
  | [] => []
  end.

Definition next_of (rest : list tent) : option qitem :=
  match rest with (q, _) :: _ => Some q | [] => None end.

Definition conc (next : option qitem) (r : ritem) : qitem :=
  match r with
  | RItem i => q_of i
  | RNone => QNone
  | RNext => match next with Some q => q | None => QNone end
  end.

(* `items[-1] is next_inner` (identity) *)
Definition ends_with_next (next : option qitem) (l : list ritem) : bool :=
  match last_opt l with
  | Some RNext => true
  | Some RNone => match next with None | Some QNone => true | _ => false end
  | Some (RItem (IObj o)) => match next with Some (QObj o') => o =? o' | _ => false end
  | _ => false
  end.

Definition requeue (rest : list tent) : list qent := map (fun e => (None, fst e, snd e)) rest.

(* insert form: the queued next_inner (head of the re-queued rest) is brought out to the
   inserting frame's depth when it is nested more deeply, and keeps its depth otherwise *)
Definition redepth (d : nat) (q : list qent) : list qent :=
  match q with (o, i, d') :: r => (o, i, Nat.min d d') :: r | [] => [] end.

(* children of one context: extract_child on each kid, sharing the tick counter *)
Fixpoint run_kids (runner : item -> nat -> outcome * nat) (kids : list item) (acc : list stack) (t : nat)
  : list stack * option outcome * nat :=
  match kids with
  | [] => (rev acc, None, t)
  | k :: r =>
      match runner k t with
      | (Ok s, t') => run_kids runner r (s :: acc) t'
      | (bad, t') => (rev acc, Some bad, t')
      end
  end.

(* fill_context for each context of a frame *)
Fixpoint fill_all (c : cfg) (runner : item -> nat -> outcome * nat) (l : list nat)
         (acc : list cout) (errs : list err) (t : nat)
  : list cout * list err * nat * option outcome :=
  match l with
  | [] => (rev acc, errs, t, None)
  | cid :: r =>
      let failed e kids t' :=
        if g_fill (grd c) then fill_all c runner r (COut cid kids :: acc) (e :: errs) t'
        else (rev acc, errs, t', Some (Raised e)) in
      if fault c t then failed (EFault t) [] (S t) else
      match fill c cid with
      | FillRaise => failed (EFill cid) [] (S t)
      | FillOk kids =>
          match run_kids runner kids [] (S t) with
          | (ks, None, t') => fill_all c runner r (COut cid ks :: acc) errs t'
          | (ks, Some (Raised e), t') => failed e ks t'
          | (ks, Some bad, t') => (rev acc, errs, t', Some bad)
          end
      end
  end.

Definition ctx_step (c : cfg) (runner : item -> nat -> outcome * nat) (f : nat)
           (errs : list err) (t : nat) : list cout * list err * nat * option outcome :=
  if negb (with_ctx c) then ([], errs, t, None) else
  let failed e t' := if g_ctx (grd c) then ([], e :: errs, t', None)
                     else ([], errs, t', Some (Raised e)) in
  if fault c t then failed (EFault t) (S t) else
  match ctxs c f with
  | CtxRaise => failed (ECtx f) (S t)
  | CtxOk l => fill_all c runner l [] errs (S t)
  end.

(* elaborate_frame call: result, errors, final hide flag, new tick, escaping exception *)
Definition elab_step (c : cfg) (f : nat) (errs : list err) (t : nat)
  : eres * list err * bool * nat * option err :=
  let failed e := if g_elab (grd c) then (ESeq [], e :: errs, false, S t, None)
                  else (ENone, errs, false, S t, Some e) in
  if fault c t then failed (EFault t) else
  match elab c f with
  | ERaise => failed (EElab f)
  | r => (r, errs, prehide c f, S t, None)
  end.

(* the outer loop of extract_iter; [first] = stop after the first yielded frame
   (extract_outermost abandons the generator there) *)
Fixpoint run (fuel : nat) (first : bool) (c : cfg) (tu : list qent) (te : list tent)
         (errs : list err) (out_rev : list fout) (t : nat) : outcome * nat :=
  match fuel with
  | 0 => (OutOfFuel, t)
  | S fuel' =>
    match flatten (S fuel') 0 c tu (rev te) errs t with
    | FlFuel => (OutOfFuel, t)
    | FlRaised e => (Raised e, t)
    | FlOk te errs t =>
      match te with
      | [] => (Ok (Stack (rev out_rev) LNone (rev errs)), t)
      | (QFr f org, d) :: rest =>
          let next := next_of rest in
          let runner k t := run fuel' false c [(better_origin c (q_of k) None, q_of k, 0)] [] [] [] t in
          match ctx_step c runner f errs t with
          | (_, _, t, Some bad) => (bad, t)
          | (cx, errs, t, None) =>
            match elab_step c f errs t with
            | (_, _, _, t, Some e) => (Raised e, t)
            | (r, errs, hide, t, None) =>
              let out_rev := FOut f hide org cx :: out_rev in
              if first then (Ok (Stack (rev out_rev) LNone (rev errs)), t) else
              match r with
              | ENone => run fuel' first c [] rest errs out_rev t
              | EOne RNone => run fuel' first c [] rest errs out_rev t   (* `replacement is None` *)
              | EOne RNext =>
                  match next with
                  | None | Some QNone => run fuel' first c [] rest errs out_rev t
                  | _ => run fuel' first c (redepth d (requeue rest)) [] errs out_rev t  (* insert nothing *)
                  end
              | _ =>
                let l := match r with ESeq l => l | EOne x => [x] | _ => [] end in
                let mk q := (better_origin c q None, q, d) in
                let tu' :=
                  if ends_with_next next l
                  then map mk (map (conc next) (removelast l)) ++ redepth d (requeue rest)
                  else map mk (map (conc next) l) ++ dropge d (requeue rest) in
                run fuel' first c tu' [] errs out_rev t
              end
            end
          end
      | (q, _) :: rest =>
          (Ok (Stack (rev out_rev)
                     (match rest with [] => LOne q | _ => LMany (map fst te) end)
                     (rev errs)), t)
      end
    end
  end.

Definition default_fuel := 4000.

Definition root_q (c : cfg) (root : item) : list qent :=
  [(better_origin c (q_of root) None, q_of root, 0)].

(* extract(root) *)
Definition extract_t (c : cfg) (root : item) (t : nat) : outcome * nat :=
  run default_fuel false c (root_q c root) [] [] [] t.
Definition extract (c : cfg) (root : item) : outcome := fst (extract_t c root 0).

(* extract_outermost(root) *)
Inductive oresult := OFrame (f : fout) | ORaise (es : list err) | OEscaped (e : err) | OFuel.
Definition outermost (c : cfg) (root : item) : oresult :=
  match fst (run default_fuel true c (root_q c root) [] [] [] 0) with
  | Ok (Stack (f :: _) _ _) => OFrame f
  | Ok (Stack [] _ es) => ORaise es
  | Raised e => OEscaped e
  | OutOfFuel => OFuel
  end.

(* ---------- finite-table configurations and comparison, for generated cases ---------- *)

Definition all_guards := {| g_unwrap := true; g_iter := true; g_ctx := true; g_fill := true; g_elab := true |}.
Definition default_attr := {| wref := true; gent := false; ownf := None |}.

Definition mkcfg (u : list (nat * ures)) (e : list (nat * (eres * bool))) (a : list (nat * oattr))
           (cx : list (nat * cres)) (fl : list (nat * fres)) (faults : list nat) (wc : bool)
           (g : guards) (ug : nat) : cfg :=
  {| unwrap := lookup UNone u;
     elab := fun f => fst (lookup (ENone, true) e f);
     prehide := fun f => snd (lookup (ENone, true) e f);
     attr := lookup default_attr a;
     ctxs := lookup (CtxOk []) cx;
     fill := lookup (FillOk []) fl;
     fault := fun t => mem_nat t faults;
     with_ctx := wc; grd := g; uguard := ug |}.

(* ---------------------------------------------------------------------------------------------
   customize(target, hide=, hide_line=, prune=, elaborate=user): the registered hook sets the flags,
   calls the user's elaborate hook (if any) and returns its result unless that is None, else PRUNE if
   [prune] else None.  PRUNE / an empty sequence is a result of its own, distinct from None.
   [user] = the user hook's row (result, hide flag it leaves on the frame); without a user hook the
   frame's hide flag is the [hide] argument (the default __tracebackhide__ hook is replaced).
   (The bare next_inner as user result is only generated with prune = false: it is None exactly when
   next_inner is None, which the finite tables cannot express together with prune.) *)
Definition customized (hide prune : bool) (user : option (eres * bool)) : eres * bool :=
  let dflt := if prune then ESeq [] else ENone in
  match user with
  | None => (dflt, hide)
  | Some (ENone, h) | Some (EOne RNone, h) => (dflt, h)
  | Some (r, h) => (r, h)
  end.

Definition qitem_eqb (a b : qitem) : bool :=
  match a, b with
  | QPy x, QPy y => x =? y
  | QFr x o, QFr y p => (x =? y) && option_eqb Nat.eqb o p
  | QObj x, QObj y => x =? y
  | QNone, QNone => true
  | _, _ => false
  end.

Definition err_eqb (a b : err) : bool :=
  match a, b with
  | EUnwrap x, EUnwrap y | EIter x, EIter y | EElab x, EElab y
  | ECtx x, ECtx y | EFill x, EFill y | EFault x, EFault y => x =? y
  | ELoop x, ELoop y => qitem_eqb x y
  | _, _ => false
  end.

(* what the harness can observe of a leaf: a Frame object shows as its python frame *)
Definition leaf_eqb (a b : leaf) : bool :=
  match a, b with
  | LNone, LNone | LNone, LOne QNone | LOne QNone, LNone => true
  | LOne x, LOne y => qitem_eqb x y
  | LMany x, LMany y => list_eqb qitem_eqb x y
  | _, _ => false
  end.

Fixpoint stack_eqb (a b : stack) {struct a} : bool :=
  match a, b with
  | Stack fa la ea, Stack fb lb eb =>
      (fix feq (x y : list fout) {struct x} : bool :=
         match x, y with
         | [], [] => true
         | FOut f1 h1 o1 c1 :: x', FOut f2 h2 o2 c2 :: y' =>
             (f1 =? f2) && Bool.eqb h1 h2 && option_eqb Nat.eqb o1 o2
             && (fix ceq (p q : list cout) {struct p} : bool :=
                   match p, q with
                   | [], [] => true
                   | COut i1 k1 :: p', COut i2 k2 :: q' =>
                       (i1 =? i2)
                       && (fix keq (u v : list stack) {struct u} : bool :=
                             match u, v with
                             | [], [] => true
                             | s1 :: u', s2 :: v' => stack_eqb s1 s2 && keq u' v'
                             | _, _ => false
                             end) k1 k2
                       && ceq p' q'
                   | _, _ => false
                   end) c1 c2
             && feq x' y'
         | _, _ => false
         end) fa fb
      && leaf_eqb la lb && list_eqb err_eqb ea eb
  end.

Definition outcome_eqb (a b : outcome) : bool :=
  match a, b with
  | Ok x, Ok y => stack_eqb x y
  | Raised _, Raised _ => true
  | OutOfFuel, OutOfFuel => true
  | _, _ => false
  end.

Definition oresult_eqb (a b : oresult) : bool :=
  match a, b with
  | OFrame x, OFrame y => stack_eqb (Stack [x] LNone []) (Stack [y] LNone [])
  | ORaise x, ORaise y => list_eqb err_eqb x y
  | OEscaped _, OEscaped _ => true
  | OFuel, OFuel => true
  | _, _ => false
  end.

(* a case = configuration, root, what the implementation returned *)
Definition ecase := (cfg * item * outcome)%type.
Definition ecase_ok (k : ecase) : bool := let '(c, r, o) := k in outcome_eqb (extract c r) o.
Definition mismatches (cases : list ecase) : list nat := false_indices 0 (map ecase_ok cases).

Definition ocase := (cfg * item * oresult)%type.
Definition ocase_ok (k : ocase) : bool := let '(c, r, o) := k in oresult_eqb (outermost c r) o.
Definition omismatches (cases : list ocase) : list nat := false_indices 0 (map ocase_ok cases).

(* non-trivial: the model run exercises at least one non-default rule
   (a frame whose hook edits the rest, a multi-item / iterator / raising unwrap, or an error) *)
Fixpoint stack_frames (s : stack) : nat := match s with Stack f _ _ => length f end.
Definition nontrivial_out (o : outcome) : bool :=
  match o with
  | Ok (Stack fr lf es) =>
      (2 <=? length fr) || negb (match es with [] => true | _ => false end)
      || negb (match lf with LNone => true | _ => false end)
  | _ => true
  end.
Definition count_nontrivial (cases : list ecase) : nat :=
  count_true (map (fun k : ecase => let '(c, r, _) := k in nontrivial_out (extract c r)) cases).
