(* P_BlockStackR.v — every POP_BLOCK the block-stack machine can reach is reachable in the walk's
   own control-flow graph; hence (with P_BlockStackC.walk_complete) the model of the 3.9/3.10 branch
   never gives the "doesn't appear reachable" warning for a POP_BLOCK that some execution reaches. *)
Require Import Base M_BlockStack P_BlockStack P_BlockStackC.

Inductive inrun (c : bcode) (q : nat) : nat -> Prop :=
  | IR_here : inrun c q q
  | IR_ext p : inrun c q p -> bat c p = BExt -> inrun c q (S p).

Lemma bat_lt c p : bat c p <> BOther -> p < length c.
Proof.
  intros H. destruct (Nat.lt_ge_cases p (length c)) as [L|G]; [exact L|].
  unfold bat in H. rewrite nth_overflow in H by exact G. contradiction.
Qed.

Lemma skip_ext_ext c p : bat c p = BExt -> skip_ext c p = skip_ext c (S p).
Proof.
  intros B. assert (L : p < length c) by (apply bat_lt; rewrite B; discriminate).
  unfold skip_ext. rewrite (skipn_cons_nth c p L), B. simpl. lia.
Qed.

Lemma skip_ext_noext c p : bat c p <> BExt -> skip_ext c p = p.
Proof.
  intros B. unfold skip_ext. destruct (Nat.lt_ge_cases p (length c)) as [L|G].
  - rewrite (skipn_cons_nth c p L). destruct (bat c p); try contradiction; simpl; lia.
  - rewrite skipn_all2 by exact G. simpl. lia.
Qed.

Lemma inrun_skip c q p : inrun c q p -> skip_ext c q = skip_ext c p.
Proof. induction 1 as [|p R IH B]; [reflexivity|]. rewrite IH. apply skip_ext_ext. exact B. Qed.

Lemma Forall_removelast {A} (P : A -> Prop) l : Forall P l -> Forall P (removelast l).
Proof.
  induction l as [|x l IH]; intros H; [constructor|]. simpl. destruct l as [|y l]; [constructor|].
  inversion H; subst. constructor; [assumption|]. apply IH. assumption.
Qed.

Lemma last_opt_in {A} (l : list A) x : last_opt l = Some x -> In x l.
Proof.
  unfold last_opt. destruct (rev l) as [|y r] eqn:E; [discriminate|]. intros H. injection H as ->.
  apply in_rev. rewrite E. left. reflexivity.
Qed.

Definition rinv (c : bcode) (s : bstate) : Prop :=
  (exists q, oreach c q /\ inrun c q (fst s)) /\ Forall (oreach c) (snd s).

Lemma nsuccs_shape i p st p' st' :
  i <> BExt -> In (p', st') (nsuccs i p st) ->
  In p' (jumps i ++ (if no_fall i then [] else [p + 1])) /\
  (st' = st \/ (exists k t, i = BSetup k t /\ st' = st ++ [t]) \/ st' = removelast st).
Proof.
  intros NE H. destruct i; simpl in H; try contradiction.
  all: try (destruct st as [|x st0]; [contradiction|]).
  all: cbn [In] in H.
  all: repeat match goal with
           | H : _ \/ _ |- _ => destruct H as [H|H]
           | H : (_, _) = (_, _) |- _ => injection H as <- <-
           | H : False |- _ => contradiction
           end.
  all: split; [simpl; auto|eauto 6].
Qed.

Lemma breach_rinv c s : breach c s -> rinv c s.
Proof.
  induction 1 as [|s s' R IH St].
  - split; [exists 0; split; constructor|constructor].
  - destruct IH as [(q & Oq & Run) Fs]. destruct St as [p st s' Hin | p st s' Hin]; simpl in *.
    + destruct s' as [p' st'].
      assert (D : bat c p = BExt \/ bat c p <> BExt) by (destruct (bat c p); auto; right; discriminate).
      destruct D as [B|B].
      * rewrite B in Hin. simpl in Hin. destruct Hin as [Hin|[]]. injection Hin as <- <-.
        split; [|exact Fs]. exists q. split; [exact Oq|]. simpl. replace (p + 1) with (S p) by lia.
        constructor; assumption.
      * assert (SK : skip_ext c q = p) by (rewrite (inrun_skip c q p Run); apply skip_ext_noext; exact B).
        destruct (nsuccs_shape _ _ _ _ _ B Hin) as [Hp Hst].
        assert (OS : forall x, In x (jumps (bat c p) ++ (if no_fall (bat c p) then [] else [p + 1])) -> oreach c x).
        { intros x Hx. eapply OR_step; [exact Oq|]. unfold osuccs. rewrite SK. exact Hx. }
        split; [exists p'; split; [apply OS; exact Hp|constructor]|]. simpl.
        destruct Hst as [->|[(k & t & Ei & ->)| ->]].
        -- exact Fs.
        -- apply Forall_app. split; [exact Fs|]. constructor; [|constructor].
           apply OS. rewrite Ei. simpl. left. reflexivity.
        -- apply Forall_removelast. exact Fs.
    + unfold esuccs in Hin. destruct (last_opt st) as [h|] eqn:L; [|contradiction].
      destruct Hin as [<-|[]]. simpl. split; [|apply Forall_removelast; exact Fs].
      exists h. split; [|constructor]. rewrite Forall_forall in Fs. apply Fs. apply last_opt_in. exact L.
Qed.

Theorem reachable_pop_in_walk_graph c pop st :
  breach c (pop, st) -> bat c pop = BPopBlock ->
  exists q, oreach c q /\ skip_ext c q = pop.
Proof.
  intros R B. destruct (breach_rinv c _ R) as [(q & Oq & Run) _]. simpl in Run.
  exists q. split; [exact Oq|]. rewrite (inrun_skip c q pop Run). apply skip_ext_noext. rewrite B. discriminate.
Qed.

(* no "unreachable" warning for a POP_BLOCK that some execution reaches *)
Theorem walk_never_gives_up_on_reachable c pop st fuel :
  breach c (pop, st) -> bat c pop = BPopBlock ->
  walk fuel c pop [(0, [])] [] <> WNotFound.
Proof.
  intros R B W. destruct (reachable_pop_in_walk_graph c pop st R B) as (q & Oq & SK).
  apply (walk_complete c pop fuel W q Oq). rewrite SK. split; [exact B|reflexivity].
Qed.

(* ------------------------------------------------------------------ the exit call is always resolved *)
Lemma scan_pop c lasti a pop : scan c lasti = ScPop a pop -> bat c pop = BPopBlock.
Proof.
  unfold scan. cbv zeta.
  repeat match goal with
         | |- context [match ?x with _ => _ end] => destruct x eqn:?
         end; try discriminate.
  all: intros H; injection H as <- <-.
  all: match goal with
       | H : is_pop_block ?i = true |- ?i = BPopBlock => destruct i; try discriminate; reflexivity
       end.
Qed.

(* For certified code: whenever the frame rests behind the POP_BLOCK of an inlined exit call that
   some execution reaches, the model of currently_exiting_context answers — no warning, no crash,
   no fuel exhaustion — and names the block that execution has just popped. *)
Theorem exit_call_resolved c ce lasti a pop st :
  check_bcert c ce = true ->
  scan c lasti = ScPop a pop ->
  breach c (pop, st) ->
  exists h, exiting310 c lasti = EExit a h /\ last_opt st = Some h.
Proof.
  intros Hc S R. pose proof (scan_pop c lasti a pop S) as B.
  unfold exiting310. rewrite S.
  destruct (walk (walk_fuel c) c pop [(0, [])] []) eqn:W.
  - exists h. split; [reflexivity|]. destruct (walk_sound c ce pop _ _ h Hc W) as (_ & _ & All). apply All. exact R.
  - exfalso. exact (walk_never_gives_up_on_reachable c pop st _ R B W).
  - exfalso. revert W. apply (walk_no_crash c ce pop Hc). intros it [H|[]]. subst it. constructor.
  - exfalso. revert W. apply walk_fuel_enough. rewrite unseen_nil. unfold walk_fuel. simpl. lia.
Qed.
