(* P_BlockStackC.v — completeness of the model of the block-stack walk (CPython 3.9/3.10): when
   the walk gives up ("POP_BLOCK ... doesn't appear reachable", an InspectionWarning), then no
   path of the walk's own control-flow graph leads from offset 0 to that POP_BLOCK. *)
Require Import Base M_BlockStack.

Definition osuccs (c : bcode) (p0 : nat) : list nat :=
  let p := skip_ext c p0 in
  let i := bat c p in
  jumps i ++ (if no_fall i then [] else [p + 1]).

Inductive oreach (c : bcode) : nat -> Prop :=
  | OR_start : oreach c 0
  | OR_step q q' : oreach c q -> In q' (osuccs c q) -> oreach c q'.

Definition target (c : bcode) (pop q : nat) : Prop :=
  bat c (skip_ext c q) = BPopBlock /\ skip_ext c q = pop.

Lemma bit_get_nil q : bit_get [] q = false.
Proof. destruct q; reflexivity. Qed.

Lemma bit_get_set : forall l p q, bit_get (bit_set l p) q = if q =? p then true else bit_get l q.
Proof.
  induction l as [|b l IH]; intros p q.
  - revert q. induction p as [|p IHp]; intros q; destruct q as [|q]; cbn [bit_set bit_get Nat.eqb]; auto.
    + rewrite IHp. rewrite ?bit_get_nil. reflexivity.
  - destruct p as [|p], q as [|q]; cbn [bit_set bit_get Nat.eqb]; auto.
Qed.

Definition seen_in (seen : list bool) (q : nat) : Prop := bit_get seen q = true.

Definition winv (c : bcode) (pop : nat) (todo : list (nat * list nat)) (seen : list bool) : Prop :=
  (seen_in seen 0 \/ In 0 (map fst todo)) /\
  forall q, seen_in seen q ->
    ~ target c pop q /\
    forall q', In q' (osuccs c q) -> seen_in seen q' \/ In q' (map fst todo).

Lemma map_fst_items (st : list nat) l : map fst (map (fun t : nat => (t, st)) l) = l.
Proof. induction l as [|x l IH]; simpl; congruence. Qed.

Lemma winv_step c pop p0 (st : list nat) rest seen (items : list (nat * list nat)) :
  winv c pop ((p0, st) :: rest) seen ->
  ~ target c pop p0 ->
  map fst items = osuccs c p0 ->
  winv c pop (rest ++ items) (bit_set seen p0).
Proof.
  intros [I0 I1] NT MI. unfold winv, seen_in in *. split.
  - rewrite bit_get_set, map_app. destruct I0 as [H|H]; [rewrite H; destruct (0 =? p0); auto|].
    simpl in H. destruct H as [H|H]; [subst p0; simpl; auto|]. right. apply in_or_app. auto.
  - intros q Hq. rewrite bit_get_set in Hq. destruct (q =? p0) eqn:E.
    + apply Nat.eqb_eq in E. subst q. split; [exact NT|].
      intros q' Hq'. right. rewrite map_app, MI. apply in_or_app. auto.
    + destruct (I1 q Hq) as [NTq Sq]. split; [exact NTq|].
      intros q' Hq'. rewrite bit_get_set. destruct (Sq q' Hq') as [H|H].
      * left. rewrite H. destruct (q' =? p0); reflexivity.
      * simpl in H. destruct H as [H|H].
        -- subst q'. left. rewrite Nat.eqb_refl. reflexivity.
        -- right. rewrite map_app. apply in_or_app. auto.
Qed.

Lemma winv_skip c pop p0 (st : list nat) rest seen :
  winv c pop ((p0, st) :: rest) seen -> seen_in seen p0 -> winv c pop rest seen.
Proof.
  intros [I0 I1] S. split.
  - destruct I0 as [H|H]; [auto|]. simpl in H. destruct H as [H|H]; [subst p0; auto|auto].
  - intros q Hq. destruct (I1 q Hq) as [NT Sq]. split; [exact NT|].
    intros q' Hq'. destruct (Sq q' Hq') as [H|H]; [auto|]. simpl in H. destruct H as [H|H]; [subst q'; auto|auto].
Qed.

Lemma walk_notfound c pop : forall fuel todo seen,
  winv c pop todo seen -> walk fuel c pop todo seen = WNotFound ->
  forall q, oreach c q -> ~ target c pop q.
Proof.
  induction fuel as [|f IH]; intros todo seen I W; simpl in W; [discriminate|].
  destruct todo as [|[p0 st] rest].
  - (* nothing left: the seen set is closed under successors and contains 0 *)
    destruct I as [I0 I1]. assert (All : forall q, oreach c q -> seen_in seen q).
    { intros q R. induction R as [|q q' R IHR Hin].
      - destruct I0 as [H|[]]. exact H.
      - destruct (I1 q IHR) as [_ Sq]. destruct (Sq q' Hin) as [H|[]]. exact H. }
    intros q R. apply (I1 q (All q R)).
  - destruct (bit_get seen p0) eqn:G; [eapply IH; [eapply winv_skip; eauto|exact W]|].
    destruct (length c <=? p0); [discriminate|].
    destruct (length c <=? skip_ext c p0); [discriminate|].
    destruct (is_pop_block (bat c (skip_ext c p0))) eqn:PB.
    + destruct (bat c (skip_ext c p0)) eqn:B; try discriminate. simpl in W.
      destruct (skip_ext c p0 =? pop) eqn:E; [destruct (last_opt st); discriminate|].
      destruct st as [|x st']; [discriminate|].
      eapply IH; [|exact W]. eapply winv_step; [exact I| |].
      * intros [_ T]. apply Nat.eqb_neq in E. contradiction.
      * unfold osuccs. rewrite B. simpl. reflexivity.
    + eapply IH; [|exact W]. eapply winv_step; [exact I| |].
      * intros [T _]. rewrite T in PB. discriminate.
      * unfold osuccs. rewrite map_app, map_fst_items. f_equal.
        destruct (no_fall (bat c (skip_ext c p0))); reflexivity.
Qed.

Theorem walk_complete c pop fuel :
  walk fuel c pop [(0, [])] [] = WNotFound ->
  forall q, oreach c q -> ~ (bat c (skip_ext c q) = BPopBlock /\ skip_ext c q = pop).
Proof.
  intros W. apply (walk_notfound c pop fuel [(0, [])] []); [|exact W].
  split; [right; left; reflexivity|]. intros q Hq. unfold seen_in in Hq. destruct q; discriminate.
Qed.

(* non-vacuity: dead code behind a raise (what the 3.9 compiler leaves after `raise E()` at the end
   of a with body): the POP_BLOCK at unit 2 is unreachable, the walk gives up, and the theorem's
   conclusion is the reason *)
Definition dead_code : bcode :=
  [BSetup WWith 8; BStop; BPopBlock; BLoadConst true; BDupTop; BDupTop; BCallFunction; BStop; BWithExceptStart; BStop].
Example dead_walk : walk (walk_fuel dead_code) dead_code 2 [(0, [])] [] = WNotFound.
Proof. vm_compute. reflexivity. Qed.
Example dead_exit : exiting310 dead_code 6 = EWarn.
Proof. vm_compute. reflexivity. Qed.
