(* M_Frames_Ambient.v — C16: the public entry points extract / extract_outermost over the
   thread-local option cell (stackscope._extract.current_options), on top of M_Frames.
   [cell] = None when no extraction is in progress on the thread, Some (with_contexts,
   recurse_child_tasks) while one is (a hook running inside it sees that value).  Both entry points
   push their OWN arguments for the duration of the call and restore the previous value afterwards
   (ExtractOptions.push, try/finally), whether or not an extraction is already in progress.
   M_Frames has no child-task stubs, so recurse_child_tasks is carried but not interpreted.
   Definitions only. *)
Require Import Base M_Frames.

Definition opts := (bool * bool)%type.

Definition set_wc (c : cfg) (w : bool) : cfg :=
  {| unwrap := unwrap c; elab := elab c; prehide := prehide c; attr := attr c; ctxs := ctxs c;
     fill := fill c; fault := fault c; with_ctx := w; grd := grd c; uguard := uguard c |}.

(* extract_iter reads the options from the cell (`assert current_options.with_contexts is not None`) *)
Definition iter_under (cell : option opts) (first : bool) (c : cfg) (root : item) : outcome :=
  match cell with
  | None => Raised (EFault 0)
  | Some (w, _) => fst (run default_fuel first (set_wc c w) (root_q c root) [] [] [] 0)
  end.

(* `with current_options.push(with_contexts=..., recurse_child_tasks=...)`: unconditional *)
Definition push (cell : option opts) (arg : opts) : option opts := Some arg.

Definition oresult_of (o : outcome) : oresult :=
  match o with
  | Ok (Stack (f :: _) _ _) => OFrame f
  | Ok (Stack [] _ es) => ORaise es
  | Raised e => OEscaped e
  | OutOfFuel => OFuel
  end.

(* result, and the cell as the caller finds it afterwards *)
Definition api_extract (cell : option opts) (arg : opts) (c : cfg) (root : item) : outcome * option opts :=
  (iter_under (push cell arg) false c root, cell).
Definition api_outermost (cell : option opts) (arg : opts) (c : cfg) (root : item) : oresult * option opts :=
  (oresult_of (iter_under (push cell arg) true c root), cell).

(* generated cases: extract_outermost(root, with_contexts = with_ctx c) called re-entrantly from a
   hook of an enclosing extract(..., with_contexts = amb) (amb = None: top-level call) *)
Definition acase := (option bool * cfg * item * oresult)%type.
Definition acase_ok (k : acase) : bool :=
  let '(amb, c, r, o) := k in
  oresult_eqb (fst (api_outermost (option_map (fun w => (w, false)) amb) (with_ctx c, false) c r)) o.
Definition amismatches (cases : list acase) : list nat := false_indices 0 (map acase_ok cases).
