(* P_Chain_Origin.v — C16 on whole suspended chains: corollaries of C03 (P_Chain.frames_eq_path)
   and of P_Frames_Origin, about M_Frames.extract / outermost on M_Chain.chain_cfg. *)
Require Import Base M_Frames M_Frames_Fault P_Frames_Fault P_Frames_Origin M_Chain P_Chain.

Lemma ref_path_owner : forall ch pos f p,
  In (f, p) (ref_path ch pos) ->
  pos <= p /\ exists k r next, node_at ch (p - pos) = Link k (Some f) r next.
Proof.
  induction ch as [| |k fr r next IH|t IH|a IH|a IH]; intros pos f p H; simpl in H; try contradiction.
  - destruct fr as [f0|]; [|contradiction]. destruct H as [E|H].
    + inversion E; subst. split; [lia|]. rewrite Nat.sub_diag. simpl. eauto.
    + apply IH in H. destruct H as [L (k' & r' & n' & E)]. split; [lia|].
      replace (p - pos) with (S (p - S pos)) by lia. simpl. eauto.
  - apply IH in H. destruct H as [L (k' & r' & n' & E)]. split; [lia|].
    replace (p - pos) with (S (p - S pos)) by lia. simpl. eauto.
  - apply IH in H. destruct H as [L (k' & r' & n' & E)]. split; [lia|].
    replace (p - pos) with (S (p - S pos)) by lia. simpl. eauto.
  - apply IH in H. destruct H as [L (k' & r' & n' & E)]. split; [lia|].
    replace (p - pos) with (S (p - S pos)) by lia. simpl. eauto.
Qed.

(* every frame of the extraction of a suspended chain has as origin the generator-like object it
   was found inside: the object at that position of the chain is a link whose own frame it is *)
Lemma chain_origins ch sl wc s fo :
  wf_susp ch = true -> is_nil ch = false -> 2 * chain_len ch + 2 <= default_fuel ->
  extract (chain_cfg ch sl wc all_guards 100) chain_root = Ok s -> In fo (s_frames s) ->
  exists o k r next, f_org fo = Some o /\ node_at ch o = Link k (Some (f_py fo)) r next.
Proof.
  intros W N F E Hin. rewrite (frames_eq_path ch sl wc W N F) in E. inversion E; subst s. clear E.
  unfold ref_stack in Hin. simpl in Hin. apply in_map_iff in Hin. destruct Hin as [[f p] [<- Hin]].
  apply ref_path_owner in Hin. destruct Hin as [_ (k & r & next & En)]. rewrite Nat.sub_0_r in En.
  exists p, k, r, next. split; [reflexivity|exact En].
Qed.

Lemma wf_susp_child ch : wf_susp ch = true -> wf_susp (child ch) = true.
Proof.
  destruct ch as [| |k [f|] r next|t|a|a]; simpl; intros H; try reflexivity;
    try (apply andb_true_iff in H; tauto).
  apply andb_true_iff in H. destruct H as [_ H]. destruct next; simpl in *; try discriminate; reflexivity.
Qed.

Lemma wf_susp_node ch : forall o, wf_susp ch = true -> wf_susp (node_at ch o) = true.
Proof.
  intros o. revert ch. induction o as [|o IH]; intros ch H; simpl; [assumption|].
  apply IH. apply wf_susp_child. assumption.
Qed.

Lemma wf_susp_not_running k f r next :
  wf_susp (Link k (Some f) r next) = true -> treated_running k r next = false.
Proof.
  simpl. intros H. apply andb_true_iff in H. destruct H as [H _].
  destruct k, r; simpl in *; try reflexivity; try discriminate.
  destruct (is_nil next); simpl in *; [discriminate|reflexivity].
Qed.

(* the built-in unwrap rules satisfy the hypothesis of C16_origin_recovers on suspended chains *)
Lemma chain_gen_wf ch sl wc g ug : wf_susp ch = true -> gen_wf (chain_cfg ch sl wc g ug).
Proof.
  intros W o f G O. simpl in *. pose proof (wf_susp_node ch o W) as Wn.
  destruct (node_at ch o) as [| |k fr r next|t|a|a] eqn:En; simpl in *; try discriminate.
  subst fr. split; [reflexivity|].
  rewrite (wf_susp_not_running k f r next Wn). simpl. eexists. reflexivity.
Qed.

(* ... so extract_outermost(origin) gives back exactly that frame, for every frame of the chain *)
Lemma chain_origin_recovers ch sl wc s fo :
  wf_susp ch = true -> is_nil ch = false -> 2 * chain_len ch + 2 <= default_fuel ->
  extract (chain_cfg ch sl wc all_guards 100) chain_root = Ok s -> In fo (s_frames s) ->
  exists o, f_org fo = Some o /\
    match outermost (chain_cfg ch sl wc all_guards 100) (IObj o) with
    | OFrame fo' => f_py fo' = f_py fo /\ f_org fo' = Some o
    | ORaise _ => False
    | _ => True
    end.
Proof.
  intros W N F E Hin.
  destruct (chain_origins ch sl wc s fo W N F E Hin) as (o & k & r & next & Ho & _).
  exists o. split; [assumption|].
  apply (origin_recovers (chain_cfg ch sl wc all_guards 100) chain_root s fo o (fun _ => false));
    try assumption; try reflexivity.
  - apply chain_gen_wf. assumption.
  - simpl. lia.
Qed.
