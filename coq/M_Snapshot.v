(* M_Snapshot.v — executable model of the snapshot/retry protocol of
   stackscope/_lowlevel_cpython_311.py : inspect_frame  (C07, racing part).
   Definitions only; proofs are in P_Snapshot.v.

   The inspector (the thread that calls inspect_frame) runs against an adversarial
   environment: the *target* thread, which owns the frame being inspected.  Whenever the
   inspector reaches a point where CPython may switch threads, the environment may move the
   target: keep it where it is, put it into any other state of the same frame (new f_lasti,
   new value stack), or let the frame return (the _PyInterpreterFrame is then copied into
   the frame object, the memory on the thread's data stack is released; a returned frame
   never runs again).

   Switch points of one attempt (= one iteration of `for _ in range(10)`), named after
   what precedes them in the source:
     P1   after `lasti_before = frame.f_lasti`   (checkpoint "snap:lasti"; the calls into
          _parse_exception_table are switch points)
     P1b  after `iframe_raw = frame_raw.f_frame.contents`, before the stacktop/owner reads
          (used to be: the `id(...)` calls of the four header asserts; they were moved in front
          of the capture by /repo commit 62506a3, finding F15 -- a frame that returned there left
          the header reads with a dangling pointer: SIGSEGV.  The flag hdr_atomic of the
          configuration, from SrcFacts, says that this switch point no longer exists)
     --   stacktop read, owner read, `assert frame.f_lasti == lasti_before`: ONE micro-step
          (no call in between since /repo commit 98ca0a6, finding F13; the flag chk_hdr of
          the configuration says whether that assert is there, from SrcFacts)
     P2   after that, before the second `assert frame.f_lasti == lasti_before`
          (the ctypes.addressof / from_address calls)
     P3 i before the re-check that precedes the read of slot i  (checkpoint "snap:slot";
          back-edge of the `for i in range(stack_len)` loop)
     P4   before the final re-check
     P5   after a rejected attempt (checkpoint "snap:retry"; back-edge of the retry loop)
     P6   after the ACCEPTED attempt (checkpoint "snap:ok"), before the walk over the exception
          table that computes FrameDetails.blocks (`list(_parse_exception_table(co))` is a call)
   MODELLED ASSUMPTION (not provable here, see facts_c07.py for its syntactic part): the
   pair  `assert frame.f_lasti == lasti_before` ; `obj = stack_ptr[i]`  contains no switch
   point, i.e. the world in which slot i is read is the world in which the re-check passed. *)
Require Import Base.

Definition obj := nat.
(* what a read outside the valid part of the value stack (or through a dangling pointer)
   yields in the model: a distinguished token.  In reality: a stale PyObject*. *)
Definition STALE : obj := 0.

(* visible state of the target frame while it is on its thread *)
Record tstate := mkT {
  lasti : nat;            (* frame.f_lasti *)
  top   : option nat;     (* iframe.stacktop relative to the stack base; None = -1 (executing) *)
  slots : list obj        (* the VALID part of the value stack, bottom first *)
}.

Inductive loc := OnThread | InFrameObj.
Record world := mkW { cur : tstate; whr : loc }.

Inductive move := Stay | Goto (s : tstate) | Ret.

Inductive point := P1 | P1b | P2 | P3 (i : nat) | P4 | P5 | P6.

(* static data of the code object + constants of the routine *)
Record cfg := mkC {
  tbl       : list (nat * nat * nat);   (* exception table: start, end (inclusive), depth *)
  stacksize : nat;                      (* co_stacksize *)
  retries   : nat;                      (* range(10) *)
  ret_lasti : nat;                      (* f_lasti of the completed frame (its RETURN) *)
  chk_hdr   : bool;   (* SrcFacts.snapshot_header_check_adjacent: the stacktop/owner reads are
                         followed by `assert frame.f_lasti == lasti_before` with no call between *)
  chk_slot  : bool;   (* SrcFacts.snapshot_slot_check_adjacent: that assert immediately precedes
                         every `stack_ptr[i]` read *)
  hdr_atomic : bool;  (* SrcFacts.snapshot_capture_to_check_no_call: no call (switch point) between
                         the capture of the InterpreterFrame pointer and that first re-check, i.e.
                         switch point P1b does not exist (since /repo commit 62506a3, finding F15) *)
  tgts : list nat;    (* handler targets of the exception-table entries, parallel to tbl *)
  blk_from_accepted : bool
                      (* SrcFacts.snapshot_blocks_from_accepted: the block walk starts from the variable
                         assigned from lasti_before in the accepted attempt, not from a fresh f_lasti *)
}.

Definition done_state (c : cfg) : tstate := mkT (ret_lasti c) (Some 0) [].

(* a completed frame never changes again *)
Definition apply (c : cfg) (m : move) (w : world) : world :=
  match whr w with
  | InFrameObj => w
  | OnThread =>
      match m with
      | Stay => w
      | Goto s => mkW s OnThread
      | Ret => mkW (done_state c) InFrameObj
      end
  end.

(* `for start, end, _, depth, _ in table: if start <= lasti <= end: ... break  else: 0` *)
Fixpoint handler_depth (t : list (nat * nat * nat)) (l : nat) : nat :=
  match t with
  | [] => 0
  | (s, e, d) :: r => if (s <=? l) && (l <=? e) then d else handler_depth r l
  end.

(* the pointer captured by `frame_raw.f_frame.contents` dangles iff it was taken while the
   iframe lived on the thread's data stack and the frame has returned since *)
Definition is_stale (ptr : loc) (w : world) : bool :=
  match ptr, whr w with OnThread, InFrameObj => true | _, _ => false end.

Definition loc_fo (l : loc) : bool := match l with InFrameObj => true | OnThread => false end.

(* result of the header reads (asserts on f_globals/f_builtins/f_code/frame_obj, stacktop,
   owner).  Through a dangling pointer they yield garbage chosen by the environment. *)
Inductive hdr := HFail | HVals (tp : option nat) (fo : bool).

(* ghost state *)
Record rd := mkRd {
  r_idx : nat;         (* slot index read *)
  r_live : bool;       (* the pointer used was not dangling at that instant *)
  r_slots : list obj;  (* the valid slots of the target at that instant *)
  r_now : nat;         (* f_lasti at that instant *)
  r_before : nat;      (* lasti_before of the attempt *)
  r_val : obj          (* what the read returned *)
}.
Record ghost := mkG {
  held : list obj;     (* details.stack *)
  incs : nat;          (* references taken  (one per py_object read) *)
  decs : nat;          (* references dropped (a list that is dropped releases len refs) *)
  reads : list rd;
  nretry : nat;
  stale_hdr : nat      (* header reads (f_globals ... stacktop, owner) made through a dangling pointer *)
}.
Definition g0 : ghost := mkG [] 0 0 [] 0 0.
Definition drop_held (g : ghost) : ghost :=
  mkG [] (incs g) (decs g + length (held g)) (reads g) (nretry g) (stale_hdr g).
Definition push_read (g : ghost) (r : rd) : ghost :=
  mkG (held g ++ [r_val r]) (S (incs g)) (decs g) (reads g ++ [r]) (nretry g) (stale_hdr g).
Definition bump_retry (g : ghost) : ghost :=
  mkG (held g) (incs g) (decs g) (reads g) (S (nretry g)) (stale_hdr g).
Definition note_hdr (stale : bool) (g : ghost) : ghost :=
  mkG (held g) (incs g) (decs g) (reads g) (nretry g) (if stale then S (stale_hdr g) else stale_hdr g).

Definition env_t := nat -> point -> move.     (* attempt number -> switch point -> move *)
Definition garb_t := nat -> hdr.

Inductive outcome := OOk (L : nat) (stack : list obj) | OAssert | ORuntime.

Section Run.
  Variable c : cfg.
  Variable env : env_t.
  Variable garb : garb_t.

  (* `for i in range(stack_len): <P3 i> assert f_lasti == lasti_before; obj = stack_ptr[i];
      details.stack.append(obj)` *)
  Fixpoint slot_loop (a L : nat) (ptr : loc) (idxs : list nat) (w : world) (g : ghost)
    : bool * world * ghost :=
    match idxs with
    | [] => (true, w, g)
    | i :: r =>
        let w1 := apply c (env a (P3 i)) w in
        if negb (chk_slot c) || (lasti (cur w1) =? L) then
          let live := negb (is_stale ptr w1) in
          let sl := slots (cur w1) in
          let v := if live && (i <? length sl) then nth i sl STALE else STALE in
          slot_loop a L ptr r w1 (push_read g (mkRd i live sl (lasti (cur w1)) L v))
        else (false, w1, g)
    end.

  (* one attempt; returns (accepted?, world at the end, ghost, lasti_before) *)
  Definition attempt (a : nat) (w : world) (g : ghost) : bool * world * ghost * nat :=
    let L := lasti (cur w) in
    let w1 := apply c (env a P1) w in
    let hdep := handler_depth (tbl c) L in
    let ptr := whr w1 in
    let w2 := if hdr_atomic c then w1 else apply c (env a P1b) w1 in
    let h := if is_stale ptr w2 then garb a else HVals (top (cur w2)) (loc_fo (whr w2)) in
    let g := note_hdr (is_stale ptr w2) g in
    match h with
    | HFail => (false, w2, g, L)
    | HVals tp fo =>
        if chk_hdr c && negb (lasti (cur w2) =? L) then (false, w2, g, L) else
        match (match tp with
               | None => Some hdep
               | Some n => if n <=? stacksize c then Some n else None
               end) with
        | None => (false, w2, g, L)
        | Some len =>
            let w3 := apply c (env a P2) w2 in
            if negb (lasti (cur w3) =? L) then (false, w3, g, L) else
            let g1 := drop_held g in
            let '(ok, w4, g4) :=
              if fo then (true, w3, g1) else slot_loop a L ptr (seq 0 len) w3 g1 in
            if negb ok then (false, w4, g4, L) else
            let w5 := apply c (env a P4) w4 in
            if lasti (cur w5) =? L then (true, w5, g4, L) else (false, w5, g4, L)
        end
    end.

  (* n attempts left, a = number of the next attempt *)
  Fixpoint run_n (n a : nat) (w : world) (g : ghost) : outcome * ghost * world :=
    match n with
    | 0 => (ORuntime, drop_held g, w)
    | S n' =>
        let '(ok, w', g', L) := attempt a w g in
        if ok then (OOk L (held g'), g', w')
        else if lasti (cur w') =? L then (OAssert, drop_held g', w')   (* `raise` *)
        else run_n n' (S a) (apply c (env a P5) w') (bump_retry g')
    end.

  Definition run (w : world) : outcome * ghost * world := run_n (retries c) 0 w g0.
End Run.

(* ------------------------------------------------------------------ FrameDetails.blocks *)
(* `idx = bisect_left(handlers, (current + 1, 0)); entry = handlers[idx - 1]`: the table is sorted
   by start, so this is the last entry of the prefix of entries with start <= current *)
Fixpoint last_le (t : list (nat * nat * nat * nat)) (cur : nat) (acc : option (nat * nat * nat * nat))
  : option (nat * nat * nat * nat) :=
  match t with
  | [] => acc
  | (s, e, tg, d) :: r => if s <=? cur then last_le r cur (Some (s, e, tg, d)) else acc
  end.

(* inside-out list of (handler, level); fuel = number of entries + 1 *)
Fixpoint block_walk (fuel : nat) (t : list (nat * nat * nat * nat)) (cur : nat) : list (nat * nat) :=
  match fuel with
  | 0 => []
  | S f =>
      match last_le t cur None with
      | Some (s, e, tg, d) => if cur <=? e then (tg, d) :: block_walk f t tg else []
      | None => []
      end
  end.

Definition xtbl (c : cfg) : list (nat * nat * nat * nat) :=
  map (fun p : (nat * nat * nat) * nat => let '((s, e, d), tg) := p in (s, e, tg, d)) (combine (tbl c) (tgts c)).

Definition blocks_at (c : cfg) (pos : nat) : list (nat * nat) :=
  rev (block_walk (S (length (xtbl c))) (xtbl c) pos).

(* the whole routine: snapshot, then (switch point P6) the block walk.  The result carries the
   position the blocks were computed from. *)
Definition inspect (c : cfg) (env : env_t) (garb : garb_t) (w : world)
  : outcome * ghost * world * (nat * list (nat * nat)) :=
  let '(o, g, w') := run c env garb w in
  match o with
  | OOk L st =>
      let w6 := apply c (env (nretry g) P6) w' in
      let bp := if blk_from_accepted c then L else lasti (cur w6) in
      (o, g, w6, (bp, blocks_at c bp))
  | _ => (o, g, w', (0, []))
  end.

(* ------------------------------------------------------------------ correspondence *)
Definition point_eqb (p q : point) : bool :=
  match p, q with
  | P1, P1 | P1b, P1b | P2, P2 | P4, P4 | P5, P5 | P6, P6 => true
  | P3 i, P3 j => i =? j
  | _, _ => false
  end.

Fixpoint env_of (l : list (nat * point * move)) : env_t :=
  fun a p =>
    match l with
    | [] => Stay
    | (a', p', m) :: r => if (a =? a') && point_eqb p p' then m else env_of r a p
    end.

Definition no_garbage : garb_t := fun _ => HFail.

(* observed result of the real inspect_frame: class (0 = snapshot returned, 1 = AssertionError,
   2 = RuntimeError), lasti reported by the "snap:ok" checkpoint, tokens of details.stack,
   number of "snap:retry" checkpoints passed *)
Record sobs := mkO { o_class : nat; o_lasti : nat; o_stack : list obj; o_retries : nat;
                     o_blocks : list (nat * nat) (* FrameDetails.blocks: (handler, level), outermost first *) }.

Definition scase := (cfg * world * list (nat * point * move) * sobs)%type.

Definition model_obs (c : cfg) (w : world) (sch : list (nat * point * move)) : sobs :=
  let '(o, g, _, (_, bl)) := inspect c (env_of sch) no_garbage w in
  match o with
  | OOk L st => mkO 0 L st (nretry g) bl
  | OAssert => mkO 1 0 [] (nretry g) []
  | ORuntime => mkO 2 0 [] (nretry g) []
  end.

Definition sobs_eqb (x y : sobs) : bool :=
  (o_class x =? o_class y) && (o_lasti x =? o_lasti y)
  && list_eqb Nat.eqb (o_stack x) (o_stack y) && (o_retries x =? o_retries y)
  && list_eqb (pair_eqb Nat.eqb Nat.eqb) (o_blocks x) (o_blocks y).

Definition scase_ok (k : scase) : bool :=
  let '(c, w, sch, o) := k in sobs_eqb (model_obs c w sch) o.

Definition mismatches (cases : list scase) : list nat := false_indices 0 (map scase_ok cases).

(* non-trivial: the schedule makes the target move at least once during the run
   (a retry happened, or some read saw a world different from the initial one) *)
Definition scase_nontrivial (k : scase) : bool :=
  let '(c, w, sch, _) := k in
  let '(o, g, w', _) := inspect c (env_of sch) no_garbage w in
  negb (nretry g =? 0) || negb (lasti (cur w') =? lasti (cur w))
  || match o with OOk _ st => negb (length st =? 0) | _ => true end.

Definition count_nontrivial (cases : list scase) : nat := count_true (map scase_nontrivial cases).
