(* C16 — Frame.origin and extract_outermost keep their documented contracts.
   Property theorems only (proved in P_Frames_Origin.v) about the model functions of M_Frames.v
   that the generated case files evaluate ([extract], [outermost], [flatten], [better_origin]). *)
Require Import Base M_Frames M_Frames_Fault P_Frames_Fault M_Frames_Ambient P_Frames_Origin M_Chain P_Chain P_Chain_Origin.

(* a suspended chain g0 -> g1 (generator-like objects 0 and 1 with own frames 0 and 1), a plain
   wrapper object 2 around it, an object 3 without frames, an object 4 whose unwrap raises *)
Definition ex16 : cfg :=
  mkcfg [(0, USeq [Some (IPy 0); Some (IObj 1)]); (1, USeq [Some (IPy 1); None]);
         (2, UOne (IObj 0)); (3, UNone); (4, URaise)]
        [(0, (ENone, false)); (1, (ENone, true))]
        [(0, Build_oattr true true (Some 0)); (1, Build_oattr true true (Some 1));
         (2, Build_oattr true false None); (3, Build_oattr false false None)]
        [(0, CtxOk [7])] [] [] true all_guards 100.

(* extract_outermost x is the first frame of extract x (same frame, hide flag, origin, contexts
   and child stacks); it raises iff extract x has no frames, with the errors recorded *)
Theorem C16_outermost_eq_head : forall c root s,
  extract c root = Ok s ->
  outermost c root = match s_frames s with f :: _ => OFrame f | [] => ORaise (s_errs s) end.
Proof. exact outermost_eq_head. Qed.
Print Assumptions C16_outermost_eq_head.

Example C16_outermost_eq_head_ex :
  extract ex16 (IObj 2) = Ok (Stack [FOut 0 false (Some 0) [COut 7 []]; FOut 1 true (Some 1) []] LNone []) /\
  outermost ex16 (IObj 2) = OFrame (FOut 0 false (Some 0) [COut 7 []]) /\
  outermost ex16 (IObj 3) = ORaise [] /\ outermost ex16 (IObj 4) = ORaise [EUnwrap 4].
Proof. vm_compute. repeat split; reflexivity. Qed.

(* a non-None origin is a generator-like object whose own frame is exactly that frame *)
Theorem C16_origin_is_own_generator : forall c root s fo o,
  extract c root = Ok s -> In fo (s_frames s) -> f_org fo = Some o ->
  gent (attr c o) = true /\ ownf (attr c o) = Some (f_py fo).
Proof. exact extract_origin_ok. Qed.
Print Assumptions C16_origin_is_own_generator.

(* every yielded frame with origin Some o is what extract_outermost o returns (same frame, same
   origin), whatever else the tables do, provided generator-like objects unwrap to their own frame
   first (the built-in glue) and the second call's first hook invocation is not made to fail;
   OFuel / OEscaped (a cyclic table, an unguarded call site) are the only other outcomes *)
Theorem C16_origin_recovers : forall c root s fo o fl,
  gen_wf c -> 1 <= uguard c -> fl 0 = false ->
  extract c root = Ok s -> In fo (s_frames s) -> f_org fo = Some o ->
  match outermost (with_faults c fl) (IObj o) with
  | OFrame fo' => f_py fo' = f_py fo /\ f_org fo' = Some o
  | ORaise _ => False
  | _ => True
  end.
Proof. exact origin_recovers. Qed.
Print Assumptions C16_origin_recovers.

Example C16_origin_recovers_ex :
  gen_wf ex16 /\ 1 <= uguard ex16 /\
  (exists s, extract ex16 (IObj 2) = Ok s /\ In (FOut 1 true (Some 1) []) (s_frames s)) /\
  outermost (with_faults ex16 (fun _ => false)) (IObj 1) = OFrame (FOut 1 true (Some 1) []).
Proof.
  split; [|split; [|split]].
  - intros o f G O. destruct o as [|[|[|[|[|o]]]]]; simpl in *; try discriminate;
      inversion O; subst; (split; [reflexivity|eexists; reflexivity]).
  - vm_compute. lia.
  - eexists. split; [vm_compute; reflexivity|]. simpl. auto.
  - vm_compute. reflexivity.
Qed.

(* looking inside a suspended coroutine / generator / async generator: whatever origin was queued
   for it, the object itself becomes the origin, and its own frame is queued for elaboration with
   that object as origin while what it awaits is unwrapped next (with the object as fallback
   origin) *)
Theorem C16_suspended_chain_origin : forall fuel cnt c o f rest d tu te errs t fb,
  wref (attr c o) = true -> gent (attr c o) = true -> ownf (attr c o) = Some f ->
  unwrap c o = USeq (Some (IPy f) :: rest) ->
  fault c t = false -> (uguard c <? S cnt) = false ->
  better_origin c (QObj o) fb = Some o /\
  flatten (S (S fuel)) cnt c ((Some o, QObj o, d) :: tu) te errs t =
  flatten fuel 0 c (map (fun i => (better_origin c (q_of i) (Some o), q_of i, S d)) (somes rest) ++ tu)
          ((QFr f (Some o), S d) :: te) errs (S t).
Proof. exact look_inside_origin. Qed.
Print Assumptions C16_suspended_chain_origin.

Example C16_suspended_chain_origin_ex :
  wref (attr ex16 0) = true /\ gent (attr ex16 0) = true /\ ownf (attr ex16 0) = Some 0 /\
  unwrap ex16 0 = USeq [Some (IPy 0); Some (IObj 1)] /\ fault ex16 5 = false /\ (uguard ex16 <? 1) = false.
Proof. vm_compute. repeat split; reflexivity. Qed.

(* whole chains (M_Chain, the C03 model: the built-in unwrap rules compiled into an M_Frames.cfg):
   every frame of the extraction of a well-formed suspended await / yield-from chain has as origin
   the generator-like object it was found inside -- the object at that position of the chain is
   a coroutine / generator / async generator link whose own frame is that frame *)
Theorem C16_chain_origins : forall ch sl wc s fo,
  wf_susp ch = true -> is_nil ch = false -> 2 * chain_len ch + 2 <= default_fuel ->
  extract (chain_cfg ch sl wc all_guards 100) chain_root = Ok s -> In fo (s_frames s) ->
  exists o k r next, f_org fo = Some o /\ node_at ch o = Link k (Some (f_py fo)) r next.
Proof. exact chain_origins. Qed.
Print Assumptions C16_chain_origins.

(* ... and extract_outermost(origin) returns that very frame with that origin, for every frame of
   the chain; the hypothesis gen_wf of C16_origin_recovers is discharged for the built-in rules *)
Theorem C16_chain_origin_recovers : forall ch sl wc s fo,
  wf_susp ch = true -> is_nil ch = false -> 2 * chain_len ch + 2 <= default_fuel ->
  extract (chain_cfg ch sl wc all_guards 100) chain_root = Ok s -> In fo (s_frames s) ->
  exists o, f_org fo = Some o /\
    match outermost (chain_cfg ch sl wc all_guards 100) (IObj o) with
    | OFrame fo' => f_py fo' = f_py fo /\ f_org fo' = Some o
    | ORaise _ => False
    | _ => True
    end.
Proof. exact chain_origin_recovers. Qed.
Print Assumptions C16_chain_origin_recovers.

Theorem C16_builtin_rules_gen_wf : forall ch sl wc g ug, wf_susp ch = true -> gen_wf (chain_cfg ch sl wc g ug).
Proof. exact chain_gen_wf. Qed.
Print Assumptions C16_builtin_rules_gen_wf.

Definition ex_chain : chain :=
  Link KCoro (Some 0) false (CoroWrapper (Link KCoro (Some 1) false (ASend (Link KAGen (Some 2) true (Link KGen (Some 3) false Leaf))))).
Example C16_chain_ex :
  wf_susp ex_chain = true /\ is_nil ex_chain = false /\
  extract (chain_cfg ex_chain (fun _ => []) true all_guards 100) chain_root =
    Ok (Stack [FOut 0 false (Some 0) []; FOut 1 false (Some 2) []; FOut 2 false (Some 4) []; FOut 3 false (Some 5) []]
              (LOne (QObj 6)) []) /\
  outermost (chain_cfg ex_chain (fun _ => []) true all_guards 100) (IObj 4) = OFrame (FOut 2 false (Some 4) []).
Proof. vm_compute. repeat split; reflexivity. Qed.

(* every ambient option state (M_Frames_Ambient: the thread-local cell is None, or Some options of
   an extraction in progress around the call, e.g. when called from a customization hook):
   extract_outermost(x, **arg) is the first frame of extract(x, **arg) made in the same state,
   both restore the cell, and the result does not depend on the ambient state at all *)
Theorem C16_outermost_eq_head_any_ambient : forall cell arg c root s,
  fst (api_extract cell arg c root) = Ok s ->
  fst (api_outermost cell arg c root) = match s_frames s with f :: _ => OFrame f | [] => ORaise (s_errs s) end
  /\ snd (api_outermost cell arg c root) = cell /\ snd (api_extract cell arg c root) = cell
  /\ fst (api_outermost cell arg c root) = fst (api_outermost None arg c root).
Proof. exact api_outermost_eq_head. Qed.
Print Assumptions C16_outermost_eq_head_any_ambient.

Theorem C16_entry_points_use_own_arguments : forall cell arg c root,
  api_extract cell arg c root = (extract (set_wc c (fst arg)) root, cell) /\
  api_outermost cell arg c root = (outermost (set_wc c (fst arg)) root, cell).
Proof. exact api_ambient_independent. Qed.
Print Assumptions C16_entry_points_use_own_arguments.

Example C16_any_ambient_ex :
  fst (api_outermost (Some (false, false)) (true, false) ex16 (IObj 2)) = OFrame (FOut 0 false (Some 0) [COut 7 []]) /\
  fst (api_outermost (Some (true, true)) (false, false) ex16 (IObj 2)) = OFrame (FOut 0 false (Some 0) []) /\
  fst (api_extract (Some (false, false)) (true, false) ex16 (IObj 2)) =
    Ok (Stack [FOut 0 false (Some 0) [COut 7 []]; FOut 1 true (Some 1) []] LNone []).
Proof. vm_compute. repeat split; reflexivity. Qed.
