(* C05 — extract never raises: faults contained and reported, outer frames kept.
   Property theorems only (proved in P_Frames_Fault.v) about the model functions of M_Frames.v
   that the generated case files evaluate ([extract], [outermost], [run], [flatten], [ctx_step]),
   under the guard record [src_guards] regenerated from the source of extract_iter. *)
Require Import Base M_Frames M_Frames_Fault P_Frames_Fault P_Frames_TwoRun.
From SS.gen Require Import SrcFacts.

(* a configuration exercising every call site: sequence and iterator unwraps, an inserting
   elaborate_frame, a raising contexts step, a raising fill_context, a nested child extraction *)
Definition ex_cfg (fl : list nat) : cfg :=
  mkcfg [(0, USeq [Some (IPy 0); Some (IObj 1); Some (IPy 3)]); (1, UIter [IPy 1; IPy 2] false)]
        [(0, (ENone, true)); (1, (ESeq [RItem (IPy 4); RNext], true)); (2, (ENone, false))] []
        [(0, CtxOk [0]); (1, CtxOk [1]); (2, CtxRaise)] [(0, FillOk [IObj 1]); (1, FillRaise)]
        fl true src_guards 100.

(* every hook call site of extract_iter is inside try/except Exception -> save_errors.append
   (facts re-extracted from the source on every run); if one `try` disappears this fails *)
Theorem C05_guards_regenerated : src_guards = all_guards.
Proof. exact src_guards_all. Qed.
Print Assumptions C05_guards_regenerated.

(* for all hook tables, all fault sets (any number of simultaneous faults), all roots: no
   exception escapes extract / extract_outermost's iterator; holds for every fuel, i.e. the
   model never answers Raised (OutOfFuel is a distinct value) *)
Theorem C05_total : forall c root e, grd c = src_guards -> extract c root <> Raised e.
Proof. exact extract_total. Qed.
Print Assumptions C05_total.

Theorem C05_total_any_state : forall fuel first c tu te errs out t e,
  grd c = all_guards -> fst (run fuel first c tu te errs out t) <> Raised e.
Proof. exact run_total. Qed.
Print Assumptions C05_total_any_state.

Theorem C05_total_outermost : forall c root e, grd c = src_guards -> outermost c root <> OEscaped e.
Proof. exact outermost_total. Qed.
Print Assumptions C05_total_outermost.

Example C05_total_ex :
  grd (ex_cfg [3; 9; 12]) = src_guards /\
  extract (ex_cfg [3; 9; 12]) (IObj 0) =
  Ok (Stack [FOut 0 true None [COut 0 [Stack [FOut 1 false None [COut 1 []]] LNone [EFault 9; EFill 1; EFault 12]]];
             FOut 1 true None [COut 1 []]; FOut 4 true None []; FOut 3 true None []] LNone [EFault 3; EFill 1]).
Proof. split; vm_compute; reflexivity. Qed.

(* the fault ticks reported anywhere in the result tree (own error list of the Stack and of every
   nested child Stack) are exactly the faults that fired: tick k is reported iff the k-th hook
   invocation happened (k < final tick) and was one that raises.  Nothing is swallowed,
   nothing is invented. *)
Theorem C05_errors_exact : forall c root s,
  grd c = src_guards -> extract c root = Ok s ->
  exists t', extract_t c root 0 = (Ok s, t') /\
             forall k, In k (tree_faults s) <-> (k < t' /\ fault c k = true).
Proof. exact extract_errors_exact. Qed.
Print Assumptions C05_errors_exact.

(* the same for every (nested) run from any state: the tree grows by exactly the faults fired
   in [t, t'); a nested extract_child is such a run started with empty error and frame lists,
   so a fault fired during it is reported inside its own Stack *)
Theorem C05_errors_exact_any_state : forall fuel first c tu te errs out t s t',
  grd c = all_guards -> run fuel first c tu te errs out t = (Ok s, t') ->
  t <= t' /\ forall x, In x (tree_faults s) <-> (In x (efaults errs ++ fouts_faults out) \/ Fk c t t' x).
Proof. exact run_acct. Qed.
Print Assumptions C05_errors_exact_any_state.

Example C05_errors_exact_ex :
  exists s, extract_t (ex_cfg [3; 9; 12; 40]) (IObj 0) 0 = (Ok s, 21) /\ tree_faults s = [3; 9; 12].
Proof. eexists. split; vm_compute; reflexivity. Qed.

(* within one Stack the reported fault ticks are in firing order: read from the last error to the
   first they strictly decrease and all lie below the final tick (so no fault is reported twice) *)
Theorem C05_errors_in_order : forall c root frs lf es,
  grd c = src_guards -> extract c root = Ok (Stack frs lf es) ->
  exists t', snd (extract_t c root 0) = t' /\ desc_below t' (rev (efaults es)).
Proof. exact extract_errors_ordered. Qed.
Print Assumptions C05_errors_in_order.

Theorem C05_errors_in_order_any_state : forall fuel first c tu te errs out t o t',
  grd c = all_guards -> run fuel first c tu te errs out t = (o, t') ->
  t <= t' /\ forall frs lf es, o = Ok (Stack frs lf es) -> ord errs t -> desc_below t' (rev (efaults es)).
Proof. exact run_ord. Qed.
Print Assumptions C05_errors_in_order_any_state.

Example C05_errors_in_order_ex :
  exists frs lf es, extract (ex_cfg [3; 5; 12; 16]) (IObj 0) = Ok (Stack frs lf es) /\ efaults es = [3; 5; 12].
Proof. do 3 eexists. split; vm_compute; reflexivity. Qed.

(* LOCATION.  Every child Stack k below the frames of the result (context children built by
   extract_child) is the result of a nested run started with empty frame and error lists at some
   tick a and finished at tick b; k's tree reports exactly the faults fired in [a,b), and the
   error list of the Stack around it contains no tick of [a,b): a fault fired while a nested
   extraction was running is recorded on that nested Stack (or, recursively -- k is itself a run,
   so the theorem applies to it -- on a Stack nested inside it), never on the outer one. *)
Theorem C05_error_location : forall c root frs lf es,
  grd c = src_guards -> extract c root = Ok (Stack frs lf es) -> located c frs es.
Proof. exact extract_error_location. Qed.
Print Assumptions C05_error_location.

Theorem C05_error_location_any_state : forall fuel first c tu te errs out t frs lf es t' P,
  grd c = all_guards ->
  run fuel first c tu te errs out t = (Ok (Stack frs lf es), t') ->
  QL c P errs t -> (forall k, In k (fouts_kids out) -> P k) ->
  located c frs es.
Proof. exact run_located. Qed.
Print Assumptions C05_error_location_any_state.


Example C05_error_location_ex :
  exists frs lf es k, extract (ex_cfg [3; 9; 12]) (IObj 0) = Ok (Stack frs lf es) /\
    In k (fouts_kids frs) /\ efaults (s_errs k) = [9; 12] /\ efaults es = [3] /\
    run 3999 false (ex_cfg [3; 9; 12]) (root_q (ex_cfg [3; 9; 12]) (IObj 1)) [] [] [] 6 = (Ok k, 13).
Proof. do 4 eexists. split; [vm_compute; reflexivity|]. split; [left; reflexivity|]. vm_compute. repeat split; reflexivity. Qed.

(* SHAPE.  Stack.error as extract_child builds it from the saved errors ([error_of]: none -> None,
   exactly one -> the exception itself, two or more -> an ExceptionGroup of all of them in order)
   loses nothing: the list the harness reads back ([errs_of]) is the model's error list, a single
   error is never wrapped and a group never has fewer than two members. *)
Theorem C05_error_shape : forall l,
  errs_of (error_of l) = l /\
  (error_of l = ENoError <-> l = []) /\
  (forall e, error_of l = ESingle e <-> l = [e]) /\
  (forall g, error_of l = EGroup g <-> (g = l /\ 2 <= length l)).
Proof. exact error_shape. Qed.
Print Assumptions C05_error_shape.

(* frames already yielded and errors already recorded are never dropped, reordered or altered by
   anything that happens later in the traversal (any hook results, any faults, any guards):
   they are a prefix of the final frames / errors *)
Theorem C05_prefix_kept : forall fuel first c tu te errs out t frs lf es t',
  run fuel first c tu te errs out t = (Ok (Stack frs lf es), t') ->
  (exists nf, frs = rev out ++ nf) /\ (exists ne, es = rev errs ++ ne).
Proof. exact run_keeps. Qed.
Print Assumptions C05_prefix_kept.
(* TWO-RUN FORM.  [runT] is [run] that additionally stamps every yielded frame with the tick at
   which it was yielded; forgetting the stamps gives M_Frames.run itself. *)
Theorem C05_instrumented_is_run : forall fuel first c tu te errs outp t,
  fst (runT fuel first c tu te errs outp t) = run fuel first c tu te errs (map fst outp) t.
Proof. exact runT_erase. Qed.
Print Assumptions C05_instrumented_is_run.

(* the same tables under two fault sets that agree on every tick below T yield exactly the same
   frames (same frame, flags, origin, contexts, child stacks), in the same order and at the same
   ticks, up to tick T -- from any state, for all tables *)
Theorem C05_prefix_two_run : forall fuel first c fl T tu te errs outp t s1 t1 ps1 s2 t2 ps2,
  grd c = all_guards -> (forall x, x < T -> fl x = fault c x) ->
  runT fuel first c tu te errs outp t = (Ok s1, t1, ps1) ->
  runT fuel first (with_faults c fl) tu te errs outp t = (Ok s2, t2, ps2) ->
  upto T ps1 = upto T ps2.
Proof. exact two_run_prefix. Qed.
Print Assumptions C05_prefix_two_run.

(* faulty extraction against the fault-free one, T = the first fired fault: every frame outward of
   the failure (yielded before tick T was consumed) is present in both, identical, same order *)
Theorem C05_prefix_vs_fault_free : forall c fl T root s1 t1 ps1 s2 t2 ps2,
  grd c = src_guards -> (forall x, x < T -> fl x = false) ->
  runT default_fuel false (no_faults c) (root_q c root) [] [] [] 0 = (Ok s1, t1, ps1) ->
  runT default_fuel false (with_faults c fl) (root_q c root) [] [] [] 0 = (Ok s2, t2, ps2) ->
  upto T ps1 = upto T ps2
  /\ extract (no_faults c) root = Ok s1 /\ s_frames s1 = map fst ps1
  /\ extract (with_faults c fl) root = Ok s2 /\ s_frames s2 = map fst ps2.
Proof. exact extract_prefix_vs_fault_free. Qed.
Print Assumptions C05_prefix_vs_fault_free.

Example C05_prefix_vs_fault_free_ex :
  let c := ex_cfg [] in let fl := fun x => x =? 23 in
  (forall x, x < 23 -> fl x = false) /\
  map (fun p => f_py (fst p)) (upto 23 (snd (runT 100 false (no_faults c) (root_q c (IObj 0)) [] [] [] 0))) = [0; 1] /\
  map (fun p => f_py (fst p)) (upto 23 (snd (runT 100 false (with_faults c fl) (root_q c (IObj 0)) [] [] [] 0))) = [0; 1] /\
  map f_py (map fst (snd (runT 100 false (no_faults c) (root_q c (IObj 0)) [] [] [] 0))) = [0; 1; 4; 2; 3] /\
  map f_py (map fst (snd (runT 100 false (with_faults c fl) (root_q c (IObj 0)) [] [] [] 0))) = [0; 1; 4; 3].
Proof.
  split; [intros x L; apply Nat.eqb_neq; lia|]. vm_compute. repeat split; reflexivity.
Qed.

(* faults that do not fire have no effect: a successful run consults only the fault ticks it
   consumes, so any fault set agreeing with c's on [t,t') gives the identical result *)
Theorem C05_fault_locality : forall fuel fl first c tu te errs out t s t',
  grd c = all_guards ->
  run fuel first c tu te errs out t = (Ok s, t') -> agree c fl t t' ->
  run fuel first (with_faults c fl) tu te errs out t = (Ok s, t').
Proof. exact run_local. Qed.
Print Assumptions C05_fault_locality.

(* a failing elaborate_frame (own exception or injected fault): the frame is kept with
   hide = false and the contexts it had, exactly one error is recorded after the earlier ones,
   and exactly the maximal following run of queue entries of depth >= the frame's depth is
   pruned; the first shallower entry and everything after it stay *)
Theorem C05_elab_fail : forall fuel c tu te errs out t f org d rest errs1 t1 cx errs2 t2 frs lf es t',
  g_elab (grd c) = true ->
  flatten (S fuel) 0 c tu (rev te) errs t = FlOk ((QFr f org, d) :: rest) errs1 t1 ->
  ctx_step c (fun k t => run fuel false c [(better_origin c (q_of k) None, q_of k, 0)] [] [] [] t) f errs1 t1
    = (cx, errs2, t2, None) ->
  (fault c t2 = true \/ elab c f = ERaise) ->
  run (S fuel) false c tu te errs out t = (Ok (Stack frs lf es), t') ->
  (exists nf, frs = rev out ++ FOut f false org cx :: nf) /\
  (exists ne, es = rev errs2 ++ (if fault c t2 then EFault t2 else EElab f) :: ne) /\
  (exists pruned, requeue rest = pruned ++ dropge d (requeue rest)
                  /\ Forall (fun e : qent => d <= snd e) pruned
                  /\ match dropge d (requeue rest) with [] => True | e :: _ => snd e < d end).
Proof. exact run_elab_fail_result. Qed.
Print Assumptions C05_elab_fail.

Theorem C05_elab_fail_continues : forall fuel c tu te errs out t f org d rest errs1 t1 cx errs2 t2,
  g_elab (grd c) = true ->
  flatten (S fuel) 0 c tu (rev te) errs t = FlOk ((QFr f org, d) :: rest) errs1 t1 ->
  ctx_step c (fun k t => run fuel false c [(better_origin c (q_of k) None, q_of k, 0)] [] [] [] t) f errs1 t1
    = (cx, errs2, t2, None) ->
  (fault c t2 = true \/ elab c f = ERaise) ->
  run (S fuel) false c tu te errs out t =
  run fuel false c (dropge d (requeue rest)) []
      ((if fault c t2 then EFault t2 else EElab f) :: errs2) (FOut f false org cx :: out) (S t2).
Proof. exact run_elab_fail. Qed.
Print Assumptions C05_elab_fail_continues.

Example C05_elab_fail_ex :
  let c := ex_cfg [6] in
  g_elab (grd c) = true /\
  flatten 60 0 c (root_q c (IObj 1)) [] [] 0 = FlOk [(QFr 1 None, 1); (QFr 2 None, 1)] [] 4 /\
  ctx_step c (fun k t => run 59 false c [(better_origin c (q_of k) None, q_of k, 0)] [] [] [] t) 1 [] 4
    = ([COut 1 []], [EFill 1], 6, None) /\
  fault c 6 = true /\
  run 60 false c (root_q c (IObj 1)) [] [] [] 0 = (Ok (Stack [FOut 1 false None [COut 1 []]] LNone [EFill 1; EFault 6]), 7).
Proof. vm_compute. repeat split; reflexivity. Qed.

(* a failing contexts step (contexts_active_in_frame raises or the fault hits it): the frame gets
   no contexts, exactly one error is recorded, the traversal is not aborted *)
Theorem C05_ctx_fail : forall c runner f errs t,
  with_ctx c = true -> g_ctx (grd c) = true ->
  (fault c t = true \/ ctxs c f = CtxRaise) ->
  ctx_step c runner f errs t = ([], (if fault c t then EFault t else ECtx f) :: errs, S t, None).
Proof. exact ctx_step_fail. Qed.
Print Assumptions C05_ctx_fail.

Example C05_ctx_fail_ex :
  with_ctx (ex_cfg []) = true /\ g_ctx (grd (ex_cfg [])) = true /\ ctxs (ex_cfg []) 2 = CtxRaise.
Proof. vm_compute. repeat split; reflexivity. Qed.
