(* C05 — property theorems only (proved in P_Frames_Fault.v). *)
Require Import Base M_Frames M_Frames_Fault.
From SS.gen Require Import SrcFacts.

Theorem C05_guards_regenerated : src_guards = all_guards.
Proof. reflexivity. Qed.
Print Assumptions C05_guards_regenerated.
