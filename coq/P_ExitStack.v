(* P_ExitStack.v — reference specification of property C09 and the proofs relating the model
   M_ExitStack (classifier over contextlib's attribute vectors, fuelled recursion through
   fill_context / extract_child) to it. *)
Require Import Base M_ExitStack.

(* ================================================================== reference specification *)
(* Written from the property text, by registration FORM; it never looks at what contextlib stored. *)

(* the registration hands over a manager, or a bound method whose receiver stands for it *)
Definition has_receiver (k : regkind) : bool :=
  match k with
  | KEnter | KPushMgr | KPushMeth | KEnterA | KPushAMgr | KPushAMeth => true
  | KPushFn _ | KCallback | KPushAFn _ | KACallback => false
  end.

(* "its sync/async kind" *)
Definition spec_async (k : regkind) : bool :=
  match k with KEnterA | KPushAMgr | KPushAFn _ | KPushAMeth | KACallback => true | _ => false end.

(* "in its description the registration method that was used" *)
Definition spec_meth (k : regkind) : meth :=
  match k with
  | KEnter => MEnter | KPushMgr | KPushFn _ | KPushMeth => MPush | KCallback => MCallback
  | KEnterA => MEnterA | KPushAMgr | KPushAFn _ | KPushAMeth => MPushA | KACallback => MACallback
  end.

(* only enter_async_context is awaited *)
Definition spec_await (k : regkind) : bool := match k with KEnterA => true | _ => false end.

(* argument text when the child has no description of its own *)
Definition spec_arg (k : regkind) : argk :=
  match k with
  | KEnter | KEnterA => AReprSelf
  | KCallback | KACallback => ACallArgs
  | _ => AFuncname
  end.

(* "identifying the registered manager or callable as obj": the manager (for a bound method: its
   receiver), else the callable as contextlib holds it *)
Definition spec_oid (k : regkind) (oself ocb : nat) : nat := if has_receiver k then oself else ocb.
Definition spec_sel (k : regkind) : osel := if has_receiver k then SelSelf else SelCallback.

Definition spec_cls (k : regkind) : cls :=
  {| c_sel := spec_sel k; c_await := spec_await k; c_meth := spec_meth k; c_arg := spec_arg k |}.

(* known finding F10: contextlib stores for these registrations the very same bound __exit__ /
   __aexit__ as for enter_context / enter_async_context *)
Definition f10 (k : regkind) (exitname : bool) : bool :=
  match k with
  | KPushMgr | KPushAMgr => true
  | KPushMeth | KPushAMeth => exitname
  | _ => false
  end.

(* fault containment: unfolding an exit stack needs the repr of every registered manager / bound-method
   receiver; if that fails (or the unfolding of such a child fails) the unfolding of the stack fails.
   Functions, callbacks and generator-based managers never make it fail. *)
Fixpoint spec_raises (m : mgr) : bool :=
  match m with
  | MStack cbs => existsb (fun c => match c with Cb k _ _ _ _ _ m' =>
                    has_receiver k && (is_faulty m' || spec_raises m') end) cbs
  | _ => false
  end.

(* the expected context tree, by structural recursion on the manager tree (no fuel) *)
Fixpoint spec_mgr (ex : bool) (root : rootk) (path : list nat) (i : kinfo) (oid : nat) (async : bool)
         (m : mgr) {struct m} : cout :=
  match m with
  | MPlain | MFaulty => COut oid async ex None [] i
  | MGen f => COut oid async ex (if ex then None else Some (spec_series f)) [] i
  | MStack cbs =>
      COut oid async ex None
        (mapi (fun idx c =>
           match c with
           | Cb k _ _ _ oself ocb m' =>
             if has_receiver k
             then spec_mgr false root (path ++ [idx])
                    (KChild SelSelf root path idx (spec_await k) (spec_meth k)
                            (if has_desc m' then AChildDesc else spec_arg k))
                    oself (spec_async k) m'
             else COut ocb (spec_async k) false None []
                    (KChild SelCallback root path idx (spec_await k) (spec_meth k) (spec_arg k))
           end) 0 cbs) i
  end
with spec_series (f : frm) {struct f} : list fout :=
  match f with
  | Frm code ws t =>
      (* a with-block whose unfolding fails is left bare; the other with-blocks of the frame are
         unfolded as if nothing had happened *)
      let cs := map (fun w => match w with Wth oid async named m =>
                       if spec_raises m then COut oid async false None [] KTop
                       else spec_mgr false (if named then RName else RUnderscore) [] KTop oid async m end) ws in
      match t with
      | TStop => [FOut code cs]
      | TDeleg g => FOut code cs :: spec_series g
      | TExit (Wth oid async named m) =>
          FOut code (cs ++ [if spec_raises m then COut oid async true None [] KTop
                            else spec_mgr true (if named then RName else RUnderscore) [] KTop oid async m])
          :: match m with MGen g => spec_series g | _ => [] end
      | TExitS (Wth oid async named m) cur =>
          (* an exit stack in the middle of exiting: the stack is exiting, the managers still
             registered are NOT (spec_mgr unfolds children with ex = false); the frames of the
             manager being exited follow in the main series *)
          FOut code (cs ++ [if spec_raises m then COut oid async true None [] KTop
                            else spec_mgr true (if named then RName else RUnderscore) [] KTop oid async m])
          :: match cur with MGen g => spec_series g | _ => [] end
      end
  end.

(* nesting depth (the fuel the model needs) *)
Fixpoint depth_mgr (m : mgr) : nat :=
  match m with
  | MPlain | MFaulty => 1
  | MGen f => S (depth_frm f)
  | MStack cbs => S (list_max (map (fun c => match c with Cb _ _ _ _ _ _ m' => depth_mgr m' end) cbs))
  end
with depth_frm (f : frm) : nat :=
  match f with
  | Frm _ ws t =>
      S (Nat.max (list_max (map (fun w => match w with Wth _ _ _ m => depth_mgr m end) ws))
                 match t with
                 | TStop => 0
                 | TDeleg g => depth_frm g
                 | TExit (Wth _ _ _ m) => depth_mgr m
                 | TExitS (Wth _ _ _ m) cur => Nat.max (depth_mgr m) (depth_mgr cur)
                 end)
  end.

(* hypotheses on a tree: every callback carries the attribute vector of the modelled contextlib map
   ([modelled]) and no registration is one of the indistinguishable ones ([nof10]) *)
Fixpoint modelled_mgr (m : mgr) : bool :=
  match m with
  | MPlain | MFaulty => true
  | MGen f => modelled_frm f
  | MStack cbs => forallb (fun c => match c with Cb k falsy x a _ _ m' =>
                     avec_eqb a (cl_attrs k falsy x) && modelled_mgr m' end) cbs
  end
with modelled_frm (f : frm) : bool :=
  match f with
  | Frm _ ws t =>
      forallb (fun w => match w with Wth _ _ _ m => modelled_mgr m end) ws &&
      match t with TStop => true | TDeleg g => modelled_frm g | TExit (Wth _ _ _ m) => modelled_mgr m
                 | TExitS (Wth _ _ _ m) cur => modelled_mgr m && modelled_mgr cur end
  end.

Fixpoint nof10_mgr (m : mgr) : bool :=
  match m with
  | MPlain | MFaulty => true
  | MGen f => nof10_frm f
  | MStack cbs => forallb (fun c => match c with Cb k _ x _ _ _ m' => negb (f10 k x) && nof10_mgr m' end) cbs
  end
with nof10_frm (f : frm) : bool :=
  match f with
  | Frm _ ws t =>
      forallb (fun w => match w with Wth _ _ _ m => nof10_mgr m end) ws &&
      match t with TStop => true | TDeleg g => nof10_frm g | TExit (Wth _ _ _ m) => nof10_mgr m
                 | TExitS (Wth _ _ _ m) cur => nof10_mgr m && nof10_mgr cur end
  end.

(* ================================================================== the classifier *)
Lemma avec_eqb_eq a b : avec_eqb a b = true -> a = b.
Proof.
  destruct a, b; unfold avec_eqb; simpl. intros H.
  repeat (apply andb_true_iff in H; destruct H as [H ?]).
  repeat match goal with E : Bool.eqb _ _ = true |- _ => apply eqb_prop in E end.
  match goal with E : crel_eqb ?x ?y = true |- _ => assert (x = y) by (destruct x, y; simpl in E; congruence) end.
  subst. reflexivity.
Qed.

Lemma avec_eqb_refl a : avec_eqb a a = true.
Proof. destruct a as [? ? ? ? ? ? ? ? ? r]; unfold avec_eqb; simpl. rewrite !eqb_reflx. destruct r; reflexivity. Qed.

(* for every registration form that contextlib keeps distinguishable, the classifier applied to the
   stored attribute vector yields the form's own description (all forms, falsy managers included) *)
Lemma classify_modelled k falsy x : f10 k x = false -> classify (cl_attrs k falsy x) = spec_cls k.
Proof. destruct k as [| |lk| | | | |lk| |], falsy, x; try destruct lk; simpl; intros H; try discriminate H; reflexivity. Qed.

Lemma sync_modelled k falsy x : a_sync (cl_attrs k falsy x) = negb (spec_async k).
Proof. destruct k; reflexivity. Qed.

(* F10 is inherent: the stored vectors coincide, so NO classifier that reads only the stored
   callback can name both registration methods correctly *)
Lemma f10_same_vector falsy : cl_attrs KPushMgr falsy false = cl_attrs KEnter falsy false
                           /\ cl_attrs KPushAMgr falsy false = cl_attrs KEnterA falsy false.
Proof. split; reflexivity. Qed.

Lemma f10_inherent (cl : avec -> cls) falsy :
  ~ (c_meth (cl (cl_attrs KPushMgr falsy false)) = spec_meth KPushMgr /\
     c_meth (cl (cl_attrs KEnter falsy false)) = spec_meth KEnter).
Proof. intros [H1 H2]. change (cl_attrs KPushMgr falsy false) with (cl_attrs KEnter falsy false) in H1.
  rewrite H2 in H1. discriminate. Qed.

Lemma f10_inherent_async (cl : avec -> cls) falsy :
  ~ (c_meth (cl (cl_attrs KPushAMgr falsy false)) = spec_meth KPushAMgr /\
     c_meth (cl (cl_attrs KEnterA falsy false)) = spec_meth KEnterA).
Proof. intros [H1 H2]. change (cl_attrs KPushAMgr falsy false) with (cl_attrs KEnterA falsy false) in H1.
  rewrite H2 in H1. discriminate. Qed.

(* ================================================================== model = specification *)
Lemma mapi_ext_in {A B} (f g : nat -> A -> B) l :
  (forall n x, In x l -> f n x = g n x) -> forall k, mapi f k l = mapi g k l.
Proof.
  induction l as [|x l IH]; intros H k; simpl; [reflexivity|].
  rewrite H by (left; reflexivity). f_equal. apply IH. intros; apply H; right; assumption.
Qed.

Lemma mapi_length {A B} (f : nat -> A -> B) l k : length (mapi f k l) = length l.
Proof. revert k; induction l; intros; simpl; auto. Qed.

Lemma mapi_nth {A B} (f : nat -> A -> B) l : forall k i x,
  nth_error l i = Some x -> nth_error (mapi f k l) i = Some (f (k + i) x).
Proof.
  induction l as [|y l IH]; intros k i x H; destruct i; simpl in *; try discriminate.
  - inversion H; subst. rewrite Nat.add_0_r. reflexivity.
  - rewrite (IH (S k) i x H). f_equal. f_equal. lia.
Qed.

Lemma list_max_in x l : In x l -> x <= list_max l.
Proof.
  intros H. assert (F : Forall (fun k => k <= list_max l) l) by (apply list_max_le; lia).
  rewrite Forall_forall in F. apply F, H.
Qed.

Lemma existsb_ext_in {A} (f g : A -> bool) l : (forall x, In x l -> f x = g x) -> existsb f l = existsb g l.
Proof.
  induction l as [|x l IH]; intros H; simpl; [reflexivity|].
  rewrite H by (left; reflexivity). f_equal. apply IH. intros; apply H; right; assumption.
Qed.

Lemma needs_repr_receiver k : has_receiver k = true -> needs_repr (spec_cls k) = true.
Proof. destruct k; simpl; intros H; try discriminate H; reflexivity. Qed.

(* the model's "does fill_context raise" (by attribute vector, fuelled) is the specification's *)
Lemma raises_correct : forall fuel m,
  depth_mgr m <= fuel -> modelled_mgr m = true -> nof10_mgr m = true -> raises fuel m = spec_raises m.
Proof.
  induction fuel as [|n IH]; intros m Hd Hm Hn.
  - destruct m; simpl in Hd; lia.
  - destruct m as [|f|cbs|]; try reflexivity.
    simpl in Hd, Hm, Hn. simpl. apply existsb_ext_in. intros c Hin.
    rewrite forallb_forall in Hm, Hn. specialize (Hm c Hin). specialize (Hn c Hin).
    assert (Hdc : match c with Cb _ _ _ _ _ _ m' => depth_mgr m' end <= n).
    { apply le_S_n in Hd. eapply Nat.le_trans; [|exact Hd]. apply list_max_in.
      apply in_map_iff. exists c. split; [reflexivity|assumption]. }
    destruct c as [k falsy x av oself ocb m'].
    apply andb_true_iff in Hm as [Hav Hm']. apply andb_true_iff in Hn as [Hf Hn'].
    apply avec_eqb_eq in Hav. subst av. apply negb_true_iff in Hf.
    rewrite (classify_modelled k falsy x Hf).
    pose proof (needs_repr_receiver k) as Hr.
    unfold spec_cls in *; simpl in *. unfold spec_sel in *. destruct (has_receiver k); simpl.
    + rewrite Hr by reflexivity. rewrite andb_true_r. rewrite IH by assumption. reflexivity.
    + reflexivity.
Qed.

Lemma unfold_correct : forall fuel,
  (forall m, depth_mgr m <= fuel -> modelled_mgr m = true -> nof10_mgr m = true ->
     forall ex r p i oid a nm, fill fuel ex r p i (Wth oid a nm m) = spec_mgr ex r p i oid a m) /\
  (forall f, depth_frm f <= fuel -> modelled_frm f = true -> nof10_frm f = true ->
     series fuel f = spec_series f).
Proof.
  induction fuel as [|n [IHm IHf]].
  - split; intros x H; destruct x; simpl in H; lia.
  - split.
    + intros m Hd Hm Hn ex r p i oid a nm. destruct m as [|f|cbs|].
      * reflexivity.
      * simpl in *. destruct ex; [reflexivity|]. rewrite IHf by (assumption || lia). reflexivity.
      * simpl in Hd, Hm, Hn. simpl. f_equal. apply mapi_ext_in. intros idx c Hin.
        rewrite forallb_forall in Hm, Hn. specialize (Hm c Hin). specialize (Hn c Hin).
        assert (Hdc : match c with Cb _ _ _ _ _ _ m' => depth_mgr m' end <= n).
        { apply le_S_n in Hd. eapply Nat.le_trans; [|exact Hd]. apply list_max_in.
          apply in_map_iff. exists c. split; [reflexivity|assumption]. }
        destruct c as [k falsy x av oself ocb m'].
        apply andb_true_iff in Hm as [Hav Hm']. apply andb_true_iff in Hn as [Hf Hn'].
        apply avec_eqb_eq in Hav. subst av. apply negb_true_iff in Hf.
        rewrite (classify_modelled k falsy x Hf), sync_modelled, negb_involutive.
        unfold spec_cls, spec_sel; simpl. destruct (has_receiver k).
        -- apply IHm; assumption.
        -- destruct n as [|n']; [destruct m'; simpl in Hdc; lia|]. reflexivity.
      * reflexivity.
    + intros f Hd Hm Hn. destruct f as [code ws t]. simpl in Hd, Hm, Hn.
      apply andb_true_iff in Hm as [Hmw Hmt]. apply andb_true_iff in Hn as [Hnw Hnt].
      assert (Htop : forall (ex : bool) (oid : nat) (a nm : bool) (m : mgr), depth_mgr m <= n -> modelled_mgr m = true -> nof10_mgr m = true ->
                (if raises n m then COut oid a ex None [] KTop
                 else fill n ex (if nm then RName else RUnderscore) [] KTop (Wth oid a nm m))
              = (if spec_raises m then COut oid a ex None [] KTop
                 else spec_mgr ex (if nm then RName else RUnderscore) [] KTop oid a m)).
      { intros ex oid a nm m H1 H2 H3. rewrite raises_correct by assumption.
        destruct (spec_raises m); [reflexivity|]. apply IHm; assumption. }
      assert (Hws : map (fun w => match w with Wth oid async named m =>
                      if raises n m then COut oid async false None [] KTop
                      else fill n false (if named then RName else RUnderscore) [] KTop w end) ws
                  = map (fun w => match w with Wth oid async named m =>
                      if spec_raises m then COut oid async false None [] KTop
                      else spec_mgr false (if named then RName else RUnderscore) [] KTop oid async m end) ws).
      { apply map_ext_in. intros w Hin. rewrite forallb_forall in Hmw, Hnw.
        specialize (Hmw w Hin). specialize (Hnw w Hin).
        assert (Hdw : match w with Wth _ _ _ m => depth_mgr m end <= n).
        { apply le_S_n in Hd. eapply Nat.le_trans; [|exact Hd].
          eapply Nat.le_trans; [|apply Nat.le_max_l]. apply list_max_in.
          apply in_map_iff. exists w. split; [reflexivity|assumption]. }
        destruct w as [oid a nm m]. apply Htop; assumption. }
      apply le_S_n in Hd.
      destruct t as [|g|w|w cur]; simpl.
      * rewrite Hws. reflexivity.
      * rewrite Hws. rewrite IHf; [reflexivity| |assumption|assumption].
        eapply Nat.le_trans; [|exact Hd]. apply Nat.le_max_r.
      * destruct w as [oid a nm m]. rewrite Hws.
        assert (Hdm : depth_mgr m <= n) by (eapply Nat.le_trans; [|exact Hd]; apply Nat.le_max_r).
        rewrite (Htop true oid a nm m Hdm Hmt Hnt). destruct m as [|g|cbs|]; try reflexivity.
        simpl in Hdm, Hmt, Hnt. rewrite IHf by (assumption || lia). reflexivity.
      * destruct w as [oid a nm m]. rewrite Hws.
        apply andb_true_iff in Hmt as [Hmt Hmc]. apply andb_true_iff in Hnt as [Hnt Hnc].
        assert (Hdm : depth_mgr m <= n) by lia.
        assert (Hdc : depth_mgr cur <= n) by lia.
        rewrite (Htop true oid a nm m Hdm Hmt Hnt). destruct cur as [|g|cbs|]; try reflexivity.
        simpl in Hdc, Hmc, Hnc. rewrite IHf by (assumption || lia). reflexivity.
Qed.

Lemma tree_correct fuel f :
  depth_frm f <= fuel -> modelled_frm f = true -> nof10_frm f = true -> series fuel f = spec_series f.
Proof. intros; apply (proj2 (unfold_correct fuel)); assumption. Qed.

Lemma ctx_correct fuel m ex r p i oid a nm :
  depth_mgr m <= fuel -> modelled_mgr m = true -> nof10_mgr m = true ->
  fill fuel ex r p i (Wth oid a nm m) = spec_mgr ex r p i oid a m.
Proof. intros; apply (proj1 (unfold_correct fuel)); assumption. Qed.

(* the result does not depend on the fuel once it covers the depth *)
Lemma fuel_irrelevant f1 f2 f :
  depth_frm f <= f1 -> depth_frm f <= f2 -> modelled_frm f = true -> nof10_frm f = true ->
  series f1 f = series f2 f.
Proof. intros. rewrite !tree_correct by assumption. reflexivity. Qed.

(* ================================================================== children of an exit stack *)
(* hypotheses on ONE registration sequence (the registered managers themselves are arbitrary trees) *)
Definition seq_modelled (cbs : list cb) : bool :=
  forallb (fun c => match c with Cb k falsy x a _ _ _ => avec_eqb a (cl_attrs k falsy x) end) cbs.
Definition seq_nof10 (cbs : list cb) : bool :=
  forallb (fun c => match c with Cb k _ x _ _ _ _ => negb (f10 k x) end) cbs.

Lemma fill_head n ex r p i oid a nm m :
  exists inner kids, fill (S n) ex r p i (Wth oid a nm m) = COut oid a ex inner kids i.
Proof. destruct m; simpl; eauto. Qed.

Lemma children_exact n cbs ex r p i oid a nm :
  seq_modelled cbs = true -> seq_nof10 cbs = true ->
  exists kids,
    fill (S (S n)) ex r p i (Wth oid a nm (MStack cbs)) = COut oid a ex None kids i /\
    length kids = length cbs /\
    forall j k falsy x av oself ocb m,
      nth_error cbs j = Some (Cb k falsy x av oself ocb m) ->
      exists inner gk arg,
        nth_error kids j =
          Some (COut (spec_oid k oself ocb) (spec_async k) false inner gk
                     (KChild (spec_sel k) r p j (spec_await k) (spec_meth k) arg))
        /\ (arg = spec_arg k \/ arg = AChildDesc).
Proof.
  intros Hm Hn. eexists. split; [reflexivity|]. split; [apply mapi_length|].
  intros j k falsy x av oself ocb m Hj.
  rewrite (mapi_nth _ _ _ _ _ Hj). simpl.
  unfold seq_modelled, seq_nof10 in *. rewrite forallb_forall in Hm, Hn.
  apply nth_error_In in Hj. specialize (Hm _ Hj). specialize (Hn _ Hj). simpl in Hm, Hn.
  apply avec_eqb_eq in Hm. subst av. apply negb_true_iff in Hn.
  rewrite (classify_modelled k falsy x Hn), sync_modelled, negb_involutive.
  unfold spec_cls, spec_oid, spec_sel; simpl.
  destruct (has_receiver k); simpl.
  - destruct m; simpl; do 3 eexists; (split; [reflexivity|]); auto.
  - do 3 eexists; (split; [reflexivity|]); auto.
Qed.

(* the registration order is kept and nothing is added: the j-th child stems from the j-th callback
   (part of the statement above: index j in varname and description, length kids = length cbs) *)

Definition kid_meth (c : cout) : option meth :=
  match c with COut _ _ _ _ _ (KChild _ _ _ _ _ m _) => Some m | _ => None end.
Definition kid_await (c : cout) : option bool :=
  match c with COut _ _ _ _ _ (KChild _ _ _ _ w _ _) => Some w | _ => None end.

(* known finding F10, witness: push(manager) on a sync stack is described as enter_context,
   push_async_exit(manager) as an awaited enter_async_context *)
Definition f10_witness (k : regkind) : list cb := [Cb k false false (cl_attrs k false false) 1 2 MPlain].

Lemma f10_refuted :
  exists cbs, seq_modelled cbs = true /\ seq_nof10 cbs = false /\
    exists k falsy x av oself ocb m kid,
      nth_error cbs 0 = Some (Cb k falsy x av oself ocb m) /\
      fill 2 false RName [] KTop (Wth 7 false true (MStack cbs)) = COut 7 false false None [kid] KTop /\
      kid_meth kid <> Some (spec_meth k).
Proof.
  exists (f10_witness KPushMgr). split; [reflexivity|]. split; [reflexivity|].
  do 8 eexists. split; [reflexivity|]. split; [reflexivity|]. simpl. discriminate.
Qed.

Lemma f10_refuted_async :
  exists kid, fill 2 false RName [] KTop (Wth 7 true true (MStack (f10_witness KPushAMgr)))
              = COut 7 true false None [kid] KTop /\
              kid_meth kid = Some MEnterA /\ spec_meth KPushAMgr = MPushA /\
              kid_await kid = Some true /\ spec_await KPushAMgr = false.
Proof. eexists. split; [reflexivity|]. repeat split. Qed.

(* ================================================================== generator-based managers *)
(* not exiting: inner_stack is the extraction of the manager's generator; exiting: no inner_stack *)
Lemma gen_inner n ex r p i oid a nm f :
  fill (S n) ex r p i (Wth oid a nm (MGen f))
  = COut oid a ex (if ex then None else Some (series n f)) [] i.
Proof. reflexivity. Qed.

(* ... and when it is exiting its frames follow the owner's frame in the main series *)
Lemma exiting_in_series n code ws oid a nm g :
  exists cs, series (S (S n)) (Frm code ws (TExit (Wth oid a nm (MGen g))))
             = FOut code (cs ++ [COut oid a true None [] KTop]) :: series (S n) g
             /\ length cs = length ws.
Proof. eexists. split; [reflexivity|]. apply map_length. Qed.

(* ================================================================== fuel suffices *)
Fixpoint fuel_free_c (c : cout) : bool :=
  match c with
  | COut _ _ _ inner kids _ =>
      match inner with None => true | Some l => forallb fuel_free_f l end && forallb fuel_free_c kids
  | CFuel => false
  end
with fuel_free_f (f : fout) : bool :=
  match f with FOut _ cs => forallb fuel_free_c cs | FFuel => false end.

Lemma forallb_mapi {A B} (P : B -> bool) (f : nat -> A -> B) l :
  (forall n x, In x l -> P (f n x) = true) -> forall k, forallb P (mapi f k l) = true.
Proof.
  induction l as [|x l IH]; intros H k; simpl; [reflexivity|].
  rewrite H by (left; reflexivity). apply IH. intros; apply H; right; assumption.
Qed.

Lemma forallb_map_in {A B} (P : B -> bool) (f : A -> B) l :
  (forall x, In x l -> P (f x) = true) -> forallb P (map f l) = true.
Proof.
  induction l as [|x l IH]; intros H; simpl; [reflexivity|].
  rewrite H by (left; reflexivity). apply IH. intros; apply H; right; assumption.
Qed.

Lemma fuel_suffices : forall fuel,
  (forall m, depth_mgr m <= fuel -> forall ex r p i oid a nm,
     fuel_free_c (fill fuel ex r p i (Wth oid a nm m)) = true) /\
  (forall f, depth_frm f <= fuel -> forallb fuel_free_f (series fuel f) = true).
Proof.
  induction fuel as [|n [IHm IHf]].
  - split; intros x H; destruct x; simpl in H; lia.
  - split.
    + intros m Hd ex r p i oid a nm. destruct m as [|f|cbs|].
      * reflexivity.
      * simpl in *. destruct ex; [reflexivity|]. simpl. rewrite IHf by lia. reflexivity.
      * simpl in Hd. simpl. apply forallb_mapi. intros idx c Hin.
        assert (Hdc : match c with Cb _ _ _ _ _ _ m' => depth_mgr m' end <= n).
        { apply le_S_n in Hd. eapply Nat.le_trans; [|exact Hd]. apply list_max_in.
          apply in_map_iff. exists c. split; [reflexivity|assumption]. }
        destruct c as [k falsy x av oself ocb m'].
        destruct (c_sel (classify av)).
        -- apply IHm; assumption.
        -- apply IHm. simpl. destruct m'; simpl in Hdc; lia.
      * reflexivity.
    + intros f Hd. destruct f as [code ws t]. simpl in Hd. apply le_S_n in Hd.
      assert (Htop : forall (ex : bool) (oid : nat) (a nm : bool) (m : mgr), depth_mgr m <= n ->
                fuel_free_c (if raises n m then COut oid a ex None [] KTop
                             else fill n ex (if nm then RName else RUnderscore) [] KTop (Wth oid a nm m)) = true).
      { intros ex oid a nm m H1. destruct (raises n m); [reflexivity|]. apply IHm; assumption. }
      assert (Hws : forallb fuel_free_c (map (fun w => match w with Wth oid async named m =>
                      if raises n m then COut oid async false None [] KTop
                      else fill n false (if named then RName else RUnderscore) [] KTop w end) ws) = true).
      { apply forallb_map_in. intros w Hin.
        assert (Hdw : match w with Wth _ _ _ m => depth_mgr m end <= n).
        { eapply Nat.le_trans; [|exact Hd].
          eapply Nat.le_trans; [|apply Nat.le_max_l]. apply list_max_in.
          apply in_map_iff. exists w. split; [reflexivity|assumption]. }
        destruct w as [oid a nm m]. apply Htop; assumption. }
      destruct t as [|g|w|w cur]; simpl.
      * rewrite Hws. reflexivity.
      * rewrite Hws. simpl. apply IHf. eapply Nat.le_trans; [|exact Hd]. apply Nat.le_max_r.
      * destruct w as [oid a nm m].
        assert (Hdm : depth_mgr m <= n) by (eapply Nat.le_trans; [|exact Hd]; apply Nat.le_max_r).
        rewrite forallb_app, Hws. simpl. rewrite (Htop true oid a nm m Hdm). simpl.
        destruct m as [|g|cbs|]; try reflexivity. simpl in Hdm. apply IHf. lia.
      * destruct w as [oid a nm m].
        assert (Hdm : depth_mgr m <= n) by lia.
        assert (Hdc : depth_mgr cur <= n) by lia.
        rewrite forallb_app, Hws. simpl. rewrite (Htop true oid a nm m Hdm). simpl.
        destruct cur as [|g|cbs|]; try reflexivity. simpl in Hdc. apply IHf. lia.
Qed.

Lemma tree_fuel_suffices fuel f : depth_frm f <= fuel -> forallb fuel_free_f (series fuel f) = true.
Proof. apply (proj2 (fuel_suffices fuel)). Qed.

(* ================================================================== examples *)
(* an AsyncExitStack holding an entered @contextmanager whose generator holds an ExitStack with a
   callback and a pushed bound method, a falsy plain manager, an async function and an async
   callback; the owner is exiting an @asynccontextmanager whose generator delegates *)
Definition ex_inner_stack : mgr :=
  MStack [Cb KCallback false false (cl_attrs KCallback false false) 0 21 MPlain;
          Cb KPushMeth false false (cl_attrs KPushMeth false false) 22 23 (MGen (Frm 12 [] TStop))].
Definition ex_stack : mgr :=
  MStack [Cb KEnter false false (cl_attrs KEnter false false) 30 31
             (MGen (Frm 11 [Wth 32 false false ex_inner_stack] (TDeleg (Frm 13 [] TStop))));
          Cb KEnterA true false (cl_attrs KEnterA true false) 33 34 MPlain;
          Cb (KPushAFn LWraps) false false (cl_attrs (KPushAFn LWraps) false false) 0 35 MPlain;
          Cb KACallback false false (cl_attrs KACallback false false) 0 36 MPlain].
Definition ex_tree : frm :=
  Frm 10 [Wth 40 true true ex_stack]
      (TExit (Wth 41 true false (MGen (Frm 14 [Wth 42 false true MPlain] (TDeleg (Frm 15 [] TStop)))))).

Example ex_tree_hyps :
  depth_frm ex_tree <= 8 /\ modelled_frm ex_tree = true /\ nof10_frm ex_tree = true.
Proof. vm_compute. repeat split. lia. Qed.

Example ex_tree_frames :
  map (fun f => match f with FOut c _ => c | FFuel => 0 end) (series 8 ex_tree) = [10; 14; 15].
Proof. reflexivity. Qed.

Example ex_seq_hyps :
  match ex_stack with MStack cbs => seq_modelled cbs = true /\ seq_nof10 cbs = true | _ => False end.
Proof. split; reflexivity. Qed.

(* ================================================================== an exit stack in the middle of exiting *)
(* The stack's own context is exiting; every callback still registered yields a child that is NOT
   exiting, so a generator-based manager among them keeps its inner_stack (all sequences, all
   subtrees; only the registration hypotheses of children_exact). *)
Lemma series_exits n code ws oid a nm m cur :
  series (S n) (Frm code ws (TExitS (Wth oid a nm m) cur))
  = FOut code (map (fun w => match w with Wth oid' a' named m' =>
                      if raises n m' then COut oid' a' false None [] KTop
                      else fill n false (if named then RName else RUnderscore) [] KTop w end) ws
               ++ [if raises n m then COut oid a true None [] KTop
                   else fill n true (if nm then RName else RUnderscore) [] KTop (Wth oid a nm m)])
    :: match cur with MGen g => series n g | _ => [] end.
Proof. reflexivity. Qed.

Lemma exiting_stack_children n cbs oid a nm code ws cur :
  seq_modelled cbs = true -> seq_nof10 cbs = true ->
  raises (S (S n)) (MStack cbs) = false ->       (* the unfolding of the stack itself does not fail *)
  exists cs kids rest,
    series (S (S (S n))) (Frm code ws (TExitS (Wth oid a nm (MStack cbs)) cur))
      = FOut code (cs ++ [COut oid a true None kids KTop]) :: rest /\
    rest = match cur with MGen g => series (S (S n)) g | _ => [] end /\
    length kids = length cbs /\
    forall j k falsy x av oself ocb g,
      nth_error cbs j = Some (Cb k falsy x av oself ocb (MGen g)) -> has_receiver k = true ->
      exists info,
        nth_error kids j = Some (COut oself (spec_async k) false (Some (series n g)) [] info).
Proof.
  intros Hm Hn Hrz.
  destruct (children_exact n cbs true (if nm then RName else RUnderscore) [] KTop oid a nm Hm Hn)
    as [kids [Hfill [Hlen _]]].
  do 3 eexists. split; [rewrite series_exits, Hrz, Hfill; reflexivity|]. split; [reflexivity|].
  split; [exact Hlen|].
  intros j k falsy x av oself ocb g Hj Hr.
  simpl in Hfill. injection Hfill as Hk. subst kids.
  rewrite (mapi_nth _ _ _ _ _ Hj). simpl.
  unfold seq_modelled, seq_nof10 in *. rewrite forallb_forall in Hm, Hn.
  apply nth_error_In in Hj. specialize (Hm _ Hj). specialize (Hn _ Hj). simpl in Hm, Hn.
  apply avec_eqb_eq in Hm. subst av. apply negb_true_iff in Hn.
  rewrite (classify_modelled k falsy x Hn), sync_modelled, negb_involutive.
  unfold spec_cls, spec_sel; simpl. rewrite Hr. simpl. eexists. reflexivity.
Qed.

(* ================================================================== repeated / concurrent use *)
Lemma mapi_app {A B} (f : nat -> A -> B) l e : forall k,
  mapi f k (l ++ e) = mapi f k l ++ mapi f (k + length l) e.
Proof.
  induction l as [|x l IH]; intros k; simpl.
  - rewrite Nat.add_0_r. reflexivity.
  - rewrite IH. do 3 f_equal. lia.
Qed.

(* snapshot semantics: registering further callbacks (contextlib only appends) leaves the children
   of the callbacks registered so far untouched and in place — the unfolding of the shorter
   snapshot is a prefix of the unfolding of the longer one *)
Lemma snapshot_prefix n cbs extra ex r p i oid a nm :
  exists kids more,
    fill (S n) ex r p i (Wth oid a nm (MStack cbs)) = COut oid a ex None kids i /\
    fill (S n) ex r p i (Wth oid a nm (MStack (cbs ++ extra))) = COut oid a ex None (kids ++ more) i /\
    length kids = length cbs /\ length more = length extra.
Proof.
  do 2 eexists. split; [reflexivity|]. split; [simpl; rewrite mapi_app; reflexivity|].
  split; apply mapi_length.
Qed.

(* no state is carried from one extraction to the next: whatever happened before (including
   extractions that failed part-way), the k-th extraction yields the unfolding of the tree as it is then *)
Lemma history_stateless fuel pre f post :
  nth_error (extract_seq fuel (pre ++ Some f :: post)) (length pre) = Some (HOk (series fuel f)).
Proof.
  unfold extract_seq. rewrite map_app. rewrite nth_error_app2 by (rewrite map_length; lia).
  rewrite map_length, Nat.sub_diag. reflexivity.
Qed.

(* ================================================================== contained faults *)
(* Each with-block of a frame is unfolded on its own: whether other with-blocks of the same frame
   fail to unfold (raises = true: they stay bare) has no influence on it. *)
Lemma fault_contained n code ws :
  exists cs, series (S n) (Frm code ws TStop) = [FOut code cs] /\ length cs = length ws /\
    forall j oid a nm m, nth_error ws j = Some (Wth oid a nm m) ->
      nth_error cs j = Some (if raises n m then COut oid a false None [] KTop
                             else fill n false (if nm then RName else RUnderscore) [] KTop (Wth oid a nm m)).
Proof.
  eexists. split; [reflexivity|]. split; [apply map_length|].
  intros j oid a nm m Hj. erewrite map_nth_error by exact Hj. reflexivity.
Qed.

(* a function handed to push / push_async_exit is described as push / push_async_exit whatever it
   looks like (functools.wraps closure over args/kwds, named _exit_wrapper, ...), short of carrying
   all three marks of contextlib's own closure *)
Lemma lookalike_is_push lk :
  c_meth (classify (cl_attrs (KPushFn lk) false false)) = MPush /\
  c_meth (classify (cl_attrs (KPushAFn lk) false false)) = MPushA /\
  c_arg (classify (cl_attrs (KPushFn lk) false false)) = AFuncname.
Proof. destruct lk; repeat split. Qed.

Definition ex_faulty_frame : frm :=
  Frm 10 [Wth 40 false true (MStack [Cb KEnter false false (cl_attrs KEnter false false) 30 31 MFaulty]);
          Wth 41 false true (MGen (Frm 11 [] TStop));
          Wth 42 false true (MStack [Cb KCallback false false (cl_attrs KCallback false false) 0 32 MPlain])] TStop.
Example ex_faulty_contained :
  series 5 ex_faulty_frame =
  [FOut 10 [COut 40 false false None [] KTop;
            COut 41 false false (Some [FOut 11 []]) [] KTop;
            COut 42 false false None
              [COut 32 false false None [] (KChild SelCallback RName [] 0 false MCallback ACallArgs)] KTop]].
Proof. reflexivity. Qed.

Example ex_mid_exit_hyps :
  match ex_stack with MStack cbs => raises 5 (MStack cbs) = false | _ => False end.
Proof. reflexivity. Qed.
