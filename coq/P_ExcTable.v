(* P_ExcTable.v — stackscope's exception-table parser inverts CPython's writer. *)
From Coq Require Import ZArith NArith Lia ZifyN ZifyBool.
Require Import Base M_Bytecode M_ExcTable.
Open Scope N_scope.
Ltac Zify.zify_post_hook ::= Z.div_mod_to_equations.

Lemma step_cont acc d msb r : d < 64 -> msb = 0 \/ msb = 128 ->
  pv_go acc ((d + 64 + msb) :: r) = pv_go (acc * 64 + d) r.
Proof.
  intros Hd Hm. cbn [pv_go].
  assert (E1 : (d + 64 + msb) mod 64 = d) by (destruct Hm; subst; lia).
  assert (E2 : ((d + 64 + msb) / 64) mod 2 = 1) by (destruct Hm; subst; lia).
  rewrite E1, E2. reflexivity.
Qed.

Lemma step_last acc d msb r : d < 64 -> msb = 0 \/ msb = 128 ->
  pv_go acc ((d + msb) :: r) = Some (acc * 64 + d, r).
Proof.
  intros Hd Hm. cbn [pv_go].
  assert (E1 : (d + msb) mod 64 = d) by (destruct Hm; subst; lia).
  assert (E2 : ((d + msb) / 64) mod 2 =? 1 = false) by (destruct Hm; subst; lia).
  rewrite E1, E2. reflexivity.
Qed.

Lemma step_cont0 acc d r : d < 64 -> pv_go acc ((d + 64) :: r) = pv_go (acc * 64 + d) r.
Proof. intros Hd. replace (d + 64) with (d + 64 + 0) by lia. apply step_cont; auto. Qed.
Lemma step_last0 acc d r : d < 64 -> pv_go acc (d :: r) = Some (acc * 64 + d, r).
Proof. intros Hd. replace d with (d + 0) at 1 by lia. apply step_last; auto. Qed.

Lemma parse_enc_varint v msb rest : v < 1073741824 -> msb = 0 \/ msb = 128 ->
  parse_varint (enc_varint v msb ++ rest) = Some (v, rest).
Proof.
  intros Hv Hm. unfold parse_varint, enc_varint.
  assert (H0 : v mod 64 < 64) by lia.
  assert (H1 : (v / 64) mod 64 < 64) by lia.
  assert (H2 : (v / 4096) mod 64 < 64) by lia.
  assert (H3 : (v / 262144) mod 64 < 64) by lia.
  assert (H4 : v / 16777216 < 64) by lia.
  destruct (16777216 <=? v) eqn:E4; [|destruct (262144 <=? v) eqn:E3; [|destruct (4096 <=? v) eqn:E2;
    [|destruct (64 <=? v) eqn:E1]]]; cbn [app].
  - rewrite step_cont, !step_cont0, step_last0 by assumption. f_equal. f_equal. lia.
  - rewrite step_cont, !step_cont0, step_last0 by assumption. f_equal. f_equal. lia.
  - rewrite step_cont, !step_cont0, step_last0 by assumption. f_equal. f_equal. lia.
  - rewrite step_cont, step_last0 by assumption. f_equal. f_equal. lia.
  - rewrite step_last by (assumption || lia). f_equal. f_equal. lia.
Qed.

Lemma enc_varint_nonempty v msb : enc_varint v msb <> [].
Proof. unfold enc_varint. repeat match goal with |- context [if ?b then _ else _] => destruct b end; discriminate. Qed.

Lemma enc_varint_len v msb : (1 <= length (enc_varint v msb))%nat.
Proof. unfold enc_varint. repeat match goal with |- context [if ?b then _ else _] => destruct b end; cbn; lia. Qed.

Lemma parse_table_enc fuel es rest_fuel :
  Forall ok_ent es -> (length es <= fuel)%nat -> rest_fuel = fuel ->
  parse_table (S fuel) (enc_table es) = map ent_of_raw es.
Proof.
  intros Hok. revert fuel rest_fuel. induction Hok as [|e es He _ IH]; intros fuel rf Hlen ->.
  - reflexivity.
  - cbn [length] in Hlen. destruct fuel as [|fuel]; [lia|].
    unfold enc_table. cbn [flat_map]. unfold enc_entry. rewrite <- !app_assoc.
    destruct He as (Hs & Hz & Ht & Hd).
    cbn [parse_table].
    rewrite parse_enc_varint by (auto). rewrite parse_enc_varint by auto.
    rewrite parse_enc_varint by auto.
    assert (Hdl : e_depth e * 2 + (if e_lasti e then 1 else 0) < 1073741824) by (destruct (e_lasti e); lia).
    rewrite parse_enc_varint by auto.
    cbn [map]. f_equal.
    + unfold mk_hent, ent_of_raw. f_equal.
      * f_equal. destruct (e_lasti e); lia.
      * destruct (e_lasti e); lia.
    + apply (IH fuel fuel); [lia|reflexivity].
Qed.

(* every encoded entry is at least 4 bytes, so the fuel of parse_exception_table suffices *)
Lemma enc_entry_len e : (4 <= length (enc_entry e))%nat.
Proof.
  unfold enc_entry. rewrite !app_length.
  pose proof (enc_varint_len (e_start e) 128). pose proof (enc_varint_len (e_size e) 0).
  pose proof (enc_varint_len (e_target e) 0).
  pose proof (enc_varint_len (e_depth e * 2 + (if e_lasti e then 1 else 0)) 0). lia.
Qed.

Lemma enc_table_len es : (4 * length es <= length (enc_table es))%nat.
Proof.
  induction es as [|e es IH]; [cbn; lia|]. unfold enc_table in *. cbn [flat_map length].
  rewrite app_length. pose proof (enc_entry_len e). lia.
Qed.

Theorem exctable_roundtrip es : Forall ok_ent es ->
  parse_exception_table (enc_table es) = map ent_of_raw es.
Proof.
  intros Hok. unfold parse_exception_table.
  apply (parse_table_enc (length (enc_table es)) es (length (enc_table es))); auto.
  pose proof (enc_table_len es). lia.
Qed.
Print Assumptions exctable_roundtrip.

(* non-vacuity: multi-byte values in every field *)
Example roundtrip_example :
  let es := [ {| e_start := 2; e_size := 7; e_target := 144; e_depth := 0; e_lasti := true |};
              {| e_start := 70; e_size := 4000; e_target := 4100; e_depth := 40; e_lasti := false |} ] in
  Forall ok_ent es /\ parse_exception_table (enc_table es) = map ent_of_raw es /\ length (enc_table es) = 14%nat.
Proof. cbn zeta. split; [repeat constructor|]. split; vm_compute; reflexivity. Qed.
