(* C18 — property theorems only (proved in P_Format.v). *)
Require Import Base M_Format P_Format.
From Coq Require Import NArith String.
From SS.gen Require Import SrcFacts.

(* Reading the structured lines back recovers the visible skeleton, for ALL trees and option
   sets.  [read_back] takes its fuel from the text itself (1 + longest marker chain; fuel only
   bounds the nesting depth) and never runs out on formatted text. *)
Theorem C18_roundtrip : forall o t,
  read_back (fmt_stack_sl o t) = Some (skeleton_visible o t).
Proof. exact roundtrip. Qed.
Print Assumptions C18_roundtrip.

(* The strings the code composes (marker strings prepended, startswith / strip tests on the
   characters) are exactly the marker-wise rendering of the structured lines; holds for all
   payloads, with the marker table regenerated from _types.py. *)
Theorem C18_string_level : forall o t,
  fmt_stack_str o t = map (render (M_Format.ascii o)) (fmt_stack_sl o t).
Proof. exact str_is_render. Qed.
Print Assumptions C18_string_level.

(* the marker strings regenerated from the source: two characters each, child indicator =
   start_child and different from every other marker that can stand in the tested column,
   ASCII table is ASCII *)
Theorem C18_markers_wf : markers_wf = true.
Proof. exact markers_wf_ok. Qed.
Print Assumptions C18_markers_wf.

Theorem C18_ascii_homomorphic : forall o t,
  fmt_stack_str (with_ascii true o) t = map (render true) (fmt_stack_sl o t)
  /\ fmt_stack_str (with_ascii false o) t = map (render false) (fmt_stack_sl o t)
  /\ (forall m, forallb (fun c => N.ltb c 128) (mstr true m) = true).
Proof. exact ascii_homomorphic. Qed.
Print Assumptions C18_ascii_homomorphic.

Theorem C18_hidden_iff : forall o r fs lf er,
  exists lf' er',
    read_back (fmt_stack_sl o (Stk r fs lf er))
    = Some (header_text r,
            SkStack (map (sk_of_frame o) (filter (fun f => negb (f_hide f) || show_hidden o) fs)) lf' er')
  /\ forall f, sk_of_frame o f
     = SkFrame (frame_header f)
               (if show_ctx o
                then map (sk_of_ctx o true true) (filter (fun c => negb (c_hide c) || show_hidden o) (f_ctxs f))
                else [])
               (if last_exiting (f_ctxs f) then None
                else if nonempty (frame_linetext f) then Some (frame_linetext f ++ nl) else None).
Proof. exact hidden_iff. Qed.
Print Assumptions C18_hidden_iff.

Theorem C18_no_contexts_is_frame_series : forall o r fs lf er,
  show_ctx o = false ->
  fmt_stack_sl o (Stk r fs lf er) =
  ([], header_text r)
  :: flat_map (fun f => if vis o (f_hide f)
                        then ([SF], frame_header f) :: map (sl_add CF) (code_lines sline sl_lit sl_add f)
                        else []) fs
  ++ leaf_lines sline sl_lit sl_add lf ++ err_lines sline sl_lit sl_add er.
Proof. exact no_contexts_frame_series. Qed.
Print Assumptions C18_no_contexts_is_frame_series.

(* str(x) is by definition the concatenation of format() (Formattable.__str__); the harness
   checks the implementation side of this on every case *)
Theorem C18_str_is_concat : forall t,
  str_of t = List.concat (fmt_stack_str {| M_Format.ascii := false; show_ctx := true; show_hidden := false |} t).
Proof. intros; reflexivity. Qed.
Print Assumptions C18_str_is_concat.

(* For all trees whose payloads other than the error text (root/leaf reprs, names, source lines,
   descriptions, type names) contain no "\n" -- the negation of F12's signature -- every
   element of format() ends with "\n" and contains no other "\n".  The error text is
   unconstrained: str.splitlines() pieces are re-terminated by the code (fix of F20). *)
Theorem C18_newline_terminated : forall o t,
  clean_stack t = true -> single_lines (fmt_stack_str o t) = true.
Proof. exact newline_terminated. Qed.
Print Assumptions C18_newline_terminated.

(* the hypothesis is met by a tree with contexts whose error text contains \r, \n, \x85, \u2028 *)
Example C18_newline_terminated_example :
  let t := Stk (Some (a "<root>"))
               [Frm (a "f") None (Some (a "m")) (a "x.py") 3%N (a "return 1") [] false false
                    [Ctx (Some (a "T")) false false (Some (a "v")) (Some 2%N) (Some (a "d")) (a "with t() as v:") [] []
                         (Some (Stk None [] (Some (a "leaf")) (Some [a "ValueError: a" ++ [13%N] ++ a "b" ++ [10%N; 133%N] ++ a "c" ++ [8232%N] ++ nl]))) [] false]]
               None (Some [a "KeyError: x" ++ [13%N; 10%N] ++ a "y" ++ [13%N]]) in
  clean_stack t = true
  /\ List.length (fmt_stack_str {| M_Format.ascii := false; show_ctx := true; show_hidden := false |} t) = 14.
Proof. vm_compute. split; reflexivity. Qed.

(* known finding F12 *)
Theorem C18_F12_refuted : exists t o, single_lines (fmt_stack_str o t) = false.
Proof. exact F12_refuted. Qed.
Print Assumptions C18_F12_refuted.

(* String-level lexing, unicode mode.  A rendered line determines its structured line (marker
   chain, body) uniquely, provided the chain has the shape the formatter builds (C18_chain_shape:
   it always has), the body does not start with a marker string, and an error line is not empty. *)
Theorem C18_unicode_lex_unique : forall l1 l2,
  lex_ok l1 = true -> lex_ok l2 = true -> render false l1 = render false l2 -> l1 = l2.
Proof. exact lex_unique. Qed.
Print Assumptions C18_unicode_lex_unique.

(* every line of every formatted tree: ERR only as the last marker, continue_child as the last
   marker only on a blank line, the child indicator never prepended *)
Theorem C18_chain_shape : forall o t,
  Forall (fun l => chain_ok (fst l) (snd l) = true) (fmt_stack_sl o t).
Proof. exact chain_shape. Qed.
Print Assumptions C18_chain_shape.

Example C18_lex_ok_example :
  lex_ok ([CF; CCX; CC; SF], a "f in m at x.py:3" ++ nl) = true
  /\ lex_ok ([CF; CCX; ERR], a "ValueError: x" ++ nl) = true
  /\ lex_ok ([CF; CCX; CC], nl) = true.
Proof. vm_compute. repeat split. Qed.

(* the one line-level ambiguity of unicode mode (the hypothesis err_nb above): an empty error
   line under a context = the blank line around a populated child stack; both occur *)
Theorem C18_lex_blank_refuted :
  let l1 := ([CF; CCX; ERR], nl) in let l2 := ([CF; CCX; CC], nl) in
  existsb (sline_eqb l1) (fmt_stack_sl uni amb_t1) = true
  /\ existsb (sline_eqb l2) (fmt_stack_sl uni amb_t2) = true
  /\ render false l1 = render false l2 /\ l1 <> l2
  /\ chain_ok (fst l1) (snd l1) = true /\ chain_ok (fst l2) (snd l2) = true
  /\ bfree (snd l1) = true /\ err_nb (fst l1) (snd l1) = false.
Proof. exact lex_blank_ambiguous. Qed.
Print Assumptions C18_lex_blank_refuted.

(* ascii mode is ambiguous as a whole text: start_frame = start_leaf = "+ ", so a one-frame stack
   and a frame-less stack whose leaf's repr spells that frame's line print the same characters
   with different skeletons (unicode mode tells them apart) *)
Theorem C18_ascii_ambiguous_refuted :
  fmt_stack_str asc_o asc_t1 = fmt_stack_str asc_o asc_t2
  /\ skeleton_visible asc_o asc_t1 <> skeleton_visible asc_o asc_t2
  /\ fmt_stack_str uni asc_t1 <> fmt_stack_str uni asc_t2.
Proof. exact ascii_ambiguous. Qed.
Print Assumptions C18_ascii_ambiguous_refuted.

(* a non-trivial tree: frame with a context that has an inner stack, a hidden child context, a
   stub and a populated child stack *)
Definition ex_frame (cs : list context) : frame :=
  Frm (a "f") None (Some (a "m")) (a "x.py") 3%N (a "return 1") [] false false cs.
Definition ex_ctx (h : bool) (inn : option stack) (ks : list child) : context :=
  Ctx (Some (a "T")) false false (Some (a "v")) (Some 2%N) (Some (a "d")) (a "with t() as v:") [] [] inn ks h.
Definition ex_tree : stack :=
  Stk (Some (a "<root>"))
      [ex_frame [ex_ctx false (Some (Stk None [ex_frame []] (Some (a "leaf")) None))
                   [KCtx (ex_ctx true None []); KStk (Stk None [] None None);
                    KStk (Stk (Some (a "<t>")) [ex_frame []] None (Some [a "ValueError: x" ++ nl]))]]]
      None None.
Example C18_roundtrip_example :
  read_back (fmt_stack_sl {| M_Format.ascii := false; show_ctx := true; show_hidden := false |} ex_tree)
  = Some (skeleton_visible {| M_Format.ascii := false; show_ctx := true; show_hidden := false |} ex_tree)
  /\ List.length (fmt_stack_sl {| M_Format.ascii := false; show_ctx := true; show_hidden := false |} ex_tree) = 15.
Proof. vm_compute. repeat split; repeat constructor. Qed.
