(* C10 — property theorems only (proved in P_Frames.v). *)
Require Import Base M_Frames.
From SS.gen Require Import SrcFacts.

Theorem C10_guard_constant : SrcFacts.unwrap_guard = 100.
Proof. reflexivity. Qed.
Print Assumptions C10_guard_constant.
