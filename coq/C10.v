(* C10 — frame hooks: unwrap to a fixpoint; elaborate_frame edits only the inward rest.
   Property theorems only (proved in P_Frames_Ref.v).  Model: M_Frames.v (extract_iter as coded,
   the functions the generated cases evaluate).  Reference interpretation of the documented rules:
   M_FramesRef.v (Unw / RefFlat / Ref, big-step, no fuel/deques/origins/ticks).
   Examples showing that the hypotheses are met by non-trivial inputs: P_Frames_Ref.v, ex_*. *)
Require Import Base M_Frames M_FramesRef P_Frames_Ref P_Frames_Fuel.
From SS.gen Require Import SrcFacts.

(* the constant of the progress guard, regenerated from the source *)
Theorem C10_guard_constant : SrcFacts.unwrap_guard = 100.
Proof. reflexivity. Qed.
Print Assumptions C10_guard_constant.

(* the hook call sites of extract_iter are guarded in the source, as the cases assume *)
Theorem C10_guards_regenerated :
  extract_g_unwrap = g_unwrap all_guards /\ extract_g_iter = g_iter all_guards /\
  extract_g_elab = g_elab all_guards.
Proof. exact guards_regenerated. Qed.
Print Assumptions C10_guards_regenerated.

(* every configuration printed by the generator (no faults, no contexts, all guards) is in the
   domain of the theorems below, whatever its tables *)
Theorem C10_cases_plain : forall u e a cx fl ug, plain (mkcfg u e a cx fl [] false all_guards ug).
Proof. exact mkcfg_plain. Qed.
Print Assumptions C10_cases_plain.

(* the reference interpretation is deterministic: "the reference result" is well defined *)
Theorem C10_ref_deterministic : forall c seq r r', Ref c seq r -> Ref c seq r' -> r = r'.
Proof. exact Ref_det. Qed.
Print Assumptions C10_ref_deterministic.

(* the executable reference used as second oracle in the cases files computes it *)
Theorem C10_ref_run_sound : forall c fuel seq r, ref_run fuel c seq = Some r -> Ref c seq r.
Proof. exact ref_run_sound. Qed.
Print Assumptions C10_ref_run_sound.

(* MAIN: whenever the model's extract does not run out of fuel it returns a Stack (never raises)
   whose frames (with hide flags), leaf and ordered errors are the reference result *)
Theorem C10_model_eq_ref : forall c root,
  plain c -> extract c root <> OutOfFuel ->
  exists s, extract c root = Ok s /\ Ref c [(s_of root, 0)] (view s).
Proof. exact model_eq_ref. Qed.
Print Assumptions C10_model_eq_ref.

(* same for every amount of fuel and every starting tick *)
Theorem C10_model_eq_ref_any_fuel : forall c root fuel t r t',
  plain c -> run fuel false c (root_q c root) [] [] [] t = (r, t') -> r <> OutOfFuel ->
  exists s, r = Ok s /\ Ref c [(s_of root, 0)] (view s).
Proof. exact run_root_ref. Qed.
Print Assumptions C10_model_eq_ref_any_fuel.

(* ... hence equal to ANY reference result, in particular to what ref_run computes
   (ref_extract c root is by definition ref_run default_fuel c [(s_of root, 0)]) *)
Theorem C10_model_eq_ref_unique : forall c root s r,
  plain c -> extract c root = Ok s -> Ref c [(s_of root, 0)] r -> view s = r.
Proof. exact model_eq_ref_unique. Qed.
Print Assumptions C10_model_eq_ref_unique.

Theorem C10_model_eq_ref_run : forall c root s r,
  plain c -> extract c root = Ok s -> ref_run default_fuel c [(s_of root, 0)] = Some r -> view s = r.
Proof. exact model_eq_ref_run. Qed.
Print Assumptions C10_model_eq_ref_run.

(* all hooks return None: the frames are the leading frames of the unwrapped item tree, in order;
   the leaf is what follows them *)
Theorem C10_none_is_flatten : forall c root s,
  plain c -> (forall f, elab c f = ENone) -> extract c root = Ok s ->
  exists flat es, Unw c 0 [(s_of root, 0)] flat es /\
                  view s = (frame_prefix c flat, map fst (after_frames flat), es).
Proof. exact none_is_flatten. Qed.
Print Assumptions C10_none_is_flatten.

(* PRUNE / empty sequence at a frame of depth d, in any state of the outer loop: the frames already
   yielded are unchanged, the entries removed are exactly the maximal following run with
   depth >= d (the callees), the first entry of depth < d and everything after it survive, and the
   remainder of the result is the reference result of the survivors alone *)
Theorem C10_prune_exact : forall c fuel f org d rest errs out t,
  plain c -> nopy rest -> elab c f = ESeq [] ->
  let gone := callees d rest in
  let kept := survivors d rest in
  rest = gone ++ kept /\ Forall (fun e => d <= snd e) gone /\
  (forall q d' k, kept = (q, d') :: k -> d' < d) /\
  run_result_is c (run fuel false c [] ((QFr f org, d) :: rest) errs out t)
                out errs f (prehide c f) [] (map er_t kept).
Proof. exact prune_exact. Qed.
Print Assumptions C10_prune_exact.

(* a sequence not ending in next_inner: its items, at the frame's depth, replace the callees *)
Theorem C10_replace : forall c fuel f org d rest errs out t l,
  plain c -> nopy rest -> elab c f = ESeq l ->
  let next := next_of_s (map er_t rest) in
  ends_next next l = false ->
  run_result_is c (run fuel false c [] ((QFr f org, d) :: rest) errs out t)
                out errs f (prehide c f) []
                (at_depth d (map (conc_s next) l) ++ map er_t (survivors d rest)).
Proof. exact replace_rule. Qed.
Print Assumptions C10_replace.

(* a sequence ending in next_inner: the other items are inserted at the frame's depth before the
   rest; nothing is removed; only next_inner's depth may change (to min d own, redepth_s_spec) *)
Theorem C10_insert : forall c fuel f org d rest errs out t l r,
  plain c -> nopy rest -> elab c f = ESeq (l ++ [r]) ->
  let next := next_of_s (map er_t rest) in
  is_next next r = true ->
  run_result_is c (run fuel false c [] ((QFr f org, d) :: rest) errs out t)
                out errs f (prehide c f) []
                (at_depth d (map (conc_s next) l) ++ redepth_s d (map er_t rest)).
Proof. exact insert_rule. Qed.
Print Assumptions C10_insert.

Theorem C10_insert_depths : forall d rest,
  map fst (redepth_s d rest) = map fst rest /\
  match rest, redepth_s d rest with
  | (_, d') :: r, (_, d'') :: r' => d'' = Nat.min d d' /\ r' = r
  | [], [] => True
  | _, _ => False
  end.
Proof. exact redepth_s_spec. Qed.
Print Assumptions C10_insert_depths.

(* every hook result (None, bare item, bare next_inner, sequence, raise) in one statement *)
Theorem C10_frame_rule : forall c (P : plain c) fuel f org d rest errs out t,
  nopy rest ->
  frame_spec c (run fuel false c [] ((QFr f org, d) :: rest) errs out t) out errs f d (map er_t rest).
Proof. exact run_frame_ref. Qed.
Print Assumptions C10_frame_rule.

(* a @yields_frames iterator contributes exactly the non-None items it yields before it stops or
   raises: same frames and leaf as if the hook had returned them as a sequence (with or without None
   entries in between, which are skipped alike).  In the correspondence a yielded None is mapped to
   "no item" by the abstraction (frames_gen.c_cfg); the generated iterators yield None at every
   position. *)
Theorem C10_iter_keeps_prefix : forall c c2 o l root s s2,
  plain c -> plain c2 -> iter_as_seq c c2 o l ->
  extract c root = Ok s -> extract c2 root = Ok s2 ->
  fst (view s) = fst (view s2).
Proof. exact iter_keeps_prefix. Qed.
Print Assumptions C10_iter_keeps_prefix.

(* a linear chain that reaches neither a frame nor None within the (regenerated) guard constant
   ends with the loop error and the item as leaf; fuel >= guard + 2 suffices *)
Theorem C10_guard : forall c (o : nat -> nat),
  (forall t, fault c t = false) -> g_unwrap (grd c) = true ->
  uguard c = SrcFacts.unwrap_guard ->
  (forall k, k < SrcFacts.unwrap_guard -> unwrap c (o k) = UOne (IObj (o (S k)))) ->
  unwrap c (o SrcFacts.unwrap_guard) <> URaise ->
  extract c (IObj (o 0))
  = Ok (Stack [] (LOne (QObj (o SrcFacts.unwrap_guard))) [ELoop (QObj (o SrcFacts.unwrap_guard))]).
Proof. exact guard_extract. Qed.
Print Assumptions C10_guard.

Theorem C10_guard_any_fuel : forall c (o : nat -> nat) fuel t,
  (forall t, fault c t = false) -> g_unwrap (grd c) = true ->
  (forall k, k < uguard c -> unwrap c (o k) = UOne (IObj (o (S k)))) ->
  unwrap c (o (uguard c)) <> URaise ->
  uguard c + 2 <= fuel ->
  fst (run fuel false c (root_q c (IObj (o 0))) [] [] [] t)
  = Ok (Stack [] (LOne (QObj (o (uguard c)))) [ELoop (QObj (o (uguard c)))]).
Proof. exact guard_run. Qed.
Print Assumptions C10_guard_any_fuel.

(* ---- fuel sufficiency on rank-ordered tables: the side condition of C10_model_eq_ref is
   discharged.  [ranked n c root] (boolean, checked on the generated tables inside Coq): every hook
   result of an object/frame of rank < n names only items of strictly greater rank < n, next_inner
   only as last element; fuel_bound n c root = 1 + table-derived weight of the root. ---- *)
Theorem C10_fuel_sufficient : forall n c root,
  ranked n c root = true -> plain c -> forall fuel t,
  fuel_bound n c root <= fuel -> fst (run fuel false c (root_q c root) [] [] [] t) <> OutOfFuel.
Proof. exact run_total. Qed.
Print Assumptions C10_fuel_sufficient.

Theorem C10_ranked_total : forall c n root,
  plain c -> ranked n c root = true ->
  exists bound, forall fuel, bound <= fuel ->
    exists s, fst (run fuel false c (root_q c root) [] [] [] 0) = Ok s /\ Ref c [(s_of root, 0)] (view s).
Proof. exact ranked_total. Qed.
Print Assumptions C10_ranked_total.

(* extract (default fuel): unconditional model = reference whenever the bound fits, which the
   cases files check for every table the generator claims to be ranked (rank_claim_ok) *)
Theorem C10_model_eq_ref_total : forall c n root,
  plain c -> ranked n c root = true -> fuel_bound n c root <= default_fuel ->
  exists s, extract c root = Ok s /\ Ref c [(s_of root, 0)] (view s).
Proof. exact model_eq_ref_total. Qed.
Print Assumptions C10_model_eq_ref_total.

(* customize(target, elaborate=user, prune=..): the user's result is used unless it is None (PRUNE and
   the empty sequence are results, not None); otherwise PRUNE iff prune.  The cases files build the
   rows of customize()d frames with [customized], so the composition is what is compared. *)
Theorem C10_customize_compose : forall hide prune,
  (forall h, fst (customized hide prune (Some (ENone, h))) = (if prune then ESeq [] else ENone)) /\
  fst (customized hide prune None) = (if prune then ESeq [] else ENone) /\
  snd (customized hide prune None) = hide /\
  (forall l h, customized hide prune (Some (ESeq l, h)) = (ESeq l, h)) /\
  (forall i h, customized hide prune (Some (EOne (RItem i), h)) = (EOne (RItem i), h)) /\
  (forall h, customized hide prune (Some (ERaise, h)) = (ERaise, h)).
Proof. exact customized_spec. Qed.
Print Assumptions C10_customize_compose.

Theorem C10_customize_prune_exact : forall u e a cx fl ug f hide h fuel org d rest errs out t,
  let c := mkcfg u ((f, customized hide false (Some (ESeq [], h))) :: e) a cx fl [] false all_guards ug in
  nopy rest ->
  run_result_is c (run fuel false c [] ((QFr f org, d) :: rest) errs out t)
                out errs f h [] (map er_t (survivors d rest)).
Proof. exact customized_prune_exact. Qed.
Print Assumptions C10_customize_prune_exact.
