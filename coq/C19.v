(* C19 — property theorems only (proved in P_Summary.v). *)
Require Import Base M_Format M_Summary P_Format P_Summary.
From Coq Require Import NArith String.

(* show_contexts=False: one FrameSummary per non-hidden frame (all frames with
   show_hidden_frames), in order, carrying that frame's filename, lineno and function name *)
Theorem C19_no_contexts : forall sh cl s,
  summary false sh cl s = map (frame_entry cl) (filter (fun f => visb sh (f_hide f)) (s_frames s)).
Proof. exact no_contexts. Qed.
Print Assumptions C19_no_contexts.

(* show_contexts=True: per visible frame, for each visible context an entry at the with-line,
   then its inner stack (recursively, with contexts), then its child contexts (child task stacks
   contribute nothing); the frame's own entry is omitted iff its last context is exiting *)
Theorem C19_with_contexts : forall sh cl,
  (forall s, summary true sh cl s
             = flat_map (sum_frame sh cl) (filter (fun f => visb sh (f_hide f)) (s_frames s)))
  /\ (forall f, sum_frame sh cl f
                = flat_map (sum_ctx f sh cl None) (filter (fun c => visb sh (c_hide c)) (f_ctxs f))
                  ++ (if last_exiting (f_ctxs f) then [] else [frame_entry cl f]))
  /\ (forall p ov c, sum_ctx p sh cl ov c
                = if visb sh (c_hide c)
                  then ctx_entry p cl ov c
                       :: (match c_inner c with Some s => summary true sh cl s | None => [] end)
                       ++ flat_map (fun c' => sum_ctx p sh cl (Some (child_override c')) c') (child_contexts (c_kids c))
                  else []).
Proof. exact with_contexts. Qed.
Print Assumptions C19_with_contexts.

(* Whole-tree projection.  [headers_stack] lists the frame/context headers in SUMMARY order,
   [pre_stack] in FORMAT order (both skip child task stacks); [prune_stack] deletes child task
   stacks.  For every tree, with show_contexts:
   (1) the summary is, entry by entry, the FrameSummary of each header in summary order;
   (2) the format order is, top to bottom, the header lines of the text that Stack.format
       prints for the tree without its child task stacks (the skeleton read back from that text
       by C18's read_back, flattened);
   (3) removing the child task stacks does not change the summary;
   (4) summary order is a permutation of the format order minus the own headers of frames whose
       last context is exiting; C19_projection_orders says which permutation: per frame,
       contexts' headers ++ [frame header]  versus  [frame header] ++ contexts' headers,
       identical recursion everywhere else. *)
Theorem C19_projection : forall o cl t,
  show_ctx o = true ->
  let sh := show_hidden o in
  summary true sh cl t = map (entry_of cl) (headers_stack sh t)
  /\ (exists hdr sk, read_back (fmt_stack_sl o (prune_stack t)) = Some (hdr, sk)
                     /\ sk_pre_stack sk = map hdr_line (pre_stack sh t))
  /\ summary true sh cl (prune_stack t) = summary true sh cl t
  /\ Permutation.Permutation (headers_stack sh t) (filter kept (pre_stack sh t)).
Proof. exact projection. Qed.
Print Assumptions C19_projection.

Theorem C19_projection_orders : forall sh,
  (forall f, pre_frame sh f = HFrame f :: flat_map (pre_ctx sh f None) (f_ctxs f)
             /\ headers_frame sh f = flat_map (headers_ctx sh f None) (f_ctxs f)
                                     ++ (if last_exiting (f_ctxs f) then [] else [HFrame f]))
  /\ (forall p ov c,
        pre_ctx sh p ov c
        = (if visb sh (c_hide c)
           then HCtx p ov c :: (match c_inner c with Some s => pre_stack sh s | None => [] end)
                ++ flat_map (fun c' => pre_ctx sh p (Some (child_override c')) c') (child_contexts (c_kids c))
           else [])
        /\ headers_ctx sh p ov c
        = (if visb sh (c_hide c)
           then HCtx p ov c :: (match c_inner c with Some s => headers_stack sh s | None => [] end)
                ++ flat_map (fun c' => headers_ctx sh p (Some (child_override c')) c') (child_contexts (c_kids c))
           else [])).
Proof. exact order_equations. Qed.
Print Assumptions C19_projection_orders.

(* level-wise form: summary and read-back skeleton are indexed by the same visible lists *)
Theorem C19_projection_levels : forall o cl,
  show_ctx o = true ->
  (forall r fs lf er,
      let V := filter (fun f => visb (show_hidden o) (f_hide f)) fs in
      summary true (show_hidden o) cl (Stk r fs lf er) = flat_map (sum_frame (show_hidden o) cl) V
      /\ (let 'SkStack sf _ _ := sk_body o (Stk r fs lf er) in sf) = map (sk_of_frame o) V)
  /\ (forall f,
      let V := filter (fun c => visb (show_hidden o) (c_hide c)) (f_ctxs f) in
      sum_frame (show_hidden o) cl f
      = flat_map (sum_ctx f (show_hidden o) cl None) V ++ (if last_exiting (f_ctxs f) then [] else [frame_entry cl f])
      /\ (let 'SkFrame _ cx _ := sk_of_frame o f in cx) = map (sk_of_ctx o true true) V).
Proof. exact projection_levels. Qed.
Print Assumptions C19_projection_levels.

(* format_flat = header ++ rendering of the summary (hidden frames dropped, no locals) ++ leaf
   ++ error, for ANY rendering function (traceback.StackSummary.format is not modelled) *)
Theorem C19_flat : forall (render : list entry -> list text) sc s,
  format_flat render sc s
  = header_text (s_root s)
    :: (if nonempty (s_frames s) then render (summary sc false false s) else [])
    ++ flat_leaf (s_leaf s) ++ flat_err (s_err s).
Proof. exact flat_eq. Qed.
Print Assumptions C19_flat.

Definition ex_f (h : bool) (cs : list context) : frame :=
  Frm (a "f") None (Some (a "m")) (a "x.py") 3%N (a "return 1") [] h false cs.
Definition ex_c (h ex : bool) (inn : option stack) (ks : list child) : context :=
  Ctx (Some (a "T")) false ex (Some (a "v")) (Some 2%N) (Some (a "d")) (a "with t() as v:") [] [] inn ks h.
Definition ex_s : stack :=
  Stk None [ex_f true []; ex_f false [ex_c false false (Some (Stk None [ex_f false []] None None))
                                            [KCtx (ex_c true false None []); KStk (Stk None [ex_f false []] None None)];
                                      ex_c false true None []]] None None.
Example C19_projection_example :
  let o := {| M_Format.ascii := false; show_ctx := true; show_hidden := true |} in
  List.length (headers_stack true ex_s) = 5 /\ List.length (pre_stack true ex_s) = 6
  /\ List.length (filter kept (pre_stack true ex_s)) = 5
  /\ map hdr_line (pre_stack true ex_s) <> map hdr_line (headers_stack true ex_s).
Proof. vm_compute. repeat split. discriminate. Qed.

Example C19_example :
  List.length (summary false false false ex_s) = 1 /\ List.length (summary false true false ex_s) = 2
  /\ List.length (summary true false false ex_s) = 3 /\ List.length (summary true true false ex_s) = 5.
Proof. vm_compute. repeat split. Qed.
