(* C19 — property theorems only (proved in P_Summary.v). *)
Require Import Base M_Format M_Summary P_Format P_Summary.
From Coq Require Import NArith String.

(* show_contexts=False: one FrameSummary per non-hidden frame (all frames with
   show_hidden_frames), in order, carrying that frame's filename, lineno and function name *)
Theorem C19_no_contexts : forall sh cl s,
  summary false sh cl s = map (frame_entry cl) (filter (fun f => visb sh (f_hide f)) (s_frames s)).
Proof. exact no_contexts. Qed.
Print Assumptions C19_no_contexts.

(* show_contexts=True: per visible frame, for each visible context an entry at the with-line,
   then its inner stack (recursively, with contexts), then its child contexts (child task stacks
   contribute nothing); the frame's own entry is omitted iff its last context is exiting *)
Theorem C19_with_contexts : forall sh cl,
  (forall s, summary true sh cl s
             = flat_map (sum_frame sh cl) (filter (fun f => visb sh (f_hide f)) (s_frames s)))
  /\ (forall f, sum_frame sh cl f
                = flat_map (sum_ctx f sh cl None) (filter (fun c => visb sh (c_hide c)) (f_ctxs f))
                  ++ (if last_exiting (f_ctxs f) then [] else [frame_entry cl f]))
  /\ (forall p ov c, sum_ctx p sh cl ov c
                = if visb sh (c_hide c)
                  then ctx_entry p cl ov c
                       :: (match c_inner c with Some s => summary true sh cl s | None => [] end)
                       ++ flat_map (fun c' => sum_ctx p sh cl (Some (child_override c')) c') (child_contexts (c_kids c))
                  else []).
Proof. exact with_contexts. Qed.
Print Assumptions C19_with_contexts.

(* PARTIAL.  Full statement (not proved): the entry sequence of the summary equals the
   frame/context header lines of fmt, child task stacks removed, frames moved behind their
   contexts, for the whole tree.  Proved: at every level the summary and the skeleton that
   C18_roundtrip reads back from the text are indexed by the SAME list of visible frames /
   visible contexts, in the same order (the recursion into inner stacks uses the same functions). *)
Theorem C19_projection_partial : forall o cl,
  show_ctx o = true ->
  (forall r fs lf er,
      let V := filter (fun f => visb (show_hidden o) (f_hide f)) fs in
      summary true (show_hidden o) cl (Stk r fs lf er) = flat_map (sum_frame (show_hidden o) cl) V
      /\ (let 'SkStack sf _ _ := sk_body o (Stk r fs lf er) in sf) = map (sk_of_frame o) V)
  /\ (forall f,
      let V := filter (fun c => visb (show_hidden o) (c_hide c)) (f_ctxs f) in
      sum_frame (show_hidden o) cl f
      = flat_map (sum_ctx f (show_hidden o) cl None) V ++ (if last_exiting (f_ctxs f) then [] else [frame_entry cl f])
      /\ (let 'SkFrame _ cx _ := sk_of_frame o f in cx) = map (sk_of_ctx o true true) V).
Proof. exact projection_levels. Qed.
Print Assumptions C19_projection_partial.

(* format_flat = header ++ rendering of the summary (hidden frames dropped, no locals) ++ leaf
   ++ error, for ANY rendering function (traceback.StackSummary.format is not modelled) *)
Theorem C19_flat : forall (render : list entry -> list text) sc s,
  format_flat render sc s
  = header_text (s_root s)
    :: (if nonempty (s_frames s) then render (summary sc false false s) else [])
    ++ flat_leaf (s_leaf s) ++ flat_err (s_err s).
Proof. exact flat_eq. Qed.
Print Assumptions C19_flat.

Definition ex_f (h : bool) (cs : list context) : frame :=
  Frm (a "f") None (Some (a "m")) (a "x.py") 3%N (a "return 1") [] h false cs.
Definition ex_c (h ex : bool) (inn : option stack) (ks : list child) : context :=
  Ctx (Some (a "T")) false ex (Some (a "v")) (Some 2%N) (Some (a "d")) (a "with t() as v:") [] [] inn ks h.
Definition ex_s : stack :=
  Stk None [ex_f true []; ex_f false [ex_c false false (Some (Stk None [ex_f false []] None None))
                                            [KCtx (ex_c true false None []); KStk (Stk None [ex_f false []] None None)];
                                      ex_c false true None []]] None None.
Example C19_example :
  List.length (summary false false false ex_s) = 1 /\ List.length (summary false true false ex_s) = 2
  /\ List.length (summary true false false ex_s) = 3 /\ List.length (summary true true false ex_s) = 5.
Proof. vm_compute. repeat split. Qed.
