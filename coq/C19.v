(* C19 — property theorems only (proved in P_Summary.v). *)
Require Import Base M_Format M_Summary.

Theorem C19_placeholder : summary false false false (Stk None [] None None) = [].
Proof. reflexivity. Qed.
Print Assumptions C19_placeholder.
