(* P_Snapshot.v — proofs about M_Snapshot (inspect_frame's retry protocol) and M_ThreadLife
   (unwrap_thread's alive window).  Property theorems are restated in C07.v. *)
Require Import Base M_Snapshot M_ThreadLife.
From SS.gen Require Import SrcFacts.

(* ====================================================================== snapshot protocol *)
Section Snap.
  Variable c : cfg.
  (* ENVIRONMENT ASSUMPTION (compiler invariant): the depth of the value stack is a function of
     the instruction position *)
  Variable d : nat -> nat.

  (* what the target can look like while its frame is on the thread *)
  Definition wf_state (s : tstate) : Prop :=
    length (slots s) = d (lasti s) /\
    (top s = None \/ top s = Some (length (slots s))) /\
    handler_depth (tbl c) (lasti s) <= length (slots s) /\     (* exception-table depth is safe *)
    length (slots s) <= stacksize c /\
    lasti s <> ret_lasti c.                                    (* finishing changes f_lasti *)
  Definition wf_move (m : move) : Prop := match m with Goto s => wf_state s | _ => True end.
  Definition wf_env (env : env_t) : Prop := forall a p, wf_move (env a p).
  Definition wf_world (w : world) : Prop :=
    match whr w with OnThread => wf_state (cur w) | InFrameObj => cur w = done_state c end.

  (* ------------ the reference specification (written from the property text) ------------ *)
  (* a raw slot read is safe and meaningful *)
  Definition rd_ok (r : rd) : Prop :=
    r_live r = true /\                               (* not through a dangling pointer *)
    r_idx r < length (r_slots r) /\                  (* inside the valid part of the stack *)
    r_now r = r_before r /\                          (* taken while f_lasti = lasti_before *)
    r_val r = nth (r_idx r) (r_slots r) STALE.       (* hence returns the slot's real content *)

  (* a returned snapshot (L, st) is backed by the reads rs *)
  Definition consistent_snapshot (L : nat) (st : list obj) (rs : list rd) : Prop :=
    st = map r_val rs /\
    map r_idx rs = seq 0 (length st) /\
    Forall (fun r => rd_ok r /\ r_before r = L) rs /\
    (length st = d L \/ length st = handler_depth (tbl c) L \/ (st = [] /\ L = ret_lasti c)).

  Definition bal (g : ghost) : Prop := incs g = decs g + length (held g).

  (* ------------ basic facts ------------ *)
  Lemma apply_wf m w : wf_world w -> wf_move m -> wf_world (apply c m w).
  Proof.
    unfold apply, wf_world. destruct (whr w) eqn:E; intros Hw Hm.
    - destruct m; simpl; auto. rewrite E. auto.
    - rewrite E. auto.
  Qed.

  Lemma apply_whr_on m w : whr (apply c m w) = OnThread -> whr w = OnThread.
  Proof. unfold apply. destruct (whr w) eqn:E; auto. rewrite E. auto. Qed.

  Lemma wf_fo w : wf_world w -> whr w = InFrameObj -> cur w = done_state c.
  Proof. unfold wf_world. intros H E. rewrite E in H. exact H. Qed.

  Lemma wf_on w : wf_world w -> whr w = OnThread -> wf_state (cur w).
  Proof. unfold wf_world. intros H E. rewrite E in H. exact H. Qed.

  Lemma wf_lasti_on w L : wf_world w -> lasti (cur w) = L -> L <> ret_lasti c -> whr w = OnThread.
  Proof.
    intros Hw HL Hn. destruct (whr w) eqn:E; auto.
    rewrite (wf_fo w Hw E) in HL. simpl in HL. congruence.
  Qed.

  Definition len_ok (L len : nat) : Prop :=
    forall s, wf_state s -> lasti s = L -> len <= length (slots s).

  Variable env : env_t.
  Hypothesis Henv : wf_env env.
  Variable garb : garb_t.
  Hypothesis Hslot : chk_slot c = true.

  (* ------------ the slot loop ------------ *)
  Lemma slot_loop_spec a L len : L <> ret_lasti c -> len_ok L len ->
    forall idxs w g ok w' g',
    (forall i, In i idxs -> i < len) ->
    wf_world w ->
    slot_loop c env a L OnThread idxs w g = (ok, w', g') ->
    wf_world w' /\
    (ok = false -> lasti (cur w') <> L) /\
    exists rs, reads g' = reads g ++ rs /\ held g' = held g ++ map r_val rs /\
               incs g' = incs g + length rs /\ decs g' = decs g /\ nretry g' = nretry g /\
               stale_hdr g' = stale_hdr g /\
               Forall (fun r => rd_ok r /\ r_before r = L) rs /\
               (ok = true -> map r_idx rs = idxs).
  Proof.
    intros HL Hlen. induction idxs as [|i r IH]; intros w g ok w' g' Hidx Hw Hrun; simpl in Hrun.
    - inversion Hrun; subst. split; [auto|]. split; [discriminate|].
      exists []. rewrite !app_nil_r. simpl. repeat split; auto.
    - set (w1 := apply c (env a (P3 i)) w) in *.
      assert (Hw1 : wf_world w1) by (apply apply_wf; auto).
      rewrite Hslot in Hrun. simpl in Hrun.
      destruct (lasti (cur w1) =? L) eqn:E.
      + apply Nat.eqb_eq in E.
        assert (Hon : whr w1 = OnThread) by (eapply wf_lasti_on; eauto).
        assert (Hst : wf_state (cur w1)) by (apply wf_on; auto).
        assert (Hi : i < length (slots (cur w1))).
        { specialize (Hlen _ Hst E). specialize (Hidx i (or_introl eq_refl)). lia. }
        unfold is_stale in Hrun. rewrite Hon in Hrun. simpl in Hrun.
        apply Nat.ltb_lt in Hi as Hib. rewrite Hib in Hrun.
        match type of Hrun with slot_loop _ _ _ _ _ _ _ (push_read _ ?R) = _ => set (rd0 := R) in * end.
        apply IH in Hrun; auto; [| intros j Hj; apply Hidx; right; auto].
        destruct Hrun as (Hw' & Hno & rs & H1 & H2 & H3 & H4 & H5 & H6 & H7 & H8).
        split; [auto|]. split; [auto|].
        exists (rd0 :: rs). simpl in *.
        rewrite H1, H2, H3, H4, H5, H6. rewrite <- !app_assoc. simpl.
        repeat split; auto; try lia.
        * constructor; auto. unfold rd_ok, rd0; simpl. repeat split; auto.
        * intros Ht. rewrite (H8 Ht). reflexivity.
      + inversion Hrun; subst. apply Nat.eqb_neq in E.
        split; [auto|]. split; [auto|].
        exists []. rewrite !app_nil_r. simpl. repeat split; auto. discriminate.
  Qed.

  Hypothesis Hhdr : chk_hdr c = true.
  Hypothesis Hat : hdr_atomic c = true.

  Lemma is_stale_self w : is_stale (whr w) w = false.
  Proof. unfold is_stale. destruct (whr w); auto. Qed.

  Lemma bal_drop g : bal g -> bal (drop_held g).
  Proof. unfold bal, drop_held. simpl. lia. Qed.

  Definition attempt_post (w : world) (g : ghost) (ok : bool) (w' : world) (g' : ghost) (L : nat) : Prop :=
    L = lasti (cur w) /\ wf_world w' /\ stale_hdr g' = stale_hdr g /\ nretry g' = nretry g /\
    (bal g -> bal g') /\
    (if ok then lasti (cur w') = L else lasti (cur w') <> L) /\
    exists rs, reads g' = reads g ++ rs /\ Forall (fun r => rd_ok r /\ r_before r = L) rs /\
      (ok = true -> held g' = map r_val rs /\ map r_idx rs = seq 0 (length rs) /\
         (length rs = d L \/ length rs = handler_depth (tbl c) L \/ (rs = [] /\ L = ret_lasti c))).

  Ltac nil_reads := exists []; rewrite app_nil_r; split; [reflexivity|]; split; [constructor|]; discriminate.
  Ltac post_fail := split; [reflexivity|]; split; [assumption|]; split; [auto|]; split; [auto|];
                    split; [auto|]; split; [auto|].

  Lemma attempt_spec a w g ok w' g' L :
    wf_world w -> attempt c env garb a w g = (ok, w', g', L) -> attempt_post w g ok w' g' L.
  Proof.
    intros Hw Hrun. unfold attempt in Hrun. rewrite Hat, Hhdr in Hrun.
    set (w1 := apply c (env a P1) w) in *.
    assert (Hw1 : wf_world w1) by (apply apply_wf; auto).
    rewrite is_stale_self in Hrun. simpl in Hrun.
    replace (note_hdr false g) with g in Hrun by (destruct g; reflexivity).
    destruct (lasti (cur w1) =? lasti (cur w)) eqn:E1; simpl in Hrun.
    2:{ inversion Hrun; subst. apply Nat.eqb_neq in E1. post_fail. nil_reads. }

    apply Nat.eqb_eq in E1.
    destruct (whr w1) eqn:Eloc.
    - (* the frame is on its thread *)
      pose proof (wf_on _ Hw1 Eloc) as Hst.
      destruct Hst as (Hd & Htop & Hhd & Hss & Hnr).
      assert (HL : lasti (cur w) <> ret_lasti c) by congruence.
      assert (exists len, (match top (cur w1) with
                           | None => Some (handler_depth (tbl c) (lasti (cur w)))
                           | Some n => if n <=? stacksize c then Some n else None end) = Some len
                          /\ len_ok (lasti (cur w)) len
                          /\ (len = d (lasti (cur w)) \/ len = handler_depth (tbl c) (lasti (cur w)))) as (len & Elen & Hlen & Hwhich).
      { destruct Htop as [Ht|Ht]; rewrite Ht.
        - eexists; split; [reflexivity|]. split; [|right; reflexivity].
          intros s (Hs1 & Hs2 & Hs3 & _) Hs. rewrite <- Hs. exact Hs3.
        - apply Nat.leb_le in Hss as Hb. rewrite Hb. eexists; split; [reflexivity|]. split; [|left; congruence].
          intros s (Hs1 & _) Hs. rewrite Hs1, Hs, <- E1, <- Hd. lia. }
      rewrite Elen in Hrun. simpl in Hrun.
      set (w3 := apply c (env a P2) w1) in *.
      assert (Hw3 : wf_world w3) by (apply apply_wf; auto).
      destruct (lasti (cur w3) =? lasti (cur w)) eqn:E3; simpl in Hrun.
      2:{ inversion Hrun; subst. apply Nat.eqb_neq in E3. post_fail. nil_reads. }
      destruct (slot_loop c env a (lasti (cur w)) OnThread (seq 0 len) w3 (drop_held g)) as [[ok4 w4] g4] eqn:Esl.
      apply (slot_loop_spec a (lasti (cur w)) len HL Hlen) in Esl; auto.
      2:{ intros i Hi. apply in_seq in Hi. lia. }
      destruct Esl as (Hw4 & Hno & rs & H1 & H2 & H3 & H4 & H5 & H6 & H7 & H8).
      simpl in H1, H2, H3, H4, H5, H6.
      assert (Hbal : bal g -> bal g4).
      { unfold bal. intros Hb. rewrite H2, H3, H4, map_length. simpl. lia. }
      destruct ok4; simpl in Hrun.
      + set (w5 := apply c (env a P4) w4) in *.
        assert (Hw5 : wf_world w5) by (apply apply_wf; auto).
        destruct (lasti (cur w5) =? lasti (cur w)) eqn:E5; inversion Hrun; subst.
        * apply Nat.eqb_eq in E5.
          assert (Hlr : length rs = len) by (rewrite <- (map_length r_idx), (H8 eq_refl), seq_length; auto).
          post_fail; try discriminate. exists rs. split; [auto|]. split; [auto|]. intros _.
          split; [auto|]. split; [rewrite Hlr; auto|].
          destruct Hwhich; [left|right; left]; congruence.
        * apply Nat.eqb_neq in E5. post_fail. exists rs. split; [auto|]. split; [auto|]. discriminate.
      + inversion Hrun; subst. specialize (Hno eq_refl). post_fail. exists rs. split; [auto|]. split; [auto|]. discriminate.
    - (* the frame has completed: it lives in the frame object, nothing is read *)
      pose proof (wf_fo _ Hw1 Eloc) as Hdone. rewrite Hdone in Hrun. simpl in Hrun.
      unfold apply in Hrun. rewrite Eloc in Hrun. rewrite Hdone in Hrun. simpl in Hrun.
      assert (EL : ret_lasti c = lasti (cur w)) by (rewrite <- E1, Hdone; reflexivity).
      rewrite EL, Nat.eqb_refl in Hrun. simpl in Hrun. rewrite Eloc in Hrun. rewrite Hdone in Hrun. simpl in Hrun.
      rewrite EL, Nat.eqb_refl in Hrun. inversion Hrun; subst. 
      repeat split; auto; try discriminate.
      + intros Hb. apply bal_drop; auto.
      + exists []. rewrite app_nil_r. simpl. repeat split; auto.
  Qed.

  Definition run_post (g : ghost) (n : nat) (o : outcome) (g' : ghost) (w' : world) : Prop :=
    Forall rd_ok (reads g') /\ stale_hdr g' = 0 /\ wf_world w' /\
    match o with
    | OOk L st => bal g' /\ held g' = st /\ lasti (cur w') = L /\ nretry g' < nretry g + n /\
                  exists pre rs, reads g' = pre ++ rs /\ consistent_snapshot L st rs
    | OAssert => False
    | ORuntime => nretry g' = nretry g + n /\ incs g' = decs g' /\ held g' = []
    end.

  Lemma run_n_spec n : forall a w g o g' w',
    wf_world w -> bal g -> Forall rd_ok (reads g) -> stale_hdr g = 0 ->
    run_n c env garb n a w g = (o, g', w') -> run_post g n o g' w'.
  Proof.
    induction n as [|n IH]; intros a w g o g' w' Hw Hb Hr Hs Hrun; simpl in Hrun.
    - inversion Hrun; subst. unfold run_post. simpl. repeat split; auto; unfold bal in Hb; lia.
    - destruct (attempt c env garb a w g) as [[[ok w1] g1] L] eqn:Ea.
      apply attempt_spec in Ea; auto.
      destruct Ea as (EL & Hw1 & Hs1 & Hn1 & Hb1 & Hne & rs & Hrs & Hall & Hok).
      assert (Hr1 : Forall rd_ok (reads g1)).
      { rewrite Hrs. apply Forall_app. split; auto. eapply Forall_impl; [|exact Hall]. simpl. tauto. }
      destruct ok.
      + inversion Hrun; subst o g' w'. destruct (Hok eq_refl) as (Hh & Hidx & Hlen).
        unfold run_post. split; [auto|]. split; [congruence|]. split; [auto|].
        split; [auto|]. split; [auto|]. split.
        { exact Hne. }
        split; [lia|].
        exists (reads g), rs. split; [auto|]. unfold consistent_snapshot.
        rewrite Hh, map_length. split; [auto|]. split; [auto|]. split; [auto|].
        destruct Hlen as [H|[H|[H1 H2]]]; auto. right; right. subst rs. auto.
      + apply Nat.eqb_neq in Hne. rewrite Hne in Hrun.
        assert (P1 : wf_world (apply c (env a P5) w1)) by (apply apply_wf; auto).
        assert (P2 : bal (bump_retry g1)) by (unfold bal in *; simpl; auto).
        assert (P3 : Forall rd_ok (reads (bump_retry g1))) by (simpl; auto).
        assert (P4 : stale_hdr (bump_retry g1) = 0) by (simpl; congruence).
        specialize (IH _ _ _ _ _ _ P1 P2 P3 P4 Hrun).
        unfold run_post in *. simpl in IH. destruct IH as (A & B & C & D).
        split; [auto|]. split; [auto|]. split; [auto|].
        destruct o; auto.
        * destruct D as (D1 & D2 & D3 & D4 & D5). repeat split; auto. lia.
        * destruct D as (D1 & D2 & D3). repeat split; auto. lia.
  Qed.
End Snap.

(* ---------------------------------------------------------------------- top-level statements *)
Definition flags_ok (c : cfg) : Prop := chk_hdr c = true /\ chk_slot c = true /\ hdr_atomic c = true.

(* for ALL schedules env, ALL target behaviours (well-formed moves) and ALL garbage oracles *)
Lemma snapshot_consistent_or_rejected c d env garb w :
  flags_ok c -> wf_env c d env -> wf_world c d w ->
  forall o g w', run c env garb w = (o, g, w') ->
  match o with
  | OOk L st => lasti (cur w') = L /\ nretry g < retries c /\
                exists pre rs, reads g = pre ++ rs /\ consistent_snapshot c d L st rs
  | OAssert => False
  | ORuntime => nretry g = retries c
  end.
Proof.
  intros (F1 & F2 & F3) He Hw o g w' Hrun. unfold run in Hrun.
  eapply (run_n_spec c d env He garb F2 F1 F3) in Hrun; auto.
  - destruct Hrun as (_ & _ & _ & H). destruct o; auto.
    + destruct H as (_ & _ & H3 & H4 & H5). simpl in H4. auto.
    + destruct H as (H1 & _). simpl in H1. auto.
  - unfold bal. reflexivity.
  - simpl. constructor.
Qed.

Lemma reads_in_bounds c d env garb w :
  flags_ok c -> wf_env c d env -> wf_world c d w ->
  forall o g w', run c env garb w = (o, g, w') ->
  Forall rd_ok (reads g) /\ stale_hdr g = 0.
Proof.
  intros (F1 & F2 & F3) He Hw o g w' Hrun. unfold run in Hrun.
  eapply (run_n_spec c d env He garb F2 F1 F3) in Hrun; auto.
  - destruct Hrun as (A & B & _). auto.
  - unfold bal. reflexivity.
  - simpl. constructor.
Qed.

(* every reference taken by a raw read is given back once the result (or, on failure, the
   partial list) has been dropped; and the RuntimeError comes exactly after `retries` rejections *)
Lemma refs_balanced c d env garb w :
  flags_ok c -> wf_env c d env -> wf_world c d w ->
  forall o g w', run c env garb w = (o, g, w') ->
  incs (drop_held g) = decs (drop_held g).
Proof.
  intros (F1 & F2 & F3) He Hw o g w' Hrun. unfold run in Hrun.
  eapply (run_n_spec c d env He garb F2 F1 F3) in Hrun; auto.
  - destruct Hrun as (_ & _ & _ & H). destruct o.
    + destruct H as (Hb & _). unfold bal in Hb. simpl. lia.
    + contradiction.
    + destruct H as (_ & H2 & H3). simpl. rewrite H3. simpl. lia.
  - unfold bal. reflexivity.
  - simpl. constructor.
Qed.

(* ====================================================================== alive window *)
Lemma lstep_fin w e i : tlife w = Finished i -> tlife (lstep w e) = Finished i.
Proof.
  intros H. destruct e; unfold lstep, t_alive, t_live_ident; rewrite ?H; simpl; auto.
  destruct (_ || _); simpl; auto.
Qed.

Lemma lstep_alive w e i : tlife w = Alive i ->
  tlife (lstep w e) = Alive i \/ tlife (lstep w e) = Finished i.
Proof.
  intros H. destruct e; unfold lstep, t_alive, t_live_ident; rewrite ?H; simpl; auto.
  destruct (_ || _); simpl; auto.
Qed.

Lemma lsteps_fin es : forall w i, tlife w = Finished i -> tlife (lsteps w es) = Finished i.
Proof.
  induction es; intros w i H; simpl; auto. apply IHes. apply lstep_fin; auto.
Qed.

Lemma lsteps_alive es : forall w i, tlife w = Alive i ->
  tlife (lsteps w es) = Alive i \/ tlife (lsteps w es) = Finished i.
Proof.
  induction es; intros w i H; simpl; auto.
  destruct (lstep_alive w a i H) as [H1|H1].
  - apply IHes; auto.
  - right. apply lsteps_fin; auto.
Qed.

(* if unwrap_thread returns a slice for frame f, then at the instant sys._current_frames() was
   read the thread was alive and f was its own innermost frame -- for ALL event sequences in the
   three windows, including other threads that reuse idents *)
Lemma alive_window w e1 e2 e3 f w2 :
  unwrap_thread w e1 e2 e3 = (RSlice f, w2) ->
  w2 = lsteps (lsteps w e1) e2 /\ t_alive w2 = true /\ f = (0, tframe w2) /\
  t_alive (lsteps w e1) = true /\ t_alive (lsteps w2 e3) = true.
Proof.
  unfold unwrap_thread. set (w1 := lsteps w e1). set (w2' := lsteps w1 e2). set (w3 := lsteps w2' e3).
  destruct (current_frame_of_ident w2' (t_ident w2')) as [f0|] eqn:Ef; [|discriminate].
  destruct (t_alive w3) eqn:A3; simpl; [|discriminate].
  destruct (t_alive w1) eqn:A1; simpl; [|discriminate].
  intros H. inversion H; subst f0 w2. clear H.
  unfold t_alive in A1. destruct (tlife w1) as [|i|i] eqn:E1; try discriminate.
  destruct (lsteps_alive e2 w1 i E1) as [E2|E2]; fold w2' in E2.
  - split; [reflexivity|]. unfold t_alive. rewrite E2. split; [reflexivity|].
    unfold t_ident, current_frame_of_ident, t_live_ident in Ef. rewrite E2 in Ef.
    rewrite Nat.eqb_refl in Ef. inversion Ef. auto.
  - exfalso. pose proof (lsteps_fin e3 w2' i E2) as E3. fold w3 in E3.
    unfold t_alive in A3. rewrite E3 in A3. discriminate.
Qed.

(* a thread that has not started, or has finished, when unwrap_thread looks at it yields no frames;
   so does one that finishes before the final is_alive() *)
Lemma not_alive_empty w e1 e2 e3 :
  t_alive (lsteps w e1) = false \/ t_alive (lsteps (lsteps (lsteps w e1) e2) e3) = false ->
  fst (unwrap_thread w e1 e2 e3) = REmpty.
Proof.
  unfold unwrap_thread. intros H.
  destruct (current_frame_of_ident _ _); simpl; auto.
  destruct H as [H|H]; rewrite H; simpl; auto.
  rewrite orb_true_r. reflexivity.
Qed.

Lemma never_started_empty w e1 e2 e3 :
  tlife w = NotStarted -> (forall i, ~ In (EStart i) (e1 ++ e2 ++ e3)) ->
  fst (unwrap_thread w e1 e2 e3) = REmpty.
Proof.
  intros H Hn. apply not_alive_empty. left.
  assert (G : forall es w, tlife w = NotStarted -> (forall i, ~ In (EStart i) es) -> tlife (lsteps w es) = NotStarted).
  { induction es as [|e es IH]; intros w0 H0 Hes; simpl; auto. apply IH.
    - destruct e; unfold lstep, t_alive, t_live_ident; rewrite ?H0; simpl; auto.
      + exfalso. apply (Hes i). left; auto.
      + destruct (_ || _); simpl; auto.
    - intros i Hi. apply (Hes i). right; auto. }
  unfold t_alive. rewrite G; auto. intros i Hi. apply (Hn i). apply in_or_app. auto.
Qed.

Lemma finished_empty w e1 e2 e3 i :
  tlife w = Finished i -> fst (unwrap_thread w e1 e2 e3) = REmpty.
Proof.
  intros H. apply not_alive_empty. left. unfold t_alive. rewrite (lsteps_fin e1 w i H). reflexivity.
Qed.

(* the final is_alive() is what protects against ident reuse: without it a finished thread whose
   ident went to another thread would be reported with that other thread's frame *)
Definition unwrap_thread_no_recheck (w : lworld) (e1 e2 : list levent) : lres :=
  let w1 := lsteps w e1 in
  let w2 := lsteps w1 e2 in
  match current_frame_of_ident w2 (t_ident w2) with
  | None => REmpty
  | Some f => if negb (t_alive w1) then REmpty else RSlice f
  end.
Lemma recheck_needed :
  unwrap_thread_no_recheck (mkL NotStarted 0 []) [EStart 7] [EFinish; OStart 1 7 0] = RSlice (1, 0)
  /\ fst (unwrap_thread (mkL NotStarted 0 []) [EStart 7] [EFinish; OStart 1 7 0] []) = REmpty.
Proof. split; reflexivity. Qed.

(* ====================================================================== instantiation on /repo *)
(* the routine as it is in /repo now: retry bound and structure regenerated from the source *)
Definition the_xcfg (t : list (nat * nat * nat)) (tg : list nat) (ssize rl : nat) : cfg :=
  mkC t ssize SrcFacts.snapshot_retries rl
      SrcFacts.snapshot_header_check_adjacent SrcFacts.snapshot_slot_check_adjacent
      SrcFacts.snapshot_capture_to_check_no_call tg SrcFacts.snapshot_blocks_from_accepted.
Definition the_cfg (t : list (nat * nat * nat)) (ssize rl : nat) : cfg := the_xcfg t [] ssize rl.

(* fails to type-check as soon as one of the three structural facts is false *)
Lemma the_flags t ssize rl : flags_ok (the_cfg t ssize rl).
Proof. repeat split; reflexivity. Qed.

Lemma the_retries t ssize rl : retries (the_cfg t ssize rl) = 10.
Proof. reflexivity. Qed.

Lemma C07_consistent_inst : forall t ssize rl d env garb w,
  wf_env (the_cfg t ssize rl) d env -> wf_world (the_cfg t ssize rl) d w ->
  forall o g w', run (the_cfg t ssize rl) env garb w = (o, g, w') ->
  match o with
  | OOk L st => lasti (cur w') = L /\ nretry g < 10 /\
                exists pre rs, reads g = pre ++ rs /\ consistent_snapshot (the_cfg t ssize rl) d L st rs
  | OAssert => False
  | ORuntime => nretry g = 10
  end.
Proof.
  intros. pose proof (snapshot_consistent_or_rejected _ d env garb w (the_flags t ssize rl) H H0 o g w' H1) as P.
  rewrite the_retries in P. exact P.
Qed.

Lemma C07_reads_inst : forall t ssize rl d env garb w,
  wf_env (the_cfg t ssize rl) d env -> wf_world (the_cfg t ssize rl) d w ->
  forall o g w', run (the_cfg t ssize rl) env garb w = (o, g, w') ->
  Forall rd_ok (reads g) /\ stale_hdr g = 0.
Proof. intros. eapply reads_in_bounds; eauto. apply the_flags. Qed.

Lemma C07_refs_inst : forall t ssize rl d env garb w,
  wf_env (the_cfg t ssize rl) d env -> wf_world (the_cfg t ssize rl) d w ->
  forall o g w', run (the_cfg t ssize rl) env garb w = (o, g, w') ->
  incs (drop_held g) = decs (drop_held g).
Proof. intros. eapply refs_balanced; eauto. apply the_flags. Qed.

Lemma C07_structure_inst :
  SrcFacts.snapshot_iframe_reads_in_loop = true /\
  SrcFacts.snapshot_handler_retries_only_if_moved = true /\
  SrcFacts.snapshot_stack_reset_in_attempt = true /\
  SrcFacts.snapshot_check_read_no_switch_bytecode = true /\
  SrcFacts.thread_alive_rechecked = true /\
  SrcFacts.trickery_failure_guarded = true.
Proof. repeat split; reflexivity. Qed.

(* ---- the hypotheses are met by a non-trivial input: a target with two positions (depth 1 at
   lasti 10 suspended in a call, depth 3 at lasti 20 executing inside a handler region of depth 2)
   that moves while it is inspected, and then returns *)
Definition ex_tbl := [(16, 30, 2)].
Definition ex_cfg := the_cfg ex_tbl 8 40.
Definition ex_d (l : nat) : nat := if l =? 10 then 1 else if l =? 20 then 3 else 0.
Definition ex_s1 := mkT 10 (Some 1) [5].
Definition ex_s2 := mkT 20 None [6; 7; 8].
Definition ex_env : env_t := env_of [(0, P1, Goto ex_s2); (1, P3 1, Goto ex_s1); (2, P3 0, Ret)].
Definition ex_w := mkW ex_s1 OnThread.

Example ex_wf_world : wf_world ex_cfg ex_d ex_w.
Proof. unfold wf_world, wf_state; simpl. repeat split; auto; try lia. Qed.

Example ex_wf_env : wf_env ex_cfg ex_d ex_env.
Proof.
  intros a p. unfold ex_env, env_of.
  repeat match goal with |- wf_move _ _ (if ?b then _ else _) => destruct b end;
  unfold wf_move, wf_state; simpl; repeat split; auto; try lia.
Qed.

Example ex_run_nontrivial :
  let '(o, g, _) := run ex_cfg ex_env no_garbage ex_w in
  o = OOk 40 [] /\ nretry g = 3 /\ length (reads g) = 1 /\ incs g = 1 /\ decs g = 1.
Proof. vm_compute. repeat split; reflexivity. Qed.

Example ex_run_quiet :
  let '(o, g, _) := run ex_cfg (fun _ _ => Stay) no_garbage (mkW ex_s2 OnThread) in
  o = OOk 20 [6; 7] /\ nretry g = 0.
Proof. vm_compute. split; reflexivity. Qed.

(* what the two fixes of this build phase protect against (the flags are what SrcFacts
   regenerates): without the header re-check an A-B-A move of the target pairs lasti 10
   (depth 1) with the stack length of lasti 20 ... *)
Definition ex_s2' := mkT 20 (Some 3) [6; 7; 8].
Example ex_F13_without_header_check :
  let c := mkC ex_tbl 8 10 40 false true true [] true in
  let '(o, g, _) := run c (env_of [(0, P1, Goto ex_s2'); (0, P2, Goto ex_s1)]) no_garbage ex_w in
  o = OOk 10 [5; STALE; STALE] /\ nretry g = 0.
Proof. vm_compute. split; reflexivity. Qed.
(* ... and with a switch point between pointer capture and header read a returning frame leaves
   the header reads with a dangling pointer *)
Example ex_F15_without_atomic_capture :
  let c := mkC ex_tbl 8 10 40 true true false [] true in
  let '(_, g, _) := run c (env_of [(0, P1b, Ret)]) no_garbage ex_w in
  stale_hdr g = 1.
Proof. vm_compute. reflexivity. Qed.

Example ex_life_hyp :
  unwrap_thread (mkL NotStarted 0 []) [EStart 7; EStep 2] [OStart 1 8 0; EStep 3] [OFinish 8; EStep 4]
  = (RSlice (0, 3), mkL (Alive 7) 3 [(8, (1, 0))]).
Proof. reflexivity. Qed.

(* ====================================================================== exact when blocked *)
Lemma map_nth_seq_firstn {A} (dflt : A) : forall (l : list A) len, len <= length l ->
  map (fun i => nth i l dflt) (seq 0 len) = firstn len l.
Proof.
  induction l as [|x l IH]; intros [|len] H; simpl in *; auto; try lia.
  f_equal. rewrite <- seq_shift, map_map. simpl. apply IH. lia.
Qed.

Definition quiet : env_t := fun _ _ => Stay.

Lemma apply_stay c w : apply c Stay w = w.
Proof. unfold apply. destruct (whr w); reflexivity. Qed.

Lemma slot_loop_quiet c a : chk_slot c = true ->
  forall idxs w g, whr w = OnThread ->
  (forall i, In i idxs -> i < length (slots (cur w))) ->
  exists g', slot_loop c quiet a (lasti (cur w)) OnThread idxs w g = (true, w, g') /\
             held g' = held g ++ map (fun i => nth i (slots (cur w)) STALE) idxs /\
             nretry g' = nretry g /\ length (reads g') = length (reads g) + length idxs.
Proof.
  intros Hs. induction idxs as [|i r IH]; intros w g Hon Hidx; simpl.
  - exists g. rewrite app_nil_r. repeat split; auto.
  - assert (Eq : apply c (quiet a (P3 i)) w = w) by apply apply_stay.
    rewrite !Eq, Hs, Nat.eqb_refl. simpl.
    unfold is_stale. rewrite Hon. simpl.
    assert (Hi : i < length (slots (cur w))) by (apply Hidx; left; auto).
    apply Nat.ltb_lt in Hi. rewrite Hi.
    match goal with |- context [push_read g ?R] => set (rd0 := R) end.
    destruct (IH w (push_read g rd0) Hon) as (g' & E & H1 & H2 & H3).
    { intros j Hj. apply Hidx. right; auto. }
    exists g'. split; [exact E|]. simpl in H1, H2, H3. rewrite H1, H2, H3, app_length. simpl.
    rewrite <- app_assoc. simpl. repeat split; auto. lia.
Qed.

(* For a target that never moves, for ALL positions and stacks: the FIRST attempt is accepted, no
   retry happens, and the snapshot is the target's value stack -- all of it (= depth(L) slots) if the
   frame is suspended in a call, its prefix at the enclosing handler's depth if it is executing. *)
Lemma blocked_exact c d garb s :
  flags_ok c -> 0 < retries c -> wf_state c d s ->
  let len := match top s with None => handler_depth (tbl c) (lasti s) | Some n => n end in
  exists g, run c quiet garb (mkW s OnThread) = (OOk (lasti s) (firstn len (slots s)), g, mkW s OnThread)
            /\ nretry g = 0 /\ length (reads g) = len
            /\ (top s <> None -> firstn len (slots s) = slots s /\ len = d (lasti s)).
Proof.
  intros (F1 & F2 & F3) Hr (Hd & Htop & Hhd & Hss & Hnr) len.
  assert (Hlen : len <= length (slots s)).
  { unfold len. destruct Htop as [E|E]; rewrite E; auto. }
  assert (Hsz : match top s with None => Some (handler_depth (tbl c) (lasti s))
                | Some n => if n <=? stacksize c then Some n else None end = Some len).
  { unfold len. destruct Htop as [E|E]; rewrite E; auto. apply Nat.leb_le in Hss. rewrite Hss. auto. }
  destruct (slot_loop_quiet c 0 F2 (seq 0 len) (mkW s OnThread) (drop_held g0) eq_refl) as (g' & E & H1 & H2 & H3).
  { intros i Hi. apply in_seq in Hi. simpl. lia. }
  simpl in E, H1, H2, H3.
  exists g'. unfold run. destruct (retries c) as [|n]; [lia|].
  assert (Eq : forall p w, apply c (quiet 0 p) w = w) by (intros; apply apply_stay).
  simpl. unfold attempt. rewrite F1, F3. rewrite ?Eq.
  rewrite is_stale_self. simpl. rewrite ?Nat.eqb_refl. simpl. rewrite Hsz.
  rewrite ?Eq. simpl. rewrite ?Nat.eqb_refl. simpl.
  replace (note_hdr false g0) with g0 by reflexivity.
  rewrite E. simpl. rewrite ?Eq. simpl. rewrite ?Nat.eqb_refl.
  rewrite H1. rewrite map_nth_seq_firstn by exact Hlen.
  split; [reflexivity|]. split; [auto|]. split; [rewrite H3, seq_length; auto|].
  intros Hne. destruct Htop as [E0|E0]; [contradiction|].
  unfold len. rewrite E0. split; [apply firstn_all|auto].
Qed.

Lemma C07_blocked_inst : forall t ssize rl d garb s,
  wf_state (the_cfg t ssize rl) d s ->
  let len := match top s with None => handler_depth t (lasti s) | Some n => n end in
  exists g, run (the_cfg t ssize rl) quiet garb (mkW s OnThread)
              = (OOk (lasti s) (firstn len (slots s)), g, mkW s OnThread)
            /\ nretry g = 0 /\ length (reads g) = len
            /\ (top s <> None -> firstn len (slots s) = slots s /\ len = d (lasti s)).
Proof.
  intros. apply (blocked_exact (the_cfg t ssize rl) d garb s (the_flags t ssize rl)); auto.
  rewrite the_retries. lia.
Qed.

Example ex_blocked_hyp : wf_state ex_cfg ex_d ex_s2 /\ wf_state ex_cfg ex_d ex_s1.
Proof. unfold wf_state; simpl. repeat split; auto; try lia. Qed.

(* ====================================================================== 3.8-3.10 reader *)
Require Import M_Snapshot310.

Definition deref_index (r : rawread) : option nat := match r with RDeref i _ => Some i | RWord _ => None end.

Lemma deref_from_bound : forall ws i vs rs, deref_from i ws = (vs, rs) ->
  length vs = length ws /\
  Forall (fun r => match r with RDeref j a => i <= j < i + length ws /\ a <> 0 | RWord _ => False end) rs.
Proof.
  induction ws as [|a r IH]; intros i vs rs H; simpl in H.
  - inversion H; subst. split; auto.
  - destruct (deref_from (S i) r) as [vs' rs'] eqn:E. destruct (IH _ _ _ E) as (Hl & Hf).
    assert (Hf' : Forall (fun r0 => match r0 with RDeref j a0 => i <= j < i + length (a :: r) /\ a0 <> 0 | RWord _ => False end) rs').
    { eapply Forall_impl; [|exact Hf]. intros [j|j b]; simpl; auto. intros [? ?]. split; auto. lia. }
    destruct (a =? 0) eqn:Ea; inversion H; subst; simpl; split; auto.
    constructor; auto. apply Nat.eqb_neq in Ea. simpl. split; auto. lia.
Qed.

Lemma validity_limit_le (bs : list blk) n :
  (forall b, In b bs -> b_level b <= n) -> validity_limit bs <= n.
Proof.
  unfold validity_limit, finally_blocks. induction bs as [|b r IH]; intros H; simpl; [lia|].
  destruct (b_type b =? SETUP_FINALLY); simpl.
  - apply Nat.max_lub; [apply H; left; auto | apply IH; intros; apply H; right; auto].
  - apply IH; intros; apply H; right; auto.
Qed.

(* every raw dereference made by the 3.8-3.10 reader is of a word below stack_validity_limit (the
   highest level of an active finally/with block); a suspended frame is never dereferenced raw; all
   word reads stay inside the co_stacksize area; and if, as CPython guarantees, no active block was
   set up above the current stack depth, every dereferenced word is a live stack slot *)
Lemma py310_reads_below_limit f vs bl rds :
  inspect310 f = Some (vs, bl, rds) ->
  Forall (fun r => match r with
                   | RWord i => i < length (f_mem f)
                   | RDeref i a => f_running f = true /\ i < validity_limit (f_blocks f) /\ a <> 0 /\
                                   ((forall b, In b (f_blocks f) -> b_level b <= f_depth f) -> i < f_depth f)
                   end) rds.
Proof.
  unfold inspect310. set (top := if f_running f then length (f_mem f) else f_depth f).
  destruct (top <=? length (f_mem f)) eqn:Et; simpl; [|discriminate]. apply Nat.leb_le in Et.
  destruct (forallb _ (f_blocks f)) eqn:Eb; simpl; [|discriminate].
  assert (Hw : Forall (fun r => match r with RWord i => i < length (f_mem f) | RDeref _ _ => False end)
                      (map RWord (seq 0 top))).
  { apply Forall_forall. intros r Hr. apply in_map_iff in Hr. destruct Hr as (i & Hi1 & Hi). subst r. apply in_seq in Hi. lia. }
  destruct (f_running f) eqn:Er.
  - destruct (deref_from 0 (firstn (validity_limit (f_blocks f)) (firstn top (f_mem f)))) as [vs' ds] eqn:Ed.
    intros H. inversion H; subst. apply Forall_app. split.
    + eapply Forall_impl; [|exact Hw]. intros [i|i a]; simpl; auto. contradiction.
    + destruct (deref_from_bound _ _ _ _ Ed) as (_ & Hd).
      eapply Forall_impl; [|exact Hd]. intros [i|i a]; simpl; [intros []|]. intros [Hi Ha].
      rewrite firstn_length in Hi. split; auto. split; [lia|]. split; auto.
      intros Hlev. pose proof (validity_limit_le (f_blocks f) (f_depth f) Hlev). lia.
  - intros H. inversion H; subst.
    eapply Forall_impl; [|exact Hw]. intros [i|i a]; simpl; auto. contradiction.
Qed.

Definition ex_f310 := mkF true 3 [11; 12; 13; 99; 0] [mkB 122 40 1; mkB 120 7 2; mkB 122 60 2] [].
Example ex_py310 :
  inspect310 ex_f310 = Some ([Some 11; Some 12], [(40, 1); (60, 2)],
                             [RWord 0; RWord 1; RWord 2; RWord 3; RWord 4; RDeref 0 11; RDeref 1 12])
  /\ (forall b, In b (f_blocks ex_f310) -> b_level b <= f_depth ex_f310).
Proof. split; [reflexivity|]. simpl. intros b [<-|[<-|[<-|[]]]]; simpl; lia. Qed.

(* ====================================================================== FrameDetails.blocks *)
(* The blocks that inspect_frame returns are computed from the ACCEPTED position: whatever the target
   does at switch point P6 (between acceptance and the walk over the exception table) or anywhere
   else, the position handed to the walk is the lasti_before of the accepted attempt, the blocks are
   those of that position, and the stack is the consistent snapshot of the same position. *)
Lemma blocks_of_accepted c d env garb w :
  flags_ok c -> blk_from_accepted c = true -> wf_env c d env -> wf_world c d w ->
  forall L st g w6 bp bl, inspect c env garb w = (OOk L st, g, w6, (bp, bl)) ->
  bp = L /\ bl = blocks_at c L /\
  exists pre rs, reads g = pre ++ rs /\ consistent_snapshot c d L st rs.
Proof.
  intros Hf Hb He Hw L st g w6 bp bl H. unfold inspect in H.
  destruct (run c env garb w) as [[o g'] w'] eqn:Er.
  pose proof (snapshot_consistent_or_rejected c d env garb w Hf He Hw o g' w' Er) as P.
  destruct o; try discriminate. rewrite Hb in H. inversion H; subst.
  split; [reflexivity|]. split; [reflexivity|]. destruct P as (_ & _ & P). exact P.
Qed.

Lemma the_xflags t tg ssize rl : flags_ok (the_xcfg t tg ssize rl) /\ blk_from_accepted (the_xcfg t tg ssize rl) = true.
Proof. repeat split; reflexivity. Qed.

Lemma C07_blocks_inst : forall t tg ssize rl d env garb w,
  wf_env (the_xcfg t tg ssize rl) d env -> wf_world (the_xcfg t tg ssize rl) d w ->
  forall L st g w6 bp bl, inspect (the_xcfg t tg ssize rl) env garb w = (OOk L st, g, w6, (bp, bl)) ->
  bp = L /\ bl = blocks_at (the_xcfg t tg ssize rl) L /\
  exists pre rs, reads g = pre ++ rs /\ consistent_snapshot (the_xcfg t tg ssize rl) d L st rs.
Proof.
  intros. destruct (the_xflags t tg ssize rl) as (Hf & Hb).
  eapply blocks_of_accepted; eauto.
Qed.

(* hypotheses met by a non-trivial input: accepted at lasti 20 (inside the handler range 16..30 whose
   handler is at 50, itself covered by 44..60 -> 70), the target leaves for lasti 10 at P6 *)
Definition ex_xcfg := the_xcfg [(16, 30, 2); (44, 60, 1)] [50; 70] 8 40.
Example ex_blocks :
  inspect ex_xcfg (env_of [(0, P6, Goto ex_s1)]) no_garbage (mkW ex_s2 OnThread)
  = (OOk 20 [6; 7], mkG [6; 7] 2 0 [mkRd 0 true [6;7;8] 20 20 6; mkRd 1 true [6;7;8] 20 20 7] 0 0,
     mkW ex_s1 OnThread, (20, [(70, 1); (50, 2)])).
Proof. reflexivity. Qed.
(* what the re-read of f_lasti would do (flag off): A's stack with B's (here: no) blocks *)
Example ex_blocks_from_fresh_lasti :
  let c := mkC [(16, 30, 2); (44, 60, 1)] 8 10 40 true true true [50; 70] false in
  snd (inspect c (env_of [(0, P6, Goto ex_s1)]) no_garbage (mkW ex_s2 OnThread)) = (10, []).
Proof. reflexivity. Qed.

(* ====================================================================== searching other threads *)
From Coq Require Import Permutation.

Definition hit (me outer : nat) (p : nat * tstack) : Prop := fst p <> me /\ try_from outer (snd p) <> [].
(* frames are exclusive to one stack, so any two other threads on whose stack `outer` is found
   yield the same frames (in reality there is at most one) *)
Definition hits_agree (me outer : nat) (ths : list (nat * tstack)) : Prop :=
  forall p q, In p ths -> In q ths -> hit me outer p -> hit me outer q ->
              try_from outer (snd p) = try_from outer (snd q).

Lemma search_cases me outer ths :
  (search_others me outer ths = [] /\ forall p, In p ths -> ~ hit me outer p) \/
  (exists p, In p ths /\ hit me outer p /\ search_others me outer ths = try_from outer (snd p)).
Proof.
  induction ths as [|[i st] r IH]; simpl.
  - left. split; auto.
  - destruct (i =? me) eqn:E.
    + apply Nat.eqb_eq in E. destruct IH as [[H1 H2]|(p & Hp & Hh & Hs)].
      * left. split; auto. intros p [<-|Hp]; [|auto]. intros [Hne _]. simpl in Hne. congruence.
      * right. exists p. auto.
    + apply Nat.eqb_neq in E. destruct (try_from outer st) as [|f fs] eqn:Et.
      * destruct IH as [[H1 H2]|(p & Hp & Hh & Hs)].
        -- left. split; auto. intros p [<-|Hp]; [|auto]. intros [_ Hne]. simpl in Hne. congruence.
        -- right. exists p. auto.
      * right. exists (i, st). split; [left; auto|]. split; [|simpl; auto].
        split; simpl; auto. rewrite Et. discriminate.
Qed.

(* the result of the search depends neither on the order in which sys._current_frames() lists the
   threads nor, in particular, on where the caller's own entry sits in it *)
Lemma search_order_independent me outer ths ths' :
  Permutation ths ths' -> hits_agree me outer ths ->
  search_others me outer ths = search_others me outer ths'.
Proof.
  intros HP Ha.
  destruct (search_cases me outer ths) as [[H1 H2]|(p & Hp & Hh & Hs)];
  destruct (search_cases me outer ths') as [[H1' H2']|(q & Hq & Hh' & Hs')].
  - congruence.
  - exfalso. apply (H2 q); auto. eapply Permutation_in; [apply Permutation_sym; exact HP|exact Hq].
  - exfalso. apply (H2' p); auto. eapply Permutation_in; eauto.
  - rewrite Hs, Hs'. apply Ha; auto. eapply Permutation_in; [apply Permutation_sym; exact HP|exact Hq].
Qed.

Lemma search_skips_caller me outer s a : forall b,
  search_others me outer (a ++ (me, s) :: b) = search_others me outer (a ++ b).
Proof.
  induction a as [|[i st] a IH]; intros b; simpl.
  - rewrite Nat.eqb_refl. reflexivity.
  - rewrite IH. reflexivity.
Qed.

Lemma try_from_acc_split outer inner rest : ~ In outer inner -> forall acc,
  try_from_acc outer (inner ++ outer :: rest) acc = outer :: rev inner ++ acc.
Proof.
  induction inner as [|f inner IH]; intros Hn acc; simpl.
  - rewrite Nat.eqb_refl. reflexivity.
  - destruct (f =? outer) eqn:E.
    + apply Nat.eqb_eq in E. exfalso. apply Hn. left; auto.
    + rewrite IH by (intros H; apply Hn; right; auto). rewrite <- app_assoc. reflexivity.
Qed.

(* exactness: if `outer` is not on the caller's own stack and some OTHER thread has it on its stack,
   with the frames `inner` inside it, the result is exactly outer followed by those frames, outermost
   first, without error -- wherever that thread and the caller are listed *)
Lemma search_exact me outer own ths i inner rest :
  try_from outer own = [] -> hits_agree me outer ths ->
  In (i, inner ++ outer :: rest) ths -> i <> me -> ~ In outer inner ->
  unwrap_outer me outer own ths = (outer :: rev inner, false).
Proof.
  intros Hown Ha Hin Hne Hno. unfold unwrap_outer. rewrite Hown.
  assert (Ht : try_from outer (inner ++ outer :: rest) = outer :: rev inner).
  { unfold try_from. rewrite try_from_acc_split by auto. rewrite app_nil_r. reflexivity. }
  destruct (search_cases me outer ths) as [[H1 H2]|(p & Hp & Hh & Hs)].
  - exfalso. apply (H2 _ Hin). split; simpl; auto. rewrite Ht. discriminate.
  - rewrite Hs. rewrite (Ha p (i, inner ++ outer :: rest)); auto.
    + simpl. rewrite Ht. reflexivity.
    + split; simpl; auto. rewrite Ht. discriminate.
Qed.

(* hypotheses met by a non-trivial input: caller 2 listed first (newest), the frame 13 runs on the
   older thread 1; thread 3 and the main thread 0 hold other frames *)
Definition ex_ths : list (nat * tstack) := [(2, [25; 24]); (3, [31; 30]); (1, [15; 14; 13; 12; 11]); (0, [5; 4])].
Example ex_search :
  hits_agree 2 13 ex_ths /\ unwrap_outer 2 13 [25; 24] ex_ths = ([13; 14; 15], false)
  /\ unwrap_outer 2 13 [25; 24] (rev ex_ths) = ([13; 14; 15], false)
  /\ unwrap_outer 2 99 [25; 24] ex_ths = ([99], true).
Proof.
  split; [|repeat split; reflexivity].
  intros p q Hp Hq [_ H1] [_ H2]. simpl in Hp, Hq.
  destruct Hp as [<-|[<-|[<-|[<-|[]]]]]; destruct Hq as [<-|[<-|[<-|[<-|[]]]]]; simpl in *;
    try reflexivity; try (exfalso; apply H1; reflexivity); try (exfalso; apply H2; reflexivity).
Qed.
