(* M_Greenlet.v -- executable model of stackscope._glue.glue_greenlet.unwrap_greenlet (CPython
   path) on top of M_Slice: the greenlet is unwrapped to a StackSlice, which extract() then
   unwraps with unwrap_stackslice in the asker's world.  Definitions only. *)
From Coq Require Import ZArith String.
Require Import Base M_Slice.

(* what unwrap_greenlet can see of the greenlet it is asked about *)
Record glet := {
  g_frame : option nat;            (* glet.gr_frame *)
  g_active : bool;                 (* bool(glet): started and not dead *)
  g_current : bool;                (* glet is greenlet.getcurrent() *)
  g_parent : option (option nat)   (* None: glet.parent is None; Some fr: glet.parent.gr_frame *)
}.

Inductive gres :=
  | GEmpty                         (* `return []`: no frames, no error *)
  | GRaise                         (* RuntimeError("... running in another thread") *)
  | GAssert                        (* get_true_caller's assert *)
  | GSlice (r : sres).             (* StackSlice(outer, inner) handed to unwrap_stackslice *)

(* `while outer.f_back is not stop and outer.f_back is not None: outer = outer.f_back` *)
Fixpoint walk_to (stop : option nat) (cur : nat) (rest : list nat) : nat :=
  match rest with
  | [] => cur
  | y :: r => if option_eqb Nat.eqb (Some y) stop then cur else walk_to stop y r
  end.

Definition unwrap_greenlet (w : world) (g : glet) : gres :=
  match g_frame g with
  | None =>
      if negb (g_active g) then GEmpty
      else if negb (g_current g) then GRaise
      else match true_caller w with
           | None => GAssert
           | Some tc =>
               let outer :=
                 match g_parent g with
                 | None => None
                 | Some pf => Some (walk_to pf tc (tl (chain_from w tc)))
                 end in
               GSlice (unwrap_stackslice w {| s_outer := outer; s_inner := Some tc; s_limit := None |})
           end
  | Some fr =>
      let outer := walk_to None fr (tl (chain_from w fr)) in
      GSlice (unwrap_stackslice w {| s_outer := Some outer; s_inner := Some fr; s_limit := None |})
  end.

Definition gres_eqb (a b : gres) : bool :=
  match a, b with
  | GEmpty, GEmpty | GRaise, GRaise | GAssert, GAssert => true
  | GSlice x, GSlice y => sres_eqb x y
  (* an AssertionError of get_true_caller looks the same from either call site *)
  | GAssert, GSlice SAssert | GSlice SAssert, GAssert => true
  | _, _ => false
  end.

(* one case = the asker's world and a batch of greenlets with the observed results *)
Definition glet_case := (world * list (glet * gres))%type.
Definition gquery_ok (w : world) (q : glet * gres) : bool := gres_eqb (unwrap_greenlet w (fst q)) (snd q).
Definition gcase_ok (c : glet_case) : bool := forallb (gquery_ok (fst c)) (snd c).
Definition gmismatches (cases : list glet_case) : list nat := false_indices 0 (map gcase_ok cases).
Definition gquery_nontrivial (w : world) (q : glet * gres) : bool :=
  match unwrap_greenlet w (fst q) with
  | GSlice (SFrames l) => 2 <=? length l
  | GRaise => true
  | _ => false
  end.
Definition gcount_nontrivial (cases : list glet_case) : nat :=
  count_true (map (fun c : glet_case => existsb (gquery_nontrivial (fst c)) (snd c)) cases).

(* a history: the same greenlet objects inspected at several moments; every round is compared
   with the model on the world and the greenlet attributes as they are then *)
Definition ghist_case := list glet_case.
Definition ghist_ok (h : ghist_case) : bool := forallb gcase_ok h.
Definition ghist_mismatches (cases : list ghist_case) : list nat := false_indices 0 (map ghist_ok cases).
Definition ghist_nontrivial (cases : list ghist_case) : nat :=
  count_true (map (fun h : ghist_case => (2 <=? length h)
                     && existsb (fun c : glet_case => existsb (gquery_nontrivial (fst c)) (snd c)) h) cases).
