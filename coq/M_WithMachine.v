(* M_WithMachine.v — the "with-machine": an abstract machine for the part of CPython 3.12
   bytecode semantics that the with / async with protocol depends on (DESIGN.md Appendix B).
   It tracks, for a single frame, the program counter, the value stack as *tags* (is this
   slot the bound __exit__ of the manager entered at site s? a pending __aenter__/__aexit__
   awaitable?) and the ground truth: which managers this frame has entered and not yet
   exited, in order, and in which phase of the protocol each one is.

   One transfer function [trans], polymorphic in the type [I] of manager instances, so that
   the concrete machine (I = nat, arbitrary fresh instance per BEFORE_WITH) and the abstract
   one used by certificates (I = unit) are the same definition.  Definitions only.

   THIS FILE IS A MODEL OF CPYTHON (trusted base): it is validated, not verified — by the
   runtime ground-truth legs and by checking every generated / standard-library code object
   against it (a code object the machine cannot explain is reported). *)
Require Import Base M_Bytecode M_Analysis.

Section Machine.
Variable I : Type.
Notation val := (val I).
Notation tent := (tent I).

Record state := { pc : nat; stack : list val; truth : list tent }.   (* stack: TOP FIRST *)

Definition is_VO (v : val) : bool := match v with VO => true | _ => false end.
Definition all_VO (l : list val) : bool := forallb is_VO l.

Definition is_active (e : tent) : bool := phase_eqb (t_phase e) Active.
Definition find_site (s : nat) (tr : list tent) : option tent := find (fun e => t_site e =? s) tr.
Definition set_phase (s : nat) (ph : phase) (tr : list tent) : list tent :=
  map (fun e => if t_site e =? s
                then {| t_site := t_site e; t_inst := t_inst e; t_async := t_async e; t_phase := ph |}
                else e) tr.
Definition remove_site (s : nat) (tr : list tent) : list tent :=
  filter (fun e => negb (t_site e =? s)) tr.

(* the awaited __aenter__ / __aexit__ has completed *)
Definition event (recv : val) (tr : list tent) : list tent :=
  match recv with
  | VEA s _ => set_phase s Active tr
  | VXA s _ => remove_site s tr
  | _ => tr
  end.

Definition mk (p : nat) (st : list val) (tr : list tent) : state :=
  {| pc := p; stack := st; truth := tr |}.

(* exceptional edge: unwind to the handler's depth, push lasti (if asked) and the exception.
   A manager whose __enter__/__exit__ call is what raised is neither entered nor still
   exiting afterwards ([keep] = false); a throw() into a suspended await keeps the phases,
   CLEANUP_THROW decides.  None = the table asks for more slots than there are. *)
Definition exc_edge (t : table) (keep : bool) (p : nat) (st : list val) (tr : list tent)
  : option (list state) :=
  match lookup_h t p with
  | None => Some []
  | Some h =>
      if h_depth h <=? length st
      then Some [mk (h_target h)
                    (VO :: (if h_lasti h then [VO] else []) ++ keep_bottom (h_depth h) st)
                    (if keep then tr else filter is_active tr)]
      else None
  end.

Definition both (a b : option (list state)) : option (list state) :=
  match a, b with Some x, Some y => Some (x ++ y) | _, _ => None end.

Definition swap_top (n : nat) (st : list val) : option (list val) :=
  match n with
  | 0 | 1 => Some st
  | S (S k) =>
      match st with
      | top :: r =>
          match nth_error r k with
          | Some x => Some (x :: firstn k r ++ top :: skipn (S k) r)
          | None => None
          end
      | [] => None
      end
  end.

(* CALL n / WITH_EXCEPT_START on the bound exit method of site s *)
Definition exit_call (t : table) (p : nat) (st rest : list val) (tr : list tent) (s : nat) (i : I)
  : option (list state) :=
  match find_site s tr with
  | None => None
  | Some e =>
      both (Some [if t_async e
                  then mk (S p) (VXA s i :: rest) (set_phase s Exiting tr)
                  else mk (S p) (VO :: rest) (remove_site s tr)])
           (exc_edge t false p st (remove_site s tr))
  end.

Definition trans (v : pyver) (c : code) (t : table) (fresh : I) (s : state) : option (list state) :=
  let p := pc s in let st := stack s in let tr := truth s in
  let next st' := Some [mk (S p) st' tr] in
  let exc := exc_edge t false p st tr in
  if length c <=? p then None else
  match at_ c p with
  | ICache | IExtArg | INop | IPrecall => next st
  | IResume => both (next st) exc
  | ILoadConst _ => next (VO :: st)
  | IPop => match st with _ :: r => next r | [] => None end
  | ISwap n => match swap_top n st with Some st' => next st' | None => None end
  | ICopy n => match n with
               | 0 => None
               | S k => match nth_error st k with Some v => next (v :: st) | None => None end
               end
  | IBeforeWith asy =>
      match st with
      | m :: r =>
          if negb (is_VO m) then None else
          both (Some [if asy
                      then mk (S p) (VEA p fresh :: VX p fresh :: r)
                              (tr ++ [{| t_site := p; t_inst := fresh; t_async := true; t_phase := Entering |}])
                      else mk (S p) (VO :: VX p fresh :: r)
                              (tr ++ [{| t_site := p; t_inst := fresh; t_async := false; t_phase := Active |}])])
               (exc_edge t false p r tr)
      | [] => None
      end
  | IGetAwaitable _ => match st with _ :: _ => both (next st) exc | [] => None end
  | ISend tgt =>
      match st with
      | _ :: recv :: r =>
          (* completion: 3.12 keeps the receiver under the result (END_SEND pops it); 3.11 pops it *)
          let done := match v with V312 => VO :: recv :: r | V311 => VO :: r end in
          both (Some [mk (S p) (VO :: recv :: r) tr; mk tgt done (event recv tr)]) exc
      | _ => None
      end
  | IEndSend => match st with v :: _ :: r => next (v :: r) | _ => None end
  | ICleanupThrow =>
      match st with
      | _ :: _ :: recv :: r => both (Some [mk (S p) (VO :: recv :: r) (event recv tr)]) exc
      | _ => None
      end
  | IYield =>
      match st with
      | _ :: r =>
          match v with
          | V312 => both (next (VO :: r)) (exc_edge t true p (VO :: r) tr)
          | V311 =>
              (* 3.11 has no CLEANUP_THROW: gen.throw() delegates to the awaited object in C; if that
                 completes, execution continues at the SEND's target with the receiver popped *)
              both (both (next (VO :: r)) (exc_edge t false p (VO :: r) tr))
                   (match at_ c (p - 1), r with
                    | ISend tgt, recv :: r' => Some [mk tgt (VO :: r') (event recv tr)]
                    | _, _ => Some []
                    end)
          end
      | [] => None
      end
  | ICall n =>
      match nth_error st (S n) with
      | Some (VX s i) =>
          if all_VO (firstn (S n) st) then exit_call t p st (skipn (S (S n)) st) tr s i else None
      | Some VO =>
          if all_VO (firstn (S n) st) then both (next (VO :: skipn (S (S n)) st)) exc else None
      | _ => None
      end
  | IWithExceptStart =>
      match nth_error st 3 with
      | Some (VX s i) => exit_call t p st st tr s i
      | _ => None
      end
  | IPushExcInfo => match st with e :: r => next (e :: VO :: r) | [] => None end
  | IPopExcept => match st with _ :: r => next r | [] => None end
  | IReraise => exc
  | IRaise n => if n <=? length st then exc else None
  | IReturn n => if n <=? length st then Some [] else None
  | IJump k tgt =>
      both (Some [mk tgt st tr]) (match k with JBack => exc | _ => Some [] end)
  | ICondJump tgt raises =>
      match st with
      | v :: r => if negb (is_VO v) then None else
                  both (Some [mk (S p) r tr; mk tgt r tr]) (if raises then exc else Some [])
      | [] => None
      end
  | IJumpOrPop tgt =>
      match st with
      | x :: r => if negb (is_VO x) then None else both (Some [mk (S p) r tr; mk tgt st tr]) exc
      | [] => None
      end
  | IForIter tgt =>
      (* exhausted: 3.12 jumps to END_FOR with [iter, NULL] still on the stack; 3.11 pops the iterator *)
      both (Some [mk (S p) (VO :: st) tr;
                  mk tgt (match v with V312 => VO :: st | V311 => tl st end) tr]) exc
  | IGen pops pushes raises =>
      if (pops <=? length st) && all_VO (firstn pops st)
      then both (next (repeat VO pushes ++ skipn pops st)) (if raises then exc else Some [])
      else None
  end.

(* ---------------------------------------------------------------- observations *)
(* what an observer (stackscope) can be asked about a frame in state s:
   (running?, f_lasti, value stack as the frame holds it, ground truth at that instant) *)
Definition observation := (bool * nat * list val * list tent)%type.

(* f_lasti of a frame that is executing the instruction at p while code it called runs: p
   itself when the callee is reached through a C call, or the LAST inline cache unit of the
   instruction when CPython 3.12 pushes the callee's frame inline (CALL of a Python function or
   bound method, SEND into a coroutine, FOR_ITER over a generator, ...) *)
Definition run_at (c : code) (p : nat) (st : list val) (tr : list tent) : list observation :=
  match ncaches c p with
  | 0 => [(true, p, st, tr)]
  | k => [(true, p, st, tr); (true, p + k, st, tr)]
  end.

Definition obs (c : code) (s : state) : list observation :=
  let p := pc s in let st := stack s in let tr := truth s in
  match at_ c p with
  | IYield => match st with _ :: r => [(false, p, r, tr)] | [] => [] end   (* suspended here *)
  | ICall n =>
      match nth_error st (S n) with
      | Some (VX s' _) => run_at c p st (set_phase s' Exiting tr)   (* inside __exit__/__aexit__ *)
      | _ => run_at c p st tr
      end
  | IWithExceptStart =>
      match nth_error st 3 with
      | Some (VX s' _) => run_at c p st (set_phase s' Exiting tr)
      | _ => []
      end
  | IGetAwaitable _ =>                    (* __await__ of an ordinary awaitable; the awaitables
                                             returned by __aenter__/__aexit__ are assumed to be
                                             coroutine objects, for which no Python code runs here *)
      match st with VO :: _ => run_at c p st tr | _ => [] end
  | ISend _                               (* inside the awaited coroutine / iterator *)
  | IBeforeWith _                         (* inside __enter__/__aenter__: not yet listed *)
  | IForIter _ | ICondJump _ true | IJumpOrPop _ | IGen _ _ true => run_at c p st tr
  | _ => []
  end.

(* the contexts the property demands for a ground truth *)
Definition expected (tr : list tent) : list (ctxv I) :=
  flat_map (fun e =>
    match t_phase e with
    | Entering => []
    | Active => [{| c_site := t_site e; c_async := t_async e; c_obj := Some (t_inst e);
                    c_exiting := false; c_from := t_site e |}]
    | Exiting => [{| c_site := t_site e; c_async := t_async e; c_obj := None;
                     c_exiting := true; c_from := t_site e |}]
    end) tr.

End Machine.

Arguments pc {I}. Arguments stack {I}. Arguments truth {I}. Arguments Build_state {I}.
Arguments mk {I}. Arguments trans {I}. Arguments obs {I}. Arguments expected {I}. Arguments run_at {I}.
Arguments exc_edge {I}. Arguments set_phase {I}. Arguments remove_site {I}. Arguments event {I}.
Arguments find_site {I}. Arguments is_active {I}. Arguments swap_top {I}. Arguments exit_call {I}.
Arguments both {I}. Arguments is_VO {I}. Arguments all_VO {I}.

Definition smap {I J} (f : I -> J) (s : state I) : state J :=
  {| pc := pc s; stack := map (vmap f) (stack s); truth := map (tmap f) (truth s) |}.
