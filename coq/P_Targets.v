(* P_Targets.v — proofs for C08: the decompiler model inverts the compiler model on every
   supported target (with any instruction suffix), returns None on every modelled unsupported
   form, and never runs out of fuel. *)
From Coq Require Import String Ascii.
Require Import Base M_Targets.
Open Scope string_scope.
Open Scope list_scope.

(* ------------------------------------------------------------------ induction principles *)
Section ExprInd.
  Variable P : expr -> Prop.
  Hypothesis HName : forall k s, P (EName k s).
  Hypothesis HConst : forall r, P (EConst r).
  Hypothesis HAttr : forall e a, P e -> P (EAttr e a).
  Hypothesis HSub : forall e i, P e -> P i -> P (ESubscr e i).
  Hypothesis HSlice : forall e lo hi, P e -> P lo -> P hi -> P (ESlice e lo hi).
  Hypothesis HCall : forall f args, P f -> Forall P args -> P (ECall f args).
  Hypothesis HMCall : forall o m args, P o -> Forall P args -> P (EMCall o m args).
  Hypothesis HOp : forall tag subs, Forall P subs -> P (EOp tag subs).
  Hypothesis HWalrus : forall k s e, P e -> P (EWalrus k s e).
  Hypothesis HCallX : forall tag f args, P f -> Forall P args -> P (ECallX tag f args).

  Fixpoint expr_ind2 (e : expr) : P e :=
    let fix go (l : list expr) : Forall P l :=
      match l with
      | [] => Forall_nil P
      | x :: r => Forall_cons x (expr_ind2 x) (go r)
      end in
    match e with
    | EName k s => HName k s
    | EConst r => HConst r
    | EAttr e a => HAttr e a (expr_ind2 e)
    | ESubscr e i => HSub e i (expr_ind2 e) (expr_ind2 i)
    | ESlice e lo hi => HSlice e lo hi (expr_ind2 e) (expr_ind2 lo) (expr_ind2 hi)
    | ECall f args => HCall f args (expr_ind2 f) (go args)
    | EMCall o m args => HMCall o m args (expr_ind2 o) (go args)
    | EOp tag subs => HOp tag subs (go subs)
    | EWalrus k s e => HWalrus k s e (expr_ind2 e)
    | ECallX tag f args => HCallX tag f args (expr_ind2 f) (go args)
    end.
End ExprInd.

Section TargetInd.
  Variable P : target -> Prop.
  Hypothesis HName : forall k s, P (TName k s).
  Hypothesis HAttr : forall e a, P (TAttr e a).
  Hypothesis HSub : forall e i, P (TSubscr e i).
  Hypothesis HSlice : forall e lo hi, P (TSlice e lo hi).
  Hypothesis HTuple : forall ts, Forall P ts -> P (TTuple ts).
  Hypothesis HStar : forall b s a, Forall P b -> P s -> Forall P a -> P (TStar b s a).

  Fixpoint target_ind2 (t : target) : P t :=
    let fix go (l : list target) : Forall P l :=
      match l with
      | [] => Forall_nil P
      | x :: r => Forall_cons x (target_ind2 x) (go r)
      end in
    match t with
    | TName k s => HName k s
    | TAttr e a => HAttr e a
    | TSubscr e i => HSub e i
    | TSlice e lo hi => HSlice e lo hi
    | TTuple ts => HTuple ts (go ts)
    | TStar b s a => HStar b s a (go b) (target_ind2 s) (go a)
    end.
End TargetInd.

(* ------------------------------------------------------------------ small facts *)
Lemma sapp_assoc : forall a b c, (a @@ b) @@ c = a @@ (b @@ c).
Proof. induction a as [|ch a IH]; intros; simpl; [reflexivity | rewrite IH; reflexivity]. Qed.

Lemma num_start_spec : forall s, num_start s = starts_numeric s.
Proof.
  intros [|c s]; [reflexivity|].
  destruct c as [[] [] [] [] [] [] [] []]; reflexivity.
Qed.

Lemma attr_obj_primary : forall s, attr_obj s = primary s.
Proof. intros. unfold attr_obj, primary. rewrite num_start_spec. reflexivity. Qed.

Lemma join_commas : forall l, join ", " l = commas l.
Proof.
  induction l as [|x r IH]; simpl; auto.
  destruct r; auto. rewrite IH. reflexivity.
Qed.

Lemma format_paren : forall l, format_tuple l = paren_tuple l.
Proof.
  intros [|x [|y r]]; try reflexivity.
  unfold format_tuple, paren_tuple. rewrite join_commas. reflexivity.
Qed.

Lemma nt_S : forall f ins st, nt (S f) ins st =
  match ins with
  | [] => Err
  | i :: rest => nt (S f) (i :: rest) st
  end.
Proof. intros f [|i r] st; reflexivity. Qed.

(* one step on instructions that do not depend on the stack *)
Lemma nt_load : forall f k s rest st, nt (S f) (ILoad k s :: rest) st = nt f rest (s :: st).
Proof. reflexivity. Qed.
Lemma nt_const : forall f r rest st, nt (S f) (ILoadConst r :: rest) st = nt f rest (r :: st).
Proof. reflexivity. Qed.
Lemma nt_nop : forall f k rest st, nt (S f) (INop k :: rest) st = nt f rest st.
Proof. reflexivity. Qed.
Lemma nt_other : forall f t rest st, nt (S f) (IOther t :: rest) st = Err.
Proof. reflexivity. Qed.

(* push_null only adds a no-op or retags a load: the decompiler cannot tell *)
Lemma nt_push_null : forall c fuel rest st,
  nt (List.length (push_null c) + fuel) (push_null c ++ rest) st = nt (List.length c + fuel) (c ++ rest) st.
Proof.
  intros c fuel rest st.
  destruct c as [|i r]; [reflexivity|].
  destruct i; try reflexivity.
  destruct k; reflexivity.
Qed.

Definition rexprs (es : list expr) : list string := rev (map render_expr es).

(* ------------------------------------------------------------------ expressions *)
Definition expr_spec (v : version) (e : expr) : Prop :=
  forall fuel rest st,
    nt (List.length (compile_expr v e) + fuel) (compile_expr v e ++ rest) st =
    if sup_expr v e then nt fuel rest (render_expr e :: st) else Err.

Definition exprs_spec (v : version) (es : list expr) : Prop :=
  forall fuel rest st,
    nt (List.length (flat_map (compile_expr v) es) + fuel) (flat_map (compile_expr v) es ++ rest) st =
    if forallb (sup_expr v) es then nt fuel rest (rexprs es ++ st) else Err.

Lemma plus_assoc_len : forall {A} (a b : list A) n,
  List.length (a ++ b) + n = List.length a + (List.length b + n).
Proof. intros. rewrite app_length. lia. Qed.

Lemma exprs_of_Forall : forall v es, Forall (expr_spec v) es -> exprs_spec v es.
Proof.
  intros v es H. induction H as [|e es He Hes IH]; intros fuel rest st.
  - reflexivity.
  - simpl flat_map. rewrite <- app_assoc. rewrite plus_assoc_len. rewrite He.
    simpl forallb. destruct (sup_expr v e); simpl; [|reflexivity].
    rewrite IH. destruct (forallb (sup_expr v) es); [|reflexivity].
    unfold rexprs. simpl. rewrite <- app_assoc. reflexivity.
Qed.

Lemma exprs_rw : forall v es, Forall (expr_spec v) es -> forall fuel rest st,
    nt (List.length (flat_map (compile_expr v) es) + fuel) (flat_map (compile_expr v) es ++ rest) st =
    if forallb (sup_expr v) es then nt fuel rest (rexprs es ++ st) else Err.
Proof. exact exprs_of_Forall. Qed.

(* the CALL step after callee and arguments have been pushed *)
Lemma nt_call : forall f fn args st rest,
  nt (S f) (ICall (List.length args) :: rest) (rev args ++ fn :: st) =
  nt f rest ((fn @@ "(" @@ commas args @@ ")") :: st).
Proof.
  intros. simpl.
  assert (L : List.length (rev args ++ fn :: st) = List.length args + S (List.length st)).
  { rewrite app_length, rev_length. reflexivity. }
  destruct (Nat.ltb (List.length (rev args ++ fn :: st)) (S (List.length args))) eqn:E.
  { apply Nat.ltb_lt in E. lia. }
  assert (S1 : skipn (List.length args) (rev args ++ fn :: st) = fn :: st).
  { rewrite <- (rev_length args). rewrite skipn_app, skipn_all, Nat.sub_diag. reflexivity. }
  assert (F1 : firstn (List.length args) (rev args ++ fn :: st) = rev args).
  { rewrite <- (rev_length args). rewrite firstn_app, firstn_all, Nat.sub_diag. simpl. apply app_nil_r. }
  rewrite S1, F1, rev_involutive, join_commas. reflexivity.
Qed.

Lemma nt_call_suffix : forall v f fn args st rest,
  nt (List.length (call_suffix v (List.length args)) + f) (call_suffix v (List.length args) ++ rest) (rev args ++ fn :: st) =
  nt f rest ((fn @@ "(" @@ commas args @@ ")") :: st).
Proof.
  intros [] f fn args st rest; unfold call_suffix.
  - change (nt (S (S f)) (INop NPrecall :: ICall (List.length args) :: rest) (rev args ++ fn :: st)
            = nt f rest ((fn @@ "(" @@ commas args @@ ")") :: st)).
    rewrite nt_nop. apply nt_call.
  - apply nt_call.
Qed.

Lemma call_suffix_len_pos : forall v n, exists k, List.length (call_suffix v n) = S k.
Proof. intros [] n; simpl; eauto. Qed.

Lemma rexprs_len : forall es, List.length (rexprs es) = List.length es.
Proof. intros. unfold rexprs. rewrite rev_length, map_length. reflexivity. Qed.

Lemma expr_ok : forall v e, expr_spec v e.
Proof.
  intros v. apply expr_ind2; unfold expr_spec.
  - (* name *) intros; reflexivity.
  - intros; reflexivity.
  - (* attr *) intros e a IH fuel rest st. simpl compile_expr. rewrite <- app_assoc, plus_assoc_len, IH.
    simpl. rewrite attr_obj_primary. destruct (sup_expr v e); reflexivity.
  - (* subscr *) intros e i IHe IHi fuel rest st. simpl compile_expr.
    rewrite <- !app_assoc, plus_assoc_len, IHe. simpl sup_expr.
    destruct (sup_expr v e); simpl; [|reflexivity].
    rewrite plus_assoc_len, IHi. destruct (sup_expr v i); reflexivity.
  - (* slice *) intros e lo hi IHe IHlo IHhi fuel rest st. simpl compile_expr.
    rewrite <- !app_assoc, plus_assoc_len, IHe.
    destruct (sup_expr v e) eqn:Ee; [|destruct v; simpl; rewrite ?Ee; reflexivity].
    rewrite plus_assoc_len, IHlo.
    destruct (sup_expr v lo) eqn:El; [|destruct v; simpl; rewrite ?Ee, ?El; reflexivity].
    rewrite plus_assoc_len, IHhi.
    destruct (sup_expr v hi) eqn:Eh; [|destruct v; simpl; rewrite ?Ee, ?El, ?Eh; reflexivity].
    destruct v; simpl; rewrite ?Ee, ?El, ?Eh; reflexivity.
  - (* call *) intros f args IHf IHargs fuel rest st. simpl compile_expr.
    rewrite <- !app_assoc. rewrite plus_assoc_len, nt_push_null, IHf. simpl sup_expr.
    destruct (sup_expr v f); simpl; [|reflexivity].
    rewrite plus_assoc_len, (exprs_rw v args IHargs).
    destruct (forallb (sup_expr v) args); [|reflexivity].
    rewrite <- (map_length render_expr args). unfold rexprs.
    rewrite nt_call_suffix. reflexivity.
  - (* method call *) intros o m args IHo IHargs fuel rest st. simpl compile_expr.
    rewrite <- !app_assoc. rewrite plus_assoc_len, IHo. simpl sup_expr.
    destruct (sup_expr v o); simpl; [|reflexivity].
    rewrite <- ?app_assoc.
    rewrite plus_assoc_len, (exprs_rw v args IHargs).
    destruct (forallb (sup_expr v) args); [|reflexivity].
    rewrite <- (map_length render_expr args). unfold rexprs.
    rewrite nt_call_suffix. rewrite attr_obj_primary. rewrite !sapp_assoc. reflexivity.
  - (* EOp *) intros tag subs IH fuel rest st. simpl compile_expr.
    rewrite <- app_assoc, plus_assoc_len, (exprs_rw v subs IH).
    simpl. destruct (forallb (sup_expr v) subs); reflexivity.
  - (* walrus *) intros k s e IH fuel rest st. simpl compile_expr.
    rewrite <- app_assoc, plus_assoc_len, IH. simpl. destruct (sup_expr v e); reflexivity.
  - (* ECallX *) intros tag f args IHf IHargs fuel rest st. simpl compile_expr.
    rewrite <- !app_assoc. rewrite plus_assoc_len, nt_push_null, IHf. simpl sup_expr.
    destruct (sup_expr v f); simpl; [|reflexivity].
    rewrite plus_assoc_len, (exprs_rw v args IHargs).
    destruct (forallb (sup_expr v) args); [|reflexivity].
    destruct (Nat.eqb tag 3); reflexivity.
Qed.

(* ------------------------------------------------------------------ targets *)
Fixpoint sum (l : list nat) : nat := match l with [] => 0 | x :: r => x + sum r end.

Fixpoint tsize (v : version) (t : target) : nat :=
  match t with
  | TTuple ts => 2 + List.length ts + sum (map (tsize v) ts)
  | TStar b s a =>
      (if Nat.eqb (List.length a) 0 then 3 else 4) +
      List.length b + List.length a + sum (map (tsize v) b) + tsize v s + sum (map (tsize v) a)
  | _ => List.length (compile_target v t)
  end.

Lemma tsize_star : forall v b s a, tsize v (TStar b s a) =
  (if Nat.eqb (List.length a) 0 then 3 else 4) +
  List.length b + List.length a + sum (map (tsize v) b) + tsize v s + sum (map (tsize v) a).
Proof. reflexivity. Qed.
Lemma tsize_tuple : forall v ts, tsize v (TTuple ts) = 2 + List.length ts + sum (map (tsize v) ts).
Proof. reflexivity. Qed.

Definition target_spec (v : version) (t : target) : Prop :=
  forall fuel rest, tsize v t <= fuel ->
    nt fuel (compile_target v t ++ rest) [] =
    if sup_target v t then Ok (render_target t, rest) else Err.

Definition targets_spec (v : version) (ts : list target) : Prop :=
  forall fuel rest, 1 + List.length ts + sum (map (tsize v) ts) <= fuel ->
    nts fuel (List.length ts) (flat_map (compile_target v) ts ++ rest) =
    if forallb (sup_target v) ts then Ok (map render_target ts, rest) else Err.

Lemma targets_of_Forall : forall v ts, Forall (target_spec v) ts -> targets_spec v ts.
Proof.
  intros v ts H. induction H as [|t ts Ht Hts IH]; intros fuel rest Hf.
  - destruct fuel; [simpl in Hf; lia|]. reflexivity.
  - simpl in Hf. destruct fuel as [|f]; [lia|].
    simpl flat_map. rewrite <- app_assoc. simpl List.length.
    change (nts (S f) (S (List.length ts)) (compile_target v t ++ flat_map (compile_target v) ts ++ rest))
      with (match nt f (compile_target v t ++ flat_map (compile_target v) ts ++ rest) [] with
            | Ok (v0, r) => match nts f (List.length ts) r with
                            | Ok (vs, r') => Ok (v0 :: vs, r') | Err => Err | Fuel => Fuel end
            | Err => Err | Fuel => Fuel end).
    rewrite Ht by lia. simpl forallb.
    destruct (sup_target v t); simpl; [|reflexivity].
    rewrite IH by lia. destruct (forallb (sup_target v) ts); reflexivity.
Qed.

Lemma targets_rw : forall v ts, Forall (target_spec v) ts ->
  forall fuel rest, 1 + List.length ts + sum (map (tsize v) ts) <= fuel ->
    nts fuel (List.length ts) (flat_map (compile_target v) ts ++ rest) =
    if forallb (sup_target v) ts then Ok (map render_target ts, rest) else Err.
Proof. exact targets_of_Forall. Qed.

Lemma nts_one : forall v t, target_spec v t -> forall fuel rest, 2 + tsize v t <= fuel ->
  nts fuel 1 (compile_target v t ++ rest) =
  if sup_target v t then Ok ([render_target t], rest) else Err.
Proof.
  intros v t Ht fuel rest Hf.
  pose proof (targets_of_Forall v [t] (Forall_cons t Ht (Forall_nil _))) as H.
  specialize (H fuel rest). simpl in H. rewrite app_nil_r in H.
  rewrite H by lia. rewrite andb_true_r. reflexivity.
Qed.

Lemma straight_expr : forall v e fuel rest st, List.length (compile_expr v e) <= fuel ->
  nt fuel (compile_expr v e ++ rest) st =
  if sup_expr v e then nt (fuel - List.length (compile_expr v e)) rest (render_expr e :: st) else Err.
Proof.
  intros v e fuel rest st H.
  replace fuel with (List.length (compile_expr v e) + (fuel - List.length (compile_expr v e))) at 1 by lia.
  apply expr_ok.
Qed.

Lemma target_ok : forall v t, target_spec v t.
Proof.
  intros v. apply target_ind2; unfold target_spec.
  - (* name *) intros k s fuel rest Hf. simpl in Hf. destruct fuel; [lia|]. reflexivity.
  - (* attr *) intros e a fuel rest Hf. simpl in Hf. rewrite app_length in Hf. simpl in Hf.
    simpl compile_target. rewrite <- app_assoc. rewrite straight_expr by lia. simpl sup_target.
    destruct (sup_expr v e); [|reflexivity].
    destruct (fuel - List.length (compile_expr v e)) eqn:E; [lia|]. simpl. rewrite attr_obj_primary. reflexivity.
  - (* subscr *) intros e i fuel rest Hf. simpl in Hf. rewrite !app_length in Hf. simpl in Hf.
    simpl compile_target. rewrite <- !app_assoc. rewrite straight_expr by lia. simpl sup_target.
    destruct (sup_expr v e); simpl; [|reflexivity].
    rewrite straight_expr by lia. destruct (sup_expr v i); [|reflexivity].
    destruct (fuel - List.length (compile_expr v e) - List.length (compile_expr v i)) eqn:E; [lia|]. reflexivity.
  - (* slice *) intros e lo hi fuel rest Hf.
    assert (Hf' : List.length (compile_expr v e) + List.length (compile_expr v lo) + List.length (compile_expr v hi) + 1 <= fuel).
    { simpl in Hf. rewrite !app_length in Hf. destruct v; simpl in Hf; lia. }
    clear Hf. simpl compile_target. rewrite <- !app_assoc. rewrite straight_expr by lia.
    destruct (sup_expr v e) eqn:Ee; [|destruct v; simpl; rewrite ?Ee; reflexivity].
    rewrite straight_expr by lia.
    destruct (sup_expr v lo) eqn:El; [|destruct v; simpl; rewrite ?Ee, ?El; reflexivity].
    rewrite straight_expr by lia.
    destruct (sup_expr v hi) eqn:Eh; [|destruct v; simpl; rewrite ?Ee, ?El, ?Eh; reflexivity].
    destruct (fuel - List.length (compile_expr v e) - List.length (compile_expr v lo) - List.length (compile_expr v hi)) eqn:E; [lia|].
    destruct v; simpl; rewrite ?Ee, ?El, ?Eh; reflexivity.
  - (* tuple *) intros ts IH fuel rest Hf. rewrite tsize_tuple in Hf. destruct fuel as [|f]; [lia|].
    simpl compile_target. rewrite <- app_comm_cons.
    change (nt (S f) (IUnpackSeq (List.length ts) :: flat_map (compile_target v) ts ++ rest) [])
      with (match nts f (List.length ts) (flat_map (compile_target v) ts ++ rest) with
            | Ok (vals, rest') => finish [format_tuple vals] rest' | Err => Err | Fuel => Fuel end).
    rewrite (targets_rw v ts IH) by lia. simpl sup_target.
    destruct (forallb (sup_target v) ts); [|reflexivity].
    simpl. rewrite format_paren. reflexivity.
  - (* star *) intros b s a IHb IHs IHa fuel rest Hf. rewrite tsize_star in Hf.
    assert (G : forall f, 2 + List.length b + List.length a + sum (map (tsize v) b) + tsize v s + sum (map (tsize v) a) <= f ->
      nt (S f) (IUnpackEx (List.length b) (List.length a) ::
                (flat_map (compile_target v) b ++ compile_target v s ++ flat_map (compile_target v) a) ++ rest) [] =
      if sup_target v (TStar b s a) then Ok (render_target (TStar b s a), rest) else Err).
    { intros f Hf2.
      change (nt (S f) (IUnpackEx (List.length b) (List.length a) ::
                (flat_map (compile_target v) b ++ compile_target v s ++ flat_map (compile_target v) a) ++ rest) [])
        with (match nts f (List.length b) ((flat_map (compile_target v) b ++ compile_target v s ++ flat_map (compile_target v) a) ++ rest) with
              | Ok (before, r1) =>
                match nts f 1 r1 with
                | Ok (star, r2) =>
                  match nts f (List.length a) r2 with
                  | Ok (after, r3) => finish [format_tuple (before ++ map (fun s => "*" @@ s) star ++ after)] r3
                  | Err => Err | Fuel => Fuel end
                | Err => Err | Fuel => Fuel end
              | Err => Err | Fuel => Fuel end).
      rewrite <- !app_assoc. rewrite (targets_rw v b IHb) by lia. simpl sup_target.
      destruct (forallb (sup_target v) b); simpl; [|reflexivity].
      rewrite (nts_one v s IHs) by lia.
      destruct (sup_target v s); simpl; [|reflexivity].
      rewrite (targets_rw v a IHa) by lia.
      destruct (forallb (sup_target v) a); [|reflexivity].
      simpl. rewrite format_paren. reflexivity. }
    simpl compile_target.
    destruct (Nat.eqb (List.length a) 0).
    + simpl app. destruct fuel as [|f]; [lia|]. apply G. lia.
    + simpl app. destruct fuel as [|[|f]]; try lia.
      change (nt (S (S f)) (IExtArg :: IUnpackEx (List.length b) (List.length a) ::
               (flat_map (compile_target v) b ++ compile_target v s ++ flat_map (compile_target v) a) ++ rest) [])
        with (nt (S f) (IUnpackEx (List.length b) (List.length a) ::
               (flat_map (compile_target v) b ++ compile_target v s ++ flat_map (compile_target v) a) ++ rest) []).
      apply G. lia.
Qed.

Lemma target_rw : forall v t fuel rest, tsize v t <= fuel ->
    nt fuel (compile_target v t ++ rest) [] =
    if sup_target v t then Ok (render_target t, rest) else Err.
Proof. exact target_ok. Qed.

(* ------------------------------------------------------------------ fuel of [describe] is enough for compiled targets *)
Lemma sum_le_len : forall v ts,
  Forall (fun t => tsize v t + 1 <= 3 * List.length (compile_target v t)) ts ->
  List.length ts + sum (map (tsize v) ts) <= 3 * List.length (flat_map (compile_target v) ts).
Proof.
  intros v ts H. induction H as [|t ts Ht _ IH]; simpl; [lia|].
  rewrite app_length. lia.
Qed.

Definition plain_head (c : list insn) : bool :=
  match c with
  | [] => false
  | IPopTop :: _ => false
  | IStoreName _ _ :: _ => false
  | _ => true
  end.

Lemma plain_head_app : forall c r, plain_head c = true -> plain_head (c ++ r) = true.
Proof. intros [|i c] r H; [discriminate|]. destruct i; simpl in *; auto. Qed.

Lemma plain_push_null : forall c, plain_head (push_null c) = true.
Proof. intros [|i r]; [reflexivity|]. destruct i; try reflexivity. destruct k; reflexivity. Qed.

Lemma ce_plain : forall v e, plain_head (compile_expr v e) = true.
Proof.
  intros v. apply expr_ind2; intros; simpl compile_expr; try reflexivity;
    try (apply plain_head_app; assumption);
    try (apply plain_head_app; apply plain_push_null).
  (* EOp *)
  destruct subs as [|x r]; [reflexivity|].
  inversion H; subst. simpl flat_map. rewrite <- app_assoc. apply plain_head_app. assumption.
Qed.

Lemma ce_len_pos : forall v e, 1 <= List.length (compile_expr v e).
Proof.
  intros v e. pose proof (ce_plain v e) as H.
  destruct (compile_expr v e); [discriminate | simpl; lia].
Qed.

Lemma tsize_bound : forall v t, tsize v t + 1 <= 3 * List.length (compile_target v t).
Proof.
  intros v. apply target_ind2.
  - intros; simpl; lia.
  - intros e a. simpl. rewrite app_length. simpl. pose proof (ce_len_pos v e). lia.
  - intros e i. simpl. rewrite !app_length. simpl. pose proof (ce_len_pos v e). lia.
  - intros e lo hi. simpl. rewrite !app_length. pose proof (ce_len_pos v e). destruct v; simpl; lia.
  - intros ts IH. pose proof (sum_le_len v ts IH). simpl. lia.
  - intros b s a IHb IHs IHa.
    pose proof (sum_le_len v b IHb). pose proof (sum_le_len v a IHa).
    rewrite tsize_star. simpl compile_target. rewrite app_length. simpl List.length. rewrite !app_length.
    destruct (Nat.eqb (List.length a) 0); simpl List.length; lia.
Qed.

(* ------------------------------------------------------------------ the two shortcuts of describe *)
Lemma describe_plain : forall ins, plain_head ins = true ->
  describe ins = match nt (3 * List.length ins + 3) ins [] with
                 | Ok (s, _) => DSome s | Err => DNone | Fuel => DFuel end.
Proof. intros [|i q] H; [discriminate|]. destruct i; try discriminate; reflexivity. Qed.

Lemma describe_target : forall v t rest,
  describe (compile_target v t ++ rest) =
  if sup_target v t then DSome (render_target t) else DNone.
Proof.
  intros v t rest.
  assert (Hfuel : tsize v t <= 3 * List.length (compile_target v t ++ rest) + 3).
  { pose proof (tsize_bound v t). rewrite app_length. lia. }
  destruct t.
  - (* plain name: both paths give the name *)
    simpl. destruct k; reflexivity.
  - rewrite describe_plain by (simpl; rewrite <- app_assoc; apply plain_head_app, ce_plain).
    rewrite (target_rw v _ _ rest Hfuel). destruct (sup_target v (TAttr e a)); reflexivity.
  - rewrite describe_plain by (simpl; rewrite <- !app_assoc; apply plain_head_app, ce_plain).
    rewrite (target_rw v _ _ rest Hfuel). destruct (sup_target v (TSubscr e i)); reflexivity.
  - rewrite describe_plain by (simpl; rewrite <- !app_assoc; apply plain_head_app, ce_plain).
    rewrite (target_rw v _ _ rest Hfuel). destruct (sup_target v (TSlice e lo hi)); reflexivity.
  - rewrite describe_plain by reflexivity.
    rewrite (target_rw v _ _ rest Hfuel). destruct (sup_target v (TTuple ts)); reflexivity.
  - rewrite describe_plain by (simpl; destruct (Nat.eqb (List.length after) 0); reflexivity).
    rewrite (target_rw v _ _ rest Hfuel). destruct (sup_target v (TStar before t after)); reflexivity.
Qed.

Theorem decompile_compile : forall v t rest, sup_target v t = true ->
  describe (compile_target v t ++ rest) = DSome (render_target t).
Proof. intros v t rest H. rewrite describe_target, H. reflexivity. Qed.

Theorem item_expected : forall v (t : option target) rest,
  describe (compile_item v t ++ rest) = expected v t.
Proof. intros v [t|] rest; [apply describe_target | reflexivity]. Qed.

Theorem never_wrong : forall v (t : option target) rest s,
  describe (compile_item v t ++ rest) = DSome s ->
  exists t', t = Some t' /\ sup_target v t' = true /\ s = render_target t'.
Proof.
  intros v t rest s H. rewrite item_expected in H. destruct t as [t|]; [|discriminate].
  simpl in H. destruct (sup_target v t) eqn:E; [|discriminate].
  inversion H. eauto.
Qed.

(* ------------------------------------------------------------------ describe never runs out of fuel *)
Definition enough_nt (f : nat) (ins : list insn) : Prop := 2 * List.length ins + 1 < f.
Definition enough_nts (f : nat) (ins : list insn) : Prop := 2 * List.length ins + 2 < f.

Lemma finish_shape : forall st rest x r, finish st rest = Ok (x, r) -> r = rest.
Proof. intros [|a [|b st]] rest x r H; simpl in H; inversion H; reflexivity. Qed.
Lemma finish_nofuel : forall st rest, finish st rest <> Fuel.
Proof. intros [|a [|b st]] rest; simpl; discriminate. Qed.

Opaque finish.
Lemma no_fuel : forall f,
  (forall ins st, enough_nt f ins ->
     nt f ins st <> Fuel /\ (forall x r, nt f ins st = Ok (x, r) -> List.length r < List.length ins)) /\
  (forall n ins, enough_nts f ins ->
     nts f n ins <> Fuel /\ (forall xs r, nts f n ins = Ok (xs, r) -> List.length r <= List.length ins)).
Proof.
  induction f as [|f [IHnt IHnts]].
  { split; intros; unfold enough_nt, enough_nts in *; lia. }
  split.
  - intros ins st Hf. unfold enough_nt in Hf.
    destruct ins as [|i rest]; [split; [discriminate | intros; discriminate]|].
    simpl List.length in Hf.
    assert (Hr : enough_nt f rest) by (unfold enough_nt; lia).
    assert (Hrs : enough_nts f rest) by (unfold enough_nts; lia).
    assert (Step : forall st', nt f rest st' <> Fuel /\
              (forall x r, nt f rest st' = Ok (x, r) -> List.length r < List.length (i :: rest))).
    { intros st'. destruct (IHnt rest st' Hr) as [A B]. split; [exact A|].
      intros x r E. specialize (B x r E). simpl. lia. }
    assert (Fin : forall st', finish st' rest <> Fuel /\
              (forall x r, finish st' rest = Ok (x, r) -> List.length r < List.length (i :: rest))).
    { intros st'. split; [apply finish_nofuel|]. intros x r E. apply finish_shape in E. subst. simpl. lia. }
    assert (ErrC : (@Err (string * list insn)) <> Fuel /\
              (forall x r, (@Err (string * list insn)) = Ok (x, r) -> List.length r < List.length (i :: rest))).
    { split; [discriminate | intros; discriminate]. }
    destruct i; simpl nt; try apply Step; try apply Fin; try apply ErrC.
    + (* ILoadAttr *) destruct st; [apply ErrC | apply Step].
    + destruct st; [apply ErrC | apply Fin].
    + destruct st as [|a [|b st]]; try apply ErrC; apply Step.
    + destruct st as [|a [|b st]]; try apply ErrC; apply Fin.
    + destruct a3; [destruct st as [|a [|b [|c [|d st]]]] | destruct st as [|a [|b [|c st]]]]; try apply ErrC; apply Step.
    + destruct a3; [destruct st as [|a [|b [|c [|d st]]]] | destruct st as [|a [|b [|c st]]]]; try apply ErrC; apply Fin.
    + (* IUnpackSeq *)
      destruct (IHnts n rest Hrs) as [A B].
      destruct (nts f n rest) as [[vals r']| |] eqn:E; try apply ErrC; [|contradiction].
      specialize (B vals r' eq_refl). split; [apply finish_nofuel|].
      intros x r E2. apply finish_shape in E2. subst. simpl. lia.
    + (* IUnpackEx *)
      destruct (IHnts before rest Hrs) as [A B].
      destruct (nts f before rest) as [[bv r1]| |] eqn:E1; try apply ErrC; [|contradiction].
      specialize (B bv r1 eq_refl).
      assert (H1 : enough_nts f r1) by (unfold enough_nts in *; lia).
      destruct (IHnts 1 r1 H1) as [A2 B2].
      destruct (nts f 1 r1) as [[sv r2]| |] eqn:E2; try apply ErrC; [|contradiction].
      specialize (B2 sv r2 eq_refl).
      assert (H2 : enough_nts f r2) by (unfold enough_nts in *; lia).
      destruct (IHnts after r2 H2) as [A3 B3].
      destruct (nts f after r2) as [[av r3]| |] eqn:E3; try apply ErrC; [|contradiction].
      specialize (B3 av r3 eq_refl). split; [apply finish_nofuel|].
      intros x r E4. apply finish_shape in E4. subst. simpl. lia.
    + (* ICall *)
      destruct (Nat.ltb (List.length st) (S n)); [apply ErrC|].
      destruct (skipn n st); [apply ErrC | apply Step].
    + destruct st; [apply ErrC | apply Step].
    + destruct st; [apply ErrC | apply Step].
  - intros n ins Hf. unfold enough_nts in Hf.
    destruct n as [|n'].
    { simpl. split; [discriminate|]. intros xs r E. inversion E. subst. lia. }
    assert (Hn : enough_nt f ins) by (unfold enough_nt; lia).
    simpl nts.
    destruct (IHnt ins [] Hn) as [A B].
    destruct (nt f ins []) as [[x r]| |] eqn:E; [|split; [discriminate | intros; discriminate]|contradiction].
    specialize (B x r eq_refl).
    assert (Hr : enough_nts f r) by (unfold enough_nts; lia).
    destruct (IHnts n' r Hr) as [A2 B2].
    destruct (nts f n' r) as [[vs r']| |] eqn:E2; [|split; [discriminate | intros; discriminate]|contradiction].
    specialize (B2 vs r' eq_refl). split; [discriminate|].
    intros xs r0 E3. inversion E3. subst. lia.
Qed.

Transparent finish.

Lemma nofuel_dres : forall (r : res (string * list insn)), r <> Fuel ->
  match r with Ok (s, _) => DSome s | Err => DNone | Fuel => DFuel end <> DFuel.
Proof. intros [[s q]| |] H; [discriminate | discriminate | contradiction]. Qed.

Theorem describe_total : forall ins, describe ins <> DFuel.
Proof.
  intros ins.
  assert (H : nt (3 * List.length ins + 3) ins [] <> Fuel).
  { apply (proj1 (no_fuel _)). unfold enough_nt. lia. }
  unfold describe. destruct ins as [|i r]; [discriminate|].
  destruct i; try discriminate; try (apply nofuel_dres; exact H).
  destruct k; try discriminate; apply nofuel_dres; exact H.
Qed.

(* ------------------------------------------------------------------ the correspondence predicate means what it says *)
Lemma dres_eqb_eq : forall a b, dres_eqb a b = true -> a = b.
Proof.
  intros [s| |] [s'| |] H; simpl in H; try discriminate; auto.
  apply String.eqb_eq in H. subst. reflexivity.
Qed.

(* a case accepted by the correspondence whose code really starts with the model's store
   sequence: the observed result is the property's expectation *)
Theorem tcase_ok_expected : forall v t code obs awb,
  tcase_ok (v, t, code, obs, awb) = true -> obs = expected v t /\ awb = obs.
Proof.
  intros v t code obs awb H. unfold tcase_ok, tcase_flags in H. simpl in H.
  repeat (apply andb_true_iff in H; destruct H as [? H]).
  split; apply dres_eqb_eq; assumption.
Qed.

(* ------------------------------------------------------------------ locals fallback *)
Lemma last_bound_bound : forall locals obj n, last_bound locals obj = Some n -> In (n, obj) locals.
Proof.
  induction locals as [|[m v] r IH]; simpl; intros obj n H; [discriminate|].
  destruct (last_bound r obj) eqn:E.
  - inversion H; subst. right. apply IH. assumption.
  - destruct (Nat.eqb v obj) eqn:Ev; [|discriminate].
    apply Nat.eqb_eq in Ev. inversion H; subst. left. reflexivity.
Qed.

(* the whole varname rule of the property: rendered target, or (only without a reconstructible
   target) a local bound to the manager, or None *)
Theorem varname_rule : forall v (t : option target) rest locals obj,
  match final_varname (describe (compile_item v t ++ rest)) locals obj with
  | None => expected v t = DNone
  | Some n =>
      (exists t', t = Some t' /\ sup_target v t' = true /\ n = render_target t') \/
      (expected v t = DNone /\ In (n, obj) locals)
  end.
Proof.
  intros v t rest locals obj. rewrite item_expected. unfold final_varname.
  destruct (expected v t) eqn:E.
  - left. destruct t as [t|]; [|discriminate]. simpl in E.
    destruct (sup_target v t) eqn:S; [|discriminate]. inversion E. eauto.
  - destruct (last_bound locals obj) eqn:L; [|reflexivity].
    right. split; [reflexivity | apply last_bound_bound; assumption].
  - destruct t as [t|]; simpl in E; [destruct (sup_target v t)|]; discriminate.
Qed.

(* the model's fallback choice is accepted by the property-level comparison used for kind "fb" *)
Theorem final_varname_accepted : forall d locals obj, d <> DFuel ->
  fcase_ok (d, locals, obj, final_varname d locals obj) = true.
Proof.
  intros d locals obj Hd. unfold fcase_ok, final_varname. destruct d as [s| |]; [| |contradiction].
  - simpl. apply String.eqb_refl.
  - destruct (last_bound locals obj) eqn:E; [|reflexivity].
    apply last_bound_bound in E. apply existsb_exists. exists (s, obj). split; [assumption|].
    simpl. rewrite String.eqb_refl, Nat.eqb_refl. reflexivity.
Qed.
