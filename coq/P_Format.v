(* P_Format.v — lemmas and proofs about the formatter model M_Format.v (property C18). *)
Require Import Base M_Format.
From Coq Require Import NArith String Ascii.
From SS.gen Require Import SrcFacts.

(* ------------------------------------------------------------------ induction on trees *)
Definition opt_P (P : stack -> Prop) (o : option stack) : Prop :=
  match o with Some s => P s | None => True end.

Section TreeInd.
  Variables (Ps : stack -> Prop) (Pf : frame -> Prop) (Pc : context -> Prop) (Pk : child -> Prop).
  Hypothesis Hs : forall r fs lf er, Forall Pf fs -> Ps (Stk r fs lf er).
  Hypothesis Hf : forall fn cls md file ln src loc h hl cs, Forall Pc cs ->
      Pf (Frm fn cls md file ln src loc h hl cs).
  Hypothesis Hc : forall ty asy ex vn sl ds cs cr orp inn ks h,
      opt_P Ps inn -> Forall Pk ks ->
      Pc (Ctx ty asy ex vn sl ds cs cr orp inn ks h).
  Hypothesis Hkc : forall c, Pc c -> Pk (KCtx c).
  Hypothesis Hks : forall s, Ps s -> Pk (KStk s).

  Fixpoint stack_ind' (s : stack) : Ps s :=
    match s with
    | Stk r fs lf er =>
        Hs r fs lf er ((fix go (l : list frame) : Forall Pf l :=
                          match l with [] => Forall_nil _ | f :: l' => Forall_cons _ (frame_ind' f) (go l') end) fs)
    end
  with frame_ind' (f : frame) : Pf f :=
    match f with
    | Frm fn cls md file ln src loc h hl cs =>
        Hf fn cls md file ln src loc h hl cs
           ((fix go (l : list context) : Forall Pc l :=
               match l with [] => Forall_nil _ | c :: l' => Forall_cons _ (ctx_ind' c) (go l') end) cs)
    end
  with ctx_ind' (c : context) : Pc c :=
    match c with
    | Ctx ty asy ex vn sl ds cs cr orp inn ks h =>
        Hc ty asy ex vn sl ds cs cr orp inn ks h
           (match inn as i return opt_P Ps i with
            | Some s => stack_ind' s | None => I end)
           ((fix go (l : list child) : Forall Pk l :=
               match l with [] => Forall_nil _ | k :: l' => Forall_cons _ (child_ind' k) (go l') end) ks)
    end
  with child_ind' (k : child) : Pk k :=
    match k with
    | KCtx c => Hkc c (ctx_ind' c)
    | KStk s => Hks s (stack_ind' s)
    end.

  Lemma tree_ind : (forall s, Ps s) /\ (forall f, Pf f) /\ (forall c, Pc c) /\ (forall k, Pk k).
  Proof. repeat split; [apply stack_ind' | apply frame_ind' | apply ctx_ind' | apply child_ind']. Qed.
End TreeInd.

(* ------------------------------------------------------------------ small facts *)
Lemma marker_eqb_refl m : marker_eqb m m = true.
Proof. destruct m; reflexivity. Qed.

Lemma strip1_add m l : strip1 (sl_add m l) = l.
Proof. destruct l; reflexivity. Qed.

Lemma head_is_add p m l : head_is p (sl_add m l) = p m.
Proof. reflexivity. Qed.

Lemma span_app {A} (p : A -> bool) l1 l2 :
  Forall (fun x => p x = true) l1 ->
  match l2 with [] => True | x :: _ => p x = false end ->
  span p (l1 ++ l2) = (l1, l2).
Proof.
  induction 1 as [|x l Hx Hl IH]; intros H2; simpl.
  - destruct l2 as [|y r]; simpl; auto. rewrite H2. reflexivity.
  - rewrite Hx, (IH H2). reflexivity.
Qed.

Lemma span_all {A} (p : A -> bool) l : Forall (fun x => p x = true) l -> span p l = (l, []).
Proof. intros H. rewrite <- (app_nil_r l) at 1. apply span_app; simpl; auto. Qed.

(* a block: first line gets marker A, every following line l gets marker (g l) *)
Definition pref (A : marker) (g : sline -> marker) (ls : list sline) : list sline :=
  match ls with [] => [] | l0 :: r => sl_add A l0 :: map (fun l => sl_add (g l) l) r end.

Lemma prefix_block_pref A B ls : prefix_block sline sl_add A B ls = pref A (fun _ => B) ls.
Proof. reflexivity. Qed.

Lemma prefix_ctx_pref ls :
  prefix_ctx sline sl_add sl_is_child ls = pref SCX (fun l => if sl_is_child l then SCC else CCX) ls.
Proof.
  destruct ls as [|l0 r]; simpl; auto. f_equal. apply map_ext. intros l. destruct (sl_is_child l); reflexivity.
Qed.

Section Blocks.
  Variables (A : marker) (cont : marker -> bool) (g : sline -> marker).
  Hypothesis Hg : forall l, cont (g l) = true /\ marker_eqb A (g l) = false.

  Lemma blocks_aux_cont ls rest pend bs :
    blocks_aux A cont rest = Some (pend, bs) ->
    blocks_aux A cont (map (fun l => sl_add (g l) l) ls ++ rest) = Some (ls ++ pend, bs).
  Proof.
    intros H. induction ls as [|l ls IH]; simpl; auto.
    rewrite IH. rewrite !head_is_add. destruct (Hg l) as [H1 H2]. rewrite H2, H1, strip1_add. reflexivity.
  Qed.

  Lemma blocks_aux_block l0 ls rest bs :
    blocks_aux A cont rest = Some ([], bs) ->
    blocks_aux A cont (pref A g (l0 :: ls) ++ rest) = Some ([], (l0 :: ls) :: bs).
  Proof.
    intros H. simpl. rewrite (blocks_aux_cont ls rest [] bs H). rewrite head_is_add, marker_eqb_refl, strip1_add, app_nil_r.
    reflexivity.
  Qed.

  (* items x, each rendered as one block (or nothing when not kept), parse item-wise *)
  Lemma blocks_items {X Y} (F : X -> list sline) (keep : X -> bool) (sk : X -> Y)
        (pf : list sline -> option Y) (xs : list X) :
    Forall (fun x => (keep x = false /\ F x = [])
                     \/ (keep x = true /\ exists l0 ls, F x = l0 :: ls /\ pf (l0 :: ls) = Some (sk x))) xs ->
    exists bs, blocks_aux A cont (flat_map (fun x => pref A g (F x)) xs) = Some ([], bs)
               /\ all_some (map pf bs) = Some (flat_map (fun x => if keep x then [sk x] else []) xs).
  Proof.
    induction 1 as [|x xs Hx _ IH].
    - exists []. split; reflexivity.
    - destruct IH as [bs [Hb Hp]]. simpl.
      destruct Hx as [[Hk HF]|[Hk [l0 [ls [HF Hpf]]]]]; rewrite Hk, HF.
      + exists bs. simpl. auto.
      + exists ((l0 :: ls) :: bs). split.
        * apply blocks_aux_block; auto.
        * simpl. rewrite Hpf, Hp. reflexivity.
  Qed.
End Blocks.

Lemma blocks_of_aux A cont ls bs : blocks_aux A cont ls = Some ([], bs) -> blocks A cont ls = Some bs.
Proof. unfold blocks. intros ->. reflexivity. Qed.

(* ------------------------------------------------------------------ nesting height = fuel bound *)
Definition lmax (l : list nat) : nat := fold_right Nat.max 0 l.

Fixpoint ht_stack (s : stack) : nat :=
  let 'Stk _ fs _ _ := s in lmax (map ht_frame fs)
with ht_frame (f : frame) : nat := lmax (map ht_ctx (f_ctxs f))
with ht_ctx (c : context) : nat :=
  let 'Ctx _ _ _ _ _ _ _ _ _ inn ks _ := c in
  S (Nat.max (match inn with Some s => ht_stack s | None => 0 end) (lmax (map ht_child ks)))
with ht_child (k : child) : nat :=
  match k with KCtx c => ht_ctx c | KStk s => S (ht_stack s) end.

Lemma lmax_Forall {X} (h : X -> nat) xs n : lmax (map h xs) <= n -> Forall (fun x => h x <= n) xs.
Proof. induction xs as [|x xs IH]; simpl; intros H; constructor; [lia | apply IH; lia]. Qed.

Notation mm := max_markers.
Lemma mm_app x y : mm (x ++ y) = Nat.max (mm x) (mm y).
Proof. induction x as [|l x IH]; simpl; auto. unfold mm in *. simpl. rewrite IH. lia. Qed.
Lemma mm_cons l r : mm (l :: r) = Nat.max (List.length (fst l)) (mm r).
Proof. reflexivity. Qed.
Lemma mm_map_add (g : sline -> marker) ls :
  mm (map (fun l => sl_add (g l) l) ls) = match ls with [] => 0 | _ => S (mm ls) end.
Proof.
  induction ls as [|l ls IH]; auto. simpl map. rewrite !mm_cons, IH. simpl. destruct ls; simpl; lia.
Qed.
Lemma mm_pref A g l0 r : mm (pref A g (l0 :: r)) = S (mm (l0 :: r)).
Proof. simpl pref. rewrite !mm_cons, mm_map_add. simpl. destruct r; simpl; lia. Qed.
Lemma mm_flat_map_le {X} (F : X -> list sline) xs x : In x xs -> mm (F x) <= mm (flat_map F xs).
Proof.
  induction xs as [|y xs IH]; simpl; [tauto|]. rewrite mm_app. intros [->|H]; [lia|]. specialize (IH H). lia.
Qed.

Definition frame_head (m : marker) : bool := match m with SCX | CCX | SCC | SCODE => true | _ => false end.
Definition kid_head (m : marker) : bool := match m with SC | CC => true | _ => false end.
Definition node_head (m : marker) : bool := body_head m || kid_head m.
Definition hd_ok (p : marker -> bool) (ls : list sline) : Prop := Forall (fun l => head_is p l = true) ls.

Lemma hd_ok_app p a b : hd_ok p a -> hd_ok p b -> hd_ok p (a ++ b).
Proof. intros; apply Forall_app; auto. Qed.

Lemma hd_ok_weaken (p q : marker -> bool) ls : (forall m, p m = true -> q m = true) -> hd_ok p ls -> hd_ok q ls.
Proof.
  intros H. apply Forall_impl. intros [[|m ms] t]; unfold head_is; simpl; auto.
Qed.

Lemma hd_ok_pref p A g ls : p A = true -> (forall l, p (g l) = true) -> hd_ok p (pref A g ls).
Proof.
  intros HA Hg. destruct ls as [|l0 r]; simpl; constructor; auto.
  apply Forall_forall. intros x Hx. apply in_map_iff in Hx as [l [<- _]]. apply Hg.
Qed.

Lemma hd_ok_flat_map {X} p (F : X -> list sline) xs : (forall x, hd_ok p (F x)) -> hd_ok p (flat_map F xs).
Proof. intros H. induction xs; simpl; [constructor | apply hd_ok_app; auto]. Qed.

Lemma not_blank_add_CC p l : head_is p l = true -> is_blank_line (sl_add CC l) = false.
Proof. destruct l as [[|m ms] t]; unfold head_is; simpl; [discriminate | reflexivity]. Qed.

Lemma filter_id {X} (p : X -> bool) l : Forall (fun x => p x = true) l -> filter p l = l.
Proof. induction 1; simpl; auto. rewrite H. f_equal; auto. Qed.

Definition notblank (l : sline) : bool := negb (is_blank_line l).

Lemma notblank_pref_CC p l0 rest :
  hd_ok p rest -> filter notblank (pref SC (fun _ => CC) (l0 :: rest)) = pref SC (fun _ => CC) (l0 :: rest).
Proof.
  intros H. apply filter_id. simpl. constructor; [reflexivity|].
  apply Forall_forall. intros x Hx. apply in_map_iff in Hx as [l [<- Hl]].
  unfold notblank. rewrite (not_blank_add_CC p); auto. eapply Forall_forall in H; eauto.
Qed.

Lemma notblank_pref_CC_trailing p l0 rest :
  hd_ok p rest ->
  filter notblank (pref SC (fun _ => CC) (l0 :: rest ++ [sl_lit nl])) = pref SC (fun _ => CC) (l0 :: rest).
Proof.
  intros H. simpl. f_equal. rewrite map_app, filter_app. simpl.
  replace (filter notblank (map (fun l => sl_add CC l) rest)) with (map (fun l => sl_add CC l) rest).
  - apply app_nil_r.
  - symmetry. apply filter_id. apply Forall_forall. intros x Hx. apply in_map_iff in Hx as [l [<- Hl]].
    unfold notblank. rewrite (not_blank_add_CC p); auto. eapply Forall_forall in H; eauto.
Qed.

Lemma ctx_cont_ok_prefix_ctx ls :
  forallb ctx_cont_ok (prefix_ctx sline sl_add sl_is_child ls) = true.
Proof.
  destruct ls as [|l0 r]; simpl; auto. apply forallb_forall. intros x Hx.
  apply in_map_iff in Hx as [l [<- _]]. destruct l as [[|m ms] t]; simpl; auto.
  destruct m; reflexivity.
Qed.

Lemma forallb_flat_map {X Y} (p : Y -> bool) (F : X -> list Y) xs :
  (forall x, forallb p (F x) = true) -> forallb p (flat_map F xs) = true.
Proof. intros H. induction xs; simpl; auto. rewrite forallb_app, H, IHxs. reflexivity. Qed.

(* ------------------------------------------------------------------ read-back *)
Section RoundTrip.
  Variable o : fopts.
  Notation B := (fmt_body_sl o).
  Notation Fm := (fmt_frame_sl o).
  Notation Cx := (fmt_ctx_sl o).
  Notation KL := (fmt_kids sline sl_lit sl_add sl_is_blank (Cx false false) B).

  Lemma B_eq r fs lf er :
    B (Stk r fs lf er) =
    flat_map (fun f => if f_hide f && negb (show_hidden o) then [] else prefix_block sline sl_add SF CF (Fm f)) fs
    ++ leaf_lines sline sl_lit sl_add lf ++ err_lines sline sl_lit sl_add er.
  Proof. reflexivity. Qed.

  Lemma Fm_eq f :
    Fm f = sl_lit (frame_header f)
           :: (if show_ctx o then flat_map (fun c => prefix_ctx sline sl_add sl_is_child (Cx true true c)) (f_ctxs f) else [])
           ++ code_lines sline sl_lit sl_add f.
  Proof. destruct f; reflexivity. Qed.

  Lemma Cx_eq hp sl c :
    Cx hp sl c =
    if c_hide c && negb (show_hidden o) then []
    else sl_lit (ctx_line hp sl c)
         :: (match (let 'Ctx _ _ _ _ _ _ _ _ _ inn _ _ := c in inn) with Some s => B s | None => [] end)
         ++ KL false (let 'Ctx _ _ _ _ _ _ _ _ _ _ ks _ := c in ks).
  Proof. destruct c; reflexivity. Qed.

  Lemma vis_hide h : (h && negb (show_hidden o)) = negb (vis o h).
  Proof. unfold vis. destruct h, (show_hidden o); reflexivity. Qed.

  (* parse_body on frame lines ++ leaf ++ error *)
  Lemma parse_body_spec pn FL bs fs lf er :
    hd_ok (fun m => is_m SF m || is_m CF m) FL ->
    blocks_aux SF (is_m CF) FL = Some ([], bs) ->
    all_some (map (parse_frame pn) bs) = Some fs ->
    parse_body pn (FL ++ leaf_lines sline sl_lit sl_add lf ++ err_lines sline sl_lit sl_add er)
    = Some (SkStack fs (match lf with Some r => Some (r ++ nl) | None => None end)
                    (match er with Some raw => err_title :: err_sublines raw | None => [] end)).
  Proof.
    intros H1 H2 H3. unfold parse_body.
    rewrite span_app; auto.
    - rewrite (blocks_of_aux _ _ _ _ H2), H3.
      destruct lf as [r|]; destruct er as [raw|]; simpl; try reflexivity.
      + replace (forallb _ _) with true; [rewrite map_map; simpl; rewrite map_id; reflexivity|].
        symmetry. apply forallb_forall. intros x Hx. apply in_map_iff in Hx as [l [<- _]]. reflexivity.
      + replace (forallb _ _) with true; [rewrite map_map; simpl; rewrite map_id; reflexivity|].
        symmetry. apply forallb_forall. intros x Hx. apply in_map_iff in Hx as [l [<- _]]. reflexivity.
    - destruct lf as [r|]; destruct er as [raw|]; simpl; auto.
  Qed.

  Definition Ps (s : stack) : Prop :=
    hd_ok body_head (B s)
    /\ forall n, mm (B s) <= S n -> parse_body (parse_node n) (B s) = Some (sk_body o s).
  Definition Pf (f : frame) : Prop :=
    hd_ok frame_head (tl (Fm f))
    /\ forall n, mm (Fm f) <= n -> parse_frame (parse_node n) (Fm f) = Some (sk_of_frame o f).
  Definition Pc (c : context) : Prop :=
    forall hp sl, vis o (c_hide c) = true ->
      hd_ok node_head (tl (Cx hp sl c))
      /\ forall n, mm (Cx hp sl c) < n -> parse_node n (Cx hp sl c) = Some (sk_of_ctx o hp sl c).
  Definition Pk (k : child) : Prop := match k with KCtx c => Pc c | KStk s => Ps s end.

  Lemma stack_case r fs lf er : Forall Pf fs -> Ps (Stk r fs lf er).
  Proof.
    intros HF. split.
    - rewrite B_eq. apply hd_ok_app; [|apply hd_ok_app].
      + apply hd_ok_flat_map. intros f. destruct (f_hide f && negb (show_hidden o)); [constructor|].
        rewrite prefix_block_pref. apply hd_ok_pref; auto.
      + destruct lf; simpl; repeat constructor.
      + destruct er; simpl; [|constructor]. constructor; [reflexivity|].
        apply Forall_forall. intros x Hx. apply in_map_iff in Hx as [l0 [<- _]]. reflexivity.
    - intros n Hn0. rewrite B_eq.
      assert (Hn : Forall (fun f => vis o (f_hide f) = true -> mm (Fm f) <= n) fs).
      { apply Forall_forall. intros f Hin Hv. rewrite B_eq, mm_app in Hn0.
        pose proof (mm_flat_map_le (fun f => if f_hide f && negb (show_hidden o) then []
                                              else prefix_block sline sl_add SF CF (Fm f)) fs f Hin) as Hle.
        cbv beta in Hle. rewrite vis_hide, Hv in Hle. simpl negb in Hle. cbv iota in Hle.
        rewrite prefix_block_pref, Fm_eq, mm_pref, <- Fm_eq in Hle. lia. }
      destruct (blocks_items SF (is_m CF) (fun _ => CF) (fun l => conj eq_refl eq_refl)
                  (fun f => if f_hide f && negb (show_hidden o) then [] else Fm f)
                  (fun f => vis o (f_hide f)) (sk_of_frame o) (parse_frame (parse_node n)) fs) as [bs [Hb Hp]].
      { apply Forall_forall. intros f Hin.
        rewrite vis_hide. destruct (vis o (f_hide f)) eqn:Hv; simpl; [right|left; auto].
        split; auto.
        assert (E : Fm f = sl_lit (frame_header f) :: tl (Fm f)) by (rewrite Fm_eq; reflexivity).
        exists (sl_lit (frame_header f)), (tl (Fm f)). split; [exact E|]. change (parse_frame (parse_node n) (sl_lit (frame_header f) :: tl (Fm f)) = Some (sk_of_frame o f)). rewrite <- E.
        eapply Forall_forall in HF; eauto. destruct HF as [_ HR]. apply HR.
        eapply Forall_forall in Hn; eauto. }
      erewrite flat_map_ext.
      2:{ intros f. rewrite prefix_block_pref.
          instantiate (1 := fun f => pref SF (fun _ => CF) (if f_hide f && negb (show_hidden o) then [] else Fm f)).
          simpl. destruct (f_hide f && negb (show_hidden o)); reflexivity. }
      erewrite parse_body_spec; [reflexivity | | exact Hb | exact Hp].
      apply hd_ok_flat_map. intros f. apply hd_ok_pref; auto.
  Qed.

  Lemma parse_frame_spec pn hdr CL bs ns code :
    hd_ok (fun m => is_m SCX m || ctx_cont m) CL ->
    forallb ctx_cont_ok CL = true ->
    blocks_aux SCX ctx_cont CL = Some ([], bs) ->
    all_some (map pn bs) = Some ns ->
    (code = [] \/ exists t, code = [([SCODE], t)]) ->
    parse_frame pn (sl_lit hdr :: CL ++ code)
    = Some (SkFrame hdr ns (match code with [(_, t)] => Some t | _ => None end)).
  Proof.
    intros H1 H2 H3 H4 H5. unfold parse_frame, sl_lit.
    rewrite span_app; auto.
    - rewrite H2, (blocks_of_aux _ _ _ _ H3), H4. destruct H5 as [->|[t ->]]; reflexivity.
    - destruct H5 as [->|[t ->]]; simpl; auto.
  Qed.

  Lemma code_lines_shape f :
    let code := code_lines sline sl_lit sl_add f in
    (code = [] \/ exists t, code = [([SCODE], t)])
    /\ (match code with [(_, t)] => Some t | _ => None end)
       = (if last_exiting (f_ctxs f) then None
          else if nonempty (frame_linetext f) then Some (frame_linetext f ++ nl) else None).
  Proof.
    unfold code_lines. destruct (last_exiting (f_ctxs f)); [split; auto|].
    destruct (nonempty (frame_linetext f)); split; auto. right. eexists. reflexivity.
  Qed.

  Definition gctx (l : sline) : marker := if sl_is_child l then SCC else CCX.
  Lemma gctx_ok l : ctx_cont (gctx l) = true /\ marker_eqb SCX (gctx l) = false.
  Proof. unfold gctx. destruct (sl_is_child l); split; reflexivity. Qed.

  Lemma Cx_hidden hp sl c : vis o (c_hide c) = false -> Cx hp sl c = [].
  Proof. intros H. rewrite Cx_eq, vis_hide, H. reflexivity. Qed.

  Lemma Cx_visible hp sl c : vis o (c_hide c) = true -> Cx hp sl c = sl_lit (ctx_line hp sl c) :: tl (Cx hp sl c).
  Proof. intros H. rewrite Cx_eq, vis_hide, H. reflexivity. Qed.

  Lemma ctx_items (hp sl : bool) n cs :
    Forall Pc cs -> Forall (fun c => vis o (c_hide c) = true -> mm (Cx hp sl c) < n) cs ->
    Forall (fun c => (vis o (c_hide c) = false /\ Cx hp sl c = [])
                     \/ (vis o (c_hide c) = true /\ exists l0 ls, Cx hp sl c = l0 :: ls
                           /\ parse_node n (l0 :: ls) = Some (sk_of_ctx o hp sl c))) cs.
  Proof.
    intros HP Hn. apply Forall_forall. intros c Hin.
    eapply Forall_forall in HP; eauto. eapply Forall_forall in Hn; eauto.
    destruct (vis o (c_hide c)) eqn:Hv; [right|left; split; auto using Cx_hidden].
    split; auto. exists (sl_lit (ctx_line hp sl c)), (tl (Cx hp sl c)). split; [apply Cx_visible; auto|].
    rewrite <- Cx_visible by auto. apply (HP hp sl Hv). apply Hn. reflexivity.
  Qed.

  Lemma frame_case fn cls md file ln src loc h hl cs :
    Forall Pc cs -> Pf (Frm fn cls md file ln src loc h hl cs).
  Proof.
    intros HC. set (f := Frm fn cls md file ln src loc h hl cs).
    assert (HCL : hd_ok (fun m => is_m SCX m || ctx_cont m)
                    (if show_ctx o then flat_map (fun c => prefix_ctx sline sl_add sl_is_child (Cx true true c)) (f_ctxs f) else [])).
    { destruct (show_ctx o); [|constructor]. apply hd_ok_flat_map. intros c. rewrite prefix_ctx_pref.
      apply hd_ok_pref; auto. intros l. destruct (sl_is_child l); reflexivity. }
    split.
    - rewrite Fm_eq. simpl tl. apply hd_ok_app.
      + eapply hd_ok_weaken; [|exact HCL]. intros m; destruct m; simpl; auto.
      + destruct (code_lines_shape f) as [[->|[t ->]] _]; repeat constructor.
    - intros n Hn. rewrite Fm_eq.
      destruct (code_lines_shape f) as [Hshape Hcode].
      assert (exists bs, blocks_aux SCX ctx_cont
                  (if show_ctx o then flat_map (fun c => prefix_ctx sline sl_add sl_is_child (Cx true true c)) (f_ctxs f) else [])
                = Some ([], bs)
                /\ all_some (map (parse_node n) bs)
                   = Some (if show_ctx o
                           then flat_map (fun c => if vis o (c_hide c) then [sk_of_ctx o true true c] else []) (f_ctxs f)
                           else [])) as [bs [Hb Hp]].
      { destruct (show_ctx o) eqn:Hsc; [|exists []; split; reflexivity].
        destruct (blocks_items SCX ctx_cont gctx gctx_ok (Cx true true) (fun c => vis o (c_hide c))
                    (sk_of_ctx o true true) (parse_node n) (f_ctxs f)) as [bs [Hb Hp]].
        { apply ctx_items; auto. apply Forall_forall. intros c Hin Hv.
          rewrite Fm_eq, mm_cons, mm_app, Hsc in Hn.
          pose proof (mm_flat_map_le (fun c => prefix_ctx sline sl_add sl_is_child (Cx true true c)) (f_ctxs f) c Hin) as Hle.
          cbv beta in Hle. rewrite prefix_ctx_pref, (Cx_visible true true c Hv), mm_pref, <- (Cx_visible true true c Hv) in Hle.
          lia. }
        exists bs. split; auto. erewrite flat_map_ext; [exact Hb|]. intros c. apply prefix_ctx_pref. }
      erewrite parse_frame_spec; [ | exact HCL | | exact Hb | exact Hp | exact Hshape ].
      + exact (f_equal (fun x => Some (SkFrame _ _ x)) Hcode).
      + destruct (show_ctx o); auto. apply forallb_flat_map. intros c. apply ctx_cont_ok_prefix_ctx.
  Qed.

  Definition core (k : child) : list sline :=
    match k with KCtx c => Cx false false c | KStk s => sl_lit (child_root_line (s_root s)) :: B s end.
  Definition keepk (k : child) : bool := match k with KCtx c => vis o (c_hide c) | KStk _ => true end.
  Definition skk (k : child) : sk_node :=
    match k with
    | KCtx c => sk_of_ctx o false false c
    | KStk s => SkNode (child_root_line (s_root s)) (sk_body o s) []
    end.

  Lemma core_tail_ok k : Pk k -> hd_ok node_head (tl (core k)).
  Proof.
    destruct k as [c|s]; simpl; intros H.
    - destruct (vis o (c_hide c)) eqn:Hv; [apply (H false false Hv)|]. rewrite Cx_hidden; auto. constructor.
    - eapply hd_ok_weaken; [|apply H]. intros m Hm. unfold node_head. rewrite Hm. reflexivity.
  Qed.

  Lemma filter_pref_core k : Pk k ->
    filter notblank (pref SC (fun _ => CC) (core k)) = pref SC (fun _ => CC) (core k).
  Proof.
    intros H. pose proof (core_tail_ok k H) as Ht. destruct (core k) as [|l0 rest]; [reflexivity|].
    eapply notblank_pref_CC; eauto.
  Qed.

  Lemma kids_lines ks : Forall Pk ks ->
    forall db, hd_ok kid_head (KL db ks)
               /\ filter notblank (KL db ks) = flat_map (fun k => pref SC (fun _ => CC) (core k)) ks.
  Proof.
    induction 1 as [|k ks Hk _ IH]; intros db; simpl; [split; [constructor|reflexivity]|].
    split.
    - apply hd_ok_app; [|apply hd_ok_app; [|apply IH]].
      + destruct k as [c|s]; simpl; [constructor|]. destruct (nonempty (s_frames s)); simpl; [|constructor].
        destruct db; repeat constructor.
      + rewrite prefix_block_pref. apply hd_ok_pref; auto.
    - rewrite !filter_app. rewrite (proj2 (IH _)). rewrite prefix_block_pref.
      destruct k as [c|s]; simpl fst; simpl snd.
      + simpl. f_equal. apply (filter_pref_core (KCtx c) Hk).
      + destruct (nonempty (s_frames s)); simpl fst; simpl snd.
        * replace (filter notblank (if db then [] else [sl_add CC (sl_lit nl)])) with (@nil sline)
            by (destruct db; reflexivity).
          change ((sl_lit (child_root_line (s_root s)) :: B s) ++ [sl_lit nl])
            with (sl_lit (child_root_line (s_root s)) :: B s ++ [sl_lit nl]).
          rewrite (notblank_pref_CC_trailing body_head) by apply Hk. reflexivity.
        * change (sl_lit (child_root_line (s_root s)) :: B s) with (core (KStk s)).
          rewrite (filter_pref_core (KStk s) Hk). reflexivity.
  Qed.

  Lemma hd_first_not_body ls : hd_ok kid_head ls ->
    match ls with [] => True | x :: _ => head_is body_head x = false end.
  Proof.
    destruct ls as [|[[|m ms] t] r]; auto; intros H; inversion H as [|? ? H1 _]; subst.
    unfold head_is in *. simpl in *. destruct m; auto; discriminate.
  Qed.

  Lemma parse_body_nil pn : parse_body pn [] = Some (SkStack [] None []).
  Proof. reflexivity. Qed.

  Lemma parse_node_spec n line BL KLs inner bs ks :
    hd_ok body_head BL -> hd_ok kid_head KLs ->
    parse_body (parse_node n) BL = Some inner ->
    blocks_aux SC (is_m CC) (filter notblank KLs) = Some ([], bs) ->
    all_some (map (parse_node n) bs) = Some ks ->
    parse_node (S n) (sl_lit line :: BL ++ KLs) = Some (SkNode line inner ks).
  Proof.
    intros H1 H2 H3 H4 H5. simpl. unfold sl_lit.
    rewrite span_app; [ | exact H1 | apply hd_first_not_body; exact H2 ].
    rewrite H3. fold notblank. rewrite (blocks_of_aux _ _ _ _ H4), H5. reflexivity.
  Qed.

  Lemma mm_kid_block db k : core k <> [] ->
    S (mm (core k)) <= mm (prefix_block sline sl_add SC CC
                             (snd (kid_lines sline sl_lit sl_add (Cx false false) B db k))).
  Proof.
    intros Hne. rewrite prefix_block_pref. destruct k as [c|s]; simpl snd.
    - simpl core in *. destruct (Cx false false c) as [|l0 r]; [congruence|]. rewrite mm_pref. lia.
    - simpl core. destruct (nonempty (s_frames s)); simpl snd.
      + change ((sl_lit (child_root_line (s_root s)) :: B s) ++ [sl_lit nl])
          with (sl_lit (child_root_line (s_root s)) :: B s ++ [sl_lit nl]).
        rewrite mm_pref, !mm_cons, mm_app. lia.
      + rewrite mm_pref. lia.
  Qed.

  Lemma mm_kids ks : forall db k, In k ks -> core k <> [] -> S (mm (core k)) <= mm (KL db ks).
  Proof.
    induction ks as [|k0 ks IH]; simpl; [tauto|]. intros db k Hin Hne. rewrite !mm_app.
    destruct Hin as [->|Hin].
    - pose proof (mm_kid_block db k Hne). lia.
    - specialize (IH (last_blank sline sl_is_blank (snd (kid_lines sline sl_lit sl_add (Cx false false) B db k0))) k Hin Hne). lia.
  Qed.

  Lemma kid_items n ks :
    Forall Pk ks -> Forall (fun k => keepk k = true -> mm (core k) < n) ks ->
    Forall (fun k => (keepk k = false /\ core k = [])
                     \/ (keepk k = true /\ exists l0 ls, core k = l0 :: ls /\ parse_node n (l0 :: ls) = Some (skk k))) ks.
  Proof.
    intros HP Hn. apply Forall_forall. intros k Hin.
    eapply Forall_forall in HP; eauto. eapply Forall_forall in Hn; eauto.
    destruct k as [c|s]; simpl in HP |- *; simpl keepk in Hn; simpl core in Hn.
    - destruct (vis o (c_hide c)) eqn:Hv; [right|left; split; auto using Cx_hidden].
      split; auto. exists (sl_lit (ctx_line false false c)), (tl (Cx false false c)). split; [apply Cx_visible; auto|].
      rewrite <- Cx_visible by auto. apply (HP false false Hv). apply Hn. reflexivity.
    - right. split; auto. eexists. eexists. split; [reflexivity|].
      specialize (Hn eq_refl). rewrite mm_cons in Hn.
      destruct n as [|n]; [lia|]. destruct HP as [Hhd HR].
      rewrite <- (app_nil_r (B s)).
      eapply parse_node_spec; eauto; try constructor. apply HR. lia.
  Qed.

  Lemma ctx_case ty asy ex vn sl0 ds cs cr orp inn ks h :
    opt_P Ps inn -> Forall Pk ks -> Pc (Ctx ty asy ex vn sl0 ds cs cr orp inn ks h).
  Proof.
    intros Hi Hk hp sl Hv. set (c := Ctx ty asy ex vn sl0 ds cs cr orp inn ks h) in *.
    assert (HB : hd_ok body_head (match inn with Some s => B s | None => [] end)).
    { destruct inn; [apply Hi | constructor]. }
    destruct (kids_lines ks Hk false) as [HK1 HK2].
    assert (E : tl (Cx hp sl c) = (match inn with Some s => B s | None => [] end) ++ KL false ks).
    { rewrite Cx_eq, vis_hide, Hv. reflexivity. }
    split.
    - rewrite E. apply hd_ok_app.
      + eapply hd_ok_weaken; [|exact HB]. intros m Hm. unfold node_head. rewrite Hm. reflexivity.
      + eapply hd_ok_weaken; [|exact HK1]. intros m Hm. unfold node_head. rewrite Hm. apply orb_true_r.
    - intros n Hn. rewrite (Cx_visible hp sl c Hv), E in Hn |- *.
      rewrite mm_cons, mm_app in Hn. destruct n as [|n]; [lia|].
      assert (Hn1 : mm (match inn with Some s => B s | None => [] end) <= S n) by lia.
      assert (Hn2 : mm (KL false ks) <= n) by lia.
      destruct (blocks_items SC (is_m CC) (fun _ => CC) (fun l => conj eq_refl eq_refl)
                  core keepk skk (parse_node n) ks) as [bs [Hb Hp]].
      { apply kid_items; auto. apply Forall_forall. intros k Hin Hkeep.
        assert (Hne : core k <> []).
        { destruct k as [c'|s']; simpl in *; [rewrite (Cx_visible false false c' Hkeep)|]; discriminate. }
        pose proof (mm_kids ks false k Hin Hne). lia. }
      erewrite parse_node_spec; [ | exact HB | exact HK1 | | rewrite HK2; exact Hb | exact Hp ].
      + simpl. f_equal. f_equal. apply flat_map_ext. intros [c'|s]; reflexivity.
      + destruct inn as [s|]; [apply Hi; exact Hn1 | apply parse_body_nil].
  Qed.

  Lemma roundtrip_all :
    (forall s, Ps s) /\ (forall f, Pf f) /\ (forall c, Pc c) /\ (forall k, Pk k).
  Proof.
    apply tree_ind.
    - apply stack_case.
    - apply frame_case.
    - intros. apply ctx_case; auto.
    - auto.
    - auto.
  Qed.

  Theorem roundtrip_fuel s n :
    mm (fmt_stack_sl o s) <= S n -> read_back_fuel n (fmt_stack_sl o s) = Some (skeleton_visible o s).
  Proof.
    intros Hn. destruct roundtrip_all as [H _]. destruct (H s) as [_ HR].
    unfold read_back_fuel, fmt_stack_sl, fmt_stack, sl_lit in *.
    change (fmt_body sline (fun t => ([], t)) sl_add sl_is_child sl_is_blank (show_ctx o) (show_hidden o) s) with (B s) in *.
    rewrite mm_cons in Hn. rewrite (HR n) by lia. reflexivity.
  Qed.

  (* read_back computes its own fuel from the text (1 + longest marker chain): always enough *)
  Theorem roundtrip s : read_back (fmt_stack_sl o s) = Some (skeleton_visible o s).
  Proof. unfold read_back. apply roundtrip_fuel. lia. Qed.
End RoundTrip.

(* ------------------------------------------------------------------ strings = rendered structured lines *)
Definition solid (m : marker) : bool := match m with SF | CF | SL | SCX | SC | SCODE => true | _ => false end.
Definition good (l : sline) : Prop := forallb spacey (fst l) = true \/ existsb solid (fst l) = true.

(* finite facts about the marker strings regenerated from _types.py *)
Definition markers_wf : bool :=
  forallb (fun asc =>
    forallb (fun m => Nat.eqb (List.length (mstr asc m)) 2) [SF;CF;SL;SCX;CCX;SCC;SCODE;SC;CC;ERR;CCI]
    && text_eqb (mstr asc CCI) (mstr asc SC)
    && forallb (fun m => negb (text_eqb (mstr asc m) (mstr asc SC))) [SF;CF;SL;ERR;CC]
    && forallb (fun m => negb (all_space (mstr asc m))) [SF;CF;SL;SCX;SC;SCODE]
    && forallb (fun m => all_space (mstr asc m)) [CC;ERR]) [true;false]
  (* unicode mode: the alternatives at one column are pairwise different strings *)
  && forallb (fun p => negb (text_eqb (mstr false (fst p)) (mstr false (snd p))))
       [(SF,CF);(SF,SL);(CF,SL);(SF,ERR);(CF,ERR);(SL,ERR);
        (SCX,CCX);(SCX,SCC);(SCX,SCODE);(CCX,SCC);(CCX,SCODE);(SCC,SCODE);(SC,CC)]
  && forallb (fun m => forallb (fun c => N.ltb c 128) (mstr true m)) [SF;CF;SL;SCX;CCX;SCC;SCODE;SC;CC;ERR;CCI].

Lemma markers_wf_ok : markers_wf = true.
Proof. vm_compute. reflexivity. Qed.

Section StrLevel.
  Variable o : fopts.
  Let asc := M_Format.ascii o.
  Notation R := (render asc).
  Notation B := (fmt_body_sl o).
  Notation Fm := (fmt_frame_sl o).
  Notation Cx := (fmt_ctx_sl o).
  Notation Bs := (fmt_body text (fun t => t) (str_add asc) (str_is_child asc) all_space (show_ctx o) (show_hidden o)).
  Notation Fs := (fmt_frame text (fun t => t) (str_add asc) (str_is_child asc) all_space (show_ctx o) (show_hidden o)).
  Notation Cs := (fmt_ctx text (fun t => t) (str_add asc) (str_is_child asc) all_space (show_ctx o) (show_hidden o)).

  Lemma R_lit t : R (sl_lit t) = t.
  Proof. reflexivity. Qed.
  Lemma R_add m l : R (sl_add m l) = str_add asc m (R l).
  Proof. unfold render, str_add, sl_add. simpl. rewrite app_assoc. reflexivity. Qed.

  Lemma is_child_agree l : head_is node_head l = true -> str_is_child asc (R l) = sl_is_child l.
  Proof.
    destruct l as [[|m ms] t]; unfold head_is; simpl; [discriminate|]. intros H.
    unfold str_is_child, sl_is_child, render. simpl. rewrite <- app_assoc.
    unfold asc. destruct (M_Format.ascii o), m; try discriminate H; reflexivity.
  Qed.

  Lemma all_space_app x y : all_space (x ++ y) = all_space x && all_space y.
  Proof. apply forallb_app. Qed.

  Lemma spacey_space ms : forallb spacey ms = true -> all_space (flat_map (mstr asc) ms) = true.
  Proof.
    induction ms as [|m ms IH]; simpl; auto. intros H. apply andb_true_iff in H as [H1 H2].
    rewrite all_space_app, IH by auto. unfold asc. destruct (M_Format.ascii o), m; try discriminate H1; reflexivity.
  Qed.

  Lemma solid_nonspace ms : existsb solid ms = true -> all_space (flat_map (mstr asc) ms) = false.
  Proof.
    induction ms as [|m ms IH]; simpl; [discriminate|]. intros H. rewrite all_space_app.
    apply orb_true_iff in H as [H|H].
    - replace (all_space (mstr asc m)) with false; auto.
      unfold asc. destruct (M_Format.ascii o), m; try discriminate H; reflexivity.
    - rewrite IH by auto. apply andb_false_r.
  Qed.

  Lemma solid_not_spacey ms : existsb solid ms = true -> forallb spacey ms = false.
  Proof.
    induction ms as [|m ms IH]; simpl; [discriminate|]. intros H. apply orb_true_iff in H as [H|H].
    - destruct m; try discriminate H; reflexivity.
    - rewrite IH by auto. apply andb_false_r.
  Qed.

  Lemma blank_agree l : good l -> all_space (R l) = sl_is_blank l.
  Proof.
    destruct l as [ms t]. unfold good, render, sl_is_blank. simpl. rewrite all_space_app. intros [H|H].
    - rewrite spacey_space, H by auto. reflexivity.
    - rewrite solid_nonspace, solid_not_spacey by auto. reflexivity.
  Qed.

  Lemma good_add m l : solid m = true \/ (spacey m = true /\ good l) -> good (sl_add m l).
  Proof.
    unfold good. simpl. intros [H|[H [G|G]]].
    - right. rewrite H. reflexivity.
    - left. rewrite H, G. reflexivity.
    - right. rewrite G. apply orb_true_r.
  Qed.

  Lemma good_lit t : good (sl_lit t).
  Proof. left. reflexivity. Qed.

  Lemma map_prefix_block A Bm ls :
    map R (prefix_block sline sl_add A Bm ls) = prefix_block text (str_add asc) A Bm (map R ls).
  Proof.
    destruct ls as [|l0 r]; simpl; auto. rewrite R_add, !map_map. f_equal. apply map_ext. intros. apply R_add.
  Qed.

  Lemma map_prefix_ctx ls : hd_ok node_head (tl ls) ->
    map R (prefix_ctx sline sl_add sl_is_child ls) = prefix_ctx text (str_add asc) (str_is_child asc) (map R ls).
  Proof.
    destruct ls as [|l0 r]; simpl; auto. intros H. rewrite R_add, !map_map. f_equal.
    apply map_ext_in. intros l Hl. eapply Forall_forall in H; eauto. rewrite (is_child_agree l H).
    destruct (sl_is_child l); apply R_add.
  Qed.

  Lemma last_blank_agree sub : Forall good sub ->
    last_blank text all_space (map R sub) = last_blank sline sl_is_blank sub.
  Proof.
    intros H. unfold last_blank, last_opt. rewrite <- map_rev.
    assert (H' : Forall good (rev sub)) by (apply Forall_rev; auto).
    destruct (rev sub) as [|x r]; simpl; auto. inversion H'; subst. apply blank_agree; auto.
  Qed.

  Lemma map_flat_map {X} (F : X -> list sline) (G : X -> list text) xs :
    (forall x, In x xs -> map R (F x) = G x) -> map R (flat_map F xs) = flat_map G xs.
  Proof.
    induction xs as [|x xs IH]; simpl; auto. intros H. rewrite map_app, H, IH; auto.
  Qed.

  Definition Qs (s : stack) : Prop := Forall good (B s) /\ map R (B s) = Bs s.
  Definition Qf (f : frame) : Prop := map R (Fm f) = Fs f.
  Definition Qc (c : context) : Prop := forall hp sl, Forall good (Cx hp sl c) /\ map R (Cx hp sl c) = Cs hp sl c.
  Definition Qk (k : child) : Prop := match k with KCtx c => Qc c | KStk s => Qs s end.

  Lemma good_pref_solid A Bm ls : solid A = true -> solid Bm = true -> Forall good (prefix_block sline sl_add A Bm ls).
  Proof.
    intros HA HB. destruct ls as [|l0 r]; simpl; constructor; [apply good_add; auto|].
    apply Forall_forall. intros x Hx. apply in_map_iff in Hx as [l [<- _]]. apply good_add; auto.
  Qed.

  Lemma good_pref_CC ls : Forall good ls -> Forall good (prefix_block sline sl_add SC CC ls).
  Proof.
    intros H. destruct ls as [|l0 r]; simpl; constructor; [apply good_add; auto|].
    inversion H; subst. apply Forall_forall. intros x Hx. apply in_map_iff in Hx as [l [<- Hl]].
    apply good_add. right. split; auto. eapply Forall_forall in H3; eauto.
  Qed.

  Lemma Forall_flat_map {X Y} (P : Y -> Prop) (F : X -> list Y) xs : (forall x, Forall P (F x)) -> Forall P (flat_map F xs).
  Proof. intros H. induction xs; simpl; [constructor | apply Forall_app; auto]. Qed.

  Lemma Bs_eq r fs lf er :
    Bs (Stk r fs lf er) =
    flat_map (fun f => if f_hide f && negb (show_hidden o) then [] else prefix_block text (str_add asc) SF CF (Fs f)) fs
    ++ leaf_lines text (fun t => t) (str_add asc) lf ++ err_lines text (fun t => t) (str_add asc) er.
  Proof. reflexivity. Qed.

  Lemma str_stack_case r fs lf er : Forall Qf fs -> Qs (Stk r fs lf er).
  Proof.
    intros HF. split.
    - rewrite B_eq. apply Forall_app; split; [|apply Forall_app; split].
      + apply Forall_flat_map. intros f. destruct (f_hide f && negb (show_hidden o)); [constructor|].
        apply good_pref_solid; reflexivity.
      + destruct lf; simpl; [constructor; [apply good_add; left; reflexivity | constructor] | constructor].
      + destruct er; simpl; [|constructor]. constructor.
        * apply good_add. right. split; auto. apply good_lit.
        * apply Forall_forall. intros x Hx. apply in_map_iff in Hx as [l1 [<- _]].
          apply good_add. right. split; auto. apply good_lit.
    - rewrite B_eq, Bs_eq. rewrite !map_app. f_equal; [|f_equal].
      + apply map_flat_map. intros f Hin. destruct (f_hide f && negb (show_hidden o)); [reflexivity|].
        rewrite map_prefix_block. f_equal. eapply Forall_forall in HF; eauto.
      + destruct lf; simpl; [rewrite R_add|]; reflexivity.
      + destruct er; simpl; [|reflexivity]. rewrite R_add. f_equal. rewrite map_map. apply map_ext. intros.
        rewrite R_add. reflexivity.
  Qed.

  Lemma str_frame_case fn cls md file ln src loc h hl cs :
    Forall Qc cs -> Qf (Frm fn cls md file ln src loc h hl cs).
  Proof.
    intros HC. set (f := Frm fn cls md file ln src loc h hl cs). unfold Qf. rewrite Fm_eq.
    change (Fs f) with ((fun t => t) (frame_header f)
                          :: (if show_ctx o then flat_map (fun c => prefix_ctx text (str_add asc) (str_is_child asc) (Cs true true c)) (f_ctxs f) else [])
                          ++ code_lines text (fun t => t) (str_add asc) f).
    simpl map. f_equal. rewrite map_app. f_equal.
    - assert (E : map R (flat_map (fun c => prefix_ctx sline sl_add sl_is_child (Cx true true c)) (f_ctxs f))
                  = flat_map (fun c => prefix_ctx text (str_add asc) (str_is_child asc) (Cs true true c)) (f_ctxs f)).
      { apply map_flat_map. intros c Hin.
        eapply Forall_forall in HC; eauto. destruct (HC true true) as [_ HR].
        rewrite map_prefix_ctx; [rewrite HR; reflexivity|].
        destruct (vis o (c_hide c)) eqn:Hv.
        + destruct (roundtrip_all o) as [_ [_ [Hc _]]]. apply (Hc c true true Hv).
        + rewrite Cx_hidden by auto. constructor. }
      revert E. destruct (show_ctx o); intros E; [exact E | reflexivity].
    - unfold code_lines. destruct (last_exiting (f_ctxs f)); [reflexivity|].
      destruct (nonempty (frame_linetext f)); simpl; [rewrite R_add|]; reflexivity.
  Qed.

  Notation KL := (fmt_kids sline sl_lit sl_add sl_is_blank (Cx false false) B).
  Notation KLs := (fmt_kids text (fun t => t) (str_add asc) all_space (Cs false false) Bs).

  Lemma str_kids ks : Forall Qk ks -> forall db, Forall good (KL db ks) /\ map R (KL db ks) = KLs db ks.
  Proof.
    induction 1 as [|k ks Hk _ IH]; intros db; simpl; [split; [constructor|reflexivity]|].
    assert (Hsub : Forall good (snd (kid_lines sline sl_lit sl_add (Cx false false) B db k))
                   /\ map R (snd (kid_lines sline sl_lit sl_add (Cx false false) B db k))
                      = snd (kid_lines text (fun t => t) (str_add asc) (Cs false false) Bs db k)).
    { destruct k as [c|s]; simpl.
      - apply (Hk false false).
      - destruct Hk as [G E]. destruct (nonempty (s_frames s)); simpl; split.
        + constructor; [apply good_lit|]. apply Forall_app; split; auto. repeat constructor.
        + rewrite map_app, E. reflexivity.
        + constructor; [apply good_lit|]. auto.
        + rewrite E. reflexivity. }
    assert (Hpre : Forall good (fst (kid_lines sline sl_lit sl_add (Cx false false) B db k))
                   /\ map R (fst (kid_lines sline sl_lit sl_add (Cx false false) B db k))
                      = fst (kid_lines text (fun t => t) (str_add asc) (Cs false false) Bs db k)).
    { destruct k as [c|s]; simpl; [split; [constructor|reflexivity]|].
      destruct (nonempty (s_frames s)); simpl; [|split; [constructor|reflexivity]].
      destruct db; simpl; split; try constructor; try reflexivity; auto.
      apply good_add. right. split; auto. apply good_lit. }
    destruct Hsub as [G1 E1]. destruct Hpre as [G0 E0]. split.
    - apply Forall_app; split; auto. apply Forall_app; split; [apply good_pref_CC; auto | apply IH].
    - rewrite !map_app, E0, map_prefix_block, E1. f_equal. f_equal.
      rewrite <- E1, last_blank_agree by auto. apply IH.
  Qed.

  Lemma str_ctx_case ty asy ex vn sl0 ds cs cr orp inn ks h :
    opt_P Qs inn -> Forall Qk ks -> Qc (Ctx ty asy ex vn sl0 ds cs cr orp inn ks h).
  Proof.
    intros Hi Hk hp sl. set (c := Ctx ty asy ex vn sl0 ds cs cr orp inn ks h).
    rewrite Cx_eq.
    change (Cs hp sl c) with (if c_hide c && negb (show_hidden o) then []
                              else (fun t => t) (ctx_line hp sl c)
                                   :: (match inn with Some s => Bs s | None => [] end) ++ KLs false ks).
    destruct (c_hide c && negb (show_hidden o)); [split; [constructor|reflexivity]|].
    destruct (str_kids ks Hk false) as [GK EK]. simpl. split.
    - constructor; [apply good_lit|]. apply Forall_app; split; auto. destruct inn; [apply Hi|constructor].
    - f_equal. rewrite map_app, EK. f_equal. destruct inn; [apply Hi|reflexivity].
  Qed.

  Lemma str_all : (forall s, Qs s) /\ (forall f, Qf f) /\ (forall c, Qc c) /\ (forall k, Qk k).
  Proof.
    apply tree_ind.
    - apply str_stack_case.
    - apply str_frame_case.
    - intros. apply str_ctx_case; auto.
    - auto.
    - auto.
  Qed.

  Theorem str_is_render s : fmt_stack_str o s = map R (fmt_stack_sl o s).
  Proof.
    destruct str_all as [H _]. destruct (H s) as [_ E].
    unfold fmt_stack_str, fmt_stack_sl, fmt_stack. simpl map. f_equal. symmetry. exact E.
  Qed.
End StrLevel.

(* ------------------------------------------------------------------ corollaries *)
Definition with_ascii (b : bool) (o : fopts) : fopts :=
  {| M_Format.ascii := b; show_ctx := show_ctx o; show_hidden := show_hidden o |}.

(* ascii_only output and unicode output are renderings of the SAME structured lines *)
Theorem ascii_homomorphic o s :
  fmt_stack_str (with_ascii true o) s = map (render true) (fmt_stack_sl o s)
  /\ fmt_stack_str (with_ascii false o) s = map (render false) (fmt_stack_sl o s)
  /\ (forall m, forallb (fun c => N.ltb c 128) (mstr true m) = true).
Proof.
  split; [|split].
  - apply (str_is_render (with_ascii true o)).
  - apply (str_is_render (with_ascii false o)).
  - intros m. destruct m; reflexivity.
Qed.

(* show_contexts=False: header, then per visible frame its own line and (unless the last
   context is exiting / there is no source text) its code line, then leaf and error *)
Theorem no_contexts_frame_series o r fs lf er :
  show_ctx o = false ->
  fmt_stack_sl o (Stk r fs lf er) =
  ([], header_text r)
  :: flat_map (fun f => if vis o (f_hide f)
                        then ([SF], frame_header f) :: map (sl_add CF) (code_lines sline sl_lit sl_add f)
                        else []) fs
  ++ leaf_lines sline sl_lit sl_add lf ++ err_lines sline sl_lit sl_add er.
Proof.
  intros H. unfold fmt_stack_sl, fmt_stack. f_equal.
  change (fmt_body sline sl_lit sl_add sl_is_child sl_is_blank (show_ctx o) (show_hidden o) (Stk r fs lf er))
    with (fmt_body_sl o (Stk r fs lf er)).
  rewrite B_eq. f_equal. apply flat_map_ext. intros f. rewrite vis_hide.
  destruct (vis o (f_hide f)); simpl; [|reflexivity]. rewrite Fm_eq, H. reflexivity.
Qed.

Lemma flat_map_filter {X Y} (p : X -> bool) (g : X -> Y) xs :
  flat_map (fun x => if p x then [g x] else []) xs = map g (filter p xs).
Proof. induction xs as [|x xs IH]; simpl; auto. destruct (p x); simpl; f_equal; auto. Qed.

(* hidden frames/contexts are in the text read back iff show_hidden_frames *)
Theorem hidden_iff o r fs lf er :
  exists lf' er',
    read_back (fmt_stack_sl o (Stk r fs lf er))
    = Some (header_text r,
            SkStack (map (sk_of_frame o) (filter (fun f => negb (f_hide f) || show_hidden o) fs)) lf' er')
  /\ forall f, sk_of_frame o f
     = SkFrame (frame_header f)
               (if show_ctx o
                then map (sk_of_ctx o true true) (filter (fun c => negb (c_hide c) || show_hidden o) (f_ctxs f))
                else [])
               (if last_exiting (f_ctxs f) then None
                else if nonempty (frame_linetext f) then Some (frame_linetext f ++ nl) else None).
Proof.
  eexists. eexists. split.
  - rewrite (roundtrip o). unfold skeleton_visible. simpl. f_equal. f_equal. f_equal.
    apply (flat_map_filter (fun f => vis o (f_hide f)) (sk_of_frame o)).
  - intros f. destruct f as [fn cls md file ln src loc h hl cs]. simpl. f_equal.
    destruct (show_ctx o); auto.
    apply (flat_map_filter (fun c => vis o (c_hide c)) (sk_of_ctx o true true)).
Qed.

(* str(x) = "".join(x.format()) *)
Definition str_of (s : stack) : text :=
  List.concat (fmt_stack_str {| M_Format.ascii := false; show_ctx := true; show_hidden := false |} s).

(* ------------------------------------------------------------------ single newline-terminated lines *)
Definition nonl (t : text) : bool := forallb (fun c => negb (N.eqb c 10)) t.
(* ends with "\n" and contains no other "\n" *)
Definition oneline (t : text) : bool :=
  match rev t with c :: r => N.eqb c 10 && nonl r | [] => false end.
Definition single_lines (ls : list text) : bool := forallb oneline ls.

Lemma nonl_app x y : nonl (x ++ y) = nonl x && nonl y.
Proof. apply forallb_app. Qed.
Lemma nonl_rev x : nonl (rev x) = nonl x.
Proof.
  induction x as [|c x IH]; simpl; auto. rewrite nonl_app, IH. simpl. rewrite andb_true_r. apply andb_comm.
Qed.
Lemma oneline_app x y : nonl x = true -> oneline y = true -> oneline (x ++ y) = true.
Proof.
  unfold oneline. rewrite rev_app_distr. destruct (rev y) as [|c r]; [discriminate|]. simpl.
  intros Hx H. apply andb_true_iff in H as [H1 H2]. rewrite H1, nonl_app, H2, nonl_rev, Hx. reflexivity.
Qed.
Lemma oneline_nl x : nonl x = true -> oneline (x ++ nl) = true.
Proof. intros H. apply oneline_app; auto. Qed.

Lemma nonl_uint u : nonl (uint_text u) = true.
Proof. induction u; simpl; auto. Qed.
Lemma nonl_dec n : nonl (dec n) = true.
Proof. apply nonl_uint. Qed.

(* the pieces of str.splitlines() contain no "\n" *)
Lemma splitn_nonl s : forall cur, nonl cur = true -> Forall (fun p => nonl p = true) (splitn cur s).
Proof.
  assert (R : forall cur, nonl cur = true -> nonl (rev cur) = true) by (intros; rewrite nonl_rev; auto).
  induction s as [s IH] using (well_founded_induction (Wf_nat.well_founded_ltof _ (@List.length N))).
  intros cur Hc. destruct s as [|c r]; simpl.
  - destruct cur; repeat constructor. apply (R (n :: cur) Hc).
  - destruct (N.eqb c 13) eqn:E13.
    + destruct r as [|c2 r']; [repeat constructor; auto|].
      destruct (N.eqb c2 10); constructor; auto; apply IH; auto; unfold Wf_nat.ltof; simpl; lia.
    + destruct (is_sep c) eqn:Es.
      * constructor; auto. apply IH; auto. unfold Wf_nat.ltof; simpl; lia.
      * apply IH; [unfold Wf_nat.ltof; simpl; lia|]. simpl. rewrite Hc, andb_true_r.
        destruct (N.eqb c 10) eqn:E10; auto. apply N.eqb_eq in E10. subst c. discriminate Es.
Qed.

Lemma err_sublines_oneline raw : Forall (fun t => oneline t = true) (err_sublines raw).
Proof.
  unfold err_sublines. induction raw as [|l raw IH]; simpl; [constructor|].
  apply Forall_app; split; auto. destruct (text_eqb l tb_header); [constructor|].
  apply Forall_forall. intros x Hx. apply in_map_iff in Hx as [p [<- Hp]]. apply oneline_nl.
  pose proof (splitn_nonl l [] eq_refl) as H. eapply Forall_forall in H; eauto.
Qed.

(* negation of F12's signature: no payload other than the error text contains a newline *)
Definition onl (o : option text) : bool := match o with Some t => nonl t | None => true end.
Fixpoint clean_stack (s : stack) : bool :=
  let 'Stk r fs lf _ := s in onl r && onl lf && forallb clean_frame fs
with clean_frame (f : frame) : bool :=
  let 'Frm fn cls md file _ src _ _ _ cs := f in
  nonl fn && onl cls && onl md && nonl file && nonl src && forallb clean_ctx cs
with clean_ctx (c : context) : bool :=
  let 'Ctx ty _ _ vn _ ds csrc _ _ inn ks _ := c in
  onl ty && onl vn && onl ds && nonl csrc
  && (match inn with Some s => clean_stack s | None => true end)
  && forallb clean_child ks
with clean_child (k : child) : bool :=
  match k with KCtx c => clean_ctx c | KStk s => clean_stack s end.

Ltac split_and :=
  repeat match goal with
         | H : _ && _ = true |- _ => apply andb_true_iff in H; destruct H
         end.

Lemma header_oneline r : onl r = true -> oneline (header_text r) = true.
Proof.
  destruct r as [r|]; intros H; [|reflexivity]. simpl in H.
  unfold header_text. apply oneline_app; [reflexivity|]. apply oneline_app; [exact H|]. apply oneline_nl. reflexivity.
Qed.

Lemma frame_header_oneline f : clean_frame f = true -> oneline (frame_header f) = true.
Proof.
  destruct f as [fn cls md file ln src loc h hl cs]. intros H. simpl in H. split_and.
  unfold frame_header.
  apply oneline_app.
  { destruct cls as [c|]; auto. simpl in * |-. rewrite !nonl_app.
    repeat (apply andb_true_iff; split); auto. }
  apply oneline_app; [reflexivity|]. apply oneline_app.
  { destruct md as [[|x m]|]; simpl in *; auto. }
  apply oneline_app; [reflexivity|]. apply oneline_app; [auto|]. apply oneline_app; [reflexivity|].
  apply oneline_nl. apply nonl_dec.
Qed.

Lemma join_sp_nonl l : forallb nonl l = true -> nonl (join_sp l) = true.
Proof.
  induction l as [|x l IH]; auto. intros H. simpl in H. apply andb_true_iff in H as [H1 H2].
  destruct l as [|y l]; [exact H1|].
  change (join_sp (x :: y :: l)) with (x ++ a " " ++ join_sp (y :: l)).
  rewrite !nonl_app, H1, (IH H2). reflexivity.
Qed.

Lemma name_and_type_nonl c : clean_ctx c = true -> nonl (name_and_type c) = true.
Proof.
  destruct c as [ty asy ex vn sl ds csrc cr orp inn ks hh]. intros H. simpl in H. split_and.
  unfold name_and_type. destruct ty as [t|].
  - rewrite !nonl_app. repeat (apply andb_true_iff; split); auto.
    destruct vn as [[|x v]|]; auto.
  - destruct vn; auto.
Qed.

Lemma ctx_line_oneline hp sl c : clean_ctx c = true -> oneline (ctx_line hp sl c) = true.
Proof.
  intros Hc. pose proof (name_and_type_nonl c Hc) as Hi.
  destruct c as [ty asy ex vn sl0 ds csrc cr orp inn ks hh]. unfold ctx_line.
  set (info := name_and_type _) in *. simpl in Hc. split_and.
  set (lt0 := match sl0 with Some _ => if hp then csrc else [] | None => [] end).
  assert (Hlt0 : nonl lt0 = true) by (unfold lt0; destruct sl0, hp; auto).
  set (lt := if nonempty lt0 then lt0 else _).
  assert (Hl : nonl lt = true).
  { unfold lt. destruct (nonempty lt0); auto. destruct ds as [[|x d]|]; simpl in *; auto; destruct asy; reflexivity. }
  set (parts := (if nonempty info then [info] else []) ++ _).
  assert (Hp : forallb nonl parts = true).
  { unfold parts. rewrite forallb_app. destruct (nonempty info); simpl; rewrite ?Hi; simpl;
      destruct sl0; auto; destruct sl; simpl; auto; rewrite !nonl_app, nonl_dec; reflexivity. }
  apply oneline_nl. destruct (nonempty parts); auto. rewrite !nonl_app, Hl, join_sp_nonl by auto. reflexivity.
Qed.

Section OneLine.
  Variable o : fopts.
  Notation OL := (fun l : sline => oneline (snd l) = true).
  Notation B := (fmt_body_sl o).
  Notation Fm := (fmt_frame_sl o).
  Notation Cx := (fmt_ctx_sl o).
  Notation KL := (fmt_kids sline sl_lit sl_add sl_is_blank (Cx false false) B).

  Lemma OL_pref A g ls : Forall OL ls -> Forall OL (pref A g ls).
  Proof.
    intros H. destruct ls as [|l0 r]; simpl; [constructor|]. inversion H; subst. constructor; auto.
    apply Forall_forall. intros x Hx. apply in_map_iff in Hx as [l [<- Hl]]. simpl. eapply Forall_forall in H3; eauto.
  Qed.

  Definition Ls (s : stack) : Prop := clean_stack s = true -> Forall OL (B s).
  Definition Lf (f : frame) : Prop := clean_frame f = true -> Forall OL (Fm f).
  Definition Lc (c : context) : Prop := clean_ctx c = true -> forall hp sl, Forall OL (Cx hp sl c).
  Definition Lk (k : child) : Prop := match k with KCtx c => Lc c | KStk s => Ls s end.

  Lemma forallb_Forall2 {X} (p : X -> bool) (P : X -> Prop) xs :
    Forall (fun x => p x = true -> P x) xs -> forallb p xs = true -> Forall P xs.
  Proof.
    induction 1; simpl; intros H1; constructor; apply andb_true_iff in H1 as [? ?]; auto.
  Qed.

  Lemma Forall_flat_map_in {X Y} (P : Y -> Prop) (F : X -> list Y) xs :
    (forall x, In x xs -> Forall P (F x)) -> Forall P (flat_map F xs).
  Proof.
    induction xs as [|x xs IH]; simpl; intros H; [constructor|].
    apply Forall_app; split; [apply H; auto | apply IH; intros; apply H; auto].
  Qed.

  Lemma ol_stack r fs lf er : Forall Lf fs -> Ls (Stk r fs lf er).
  Proof.
    intros HF Hc. simpl in Hc. split_and. rewrite B_eq.
    pose proof (forallb_Forall2 _ _ _ HF H0) as HF'.
    apply Forall_app; split; [|apply Forall_app; split].
    - apply Forall_flat_map_in. intros f Hin. destruct (f_hide f && negb (show_hidden o)); [constructor|].
      rewrite prefix_block_pref. apply OL_pref. eapply Forall_forall in HF'; eauto.
    - destruct lf as [t|]; simpl; repeat constructor. simpl. apply oneline_nl. auto.
    - destruct er as [raw|]; simpl; [|constructor]. constructor; [reflexivity|].
      apply Forall_forall. intros x Hx. apply in_map_iff in Hx as [p [<- Hp]]. simpl.
      pose proof (err_sublines_oneline raw) as H2. eapply Forall_forall in H2; eauto.
  Qed.

  Lemma ol_frame fn cls md file ln src loc h hl cs :
    Forall Lc cs -> Lf (Frm fn cls md file ln src loc h hl cs).
  Proof.
    intros HC Hc. set (f := Frm fn cls md file ln src loc h hl cs) in *.
    pose proof (frame_header_oneline f Hc) as Hh. rewrite Fm_eq.
    simpl in Hc. split_and.
    pose proof (forallb_Forall2 _ _ _ HC H0) as HC'.
    constructor; [exact Hh|]. apply Forall_app; split.
    - destruct (show_ctx o); [|constructor]. apply Forall_flat_map_in. intros c Hin.
      rewrite prefix_ctx_pref. apply OL_pref. eapply Forall_forall in HC'; eauto.
    - unfold code_lines. destruct (last_exiting (f_ctxs f)); [constructor|].
      destruct (nonempty (frame_linetext f)) eqn:E; repeat constructor. simpl. apply oneline_nl.
      unfold f, frame_linetext. destruct (N.eqb ln 0 || hl); auto.
  Qed.

  Lemma ol_kids ks : Forall Lk ks -> forallb clean_child ks = true -> forall db, Forall OL (KL db ks).
  Proof.
    induction 1 as [|k ks Hk _ IH]; intros Hc db; simpl; [constructor|].
    simpl in Hc. apply andb_true_iff in Hc as [Hc1 Hc2].
    apply Forall_app; split; [|apply Forall_app; split; [|apply IH; auto]].
    - destruct k as [c|s]; simpl; [constructor|]. destruct (nonempty (s_frames s)); simpl; [|constructor].
      destruct db; repeat constructor.
    - rewrite prefix_block_pref. apply OL_pref. destruct k as [c|s]; simpl.
      + apply Hk; auto.
      + assert (Hr : oneline (child_root_line (s_root s)) = true).
        { destruct s as [r fs lf er]. simpl in *. split_and. destruct r as [r|]; simpl in *; [apply oneline_nl; auto|reflexivity]. }
        destruct (nonempty (s_frames s)); simpl.
        * constructor; [exact Hr|]. apply Forall_app; split; [apply Hk; auto | repeat constructor].
        * constructor; [exact Hr|]. apply Hk; auto.
  Qed.

  Lemma ol_ctx ty asy ex vn sl0 ds cs cr orp inn ks h :
    opt_P Ls inn -> Forall Lk ks -> Lc (Ctx ty asy ex vn sl0 ds cs cr orp inn ks h).
  Proof.
    intros Hi Hk Hc hp sl. set (c := Ctx ty asy ex vn sl0 ds cs cr orp inn ks h) in *.
    pose proof (ctx_line_oneline hp sl c Hc) as Hl. rewrite Cx_eq.
    destruct (c_hide c && negb (show_hidden o)); [constructor|].
    simpl in Hc. split_and. simpl. constructor; [exact Hl|]. apply Forall_app; split.
    - destruct inn; [apply Hi; auto | constructor].
    - apply ol_kids; auto.
  Qed.

  Lemma ol_all : (forall s, Ls s) /\ (forall f, Lf f) /\ (forall c, Lc c) /\ (forall k, Lk k).
  Proof.
    apply tree_ind.
    - apply ol_stack.
    - apply ol_frame.
    - intros. apply ol_ctx; auto.
    - auto.
    - auto.
  Qed.

  Lemma mstr_nonl asc m : nonl (mstr asc m) = true.
  Proof. destruct asc, m; reflexivity. Qed.

  Lemma render_oneline asc l : oneline (snd l) = true -> oneline (render asc l) = true.
  Proof.
    intros H. unfold render. apply oneline_app; auto.
    induction (fst l) as [|m ms IH]; simpl; auto. rewrite nonl_app, mstr_nonl, IH. reflexivity.
  Qed.

  (* every element of format() ends with "\n" and contains no other "\n", whatever the error text *)
  Theorem newline_terminated s : clean_stack s = true -> single_lines (fmt_stack_str o s) = true.
  Proof.
    intros Hc. rewrite str_is_render. unfold single_lines. apply forallb_forall. intros t Ht.
    apply in_map_iff in Ht as [l [<- Hl]]. apply render_oneline.
    destruct ol_all as [H _]. unfold fmt_stack_sl, fmt_stack in Hl. destruct Hl as [<-|Hl].
    - simpl. apply header_oneline. destruct s as [r fs lf er]. simpl in *. split_and. auto.
    - pose proof (H s Hc) as HB. eapply Forall_forall in HB; eauto.
  Qed.
End OneLine.

(* F12: a payload with a newline gives a format() element that is not a single line *)
Definition f12_witness : stack := Stk None [] (Some (a "<ML" ++ [10%N] ++ a "line2>")) None.
Lemma F12_refuted :
  exists s o, single_lines (fmt_stack_str o s) = false.
Proof. exists f12_witness, {| M_Format.ascii := false; show_ctx := true; show_hidden := false |}. vm_compute. reflexivity. Qed.

(* ------------------------------------------------------------------ lexing a rendered line (unicode mode) *)
(* CC and ERR are the same two blanks; every other prepended marker is a different string *)
Definition canon (m : marker) : marker := match m with ERR => CC | CCI => SC | m => m end.
(* the body does not start with a marker string ("marker-free at the boundary") *)
Definition bfree (b : text) : bool :=
  forallb (fun m => negb (prefix_b (mstr false m) b)) [SF;CF;SL;SCX;CCX;SCC;SCODE;SC;CC].
(* shape of the marker chains the formatter builds: ERR only as the last marker, CC as the last
   marker only on a blank line, the child indicator is never prepended *)
Fixpoint chain_ok (ms : list marker) (b : text) : bool :=
  match ms with
  | [] => true
  | [ERR] => true
  | [CC] => text_eqb b nl
  | ERR :: _ => false
  | CCI :: _ => false
  | _ :: r => chain_ok r b
  end.
(* an error line is not empty (an empty error subline under a child is rendered exactly like
   the blank line around a populated child stack: see lex_blank_ambiguous) *)
Fixpoint err_nb (ms : list marker) (b : text) : bool :=
  match ms with
  | [] => true
  | [ERR] => negb (text_eqb b nl)
  | _ :: r => err_nb r b
  end.

Lemma app_eq_len {A} (x y u v : list A) : List.length x = List.length u -> x ++ y = u ++ v -> x = u /\ y = v.
Proof.
  revert u. induction x as [|a x IH]; destruct u as [|c u]; simpl; try discriminate; auto.
  intros HL HE. injection HL as HL. injection HE as -> HE. destruct (IH u HL HE) as [-> ->]. auto.
Qed.
Lemma mstr_len2 m : List.length (mstr false m) = 2.
Proof. destruct m; reflexivity. Qed.
Lemma mstr_inj m1 m2 : mstr false m1 = mstr false m2 -> canon m1 = canon m2.
Proof. destruct m1, m2; intros H; try reflexivity; vm_compute in H; discriminate. Qed.
Lemma prefix_b_app p x : prefix_b p (p ++ x) = true.
Proof. induction p as [|c p IH]; simpl; auto. rewrite N.eqb_refl, IH. reflexivity. Qed.
Lemma bfree_spec b m : bfree b = true -> prefix_b (mstr false m) b = false.
Proof.
  unfold bfree. intros H. rewrite forallb_forall in H.
  assert (E : exists m', In m' [SF;CF;SL;SCX;CCX;SCC;SCODE;SC;CC] /\ mstr false m = mstr false m').
  { exists (canon m). destruct m; simpl; split; try reflexivity; tauto. }
  destruct E as [m' [Hin ->]]. specialize (H m' Hin). destruct (prefix_b (mstr false m') b); auto; discriminate.
Qed.

Lemma render_cons asc m ms b : render asc (m :: ms, b) = mstr asc m ++ render asc (ms, b).
Proof. unfold render. simpl. rewrite app_assoc. reflexivity. Qed.

Lemma render_inj_canon ms1 : forall ms2 b1 b2,
  bfree b1 = true -> bfree b2 = true ->
  render false (ms1, b1) = render false (ms2, b2) -> map canon ms1 = map canon ms2 /\ b1 = b2.
Proof.
  induction ms1 as [|m1 ms1 IH]; intros [|m2 ms2] b1 b2 H1 H2 E.
  - split; auto.
  - exfalso. rewrite render_cons in E. unfold render in E at 1. simpl in E. subst b1.
    pose proof (bfree_spec _ m2 H1) as F. rewrite prefix_b_app in F. discriminate.
  - exfalso. rewrite render_cons in E. unfold render in E at 2. simpl in E. subst b2.
    pose proof (bfree_spec _ m1 H2) as F. rewrite prefix_b_app in F. discriminate.
  - rewrite !render_cons in E. apply app_eq_len in E; [|rewrite !mstr_len2; reflexivity].
    destruct E as [Em Er]. destruct (IH ms2 b1 b2 H1 H2 Er) as [Ec ->]. simpl. rewrite Ec, (mstr_inj _ _ Em). auto.
Qed.

Lemma chain_ok_tail m r b : chain_ok (m :: r) b = true -> chain_ok r b = true.
Proof. destruct m, r; simpl; auto; discriminate. Qed.
Lemma err_nb_tail m r b : err_nb (m :: r) b = true -> err_nb r b = true.
Proof. destruct m, r; simpl; auto. Qed.

Lemma canon_chain_unique ms1 : forall ms2 b,
  map canon ms1 = map canon ms2 ->
  chain_ok ms1 b = true -> chain_ok ms2 b = true -> err_nb ms1 b = true -> err_nb ms2 b = true -> ms1 = ms2.
Proof.
  induction ms1 as [|m1 r1 IH]; intros [|m2 r2] b E C1 C2 N1 N2; try discriminate; auto.
  simpl in E. injection E as Em Er.
  assert (Hr : r1 = r2).
  { apply (IH r2 b Er); eauto using chain_ok_tail, err_nb_tail. }
  subst r2. f_equal.
  destruct m1, m2; try reflexivity; try discriminate Em; destruct r1; simpl in *; try discriminate;
    try (rewrite C1 in *; discriminate); try (rewrite C2 in *; discriminate).
Qed.

Definition lex_ok (l : sline) : bool := chain_ok (fst l) (snd l) && err_nb (fst l) (snd l) && bfree (snd l).

(* in unicode mode the structured line is uniquely determined by the rendered string *)
Theorem lex_unique l1 l2 :
  lex_ok l1 = true -> lex_ok l2 = true -> render false l1 = render false l2 -> l1 = l2.
Proof.
  destruct l1 as [ms1 b1], l2 as [ms2 b2]. unfold lex_ok. simpl. intros H1 H2 E.
  apply andb_true_iff in H1 as [H1 F1]. apply andb_true_iff in H1 as [C1 N1].
  apply andb_true_iff in H2 as [H2 F2]. apply andb_true_iff in H2 as [C2 N2].
  destruct (render_inj_canon ms1 ms2 b1 b2 F1 F2 E) as [Ec ->]. f_equal.
  eapply canon_chain_unique; eauto.
Qed.

(* every line the formatter produces has a well-shaped marker chain *)
Notation CK := (fun l : sline => chain_ok (fst l) (snd l) = true).

Lemma CK_add_plain m l : (match m with CC | ERR | CCI => false | _ => true end) = true -> CK l -> CK (sl_add m l).
Proof. destruct l as [ms b]. destruct m; simpl; try discriminate; auto. Qed.
Lemma CK_add_CC p l : head_is p l = true -> CK l -> CK (sl_add CC l).
Proof. destruct l as [[|m ms] b]; unfold head_is; simpl; [discriminate|auto]. Qed.

Section ChainShape.
  Variable o : fopts.
  Notation B := (fmt_body_sl o).
  Notation Fm := (fmt_frame_sl o).
  Notation Cx := (fmt_ctx_sl o).
  Notation KL := (fmt_kids sline sl_lit sl_add sl_is_blank (Cx false false) B).

  Lemma CK_pref_plain A g ls :
    (match A with CC | ERR | CCI => false | _ => true end) = true ->
    (forall l, (match g l with CC | ERR | CCI => false | _ => true end) = true) ->
    Forall CK ls -> Forall CK (pref A g ls).
  Proof.
    intros HA Hg H. destruct ls as [|l0 r]; simpl; [constructor|]. inversion H; subst.
    constructor; [apply CK_add_plain; auto|].
    apply Forall_forall. intros x Hx. apply in_map_iff in Hx as [l [<- Hl]].
    apply CK_add_plain; auto. eapply Forall_forall in H3; eauto.
  Qed.

  Lemma CK_pref_CC p l0 r : CK l0 -> Forall CK r -> hd_ok p r -> Forall CK (pref SC (fun _ => CC) (l0 :: r)).
  Proof.
    intros H0 Hr Hh. simpl. constructor; [apply CK_add_plain; auto|].
    apply Forall_forall. intros x Hx. apply in_map_iff in Hx as [l [<- Hl]].
    apply (CK_add_CC p); [eapply Forall_forall in Hh | eapply Forall_forall in Hr]; eauto.
  Qed.

  Definition Ks (s : stack) : Prop := Forall CK (B s).
  Definition Kf (f : frame) : Prop := Forall CK (Fm f).
  Definition Kc (c : context) : Prop := forall hp sl, Forall CK (Cx hp sl c).
  Definition Kk (k : child) : Prop := match k with KCtx c => Kc c | KStk s => Ks s end.

  Lemma ck_kids ks : Forall Kk ks -> forall db, Forall CK (KL db ks).
  Proof.
    destruct (roundtrip_all o) as [RS [_ [RC _]]].
    induction 1 as [|k ks Hk _ IH]; intros db; simpl; [constructor|].
    apply Forall_app; split; [|apply Forall_app; split; [|apply IH]].
    - destruct k as [c|s]; simpl; [constructor|]. destruct (nonempty (s_frames s)); simpl; [|constructor].
      destruct db; repeat constructor.
    - rewrite prefix_block_pref. destruct k as [c|s]; simpl snd.
      + destruct (vis o (c_hide c)) eqn:Hv.
        * rewrite (Cx_visible o false false c Hv). apply (CK_pref_CC node_head); [reflexivity| |apply (RC c false false Hv)].
          pose proof (Hk false false) as H. rewrite (Cx_visible o false false c Hv) in H. inversion H; auto.
        * rewrite (Cx_hidden o false false c Hv). constructor.
      + destruct (nonempty (s_frames s)); simpl snd.
        * change ((sl_lit (child_root_line (s_root s)) :: B s) ++ [sl_lit nl])
            with (sl_lit (child_root_line (s_root s)) :: B s ++ [sl_lit nl]).
          simpl pref. constructor; [reflexivity|]. rewrite map_app. apply Forall_app; split.
          -- apply Forall_forall. intros x Hx. apply in_map_iff in Hx as [l [<- Hl]].
             apply (CK_add_CC body_head).
             ++ destruct (RS s) as [Hh _]. eapply Forall_forall in Hh; eauto.
             ++ eapply Forall_forall in Hk; eauto.
          -- repeat constructor.
        * apply (CK_pref_CC body_head); [reflexivity | exact Hk | apply (RS s)].
  Qed.

  Lemma chain_all : (forall s, Ks s) /\ (forall f, Kf f) /\ (forall c, Kc c) /\ (forall k, Kk k).
  Proof.
    apply tree_ind.
    - intros r fs lf er HF. unfold Ks. rewrite B_eq. apply Forall_app; split; [|apply Forall_app; split].
      + apply Forall_flat_map_in. intros f Hin. destruct (f_hide f && negb (show_hidden o)); [constructor|].
        rewrite prefix_block_pref. apply CK_pref_plain; auto. eapply Forall_forall in HF; eauto.
      + destruct lf; simpl; repeat constructor.
      + destruct er; simpl; [|constructor]. constructor; [reflexivity|].
        apply Forall_forall. intros x Hx. apply in_map_iff in Hx as [l9 [<- _]]. reflexivity.
    - intros fn cls md file ln src loc h hl cs HC. unfold Kf. rewrite Fm_eq. constructor; [reflexivity|].
      apply Forall_app; split.
      + destruct (show_ctx o); [|constructor]. apply Forall_flat_map_in. intros c Hin.
        rewrite prefix_ctx_pref.
        apply CK_pref_plain; [reflexivity | intros l; destruct (sl_is_child l); reflexivity | ].
        eapply Forall_forall in HC; [|eassumption]. apply HC.
      + unfold code_lines. destruct (last_exiting _); [constructor|]. destruct (nonempty _); repeat constructor.
    - intros ty asy ex vn sl0 ds cs cr orp inn ks h Hi HK hp sl. rewrite Cx_eq.
      destruct (c_hide _ && negb (show_hidden o)); [constructor|]. constructor; [reflexivity|].
      apply Forall_app; split; [destruct inn; [apply Hi | constructor] | apply ck_kids; exact HK].
    - auto.
    - auto.
  Qed.

  Theorem chain_shape s : Forall CK (fmt_stack_sl o s).
  Proof. unfold fmt_stack_sl, fmt_stack. constructor; [reflexivity|]. apply chain_all. Qed.
End ChainShape.

(* -- the ambiguities that remain *)
Definition sline_eqb (x y : sline) : bool := list_eqb marker_eqb (fst x) (fst y) && text_eqb (snd x) (snd y).
Definition uni := {| M_Format.ascii := false; show_ctx := true; show_hidden := false |}.
Definition asc_o := {| M_Format.ascii := true; show_ctx := true; show_hidden := false |}.

(* unicode mode, line level: an empty error line below a context and the blank line that
   surrounds a populated child stack are the same characters; both occur in formatted trees *)
Definition amb_frame (cs : list context) : frame :=
  Frm (a "f") None (Some (a "m")) (a "x.py") 3%N [] [] false false cs.
Definition amb_t1 : stack :=   (* inner stack whose error text has an empty line *)
  Stk None [amb_frame [Ctx None false false None None (Some (a "c")) [] [] []
                           (Some (Stk None [] None (Some [a "E: a" ++ nl ++ nl]))) [] false]] None None.
Definition amb_t2 : stack :=   (* populated child stack *)
  Stk None [amb_frame [Ctx None false false None None (Some (a "c")) [] [] [] None
                           [KStk (Stk None [amb_frame []] None None)] false]] None None.
Lemma lex_blank_ambiguous :
  let l1 := ([CF; CCX; ERR], nl) in let l2 := ([CF; CCX; CC], nl) in
  existsb (sline_eqb l1) (fmt_stack_sl uni amb_t1) = true
  /\ existsb (sline_eqb l2) (fmt_stack_sl uni amb_t2) = true
  /\ render false l1 = render false l2 /\ l1 <> l2
  /\ chain_ok (fst l1) (snd l1) = true /\ chain_ok (fst l2) (snd l2) = true
  /\ bfree (snd l1) = true /\ err_nb (fst l1) (snd l1) = false.
Proof. vm_compute. repeat split; discriminate. Qed.

(* ascii mode, whole text: start_frame and start_leaf are both "+ ", so a stack with one frame
   and a frame-less stack whose leaf's repr spells that frame's line print identically *)
Definition asc_t1 : stack := Stk None [amb_frame []] None None.
Definition asc_t2 : stack := Stk None [] (Some (a "f in m at x.py:3")) None.
Lemma ascii_ambiguous :
  fmt_stack_str asc_o asc_t1 = fmt_stack_str asc_o asc_t2
  /\ skeleton_visible asc_o asc_t1 <> skeleton_visible asc_o asc_t2
  /\ fmt_stack_str uni asc_t1 <> fmt_stack_str uni asc_t2.
Proof. vm_compute. repeat split; discriminate. Qed.
