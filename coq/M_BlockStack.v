(* M_BlockStack.v — CPython 3.9 / 3.10 (block-stack interpreters): model of the pre-3.11 branch of
   stackscope._lowlevel.currently_exiting_context and analyze_with_blocks, and an abstract
   block-stack machine for the bytecode those interpreters run.  Definitions only; proofs in
   P_BlockStack.v, property theorems in C01.v / C02.v.

   A code object is a list of code units (index = byte offset / 2).  The translation from a real
   code object (harness/bs_child.py, via `dis`, run under CPython 3.10 and 3.9) keeps the opcodes
   the analysis looks at; jump targets are unit indices as `dis` resolves them (argval / 2), so
   stackscope's own EXTENDED_ARG accumulation and its `jmul` factor are checked against `dis` by
   the correspondence, not assumed. *)
Require Import Base.

Inductive wkind := WFinally | WWith | WAsyncWith.

Inductive bop :=
  | BExt                                   (* EXTENDED_ARG *)
  | BSetup (k : wkind) (tgt : nat)         (* SETUP_FINALLY / SETUP_WITH / SETUP_ASYNC_WITH (hasjrel) *)
  | BPopBlock
  | BJrel (tgt : nat)                      (* other hasjrel opcodes with fall-through: FOR_ITER *)
  | BJabs (tgt : nat)                      (* hasjabs opcodes with fall-through: POP_JUMP_IF_*, JUMP_IF_*_OR_POP, JUMP_IF_NOT_EXC_MATCH *)
  | BJumpFwd (tgt : nat)                   (* JUMP_FORWARD: hasjrel, no fall-through *)
  | BJumpAbs (tgt : nat)                   (* JUMP_ABSOLUTE: hasjabs, no fall-through *)
  | BStop                                  (* RETURN_VALUE, RAISE_VARARGS, RERAISE *)
  | BLoadConst (isnone : bool)
  | BDupTop | BCallFunction | BRotTwo | BYieldFrom | BGetAwaitable | BWithExceptStart
  | BOther.

Definition bcode := list bop.
Definition bat (c : bcode) (p : nat) : bop := nth p c BOther.

Definition is_ext (i : bop) : bool := match i with BExt => true | _ => false end.
Definition is_yield_from (i : bop) : bool := match i with BYieldFrom => true | _ => false end.
Definition is_load_const (i : bop) : bool := match i with BLoadConst _ => true | _ => false end.
Definition is_dup_top (i : bop) : bool := match i with BDupTop => true | _ => false end.
Definition is_call_function (i : bop) : bool := match i with BCallFunction => true | _ => false end.
Definition is_rot_two (i : bop) : bool := match i with BRotTwo => true | _ => false end.
Definition is_get_awaitable (i : bop) : bool := match i with BGetAwaitable => true | _ => false end.
Definition is_wes (i : bop) : bool := match i with BWithExceptStart => true | _ => false end.
Definition is_pop_block (i : bop) : bool := match i with BPopBlock => true | _ => false end.

(* ------------------------------------------------------------------ analyze_with_blocks, < 3.11 *)
(* handler unit -> is_async, one entry per SETUP_WITH / SETUP_ASYNC_WITH in code order (a dict in
   the code: a later entry for the same handler replaces an earlier one; the compiler gives every
   with block its own handler) *)
Fixpoint with_info (c : bcode) : list (nat * bool) :=
  match c with
  | [] => []
  | BSetup WWith t :: r => (t, false) :: with_info r
  | BSetup WAsyncWith t :: r => (t, true) :: with_info r
  | _ :: r => with_info r
  end.

(* ------------------------------------------------------------------ the scan back from f_lasti *)
(* `while offs and code[offs] == EXTENDED_ARG: offs -= 2`, n = number of units that may be skipped *)
Fixpoint back_ext (c : bcode) (p n : nat) : nat :=
  match n with
  | 0 => p
  | S n' => if (0 <? p) && is_ext (bat c p) then back_ext c (p - 1) n' else p
  end.

Inductive scan_res :=
  | ScNone                                  (* not at an exit call *)
  | ScWarn                                  (* InspectionWarning + None *)
  | ScHandler (async : bool) (h : nat)      (* WITH_EXCEPT_START: the handler itself *)
  | ScPop (async : bool) (pop : nat).       (* the POP_BLOCK in front of the inlined exit call *)

Definition scan (c : bcode) (lasti : nat) : scan_res :=
  let p := lasti in
  let yf_here := is_yield_from (bat c p) in
  let yf_next := (p + 1 <? length c) && is_yield_from (bat c (p + 1)) in
  let async := yf_here || yf_next in
  let p := if yf_here then p - 1 else p in
  (* async: LOAD_CONST None, then GET_AWAITABLE, then the call *)
  let after_await : option (option nat) :=      (* None = warn; Some None = not an aexit; Some (Some p) *)
    if async then
      match bat c p with
      | BLoadConst isnone =>
          let p1 := back_ext c (p - 1) (length c) in
          if isnone then
            if is_get_awaitable (bat c p1) then Some (Some (p1 - 1)) else Some None
          else None
      | _ => None
      end
    else Some (Some p) in
  match after_await with
  | None => ScWarn
  | Some None => ScNone
  | Some (Some p) =>
      if is_wes (bat c p) then ScHandler async p
      else if (p <? 4)
              || negb (is_load_const (bat c (p - 3)) && is_dup_top (bat c (p - 2))
                       && is_dup_top (bat c (p - 1)) && is_call_function (bat c p))
      then ScNone
      else
        let q := back_ext c (p - 4) (length c) in
        let q := if (0 <? q) && is_rot_two (bat c q) then q - 1 else q in
        if is_pop_block (bat c q) then ScPop async q else ScWarn
  end.

(* ------------------------------------------------------------------ the block-stack walk *)
(* `while code[offs] == EXTENDED_ARG: offs += 2` *)
Fixpoint ext_run (l : list bop) : nat :=
  match l with BExt :: r => S (ext_run r) | _ => 0 end.
Definition skip_ext (c : bcode) (p : nat) : nat := p + ext_run (skipn p c).

Definition no_fall (i : bop) : bool :=
  match i with BJumpFwd _ | BJumpAbs _ | BStop => true | _ => false end.

Definition jumps (i : bop) : list nat :=
  match i with
  | BSetup _ t | BJrel t | BJabs t | BJumpFwd t | BJumpAbs t => [t]
  | _ => []
  end.

Inductive walk_res := WFound (h : nat) | WNotFound | WCrash | WOutOfFuel.

(* the set of visited offsets as a bitmap (unary membership tests on a list of offsets made the
   evaluation of a few hundred exit sites take minutes) *)
Fixpoint bit_get (l : list bool) (p : nat) : bool :=
  match l, p with
  | [], _ => false
  | b :: _, 0 => b
  | _ :: r, S p' => bit_get r p'
  end.
Fixpoint bit_set (l : list bool) (p : nat) : list bool :=
  match l, p with
  | [], 0 => [true]
  | [], S p' => false :: bit_set [] p'
  | _ :: r, 0 => true :: r
  | b :: r, S p' => b :: bit_set r p'
  end.

(* todo is the deque (popleft / append), seen the set of visited offsets *)
Fixpoint walk (fuel : nat) (c : bcode) (pop : nat) (todo : list (nat * list nat)) (seen : list bool)
  : walk_res :=
  match fuel with
  | 0 => WOutOfFuel
  | S f =>
      match todo with
      | [] => WNotFound
      | (p0, st) :: rest =>
          if bit_get seen p0 then walk f c pop rest seen else
          if length c <=? p0 then WCrash else                 (* code[offs + 1]: IndexError *)
          let p := skip_ext c p0 in
          if length c <=? p then WCrash else
          let i := bat c p in
          let js := map (fun t => (t, st)) (jumps i) in
          let st1 := match i with BSetup _ t => st ++ [t] | _ => st end in
          if is_pop_block i then
            if p =? pop then match last_opt st1 with Some h => WFound h | None => WCrash end
            else match st1 with
                 | [] => WCrash                               (* stack.pop() on an empty list *)
                 | _ => walk f c pop (rest ++ js ++ [(p + 1, removelast st1)]) (bit_set seen p0)
                 end
          else
            walk f c pop (rest ++ js ++ (if no_fall i then [] else [(p + 1, st1)])) (bit_set seen p0)
      end
  end.

Definition walk_fuel (c : bcode) : nat := 4 * length c + 8.

Inductive eres := ENone | EWarn | ECrash | EFuel | EExit (async : bool) (cleanup : nat).

(* currently_exiting_context(frame) on CPython 3.9 / 3.10, lasti in code units (f_lasti >= 0) *)
Definition exiting310 (c : bcode) (lasti : nat) : eres :=
  match scan c lasti with
  | ScNone => ENone
  | ScWarn => EWarn
  | ScHandler a h => EExit a h
  | ScPop a pop =>
      match walk (walk_fuel c) c pop [(0, [])] [] with
      | WFound h => EExit a h
      | WNotFound => EWarn
      | WCrash => ECrash
      | WOutOfFuel => EFuel
      end
  end.

(* ------------------------------------------------------------------ the block-stack machine *)
(* What CPython 3.9/3.10 does to the SETUP_*-type part of the frame's block stack.  A state is
   (unit, handlers of the open SETUP_FINALLY / SETUP_WITH / SETUP_ASYNC_WITH blocks, outermost
   first).  EXCEPT_HANDLER blocks (pushed when a handler is entered, popped by POP_EXCEPT or by
   unwinding) are not part of the state: they never have a with handler and the unwinder discards
   them on its way to the next SETUP_* block.  Any instruction may raise. *)
Definition nsuccs (i : bop) (p : nat) (st : list nat) : list (nat * list nat) :=
  match i with
  | BSetup _ t => [(p + 1, st ++ [t])]
  | BPopBlock => match st with [] => [] | _ => [(p + 1, removelast st)] end
  | BJrel t | BJabs t => [(t, st); (p + 1, st)]
  | BJumpFwd t | BJumpAbs t => [(t, st)]
  | BStop => []
  | _ => [(p + 1, st)]
  end.

Definition esuccs (st : list nat) : list (nat * list nat) :=
  match last_opt st with Some h => [(h, removelast st)] | None => [] end.

Definition bstate := (nat * list nat)%type.

Inductive bstep (c : bcode) : bstate -> bstate -> Prop :=
  | BS_normal p st s' : In s' (nsuccs (bat c p) p st) -> bstep c (p, st) s'
  | BS_raise p st s' : In s' (esuccs st) -> bstep c (p, st) s'.

Inductive breach (c : bcode) : bstate -> Prop :=
  | BR_start : breach c (0, [])
  | BR_step s s' : breach c s -> bstep c s s' -> breach c s'.

(* ------------------------------------------------------------------ certificates *)
(* cert[p] = Some st: every execution that reaches unit p does so with block stack st *)
Definition bcert := list (option (list nat)).
Definition cat (ce : bcert) (p : nat) : option (list nat) := nth p ce None.

Definition st_eqb := list_eqb Nat.eqb.

Definition edge_ok (ce : bcert) (s : nat * list nat) : bool :=
  match cat ce (fst s) with Some st => st_eqb st (snd s) | None => false end.

Definition unit_ok (c : bcode) (ce : bcert) (p : nat) : bool :=
  match cat ce p with
  | None => true
  | Some st => forallb (edge_ok ce) (nsuccs (bat c p) p st ++ esuccs st)
               (* a reachable POP_BLOCK has a block to pop (CPython itself relies on this) *)
               && negb (is_pop_block (bat c p) && match st with [] => true | _ => false end)
  end.

Definition check_bcert (c : bcode) (ce : bcert) : bool :=
  (length ce =? length c) && edge_ok ce (0, []) && forallb (unit_ok c ce) (seq 0 (length c)).

(* ------------------------------------------------------------------ generated cases *)
Definition eres_eqb (a b : eres) : bool :=
  match a, b with
  | ENone, ENone | EWarn, EWarn | ECrash, ECrash | EFuel, EFuel => true
  | EExit x h, EExit y k => Bool.eqb x y && (h =? k)
  | _, _ => false
  end.

(* one case = one code object: abstract code, certificate, what the real analyze_with_blocks
   returned (handler unit, is_async; sorted by handler), and for every instruction offset what
   the real currently_exiting_context returned *)
Definition bs_case := (bcode * bcert * list (nat * bool) * list (nat * eres))%type.

Fixpoint insert_info (x : nat * bool) (l : list (nat * bool)) : list (nat * bool) :=
  match l with
  | [] => [x]
  | y :: r => if fst x <? fst y then x :: l
              else if fst x =? fst y then x :: r       (* dict: later assignment wins *)
              else y :: insert_info x r
  end.
Definition info_sorted (c : bcode) : list (nat * bool) :=
  fold_left (fun acc x => insert_info x acc) (with_info c) [].

Definition bs_case_ok (k : bs_case) : bool :=
  let '(c, ce, info, obs) := k in
  check_bcert c ce
  && list_eqb (pair_eqb Nat.eqb Bool.eqb) (info_sorted c) info
  && forallb (fun o => eres_eqb (exiting310 c (fst o)) (snd o)) obs.

Definition bs_mismatches (cases : list bs_case) : list nat := false_indices 0 (map bs_case_ok cases).

Definition is_exit (e : eres) : bool := match e with EExit _ _ => true | _ => false end.
Definition bs_nontrivial (cases : list bs_case) : nat :=
  count_true (map (fun k : bs_case => let '(_, _, _, obs) := k in existsb (fun o => is_exit (snd o)) obs) cases).
