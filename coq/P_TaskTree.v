(* P_TaskTree.v — specification and proofs for C14 (model: M_TaskTree.v). *)
Require Import Base M_TaskTree.

Scheme task_mut := Induction for task Sort Prop
  with frames_mut := Induction for frames Sort Prop
  with frame_mut := Induction for frame Sort Prop
  with fkind_mut := Induction for fkind Sort Prop
  with ctxs_mut := Induction for ctxs Sort Prop
  with ctx_mut := Induction for ctx Sort Prop
  with tasks_mut := Induction for tasks Sort Prop.
Combined Scheme world_mutind from task_mut, frames_mut, frame_mut, fkind_mut, ctxs_mut, ctx_mut, tasks_mut.

(* ------------------------------------------------------------------ generic facts on [walk] *)
Definition fout_id (f : fout) : nat := match f with FOut i _ _ => i end.
Definition fout_cx (f : fout) : list cout := match f with FOut _ _ c => c end.
Definition ids (l : list fout) : list nat := map fout_id l.

Lemma next_depth_ge inc n : n <= next_depth inc n.
Proof. destruct inc; simpl; lia. Qed.

(* a pending PRUNE whose threshold is not above the head swallows the whole remainder of a
   segment, whatever is in it *)
Lemma walk_pruned rc inc fs : forall n d p, p <= d -> d <= n ->
  walk rc inc n d (Some p) fs = ([], Some p).
Proof.
  induction fs as [|f r IH]; intros n d p Hp Hd; simpl; [reflexivity|].
  assert (E : (p <=? d) = true) by (apply Nat.leb_le; lia).
  rewrite E. apply IH; pose proof (next_depth_ge inc n); lia.
Qed.

(* a pending PRUNE that does not reach the head is forgotten *)
Lemma walk_unpruned_fst rc inc fs : forall n d p, d < p ->
  fst (walk rc inc n d (Some p) fs) = fst (walk rc inc n d None fs).
Proof.
  destruct fs as [|f r]; intros n d p H; simpl; [reflexivity|].
  assert (E : (p <=? d) = false) by (apply Nat.leb_gt; lia).
  rewrite E. reflexivity.
Qed.

(* ------------------------------------------------------------------ hop-free segments *)
Definition simple_kind (k : fkind) : bool :=
  match k with KPlain | KHidden | KTrap _ => true | _ => false end.
Fixpoint simpleb (fs : frames) : bool :=
  match fs with FNil => true | FCons (Frame _ k _) r => simple_kind k && simpleb r end.

Definition hide_of (k : fkind) : bool := match k with KPlain => false | _ => true end.
Definition out1 (rc : bool) (f : frame) : fout :=
  match f with Frame id k cs => FOut id (hide_of k) (ext_ctxs rc cs) end.

(* the frames up to and including the first trap *)
Fixpoint upto_trap (fs : frames) : list frame :=
  match fs with
  | FNil => []
  | FCons (Frame id k cs as f) r => f :: match k with KTrap _ => [] | _ => upto_trap r end
  end.

Lemma walk_simple rc inc fs : forall n d, d <= n -> simpleb fs = true ->
  fst (walk rc inc n d None fs) = map (out1 rc) (upto_trap fs).
Proof.
  induction fs as [|f r IH]; intros n d Hd Hs; [reflexivity|].
  destruct f as [id k cs]. simpl in Hs. apply andb_true_iff in Hs as [Hk Hs].
  pose proof (next_depth_ge inc n) as Hn.
  destruct k; try discriminate; simpl.
  - f_equal. apply IH; auto.
  - f_equal. apply IH; auto.
  - f_equal. rewrite walk_pruned by lia. reflexivity.
Qed.

(* ------------------------------------------------------------------ C14_iso / C14_stub
   Specification, written from the property text against Trio's own tables. *)
Fixpoint ctx_nids (cs : ctxs) : list nat :=
  match cs with
  | CNil => []
  | CCons (CNurs n _) r => n :: ctx_nids r
  | CCons (COther _) r => ctx_nids r
  end.
Fixpoint frames_nids (fs : frames) : list nat :=
  match fs with FNil => [] | FCons (Frame _ _ cs) r => ctx_nids cs ++ frames_nids r end.
Fixpoint roots (ts : tasks) : list nat :=
  match ts with TNil => [] | TCons t r => task_root t :: roots r end.

(* after the first trap nothing opens a nursery (in reality: only `_real_async_yield`) *)
Fixpoint quiet_after_trap (fs : frames) : Prop :=
  match fs with
  | FNil => True
  | FCons (Frame _ k _) r => match k with KTrap _ => frames_nids r = [] | _ => quiet_after_trap r end
  end.

Section Iso.
  Variable nurs_of : nat -> list nat.     (* Trio: task.child_nurseries, in nesting order *)
  Variable kids_of : nat -> list nat.     (* Trio: nursery.child_tasks *)

  (* the extracted tree is isomorphic to Trio's: *)
  Inductive iso : stack -> Prop :=
  | Iso_task r fs :
      nursery_ids fs = nurs_of r ->                 (* each open nursery once, in nesting order *)
      Forall (fun f => Forall ctx_iso (fout_cx f)) fs ->
      iso (Stack (SRTask r) fs)
  with ctx_iso : cout -> Prop :=
  | Iso_nursery n kids :
      map root_id kids = map Some (kids_of n) ->    (* exactly its child tasks, matched by root *)
      Forall iso kids ->                            (* each extracted recursively *)
      ctx_iso (COut (ONurs n) kids)
  | Iso_other c : ctx_iso (COut (OOther c) []).

  (* recurse_child_tasks=False: same nurseries, every child a frameless stub carrying its root *)
  Definition stub (r : nat) : stack := Stack (SRTask r) [].
  Inductive ctx_stub : cout -> Prop :=
  | Stub_nursery n : ctx_stub (COut (ONurs n) (map stub (kids_of n)))
  | Stub_other c : ctx_stub (COut (OOther c) []).
  Definition iso_stub (s : stack) : Prop :=
    match s with
    | Stack (SRTask r) fs => nursery_ids fs = nurs_of r /\ Forall (fun f => Forall ctx_stub (fout_cx f)) fs
    | _ => False
    end.

  (* hypothesis "the per-frame analysis is exact and Trio's tables describe this world":
     the contexts attached to the frames of every task list exactly that task's
     child_nurseries, and every nursery context holds exactly nursery.child_tasks *)
  Fixpoint wf_task (t : task) : Prop :=
    match t with
    | Task r fs => simpleb fs = true /\ quiet_after_trap fs /\ frames_nids fs = nurs_of r /\ wf_frames fs
    end
  with wf_frames (fs : frames) : Prop :=
    match fs with FNil => True | FCons f r => wf_frame f /\ wf_frames r end
  with wf_frame (f : frame) : Prop :=
    match f with Frame _ _ cs => wf_ctxs cs end
  with wf_ctxs (cs : ctxs) : Prop :=
    match cs with CNil => True | CCons c r => wf_ctx c /\ wf_ctxs r end
  with wf_ctx (c : ctx) : Prop :=
    match c with
    | CNurs n kids => roots kids = kids_of n /\ wf_tasks kids
    | COther _ => True
    end
  with wf_tasks (ts : tasks) : Prop :=
    match ts with TNil => True | TCons t r => wf_task t /\ wf_tasks r end.

  Lemma nursery_ids_app a b : nursery_ids (a ++ b) = nursery_ids a ++ nursery_ids b.
  Proof. unfold nursery_ids. apply flat_map_app. Qed.

  Lemma ext_ctxs_nids rc cs :
    flat_map (fun c => match c with COut (ONurs n) _ => [n] | _ => [] end) (ext_ctxs rc cs) = ctx_nids cs.
  Proof.
    induction cs as [|c r IH]; [reflexivity|]. destruct c; simpl; rewrite IH; reflexivity.
  Qed.

  Lemma nursery_ids_out rc (l : list frame) :
    nursery_ids (map (out1 rc) l) = flat_map (fun f => match f with Frame _ _ cs => ctx_nids cs end) l.
  Proof.
    induction l as [|f r IH]; [reflexivity|]. destruct f as [id k cs].
    change (map (out1 rc) (Frame id k cs :: r)) with (out1 rc (Frame id k cs) :: map (out1 rc) r).
    change (nursery_ids (out1 rc (Frame id k cs) :: map (out1 rc) r))
      with (flat_map (fun c => match c with COut (ONurs n) _ => [n] | _ => [] end) (ext_ctxs rc cs)
            ++ nursery_ids (map (out1 rc) r)).
    rewrite ext_ctxs_nids, IH. reflexivity.
  Qed.

  Lemma upto_trap_nids fs : quiet_after_trap fs ->
    flat_map (fun f => match f with Frame _ _ cs => ctx_nids cs end) (upto_trap fs) = frames_nids fs.
  Proof.
    induction fs as [|f r IH]; intros Q; [reflexivity|]. destruct f as [id k cs]. simpl in *.
    destruct k; try (rewrite IH by exact Q; reflexivity).
    rewrite Q. reflexivity.
  Qed.

  Lemma upto_trap_incl fs f : In f (upto_trap fs) -> In f (frames_list fs).
  Proof.
    induction fs as [|g r IH]; simpl; [tauto|]. destruct g as [id k cs]. simpl.
    intros [E|H]; [left; exact E|]. right. destruct k; simpl in H; try tauto; auto.
  Qed.

  Lemma ext_tasks_roots rc ts : map root_id (ext_tasks rc ts) = map Some (roots ts).
  Proof.
    induction ts as [|t r IH]; [reflexivity|]. destruct t as [x fs]. simpl. rewrite IH.
    destruct rc; reflexivity.
  Qed.

  (* ---- recurse = true *)
  Lemma iso_all :
    (forall t, wf_task t -> iso (ext_child true t)) /\
    (forall fs, wf_frames fs -> Forall (fun f => Forall ctx_iso (fout_cx (out1 true f))) (frames_list fs)) /\
    (forall f, wf_frame f -> Forall ctx_iso (fout_cx (out1 true f))) /\
    (forall k : fkind, True) /\
    (forall cs, wf_ctxs cs -> Forall ctx_iso (ext_ctxs true cs)) /\
    (forall c, wf_ctx c -> Forall ctx_iso (ext_ctxs true (CCons c CNil))) /\
    (forall ts, wf_tasks ts -> Forall iso (ext_tasks true ts)).
  Proof.
    apply world_mutind; try (intros; exact I).
    - (* Task *)
      intros r fs IHfs [Hs [Hq [Hn Hw]]]. simpl.
      rewrite walk_simple by (auto; unfold base_depth; lia).
      constructor.
      + rewrite nursery_ids_out, upto_trap_nids by exact Hq. exact Hn.
      + apply Forall_forall. intros o Ho. apply in_map_iff in Ho as [f [<- Hf]].
        apply upto_trap_incl in Hf. specialize (IHfs Hw).
        rewrite Forall_forall in IHfs. apply IHfs. exact Hf.
    - intros _. constructor.
    - intros f IHf r IHr [Hf Hr]. simpl. constructor; auto.
    - intros id k _ cs IHcs H. simpl in *. auto.
    - intros _. constructor.
    - intros c IHc r IHr [Hc Hr]. specialize (IHc Hc). specialize (IHr Hr).
      simpl in *. inversion IHc; subst. constructor; assumption.
    - intros n kids IHk [Hr Hw]. simpl. constructor; [|constructor].
      constructor; [rewrite ext_tasks_roots, Hr; reflexivity | auto].
    - intros c _. simpl. constructor; constructor.
    - intros _. constructor.
    - intros t IHt r IHr [Ht Hr]. simpl. constructor; auto.
  Qed.

  Lemma iso_extract run t : wf_task t -> iso (extract true (RTask run t)).
  Proof.
    intros H. destruct t as [r fs]. pose proof (proj1 iso_all (Task r fs) H) as I.
    simpl in I. unfold extract, frames_of.
    destruct H as [Hs _].
    rewrite walk_simple by (auto; unfold base_depth; lia).
    rewrite walk_simple in I by (auto; unfold base_depth; lia). exact I.
  Qed.

  (* ---- recurse = false *)
  Lemma ext_tasks_stub ts : ext_tasks false ts = map stub (roots ts).
  Proof. induction ts as [|t r IH]; [reflexivity|]. destruct t. simpl. rewrite IH. reflexivity. Qed.

  Lemma ext_ctxs_stub cs : wf_ctxs cs -> Forall ctx_stub (ext_ctxs false cs).
  Proof.
    induction cs as [|c r IH]; intros H; [constructor|]. destruct H as [Hc Hr].
    destruct c; simpl; constructor; auto.
    - destruct Hc as [Hk _]. rewrite ext_tasks_stub, Hk. constructor.
    - constructor.
  Qed.

  Lemma stub_extract run t : wf_task t -> iso_stub (extract false (RTask run t)).
  Proof.
    destruct t as [r fs]. intros [Hs [Hq [Hn Hw]]]. unfold extract, frames_of.
    rewrite walk_simple by (auto; unfold base_depth; lia). split.
    - rewrite nursery_ids_out, upto_trap_nids by exact Hq. exact Hn.
    - apply Forall_forall. intros o Ho. apply in_map_iff in Ho as [f [<- Hf]].
      apply upto_trap_incl in Hf. destruct f as [id k cs]. simpl. apply ext_ctxs_stub.
      clear -Hw Hf. induction fs as [|g r IH]; simpl in *; [tauto|].
      destruct Hw as [Hg Hr]. destruct Hf as [->|Hf]; auto.
  Qed.
End Iso.

(* ------------------------------------------------------------------ stubs for ALL worlds
   (any kinds, any hop nesting): with recurse_child_tasks=false every child of every context
   of every frame that extract() returns — also the frames spliced in across thread hops — is
   a frameless stub carrying the root of the corresponding child task. *)
Definition is_stub (s : stack) : Prop := exists r, s = Stack (SRTask r) [].
Definition fout_stubs (f : fout) : Prop :=
  Forall (fun c => match c with COut _ kids => Forall is_stub kids end) (fout_cx f).

Lemma ext_ctxs_false_stubs cs :
  Forall (fun c => match c with COut _ kids => Forall is_stub kids end) (ext_ctxs false cs).
Proof.
  induction cs as [|c r IH]; [constructor|]. destruct c as [n kids|c]; simpl; constructor; auto.
  clear. induction kids as [|t r IH]; simpl; constructor; auto. destruct t. eexists. reflexivity.
Qed.

Definition stubs_kind (k : fkind) : Prop :=
  match k with
  | KToThread tfs => forall inc n d pr, Forall fout_stubs (fst (walk false inc n d pr tfs))
  | KFromSys _ t => forall inc n d pr, Forall fout_stubs (fst (walk false inc n d pr (task_frames t)))
  | _ => True
  end.

Lemma stubs_all :
  (forall t : task, forall inc n d pr, Forall fout_stubs (fst (walk false inc n d pr (task_frames t)))) /\
  (forall fs, forall inc n d pr, Forall fout_stubs (fst (walk false inc n d pr fs))) /\
  (forall f : frame, match f with Frame _ k _ => stubs_kind k end) /\
  (forall k : fkind, stubs_kind k) /\
  (forall cs : ctxs, True) /\ (forall c : ctx, True) /\ (forall ts : tasks, True).
Proof.
  apply world_mutind; try (intros; exact I).
  - (* Task *) intros r fs H inc n d pr. apply H.
  - (* FNil *) intros. constructor.
  - (* FCons *)
    intros f Hf r IHr inc n d pr. simpl.
    destruct (pruned pr d); [apply IHr|].
    destruct f as [id k cs].
    assert (Hcx : forall h, fout_stubs (FOut id h (ext_ctxs false cs)))
      by (intros h; unfold fout_stubs; simpl; apply ext_ctxs_false_stubs).
    destruct k; simpl in *; try (constructor; [apply Hcx | apply IHr]).
    + constructor; [apply Hcx|]. apply Forall_app. split; [apply Hf|].
      destruct (next_is_wtr r); apply IHr.
    + destruct (reentered (task_frames t)); simpl.
      * constructor; [apply Hcx | apply IHr].
      * constructor; [apply Hcx|]. apply Forall_app. split; [apply Hf | apply IHr].
  - (* Frame *) intros id k Hk cs _. exact Hk.
  - (* KToThread *) intros tfs H. exact H.
  - (* KFromSys *) intros run t H. exact H.
Qed.

Definition stubs_only (s : stack) : Prop := match s with Stack _ fs => Forall fout_stubs fs end.

Lemma stubs_extract r : stubs_only (extract false r).
Proof.
  destruct r as [run [r fs]|tid fs]; simpl; unfold frames_of; apply (proj1 (proj2 stubs_all)).
Qed.

(* ------------------------------------------------------------------ C14_hops_n
   Specification of the frames across thread hops, written from the property text (no depths,
   no prune thresholds): the worker thread's frames take the place of the wait, or, when the
   thread has re-entered the host task, precede the frames of the call being served; a thread
   inside from_thread.run continues into the task serving it; a trap ends the stack. *)
Fixpoint splice_task (fs : frames) : list nat :=
  match fs with
  | FNil => []
  | FCons (Frame id k _) r =>
    id :: match k with
          | KTrap _ => []
          | KToThread tfs =>
              if next_is_wtr r then splice_thread tfs else splice_thread tfs ++ splice_task r
          | _ => splice_task r
          end
  end
with splice_thread (fs : frames) : list nat :=
  match fs with
  | FNil => []
  | FCons (Frame id k _) r =>
    id :: match k with
          | KFromHost => []
          | KFromSys _ t => splice_task (task_frames t)
          | _ => splice_thread r
          end
  end.

Definition splice (r : rootd) : list nat :=
  match r with RTask _ t => splice_task (task_frames t) | RThread _ fs => splice_thread fs end.

(* ping-pong worlds: task segments (coroutine chains) hold plain/hidden/trap/to_thread frames,
   thread segments hold plain/hidden frames and at most one relevant from_thread.run; a worker
   thread whose host is serving it ([ins]: the to_thread frame is not followed by the wait)
   sits in a token-less from_thread.run or is still running. *)
Fixpoint pp_task (fs : frames) : bool :=
  match fs with
  | FNil => true
  | FCons (Frame _ k _) r =>
    match k with
    | KPlain | KHidden | KToThreadNF => pp_task r
    | KTrap _ => true
    | KToThread tfs => if next_is_wtr r then pp_thread false tfs else pp_thread true tfs && pp_task r
    | KFromHost | KFromSys _ _ => false
    end
  end
with pp_thread (ins : bool) (fs : frames) : bool :=
  match fs with
  | FNil => true
  | FCons (Frame _ k _) r =>
    match k with
    | KPlain | KHidden => pp_thread ins r
    | KFromHost => true
    | KFromSys _ t => negb ins && pp_task (task_frames t)
    | _ => false
    end
  end.

(* the shape of finding F14, excluded: no from_thread.run(trio_token=...) is served by a task
   that is at the same time serving a re-entrant from_thread.run *)
Fixpoint f14_free (fs : frames) : bool :=
  match fs with
  | FNil => true
  | FCons (Frame _ k _) r =>
    (match k with
     | KToThread tfs => f14_free tfs
     | KFromSys _ t => negb (reentered (task_frames t)) && f14_free (task_frames t)
     | _ => true
     end) && f14_free r
  end.

Definition hops_task (fs : frames) : Prop :=
  pp_task fs = true -> f14_free fs = true ->
  forall rc inc n d, d <= n -> ids (fst (walk rc inc n d None fs)) = splice_task fs.
Definition hops_thread (fs : frames) : Prop :=
  forall ins, pp_thread ins fs = true -> f14_free fs = true ->
  forall rc n, ids (fst (walk rc false n n None fs)) = splice_thread fs /\
               (ins = true -> snd (walk rc false n n None fs) = None \/
                              snd (walk rc false n n None fs) = Some n).
Definition hops_kind (k : fkind) : Prop :=
  match k with
  | KToThread tfs => hops_thread tfs
  | KFromSys _ t => hops_task (task_frames t)
  | _ => True
  end.

Lemma ids_app a b : ids (a ++ b) = ids a ++ ids b.
Proof. apply map_app. Qed.

Lemma hops_all :
  (forall t : task, hops_task (task_frames t)) /\
  (forall fs, hops_task fs /\ hops_thread fs) /\
  (forall f : frame, match f with Frame _ k _ => hops_kind k end) /\
  (forall k : fkind, hops_kind k) /\
  (forall cs : ctxs, True) /\ (forall c : ctx, True) /\ (forall ts : tasks, True).
Proof.
  apply world_mutind; try (intros; exact I).
  - (* Task *) intros r fs [H _]. exact H.
  - (* FNil *) split.
    + intros _ _ rc inc n d _. reflexivity.
    + intros ins _ _ rc n. split; [reflexivity|]. intros _. left. reflexivity.
  - (* FCons *)
    intros f Hf r [IHt IHh]. destruct f as [id k cs]. split.
    + (* task segment *)
      intros Hpp Hf14 rc inc n d Hd.
      pose proof (next_depth_ge inc n) as Hn.
      simpl in Hpp, Hf14. simpl walk. unfold pruned.
      destruct k; simpl in Hpp, Hf14; try discriminate.
      * (* KPlain *) simpl. f_equal. apply IHt; auto.
      * (* KHidden *) simpl. f_equal. apply IHt; auto.
      * (* KTrap *) simpl. f_equal. rewrite walk_pruned by lia. reflexivity.
      * (* KToThreadNF *) simpl. f_equal. apply IHt; auto.
      * (* KToThread *)
        apply andb_true_iff in Hf14 as [Hf1 Hf2]. simpl in Hf.
        cbn [splice_task]. destruct (next_is_wtr r) eqn:Ew.
        -- destruct (Hf false Hpp Hf1 rc (S d)) as [E _].
           cbn [fst snd ids map fout_id]. f_equal. rewrite ids_app, E.
           rewrite walk_pruned by lia. simpl. apply app_nil_r.
        -- apply andb_true_iff in Hpp as [Hp1 Hp2].
           destruct (Hf true Hp1 Hf1 rc (S d)) as [E S].
           cbn [fst snd ids map fout_id]. f_equal. rewrite ids_app, E. f_equal.
           destruct (S eq_refl) as [-> | ->].
           ++ apply IHt; auto. lia.
           ++ rewrite walk_unpruned_fst by lia. apply IHt; auto. lia.
    + (* thread segment *)
      intros ins Hpp Hf14 rc n.
      simpl in Hpp, Hf14. simpl walk. unfold pruned.
      destruct k; simpl in Hpp, Hf14; try discriminate.
      * (* KPlain *) destruct (IHh ins Hpp Hf14 rc n) as [E S]. simpl. split; [f_equal; exact E | exact S].
      * (* KHidden *) destruct (IHh ins Hpp Hf14 rc n) as [E S]. simpl. split; [f_equal; exact E | exact S].
      * (* KFromHost *) simpl. rewrite walk_pruned by lia. simpl. split; [reflexivity|]. intros _. right. reflexivity.
      * (* KFromSys *)
        apply andb_true_iff in Hf14 as [Hf1 Hf2]. apply andb_true_iff in Hf1 as [Hre Hf1].
        apply andb_true_iff in Hpp as [Hins Hp].
        apply negb_true_iff in Hre. rewrite Hre. simpl in Hf.
        cbn [fst snd ids map fout_id]. rewrite walk_pruned by lia. split.
        -- cbn [splice_thread]. f_equal. rewrite ids_app. simpl. rewrite app_nil_r.
           apply Hf; auto.
        -- intros ->. discriminate.
  - (* Frame *) intros id k Hk cs _. exact Hk.
  - (* KToThread *) intros tfs [_ H]. exact H.
  - (* KFromSys *) intros run t H. exact H.
Qed.

Lemma hops_extract rc r :
  (match r with
   | RTask _ t => pp_task (task_frames t) && f14_free (task_frames t)
   | RThread _ fs => pp_thread false fs && f14_free fs
   end) = true ->
  match extract rc r with Stack _ fs => ids fs = splice r end.
Proof.
  destruct r as [run [x fs]|tid fs]; intros H; apply andb_true_iff in H as [Hp Hf]; simpl; unfold frames_of.
  - apply (proj1 (proj1 (proj2 hops_all) fs)); auto.
  - apply (proj2 (proj1 (proj2 hops_all) fs) false Hp Hf rc base_depth).
Qed.

(* ------------------------------------------------------------------ ping-pong chains of any depth
   [l] lists the from_thread hops from the outside in: true = trio.from_thread.run(afn)
   re-entering the host task, false = trio.from_thread.run(afn, trio_token=...) served by a
   system task; every hop is preceded by a to_thread.run_sync hop.  Frame ids count up from b. *)
Definition P (i : nat) := Frame i KPlain CNil.

Fixpoint pingpong (l : list bool) (b : nat) : frames :=
  match l with
  | [] => fl [P b; Frame (b + 1) (KTrap true) CNil; P (b + 2)]          (* parked in Event.wait *)
  | true :: l' =>
      FCons (P b)
      (FCons (Frame (b + 1) (KToThread (fl [P (b + 2); Frame (b + 3) KFromHost CNil; P (b + 4)])) CNil)
      (FCons (Frame (b + 5) KHidden CNil)                                 (* Run.run *)
             (pingpong l' (b + 6))))
  | false :: l' =>
      fl [P b;
          Frame (b + 1) (KToThread (fl [P (b + 2);
                                        Frame (b + 3) (KFromSys false (Task (b + 5) (pingpong l' (b + 6)))) CNil;
                                        P (b + 4)])) CNil;
          Frame (b + 5) (KTrap true) CNil]
  end.

(* what the property text promises for it *)
Fixpoint pingpong_ids (l : list bool) (b : nat) : list nat :=
  match l with
  | [] => [b; b + 1]
  | true :: l' => [b; b + 1; b + 2; b + 3; b + 5] ++ pingpong_ids l' (b + 6)
  | false :: l' => [b; b + 1; b + 2; b + 3] ++ pingpong_ids l' (b + 6)
  end.

(* excluded: a token hop whose serving task goes on with a host re-entry (finding F14) *)
Fixpoint no_f14 (l : list bool) : bool :=
  match l with
  | false :: ((true :: _) as r) => false
  | _ :: r => no_f14 r
  | [] => true
  end.

Lemma pingpong_splice l : forall b, splice_task (pingpong l b) = pingpong_ids l b.
Proof.
  induction l as [|h l IH]; intros b; [reflexivity|]. destruct h.
  - cbn [pingpong splice_task splice_thread fl P next_is_wtr pingpong_ids]. rewrite IH. reflexivity.
  - cbn [pingpong splice_task splice_thread fl P next_is_wtr pingpong_ids task_frames]. rewrite IH. reflexivity.
Qed.

Lemma pingpong_pp l : forall b, pp_task (pingpong l b) = true.
Proof.
  induction l as [|h l IH]; intros b; [reflexivity|]. destruct h.
  - cbn [pingpong pp_task pp_thread fl P next_is_wtr andb]. apply IH.
  - cbn [pingpong pp_task pp_thread fl P next_is_wtr andb negb task_frames]. apply IH.
Qed.

Lemma pingpong_reentered l b : reentered (pingpong l b) = match l with true :: _ => true | _ => false end.
Proof. destruct l as [|[|] l]; reflexivity. Qed.

Lemma pingpong_f14 l : forall b, no_f14 l = true -> f14_free (pingpong l b) = true.
Proof.
  induction l as [|h l IH]; intros b H; [reflexivity|]. destruct h.
  - cbn [pingpong f14_free fl P andb]. apply IH. destruct l; exact H.
  - cbn [pingpong f14_free fl P andb task_frames]. rewrite pingpong_reentered.
    destruct l as [|[|] l']; try discriminate; cbn [negb andb]; rewrite IH; auto.
Qed.

Lemma hops_pingpong l b rc inc : no_f14 l = true ->
  ids (frames_of rc inc (pingpong l b)) = pingpong_ids l b.
Proof.
  intros H. rewrite <- pingpong_splice. unfold frames_of.
  apply (proj1 (proj1 (proj2 hops_all) (pingpong l b))); auto using pingpong_pp, pingpong_f14.
Qed.

(* finding F14: the shortest excluded chain — to_thread, from_thread(token), to_thread,
   from_thread (host) — loses everything inward of the token hop *)
Lemma f14_witness :
  no_f14 [false; true] = false /\
  pp_task (pingpong [false; true] 0) = true /\
  ids (frames_of true true (pingpong [false; true] 0)) = [0; 1; 2; 3; 4] /\
  splice_task (pingpong [false; true] 0) = [0; 1; 2; 3; 6; 7; 8; 9; 11; 12; 13].
Proof. repeat split; vm_compute; reflexivity. Qed.

(* ------------------------------------------------------------------ the executable check
   [iso_b] that the generated case files run on the OBSERVED stacks is sound for [iso] *)
Definition cout_kids (c : cout) : list stack := match c with COut _ k => k end.

Section StackInd.
  Variable Q : stack -> Prop.
  Hypothesis H : forall r fs,
    Forall (fun f => Forall (fun c => Forall Q (cout_kids c)) (fout_cx f)) fs -> Q (Stack r fs).
  Fixpoint stack_ind' (s : stack) : Q s :=
    match s with
    | Stack r fs => H r fs
      ((fix go_f (l : list fout) : Forall (fun f => Forall (fun c => Forall Q (cout_kids c)) (fout_cx f)) l :=
         match l with
         | [] => Forall_nil _
         | f :: l' => Forall_cons f
             (match f return Forall (fun c => Forall Q (cout_kids c)) (fout_cx f) with
              | FOut _ _ cx =>
                (fix go_c (u : list cout) : Forall (fun c => Forall Q (cout_kids c)) u :=
                   match u with
                   | [] => Forall_nil _
                   | c :: u' => Forall_cons c
                       (match c return Forall Q (cout_kids c) with
                        | COut _ k =>
                          (fix go_s (p : list stack) : Forall Q p :=
                             match p with
                             | [] => Forall_nil _
                             | s' :: p' => Forall_cons s' (stack_ind' s') (go_s p')
                             end) k
                        end) (go_c u')
                   end) cx
              end) (go_f l')
         end) fs)
    end.
End StackInd.

Lemma iso_b_sound N K s : iso_b N K s = true -> iso (tlookup N) (tlookup K) s.
Proof.
  induction s as [r fs IH] using stack_ind'. intros Hb.
  cbn [iso_b] in Hb. apply andb_true_iff in Hb as [Hr Hf].
  destruct r as [x|x]; [|discriminate].
  apply list_eqb_eq in Hr; [|intros a b E; apply Nat.eqb_eq; exact E].
  constructor; [exact Hr|].
  rewrite forallb_forall in Hf. rewrite Forall_forall in IH. apply Forall_forall.
  intros f Hin. specialize (Hf f Hin). specialize (IH f Hin). destruct f as [i h cx]. simpl in *.
  rewrite forallb_forall in Hf. rewrite Forall_forall in IH. apply Forall_forall.
  intros c Hc. specialize (Hf c Hc). specialize (IH c Hc). destruct c as [o k]. simpl in *.
  apply andb_true_iff in Hf as [Ho Hk].
  rewrite forallb_forall in Hk. rewrite Forall_forall in IH.
  destruct o as [n|c].
  - constructor.
    + apply list_eqb_eq in Ho; [exact Ho|].
      intros a b E. apply (option_eqb_eq Nat.eqb); [|exact E]. intros u v E'. apply Nat.eqb_eq. exact E'.
    + apply Forall_forall. intros s' Hs. apply IH; auto.
  - destruct k; [constructor | discriminate].
Qed.

(* ------------------------------------------------------------------ examples: the hypotheses
   are met by non-trivial inputs *)
Definition ex_parked (b : nat) : frames :=
  fl [P b; Frame (b + 1) (KTrap true) CNil; P (b + 2)].
Definition ex_tree : task :=
  Task 0 (fl [
    Frame 0 KPlain (cl [CNurs 0 (tl [Task 1 (ex_parked 10);
                                     Task 2 (fl [Frame 20 KPlain (cl [CNurs 1 (tl [Task 3 (ex_parked 30)])]);
                                                 P 21; Frame 22 (KTrap true) CNil; P 23])]);
                        COther 0]);
    Frame 1 KPlain (cl [CNurs 2 TNil]);
    Frame 2 KHidden CNil; Frame 3 (KTrap true) CNil; P 4]).
Definition ex_nurs : table := [(0, [0; 2]); (1, []); (2, [1]); (3, [])].
Definition ex_kids : table := [(0, [1; 2]); (1, [3]); (2, [])].

Lemma ex_tree_wf : wf_task (tlookup ex_nurs) (tlookup ex_kids) ex_tree.
Proof. simpl. repeat split; reflexivity. Qed.

(* depth-3 chains that satisfy the hypotheses of the hop theorems: host, token, host *)
Lemma ex_chain_ok :
  no_f14 [true; true; false; false] = true /\
  pp_task (pingpong [true; true; false; false] 0) && f14_free (pingpong [true; true; false; false] 0) = true /\
  pp_thread false (fl [P 100; Frame 101 (KFromSys true (Task 7 (pingpong [false; false] 0))) CNil; P 102]) &&
  f14_free (fl [P 100; Frame 101 (KFromSys true (Task 7 (pingpong [false; false] 0))) CNil; P 102]) = true.
Proof. repeat split; vm_compute; reflexivity. Qed.

Lemma f14_refuted : exists l,
  no_f14 l = false /\ pp_task (pingpong l 0) = true /\
  ids (frames_of true true (pingpong l 0)) <> splice_task (pingpong l 0).
Proof.
  exists [false; true]. destruct f14_witness as [A [B [C D]]].
  split; [exact A|]. split; [exact B|]. rewrite C, D. discriminate.
Qed.

(* ------------------------------------------------------------------ a case that passes in a
   generated file says: the observed Stack IS the model's result (and, where tc_iso is set, it
   is isomorphic to Trio's own tables) *)
Lemma leqb_eq {A} (eq : A -> A -> bool) a : forall b,
  (forall x y, In x a -> eq x y = true -> x = y) -> leqb eq a b = true -> a = b.
Proof.
  induction a as [|x a IH]; destruct b as [|y b]; simpl; try discriminate; auto.
  intros H E. apply andb_true_iff in E as [E1 E2]. f_equal; [apply H; auto | apply IH; auto].
Qed.

Lemma stack_eqb_eq a : forall b, stack_eqb a b = true -> a = b.
Proof.
  induction a as [r fs IH] using stack_ind'. intros [r' fs'] E.
  cbn [stack_eqb] in E. apply andb_true_iff in E as [Er Ef].
  assert (r = r') as ->.
  { destruct r, r'; simpl in Er; try discriminate; apply Nat.eqb_eq in Er; subst; reflexivity. }
  f_equal. rewrite Forall_forall in IH. revert Ef. apply leqb_eq.
  intros [i h c] [i' h' c'] Hin E. specialize (IH _ Hin). simpl in IH.
  apply andb_true_iff in E as [E1 Ec]. apply andb_true_iff in E1 as [Ei Eh].
  apply Nat.eqb_eq in Ei. apply Bool.eqb_prop in Eh. subst. f_equal.
  rewrite Forall_forall in IH. revert Ec. apply leqb_eq.
  intros [o k] [o' k'] Hc E. specialize (IH _ Hc). simpl in IH.
  apply andb_true_iff in E as [Eo Ek].
  assert (o = o') as ->.
  { destruct o, o'; simpl in Eo; try discriminate; apply Nat.eqb_eq in Eo; subst; reflexivity. }
  f_equal. rewrite Forall_forall in IH. revert Ek. apply leqb_eq.
  intros s s' Hs E. apply IH; auto.
Qed.

(* ---- the runaway-unwrap guard is never reached by a chain that makes progress at every step *)
Lemma andb_true_r' b : b && true = b. Proof. destruct b; reflexivity. Qed.

Lemma guard_frames g : 2 <= g -> forall n cnt, cnt <= 1 -> guard_run g true cnt (repeat true n) = false.
Proof.
  intros Hg. induction n as [|n IH]; intros cnt Hc; simpl; [reflexivity|].
  assert (E : (g <? S cnt) = false) by (apply Nat.ltb_ge; lia). rewrite E. apply IH. lia.
Qed.

Lemma guard_progress g reset : (2 <=? g) = true -> reset = true ->
  forall n, guard_run g reset 0 (task_chain n) = false.
Proof.
  intros Hg -> n. apply Nat.leb_le in Hg. unfold task_chain. simpl.
  assert (E : (g <? 1) = false) by (apply Nat.ltb_ge; lia). rewrite E.
  apply guard_frames; auto.
Qed.

(* ... whereas without the reset at a Frame the guard caps the total length of the chain *)
Lemma guard_noreset g : forall chain cnt, cnt <= g -> g < cnt + length chain ->
  guard_run g false cnt chain = true.
Proof.
  induction chain as [|y r IH]; intros cnt Hc Hl; simpl in *; [lia|].
  destruct (g <? S cnt) eqn:E; [reflexivity|]. apply Nat.ltb_ge in E.
  rewrite andb_false_r. apply IH; lia.
Qed.

Lemma guard_noreset_task g n : g <= n -> guard_run g false 0 (task_chain n) = true.
Proof.
  intros H. apply guard_noreset; [lia|]. unfold task_chain. simpl. rewrite repeat_length. lia.
Qed.

Lemma root_chain_clean r : guard_run unwrap_guard_const true 0 (root_chain r) = false.
Proof.
  destruct r as [[|] [x fs]|tid fs]; try reflexivity.
  unfold root_chain. apply guard_progress; reflexivity.
Qed.

Lemma case_ok_sound k : case_ok k = true ->
  tc_obs k = extract (tc_rc k) (tc_root k) /\
  (tc_iso k = true -> iso (tlookup (tc_nurs k)) (tlookup (tc_kids k)) (tc_obs k)) /\
  tc_clean k = true.
Proof.
  unfold case_ok. intros H. apply andb_true_iff in H as [H H3]. apply andb_true_iff in H as [H1 H2].
  split; [symmetry; apply stack_eqb_eq; exact H1|]. split.
  - intros E. rewrite E in H2. apply iso_b_sound. exact H2.
  - rewrite root_chain_clean in H3. simpl in H3. apply Bool.eqb_prop in H3. exact H3.
Qed.

(* ================================================================== C14_iso_hops
   Tree isomorphism AND hop splicing together: task trees whose tasks may be parked anywhere in
   to_thread/from_thread chains of any depth. *)
Definition hideK (k : fkind) : bool := match k with KPlain | KToThreadNF => false | _ => true end.
Definition outK (rc : bool) (f : frame) : fout :=
  match f with Frame id k cs => FOut id (hideK k) (ext_ctxs rc cs) end.
Definition frame_id (f : frame) : nat := match f with Frame id _ _ => id end.
Definition frame_ctxs (f : frame) : ctxs := match f with Frame _ _ cs => cs end.

(* [splice] returning the frames themselves *)
Fixpoint sp_task (fs : frames) : list frame :=
  match fs with
  | FNil => []
  | FCons f r =>
    f :: match f with Frame _ k _ =>
           match k with
           | KTrap _ => []
           | KToThread tfs => if next_is_wtr r then sp_thread tfs else sp_thread tfs ++ sp_task r
           | _ => sp_task r
           end
         end
  end
with sp_thread (fs : frames) : list frame :=
  match fs with
  | FNil => []
  | FCons f r =>
    f :: match f with Frame _ k _ =>
           match k with
           | KFromHost => []
           | KFromSys _ t => sp_task (task_frames t)
           | _ => sp_thread r
           end
         end
  end.

Lemma sp_ids_all :
  (forall t : task, map frame_id (sp_task (task_frames t)) = splice_task (task_frames t)) /\
  (forall fs, map frame_id (sp_task fs) = splice_task fs /\ map frame_id (sp_thread fs) = splice_thread fs) /\
  (forall f : frame, match f with Frame _ k _ =>
     match k with
     | KToThread tfs => map frame_id (sp_thread tfs) = splice_thread tfs
     | KFromSys _ t => map frame_id (sp_task (task_frames t)) = splice_task (task_frames t)
     | _ => True end end) /\
  (forall k : fkind,
     match k with
     | KToThread tfs => map frame_id (sp_thread tfs) = splice_thread tfs
     | KFromSys _ t => map frame_id (sp_task (task_frames t)) = splice_task (task_frames t)
     | _ => True end) /\
  (forall cs : ctxs, True) /\ (forall c : ctx, True) /\ (forall ts : tasks, True).
Proof.
  apply world_mutind; try (intros; exact I).
  - intros r fs [H _]. exact H.
  - split; reflexivity.
  - intros f Hf r [IHt IHh]. destruct f as [id k cs]. split.
    + cbn [sp_task splice_task map frame_id]. f_equal.
      destruct k; simpl in Hf; try exact IHt; try reflexivity.
      destruct (next_is_wtr r); [exact Hf|]. rewrite map_app, Hf, IHt. reflexivity.
    + cbn [sp_thread splice_thread map frame_id]. f_equal.
      destruct k; simpl in Hf; try exact IHh; try reflexivity. exact Hf.
  - intros id k Hk cs _. exact Hk.
  - intros tfs [_ H]. exact H.
  - intros run t H. exact H.
Qed.

(* the hop theorem with full frames (ids, hide flags, contexts) *)
Definition hopsF_task (fs : frames) : Prop :=
  pp_task fs = true -> f14_free fs = true ->
  forall rc inc n d, d <= n -> fst (walk rc inc n d None fs) = map (outK rc) (sp_task fs).
Definition hopsF_thread (fs : frames) : Prop :=
  forall ins, pp_thread ins fs = true -> f14_free fs = true ->
  forall rc n, fst (walk rc false n n None fs) = map (outK rc) (sp_thread fs) /\
               (ins = true -> snd (walk rc false n n None fs) = None \/
                              snd (walk rc false n n None fs) = Some n).
Definition hopsF_kind (k : fkind) : Prop :=
  match k with
  | KToThread tfs => hopsF_thread tfs
  | KFromSys _ t => hopsF_task (task_frames t)
  | _ => True
  end.

Lemma hopsF_all :
  (forall t : task, hopsF_task (task_frames t)) /\
  (forall fs, hopsF_task fs /\ hopsF_thread fs) /\
  (forall f : frame, match f with Frame _ k _ => hopsF_kind k end) /\
  (forall k : fkind, hopsF_kind k) /\
  (forall cs : ctxs, True) /\ (forall c : ctx, True) /\ (forall ts : tasks, True).
Proof.
  apply world_mutind; try (intros; exact I).
  - intros r fs [H _]. exact H.
  - split.
    + intros _ _ rc inc n d _. reflexivity.
    + intros ins _ _ rc n. split; [reflexivity|]. intros _. left. reflexivity.
  - intros f Hf r [IHt IHh]. destruct f as [id k cs]. split.
    + intros Hpp Hf14 rc inc n d Hd.
      pose proof (next_depth_ge inc n) as Hn.
      simpl in Hpp, Hf14. simpl walk. unfold pruned.
      destruct k; simpl in Hpp, Hf14; try discriminate.
      * simpl. f_equal. apply IHt; auto.
      * simpl. f_equal. apply IHt; auto.
      * simpl. f_equal. rewrite walk_pruned by lia. reflexivity.
      * simpl. f_equal. apply IHt; auto.
      * apply andb_true_iff in Hf14 as [Hf1 Hf2]. simpl in Hf.
        cbn [sp_task]. destruct (next_is_wtr r) eqn:Ew.
        -- destruct (Hf false Hpp Hf1 rc (S d)) as [E _].
           cbn [fst snd map outK hideK]. f_equal. rewrite E.
           rewrite walk_pruned by lia. simpl. apply app_nil_r.
        -- apply andb_true_iff in Hpp as [Hp1 Hp2].
           destruct (Hf true Hp1 Hf1 rc (S d)) as [E S].
           cbn [fst snd map outK hideK]. f_equal. rewrite map_app, E. f_equal.
           destruct (S eq_refl) as [-> | ->].
           ++ apply IHt; auto. lia.
           ++ rewrite walk_unpruned_fst by lia. apply IHt; auto. lia.
    + intros ins Hpp Hf14 rc n.
      simpl in Hpp, Hf14. simpl walk. unfold pruned.
      destruct k; simpl in Hpp, Hf14; try discriminate.
      * destruct (IHh ins Hpp Hf14 rc n) as [E S]. simpl. split; [f_equal; exact E | exact S].
      * destruct (IHh ins Hpp Hf14 rc n) as [E S]. simpl. split; [f_equal; exact E | exact S].
      * simpl. rewrite walk_pruned by lia. simpl. split; [reflexivity|]. intros _. right. reflexivity.
      * apply andb_true_iff in Hf14 as [Hf1 Hf2]. apply andb_true_iff in Hf1 as [Hre Hf1].
        apply andb_true_iff in Hpp as [Hins Hp].
        apply negb_true_iff in Hre. rewrite Hre. simpl in Hf.
        cbn [fst snd]. rewrite walk_pruned by lia. split.
        -- cbn [sp_thread map outK hideK fst]. f_equal. rewrite app_nil_r. apply Hf; auto.
        -- intros ->. discriminate.
  - intros id k Hk cs _. exact Hk.
  - intros tfs [_ H]. exact H.
  - intros run t H. exact H.
Qed.

(* the system tasks a stack continues into (from_thread.run(trio_token=...) hops), outside in *)
Fixpoint cont_task (fs : frames) : list task :=
  match fs with
  | FNil => []
  | FCons (Frame _ k _) r =>
    match k with
    | KTrap _ => []
    | KToThread tfs => if next_is_wtr r then cont_thread tfs else cont_thread tfs ++ cont_task r
    | _ => cont_task r
    end
  end
with cont_thread (fs : frames) : list task :=
  match fs with
  | FNil => []
  | FCons (Frame _ k _) r =>
    match k with
    | KFromHost => []
    | KFromSys _ t => t :: cont_task (task_frames t)
    | _ => cont_thread r
    end
  end.

(* the frames that a stack does not show open no nursery, and neither do worker-thread frames *)
Fixpoint quiet_task (fs : frames) : Prop :=
  match fs with
  | FNil => True
  | FCons (Frame _ k _) r =>
    match k with
    | KTrap _ => frames_nids r = []
    | KToThread tfs => quiet_thread tfs /\ (if next_is_wtr r then frames_nids r = [] else quiet_task r)
    | _ => quiet_task r
    end
  end
with quiet_thread (fs : frames) : Prop :=
  match fs with
  | FNil => True
  | FCons (Frame _ k cs) r =>
    ctx_nids cs = [] /\
    match k with
    | KFromHost => True
    | KFromSys _ t => quiet_task (task_frames t)
    | _ => quiet_thread r
    end
  end.

Definition nids_fr (l : list frame) : list nat := flat_map (fun f => ctx_nids (frame_ctxs f)) l.
Definition tnids (t : task) : list nat := frames_nids (task_frames t).

Lemma nids_fr_app a b : nids_fr (a ++ b) = nids_fr a ++ nids_fr b.
Proof. apply flat_map_app. Qed.

Definition nidsA_task (fs : frames) : Prop :=
  pp_task fs = true -> quiet_task fs ->
  nids_fr (sp_task fs) = frames_nids fs ++ flat_map tnids (cont_task fs).
Definition nidsA_thread (fs : frames) : Prop :=
  forall ins, pp_thread ins fs = true -> quiet_thread fs ->
  nids_fr (sp_thread fs) = flat_map tnids (cont_thread fs) /\ (ins = true -> cont_thread fs = []).
Definition nidsA_kind (k : fkind) : Prop :=
  match k with
  | KToThread tfs => nidsA_thread tfs
  | KFromSys _ t => nidsA_task (task_frames t)
  | _ => True
  end.

Lemma nidsA_all :
  (forall t : task, nidsA_task (task_frames t)) /\
  (forall fs, nidsA_task fs /\ nidsA_thread fs) /\
  (forall f : frame, match f with Frame _ k _ => nidsA_kind k end) /\
  (forall k : fkind, nidsA_kind k) /\
  (forall cs : ctxs, True) /\ (forall c : ctx, True) /\ (forall ts : tasks, True).
Proof.
  apply world_mutind; try (intros; exact I).
  - intros r fs [H _]. exact H.
  - split.
    + intros _ _. reflexivity.
    + intros ins _ _. split; [reflexivity | intros _; reflexivity].
  - intros f Hf r [IHt IHh]. destruct f as [id k cs]. split.
    + intros Hpp Hq. simpl in Hpp, Hq.
      cbn [sp_task cont_task frames_nids]. unfold nids_fr at 1. cbn [flat_map frame_ctxs].
      fold (nids_fr (match k with
                     | KTrap _ => []
                     | KToThread tfs => if next_is_wtr r then sp_thread tfs else sp_thread tfs ++ sp_task r
                     | _ => sp_task r end)).
      rewrite <- app_assoc. f_equal.
      destruct k; simpl in Hpp, Hq, Hf; try discriminate; try (apply IHt; auto).
      * (* trap *) rewrite Hq. reflexivity.
      * (* to_thread *)
        destruct Hq as [Hq1 Hq2]. destruct (next_is_wtr r).
        -- destruct (Hf false Hpp Hq1) as [E _]. rewrite E, Hq2. reflexivity.
        -- apply andb_true_iff in Hpp as [Hp1 Hp2].
           destruct (Hf true Hp1 Hq1) as [E Z]. rewrite (Z eq_refl) in *.
           rewrite nids_fr_app, E. simpl. apply IHt; auto.
    + intros ins Hpp Hq. simpl in Hpp, Hq. destruct Hq as [Hc Hq].
      cbn [sp_thread cont_thread]. unfold nids_fr at 1. cbn [flat_map frame_ctxs]. rewrite Hc. cbn [app].
      fold (nids_fr (match k with
                     | KFromHost => []
                     | KFromSys _ t => sp_task (task_frames t)
                     | _ => sp_thread r end)).
      destruct k; simpl in Hpp, Hf; try discriminate.
      * apply IHh; auto.
      * apply IHh; auto.
      * split; [reflexivity | intros _; reflexivity].
      * apply andb_true_iff in Hpp as [Hins Hp]. split.
        -- rewrite (Hf Hp Hq). reflexivity.
        -- intros ->. discriminate.
  - intros id k Hk cs _. exact Hk.
  - intros tfs [_ H]. exact H.
  - intros run t H. exact H.
Qed.

Section IsoHops.
  Variable nurs_of : nat -> list nat.     (* Trio: task.child_nurseries *)
  Variable kids_of : nat -> list nat.     (* Trio: nursery.child_tasks *)
  Variable cont_of : nat -> list nat.     (* ground truth: the system tasks serving, outside in, the
                                             from_thread.run(trio_token=...) calls a task is parked in *)

  (* a stack shows the nurseries of its task followed by those of the tasks it continues into *)
  Definition nurs_along (r : nat) : list nat := flat_map nurs_of (r :: cont_of r).

  (* per task: well-typed hop chain outside F14; its own frames carry exactly its
     child_nurseries; what the stack does not show opens no nursery; the tasks it continues
     into are those of the table and their frames carry exactly their child_nurseries *)
  Definition task_ok (r : nat) (fs : frames) : Prop :=
    pp_task fs = true /\ f14_free fs = true /\ quiet_task fs /\
    frames_nids fs = nurs_of r /\
    map task_root (cont_task fs) = cont_of r /\
    Forall (fun t => tnids t = nurs_of (task_root t)) (cont_task fs).

  (* every nursery context anywhere in the world (own, worker-thread and serving-task frames)
     holds exactly nursery.child_tasks, and every child task is well-formed in turn *)
  Fixpoint hwf_task (t : task) : Prop :=
    match t with Task r fs => task_ok r fs /\ hwf_frames fs end
  with hwf_frames (fs : frames) : Prop :=
    match fs with
    | FNil => True
    | FCons (Frame _ k cs) r => hwf_kind k /\ hwf_ctxs cs /\ hwf_frames r
    end
  with hwf_kind (k : fkind) : Prop :=
    match k with
    | KToThread tfs => hwf_frames tfs
    | KFromSys _ t => hwf_frames (task_frames t)
    | _ => True
    end
  with hwf_ctxs (cs : ctxs) : Prop :=
    match cs with CNil => True | CCons c r => hwf_ctx c /\ hwf_ctxs r end
  with hwf_ctx (c : ctx) : Prop :=
    match c with
    | CNurs n kids => roots kids = kids_of n /\ hwf_tasks kids
    | COther _ => True
    end
  with hwf_tasks (ts : tasks) : Prop :=
    match ts with TNil => True | TCons t r => hwf_task t /\ hwf_tasks r end.

  Notation isoH := (iso nurs_along kids_of).
  Notation ctx_isoH := (ctx_iso nurs_along kids_of).
  Definition good (f : frame) : Prop := Forall ctx_isoH (ext_ctxs true (frame_ctxs f)).
  Definition good_kind (k : fkind) : Prop :=
    match k with
    | KToThread tfs => forall g, In g (sp_thread tfs) -> good g
    | KFromSys _ t => forall g, In g (sp_task (task_frames t)) -> good g
    | _ => True
    end.

  Lemma nursery_ids_outK (l : list frame) : nursery_ids (map (outK true) l) = nids_fr l.
  Proof.
    induction l as [|f r IH]; [reflexivity|]. destruct f as [id k cs].
    change (map (outK true) (Frame id k cs :: r)) with (outK true (Frame id k cs) :: map (outK true) r).
    change (nursery_ids (outK true (Frame id k cs) :: map (outK true) r))
      with (flat_map (fun c => match c with COut (ONurs n) _ => [n] | _ => [] end) (ext_ctxs true cs)
            ++ nursery_ids (map (outK true) r)).
    rewrite ext_ctxs_nids, IH. reflexivity.
  Qed.

  Lemma cont_nids (l : list task) :
    Forall (fun t => tnids t = nurs_of (task_root t)) l ->
    flat_map tnids l = flat_map nurs_of (map task_root l).
  Proof. induction 1 as [|t l H _ IH]; simpl; [reflexivity|]. rewrite H, IH. reflexivity. Qed.

  Lemma iso_hops_all :
    (forall t, (hwf_task t -> isoH (ext_child true t)) /\
               (hwf_frames (task_frames t) -> forall g, In g (sp_task (task_frames t)) -> good g)) /\
    (forall fs, hwf_frames fs ->
                (forall g, In g (sp_task fs) -> good g) /\ (forall g, In g (sp_thread fs) -> good g)) /\
    (forall f, match f with Frame _ k cs =>
                 (hwf_kind k -> good_kind k) /\ (hwf_ctxs cs -> Forall ctx_isoH (ext_ctxs true cs)) end) /\
    (forall k : fkind, hwf_kind k -> good_kind k) /\
    (forall cs, hwf_ctxs cs -> Forall ctx_isoH (ext_ctxs true cs)) /\
    (forall c, hwf_ctx c -> Forall ctx_isoH (ext_ctxs true (CCons c CNil))) /\
    (forall ts, hwf_tasks ts -> Forall isoH (ext_tasks true ts)).
  Proof.
    apply world_mutind.
    - (* Task *)
      intros r fs IHfs. split.
      + intros [[Hpp [Hf14 [Hq [Hn [Hc Hcn]]]]] Hw]. simpl.
        rewrite (proj1 (proj1 (proj2 hopsF_all) fs)) by (auto; unfold base_depth; lia).
        constructor.
        * rewrite nursery_ids_outK, (proj1 (proj1 (proj2 nidsA_all) fs)) by auto.
          rewrite Hn, cont_nids, Hc by exact Hcn. unfold nurs_along. simpl. reflexivity.
        * apply Forall_forall. intros o Ho. apply in_map_iff in Ho as [g [<- Hg]].
          destruct g as [id k cs]. simpl. apply (proj1 (IHfs Hw) (Frame id k cs) Hg).
      + intros Hw. exact (proj1 (IHfs Hw)).
    - (* FNil *) intros _. split; intros g [].
    - (* FCons *)
      intros f Hf r IHr Hw. destruct f as [id k cs]. destruct Hf as [Hk Hcs].
      simpl in Hw. destruct Hw as [Hwk [Hwc Hwr]]. destruct (IHr Hwr) as [IHt IHh].
      specialize (Hk Hwk). specialize (Hcs Hwc). split.
      + intros g Hg. cbn [sp_task] in Hg. destruct Hg as [<-|Hg]; [exact Hcs|].
        destruct k; simpl in Hk; try (apply IHt; exact Hg); try (destruct Hg).
        destruct (next_is_wtr r); [apply Hk; exact Hg|].
        apply in_app_or in Hg as [Hg|Hg]; [apply Hk | apply IHt]; exact Hg.
      + intros g Hg. cbn [sp_thread] in Hg. destruct Hg as [<-|Hg]; [exact Hcs|].
        destruct k; simpl in Hk; try (apply IHh; exact Hg); try (destruct Hg).
        apply Hk; exact Hg.
    - (* Frame *) intros id k Hk cs Hcs. split; assumption.
    - intros _; exact I.
    - intros _; exact I.
    - intros w _; exact I.
    - intros _; exact I.
    - (* KToThread *) intros tfs IH Hw. simpl in *. exact (proj2 (IH Hw)).
    - intros _; exact I.
    - (* KFromSys *) intros run t [_ IH] Hw. simpl in *. exact (IH Hw).
    - (* CNil *) intros _. constructor.
    - (* CCons *) intros c IHc r IHr [Hc Hr]. specialize (IHc Hc). specialize (IHr Hr).
      simpl in *. inversion IHc; subst. constructor; assumption.
    - (* CNurs *) intros n kids IHk [Hr Hw]. simpl. constructor; [|constructor].
      constructor; [rewrite ext_tasks_roots, Hr; reflexivity | auto].
    - (* COther *) intros c _. simpl. constructor; constructor.
    - (* TNil *) intros _. constructor.
    - (* TCons *) intros t [IHt _] r IHr [Ht Hr]. simpl. constructor; auto.
  Qed.

  (* the combined statement, for the root (suspended or running) and, because the children of
     the result ARE [ext_child true kid] and [hwf_task] is hereditary, for every task below it *)
  Lemma iso_hops_extract run t : hwf_task t ->
    isoH (extract true (RTask run t)) /\
    match extract true (RTask run t) with Stack _ fs => ids fs = splice_task (task_frames t) end.
  Proof.
    intros H. destruct t as [r fs]. pose proof H as [[Hpp [Hf14 _]] _].
    pose proof (proj1 (proj1 iso_hops_all (Task r fs)) H) as I. simpl in I.
    unfold extract, frames_of. split.
    - rewrite (proj1 (proj1 (proj2 hopsF_all) fs)) in * by (auto; unfold base_depth; lia). exact I.
    - apply (proj1 (proj1 (proj2 hops_all) fs)); auto.
  Qed.

  Lemma iso_hops_child t : hwf_task t ->
    isoH (ext_child true t) /\
    match ext_child true t with Stack _ fs => ids fs = splice_task (task_frames t) end.
  Proof.
    intros H. split; [apply (proj1 (proj1 iso_hops_all t) H)|].
    destruct t as [r fs]. destruct H as [[Hpp [Hf14 _]] _]. simpl.
    apply (proj1 (proj1 (proj2 hops_all) fs)); auto.
  Qed.
End IsoHops.

Lemma ext_tasks_map rc ts : ext_tasks rc ts = map (ext_child rc) (tasks_list ts).
Proof. induction ts as [|t r IH]; simpl; [reflexivity|]. rewrite IH. reflexivity. Qed.

(* example: a tree whose children are parked in hop chains (one re-entered through
   from_thread.run with a nursery opened by the call being served, one continued into a system
   task that holds a nursery) satisfies the hypothesis of the combined theorem *)
Definition exh_kidA : task :=
  Task 1 (fl [P 10; Frame 11 (KToThread (fl [P 12; Frame 13 KFromHost CNil; P 14])) CNil;
              Frame 15 KHidden CNil;
              Frame 16 KPlain (cl [CNurs 1 (tl [Task 3 (ex_parked 30)])]);
              Frame 17 (KTrap true) CNil; P 18]).
Definition exh_sys : task :=
  Task 5 (fl [Frame 50 KHidden CNil; Frame 51 KPlain (cl [CNurs 2 (tl [Task 4 (ex_parked 40)])]);
              Frame 52 (KTrap true) CNil; P 53]).
Definition exh_kidB : task :=
  Task 2 (fl [P 20; Frame 21 (KToThread (fl [P 22; Frame 23 (KFromSys false exh_sys) CNil; P 24])) CNil;
              Frame 25 (KTrap true) CNil; P 26]).
Definition exh_tree : task :=
  Task 0 (fl [Frame 0 KPlain (cl [CNurs 0 (tl [exh_kidA; exh_kidB])]); Frame 1 (KTrap true) CNil; P 2]).
Definition exh_nurs : table := [(0, [0]); (1, [1]); (5, [2])].
Definition exh_kids : table := [(0, [1; 2]); (1, [3]); (2, [4])].
Definition exh_cont : table := [(2, [5])].

Lemma exh_tree_wf : hwf_task (tlookup exh_nurs) (tlookup exh_kids) (tlookup exh_cont) exh_tree.
Proof. cbv -[tlookup]. repeat split; try reflexivity; repeat constructor. Qed.

Lemma exh_tree_frames :
  match extract true (RTask false exh_kidB) with Stack _ fs => ids fs end = [20; 21; 22; 23; 50; 51; 52].
Proof. vm_compute. reflexivity. Qed.

(* ================================================================== the lookahead approximation
   [next_is_wtr] lets a to_thread.run_sync frame that is the LAST entry of its segment see
   next_inner = None, although in extract_iter the head of an enclosing segment could follow.
   [walkL lk] is the model with that lookahead made explicit and ARBITRARY: [lk id] is whatever
   "next_inner is wait_task_rescheduled" evaluates to for the to_thread frame [id] at the end of
   a segment.  On ping-pong worlds the extracted frames do not depend on it (thread segments
   contain no to_thread frame; a task segment's pending prune is ignored by whatever encloses
   it), so the approximation cannot be observed. *)
Definition next_is_wtrL (lk : nat -> bool) (id : nat) (rest : frames) : bool :=
  match rest with FNil => lk id | _ => next_is_wtr rest end.

Fixpoint walkL (lk : nat -> bool) (rc inc : bool) (n d : nat) (pr : option nat) (fs : frames) {struct fs}
  : list fout * option nat :=
  match fs with
  | FNil => ([], pr)
  | FCons f rest =>
    let n' := next_depth inc n in
    if pruned pr d then walkL lk rc inc n' n' pr rest else
    match f with
    | Frame id k cs =>
      let cx := ext_ctxs rc cs in
      let cons1 (x : fout) (r : list fout * option nat) := (x :: fst r, snd r) in
      match k with
      | KPlain => cons1 (FOut id false cx) (walkL lk rc inc n' n' None rest)
      | KHidden => cons1 (FOut id true cx) (walkL lk rc inc n' n' None rest)
      | KTrap _ => cons1 (FOut id true cx) (walkL lk rc inc n' n' (Some d) rest)
      | KToThreadNF => cons1 (FOut id false cx) (walkL lk rc inc n' n' None rest)
      | KToThread tfs =>
          let r1 := walkL lk rc false (S d) (S d) None tfs in
          let r2 := if next_is_wtrL lk id rest
                    then walkL lk rc inc n' n' (Some d) rest
                    else walkL lk rc inc n' (Nat.min d n') (snd r1) rest
          in (FOut id true cx :: fst r1 ++ fst r2, snd r2)
      | KFromHost => cons1 (FOut id true cx) (walkL lk rc inc n' n' (Some d) rest)
      | KFromSys run t =>
          if reentered (task_frames t)
          then cons1 (FOut id false cx) (walkL lk rc inc n' n' None rest)
          else
          let r1 := walkL lk rc (negb run) (S d) (S d) None (task_frames t) in
          let r2 := walkL lk rc inc n' n' (Some d) rest in
          (FOut id true cx :: fst r1 ++ fst r2, snd r2)
      end
    end
  end.

Lemma walkL_pruned lk rc inc fs : forall n d p, p <= d -> d <= n ->
  walkL lk rc inc n d (Some p) fs = ([], Some p).
Proof.
  induction fs as [|f r IH]; intros n d p Hp Hd; simpl; [reflexivity|].
  assert (E : (p <=? d) = true) by (apply Nat.leb_le; lia).
  rewrite E. apply IH; pose proof (next_depth_ge inc n); lia.
Qed.

Lemma walkL_unpruned_fst lk rc inc fs : forall n d p, d < p ->
  fst (walkL lk rc inc n d (Some p) fs) = fst (walkL lk rc inc n d None fs).
Proof.
  destruct fs as [|f r]; intros n d p H; simpl; [reflexivity|].
  assert (E : (p <=? d) = false) by (apply Nat.leb_gt; lia).
  rewrite E. reflexivity.
Qed.

Definition look_task (fs : frames) : Prop :=
  pp_task fs = true -> f14_free fs = true ->
  forall lk rc inc n d, d <= n -> fst (walkL lk rc inc n d None fs) = fst (walk rc inc n d None fs).
Definition look_thread (fs : frames) : Prop :=
  forall ins, pp_thread ins fs = true -> f14_free fs = true ->
  forall lk rc n, walkL lk rc false n n None fs = walk rc false n n None fs.
Definition look_kind (k : fkind) : Prop :=
  match k with
  | KToThread tfs => look_thread tfs
  | KFromSys _ t => look_task (task_frames t)
  | _ => True
  end.

Lemma look_all :
  (forall t : task, look_task (task_frames t)) /\
  (forall fs, look_task fs /\ look_thread fs) /\
  (forall f : frame, match f with Frame _ k _ => look_kind k end) /\
  (forall k : fkind, look_kind k) /\
  (forall cs : ctxs, True) /\ (forall c : ctx, True) /\ (forall ts : tasks, True).
Proof.
  apply world_mutind; try (intros; exact I).
  - intros r fs [H _]. exact H.
  - split.
    + intros _ _ lk rc inc n d _. reflexivity.
    + intros ins _ _ lk rc n. reflexivity.
  - intros f Hf r [IHt IHh]. destruct f as [id k cs]. split.
    + intros Hpp Hf14 lk rc inc n d Hd.
      pose proof (next_depth_ge inc n) as Hn.
      simpl in Hpp, Hf14. simpl walk. simpl walkL. unfold pruned.
      destruct k; simpl in Hpp, Hf14; try discriminate.
      * simpl. f_equal. apply IHt; auto.
      * simpl. f_equal. apply IHt; auto.
      * simpl. f_equal. rewrite walk_pruned, walkL_pruned by lia. reflexivity.
      * simpl. f_equal. apply IHt; auto.
      * apply andb_true_iff in Hf14 as [Hf1 Hf2]. simpl in Hf.
        cbn [fst snd]. f_equal.
        destruct r as [|g r'].
        -- (* the to_thread frame ends its segment: the lookahead is arbitrary *)
           simpl in Hpp. apply andb_true_iff in Hpp as [Hp1 _].
           rewrite (Hf true Hp1 Hf1 lk rc (S d)). f_equal.
           cbn [next_is_wtrL next_is_wtr]. destruct (lk id); reflexivity.
        -- cbn [next_is_wtrL]. destruct (next_is_wtr (FCons g r')) eqn:Ew.
           ++ rewrite (Hf false Hpp Hf1 lk rc (S d)). f_equal.
              rewrite walk_pruned, walkL_pruned by lia. reflexivity.
           ++ apply andb_true_iff in Hpp as [Hp1 Hp2].
              rewrite (Hf true Hp1 Hf1 lk rc (S d)). f_equal.
              destruct (proj2 (proj1 (proj2 hops_all) tfs) true Hp1 Hf1 rc (S d)) as [_ S].
              destruct (S eq_refl) as [-> | ->].
              ** apply IHt; auto. lia.
              ** rewrite walk_unpruned_fst, walkL_unpruned_fst by lia. apply IHt; auto. lia.
    + intros ins Hpp Hf14 lk rc n.
      simpl in Hpp, Hf14. simpl walk. simpl walkL. unfold pruned.
      destruct k; simpl in Hpp, Hf14; try discriminate.
      * rewrite (IHh ins Hpp Hf14 lk rc n). reflexivity.
      * rewrite (IHh ins Hpp Hf14 lk rc n). reflexivity.
      * rewrite walk_pruned, walkL_pruned by lia. reflexivity.
      * apply andb_true_iff in Hf14 as [Hf1 Hf2]. apply andb_true_iff in Hf1 as [Hre Hf1].
        apply andb_true_iff in Hpp as [Hins Hp].
        apply negb_true_iff in Hre. rewrite Hre. simpl in Hf.
        rewrite walk_pruned, walkL_pruned by lia.
        rewrite (Hf Hp Hf1 lk rc (negb running) (S n) (S n)) by lia. reflexivity.
  - intros id k Hk cs _. exact Hk.
  - intros tfs [_ H]. exact H.
  - intros run t H. exact H.
Qed.

Lemma lookahead_irrelevant lk rc r :
  (match r with
   | RTask _ t => pp_task (task_frames t) && f14_free (task_frames t)
   | RThread _ fs => pp_thread false fs && f14_free fs
   end) = true ->
  match r with
  | RTask run t => fst (walkL lk rc (negb run) base_depth base_depth None (task_frames t))
  | RThread _ fs => fst (walkL lk rc false base_depth base_depth None fs)
  end = match extract rc r with Stack _ fs => fs end.
Proof.
  destruct r as [run [x fs]|tid fs]; intros H; apply andb_true_iff in H as [Hp Hf]; simpl; unfold frames_of.
  - apply (proj1 (proj1 (proj2 look_all) fs)); auto.
  - rewrite (proj2 (proj1 (proj2 look_all) fs) false Hp Hf lk rc base_depth). reflexivity.
Qed.
