(* P_Frames_Fuel.v — fuel sufficiency for rank-ordered tables (property C10): on tables that are
   [ranked] below n the model never answers OutOfFuel once fuel >= fuel_bound n c root, so
   model = reference holds without the side condition. *)
Require Import Base M_Frames M_FramesRef P_Frames_Ref.

Definition W (n : nat) (c : cfg) (i : item) : nat := wt (n - rank i) c i.
Definition qw (n : nat) (c : cfg) (q : qitem) : nat :=
  match q with QPy f | QFr f _ => W n c (IPy f) | QObj o => W n c (IObj o) | QNone => 1 end.
Definition qok (n : nat) (q : qitem) : Prop :=
  match q with QPy f | QFr f _ => f < n | QObj o => o < n | QNone => True end.
Definition phi_u n c (tu : list qent) : nat := sumn (map (fun e : qent => qw n c (snd (fst e))) tu).
Definition phi_t n c (te : list tent) : nat := sumn (map (fun e : tent => qw n c (fst e)) te).
Definition ok_u n (tu : list qent) : Prop := Forall (fun e : qent => qok n (snd (fst e))) tu.
Definition ok_t n (te : list tent) : Prop := Forall (fun e : tent => qok n (fst e)) te.

Lemma sumn_app a b : sumn (a ++ b) = sumn a + sumn b.
Proof. induction a; simpl; lia. Qed.

Lemma sumn_map_le {A} (f g : A -> nat) l :
  (forall x, In x l -> f x <= g x) -> sumn (map f l) <= sumn (map g l).
Proof.
  induction l as [|x l IH]; simpl; intros H; auto.
  pose proof (H x (or_introl eq_refl)). assert (sumn (map f l) <= sumn (map g l)) by (apply IH; auto). lia.
Qed.

Lemma sumn_removelast {A} (f : A -> nat) l : sumn (map f (removelast l)) <= sumn (map f l).
Proof.
  induction l as [|x l IH]; simpl; auto. destruct l as [|y l]; simpl in *; lia.
Qed.

Lemma wt_pos n c i : 1 <= wt n c i.
Proof. destruct n; simpl; lia. Qed.

Lemma wt_mono c : forall n m i, n <= m -> wt n c i <= wt m c i.
Proof.
  induction n as [|n IH]; intros m i L.
  - simpl. apply wt_pos.
  - destruct m as [|m]; [lia|]. simpl. apply le_n_S.
    destruct i as [f|o].
    + apply sumn_map_le. intros r _. destruct r; simpl; auto. apply IH; lia.
    + apply sumn_map_le. intros j _. apply IH; lia.
Qed.

Section Ranked.
Variables (n : nat) (c : cfg) (root : item).
Hypothesis R : ranked n c root = true.

Lemma ranked_root : rank root < n.
Proof.
  unfold ranked in R. apply andb_true_iff in R as [R1 _]. apply andb_true_iff in R1 as [R1 _].
  apply Nat.ltb_lt. exact R1.
Qed.

Lemma ranked_unwrap o i : o < n -> In i (uitems (unwrap c o)) -> o < rank i < n.
Proof.
  intros L I. unfold ranked in R. apply andb_true_iff in R as [R1 _]. apply andb_true_iff in R1 as [_ R2].
  rewrite forallb_forall in R2. specialize (R2 o). rewrite in_seq in R2.
  assert (H : forallb (item_between o n) (uitems (unwrap c o)) = true) by (apply R2; lia).
  rewrite forallb_forall in H. specialize (H i I). unfold item_between in H.
  apply andb_true_iff in H as [A B]. apply Nat.ltb_lt in A. apply Nat.ltb_lt in B. lia.
Qed.

Lemma ranked_elab f : f < n -> elab_ranked f n (eitems (elab c f)) = true.
Proof.
  intros L. unfold ranked in R. apply andb_true_iff in R as [_ R3].
  rewrite forallb_forall in R3. apply R3. apply in_seq. lia.
Qed.

Lemma W_obj o : o < n -> S (sumn (map (W n c) (uitems (unwrap c o)))) <= W n c (IObj o).
Proof.
  intros L. unfold W at 2. simpl rank. destruct (n - o) as [|k] eqn:E; [lia|]. simpl.
  apply le_n_S. apply sumn_map_le. intros i I. unfold W.
  destruct (ranked_unwrap o i L I). apply wt_mono. lia.
Qed.

Lemma W_frame f : f < n ->
  S (sumn (map (rweight (W n c)) (removelast (eitems (elab c f))))) <= W n c (IPy f) /\
  (forall r, last_opt (eitems (elab c f)) = Some r -> r <> RNext ->
     S (sumn (map (rweight (W n c)) (eitems (elab c f)))) <= W n c (IPy f)).
Proof.
  intros L. pose proof (ranked_elab f L) as RE. unfold elab_ranked in RE.
  apply andb_true_iff in RE as [RE1 RE2]. rewrite forallb_forall in RE1.
  unfold W at 2 4. simpl rank. destruct (n - f) as [|k] eqn:E; [lia|]. simpl.
  set (l := eitems (elab c f)) in *.
  assert (LE : forall r, ritem_between f n r = true -> rweight (W n c) r <= rweight (wt k c) r).
  { intros r H. destruct r as [i| |]; simpl in *; auto. unfold item_between in H.
    apply andb_true_iff in H as [A B]. apply Nat.ltb_lt in A. apply Nat.ltb_lt in B.
    unfold W. apply wt_mono. lia. }
  split.
  - apply le_n_S. etransitivity; [|apply sumn_removelast].
    apply sumn_map_le. intros r I. apply LE. apply RE1. exact I.
  - intros r LA NR. apply le_n_S. apply sumn_map_le. intros x I.
    apply LE. unfold last_opt in LA. destruct (rev l) as [|y pre] eqn:RV; [discriminate|].
    inversion LA; subst y.
    assert (EL : l = rev pre ++ [r]) by (rewrite <- (rev_involutive l), RV; reflexivity).
    rewrite EL in I. apply in_app_or in I as [I|[I|[]]].
    + apply RE1. rewrite EL, removelast_last. exact I.
    + subst x. unfold last_opt in RE2. rewrite RV in RE2. destruct r; auto; congruence.
Qed.

Lemma qw_pos q : 1 <= qw n c q.
Proof. destruct q; simpl; unfold W; auto using wt_pos. Qed.

(* ---- the inner loop ---- *)
Lemma flatten_fuel (P : plain c) : forall fuel cnt tu te_rev errs t,
  ok_u n tu -> phi_u n c tu + 1 <= fuel ->
  match flatten fuel cnt c tu te_rev errs t with
  | FlFuel => False
  | FlRaised _ => False
  | FlOk te' _ _ => exists flat, te' = rev te_rev ++ flat /\ ok_t n flat /\ phi_t n c flat <= phi_u n c tu
  end.
Proof.
  destruct P as (NF & WC & GU & GI & GE).
  induction fuel as [|fuel IH]; intros cnt tu te_rev errs t OK LE; [lia|].
  destruct tu as [|[[org q] d] tu'].
  { simpl. exists []. rewrite app_nil_r. repeat split; auto. constructor. }
  inversion OK as [|x xs OKq OK']; subst. simpl in OKq.
  unfold phi_u in LE. simpl in LE. fold (phi_u n c tu') in LE.
  pose proof (qw_pos q) as QP.
  assert (LEAF : forall q' errs0 t0, qw n c q' <= qw n c q -> qok n q' ->
     match flatten fuel 0 c tu' ((q', d) :: te_rev) errs0 t0 with
     | FlFuel => False
     | FlRaised _ => False
     | FlOk te' _ _ => exists flat, te' = rev te_rev ++ flat /\ ok_t n flat /\
                                   phi_t n c flat <= phi_u n c ((org, q, d) :: tu')
     end).
  { intros q' errs0 t0 WQ OQ.
    specialize (IH 0 tu' ((q', d) :: te_rev) errs0 t0 OK'). 
    destruct (flatten fuel 0 c tu' ((q', d) :: te_rev) errs0 t0); try (apply IH; lia).
    destruct IH as (flat & -> & OF & PF); [lia|].
    exists ((q', d) :: flat). simpl. rewrite <- app_assoc. repeat split; auto.
    - constructor; auto.
    - unfold phi_t, phi_u in *. simpl. lia. }
  assert (PUSH : forall o errs0 t0, q = QObj o ->
     match flatten fuel (S cnt) c
             (map (fun i => (better_origin c (q_of i) org, q_of i, S d)) (uitems (unwrap c o)) ++ tu')
             te_rev errs0 t0 with
     | FlFuel => False
     | FlRaised _ => False
     | FlOk te' _ _ => exists flat, te' = rev te_rev ++ flat /\ ok_t n flat /\
                                   phi_t n c flat <= phi_u n c ((org, q, d) :: tu')
     end).
  { intros o errs0 t0 ->. simpl in OKq.
    pose proof (W_obj o OKq) as WO.
    set (new := map (fun i => (better_origin c (q_of i) org, q_of i, S d)) (uitems (unwrap c o))).
    assert (PN : phi_u n c new = sumn (map (W n c) (uitems (unwrap c o)))).
    { unfold phi_u, new. rewrite map_map. f_equal. apply map_ext. intros [f|o']; reflexivity. }
    assert (ON : ok_u n new).
    { unfold ok_u, new. rewrite Forall_map. apply Forall_forall. intros i I.
      destruct (ranked_unwrap o i OKq I). destruct i; simpl in *; lia. }
    specialize (IH (S cnt) (new ++ tu') te_rev errs0 t0).
    assert (PA : phi_u n c (new ++ tu') = phi_u n c new + phi_u n c tu').
    { unfold phi_u. rewrite map_app, sumn_app. reflexivity. }
    destruct (flatten fuel (S cnt) c (new ++ tu') te_rev errs0 t0).
    - destruct IH as (flat & -> & OF & PF); [apply Forall_app; auto | simpl in *; lia |].
      exists flat. repeat split; auto. unfold phi_u in *. simpl in *. lia.
    - apply IH; [apply Forall_app; auto | simpl in *; lia].
    - apply IH; [apply Forall_app; auto | simpl in *; lia]. }
  destruct q as [f|f fo|o|].
  - simpl flatten. apply LEAF; simpl; auto.
  - simpl flatten. apply LEAF; simpl; auto.
  - simpl flatten. rewrite NF, GU.
    destruct (unwrap c o) eqn:U.
    + destruct (uguard c <? S cnt); apply LEAF; simpl; auto.
    + destruct (uguard c <? S cnt); [apply LEAF; simpl; auto|].
      specialize (PUSH o errs (S t) eq_refl). rewrite U in PUSH. exact PUSH.
    + destruct (uguard c <? S cnt); [apply LEAF; simpl; auto|].
      specialize (PUSH o errs (S t) eq_refl). rewrite U in PUSH. exact PUSH.
    + destruct (uguard c <? S cnt); [apply LEAF; simpl; auto|].
      destruct (iter_steps_plain c NF o raises l (S t)) as [t' E]. rewrite E.
      destruct raises.
      * rewrite GI. specialize (PUSH o (EIter o :: errs) t' eq_refl). rewrite U in PUSH. exact PUSH.
      * specialize (PUSH o errs t' eq_refl). rewrite U in PUSH. exact PUSH.
    + apply LEAF; simpl; auto.
  - simpl flatten. rewrite NF, GU.
    destruct (uguard c <? S cnt); apply LEAF; simpl; auto.
Qed.

(* ---- the outer loop ---- *)
Lemma phi_u_app a b : phi_u n c (a ++ b) = phi_u n c a + phi_u n c b.
Proof. unfold phi_u. rewrite map_app, sumn_app. reflexivity. Qed.
Lemma phi_requeue rest : phi_u n c (requeue rest) = phi_t n c rest.
Proof. unfold phi_u, phi_t, requeue. rewrite map_map. reflexivity. Qed.
Lemma ok_requeue rest : ok_t n rest -> ok_u n (requeue rest).
Proof. unfold ok_u, ok_t, requeue. rewrite Forall_map. auto. Qed.
Lemma phi_dropge d : forall q, phi_u n c (dropge d q) <= phi_u n c q.
Proof.
  induction q as [|[[o i] d'] q IH]; simpl; auto. destruct (d <=? d'); auto.
  unfold phi_u in *. simpl. lia.
Qed.
Lemma ok_dropge d : forall q, ok_u n q -> ok_u n (dropge d q).
Proof.
  induction q as [|[[o i] d'] q IH]; simpl; auto. intros H. destruct (d <=? d'); auto.
  inversion H; auto.
Qed.
Lemma phi_redepth d q : phi_u n c (redepth d q) = phi_u n c q.
Proof. destruct q as [|[[o i] d'] q]; reflexivity. Qed.
Lemma ok_redepth d q : ok_u n q -> ok_u n (redepth d q).
Proof. destruct q as [|[[o i] d'] q]; simpl; auto. intros H; inversion H; subst. constructor; auto. Qed.

Lemma pushed_between f next d : forall l',
  (forall r, In r l' -> ritem_between f n r = true) ->
  ok_u n (map (fun q => (better_origin c q None, q, d)) (map (conc next) l')) /\
  phi_u n c (map (fun q => (better_origin c q None, q, d)) (map (conc next) l'))
  = sumn (map (rweight (W n c)) l').
Proof.
  induction l' as [|r l' IH]; intros H.
  - split; [constructor|reflexivity].
  - destruct IH as [IH1 IH2]; [intros x I; apply H; right; exact I|].
    pose proof (H r (or_introl eq_refl)) as B.
    destruct r as [i| |]; simpl in B; try discriminate.
    + unfold item_between in B. apply andb_true_iff in B as [_ B]. apply Nat.ltb_lt in B.
      split.
      * constructor; auto. destruct i; simpl in *; auto.
      * unfold phi_u in *. simpl. rewrite IH2. destruct i; reflexivity.
    + split.
      * constructor; simpl; auto.
      * unfold phi_u in *. simpl. rewrite IH2. reflexivity.
Qed.

Lemma edit_queue_fuel f d rest :
  f < n -> ok_t n rest ->
  ok_u n (edit_queue c d rest (eitems (elab c f))) /\
  S (phi_u n c (edit_queue c d rest (eitems (elab c f)))) <= W n c (IPy f) + phi_t n c rest.
Proof.
  intros L OR. set (l := eitems (elab c f)).
  pose proof (ranked_elab f L) as RE. fold l in RE. unfold elab_ranked in RE.
  apply andb_true_iff in RE as [RE1 RE2]. rewrite forallb_forall in RE1.
  destruct (W_frame f L) as [WF1 WF2]. fold l in WF1, WF2.
  unfold edit_queue. fold l.
  destruct (ends_with_next (next_of rest) l) eqn:EN.
  - destruct (pushed_between f (next_of rest) d (removelast l) RE1) as [O1 P1].
    split.
    + apply Forall_app. split; auto. apply ok_redepth, ok_requeue; auto.
    + rewrite phi_u_app, phi_redepth, phi_requeue, P1. lia.
  - assert (ALL : forall r, In r l -> ritem_between f n r = true).
    { intros r I. unfold last_opt in RE2. unfold ends_with_next, last_opt in EN.
      destruct (rev l) as [|y pre] eqn:RV.
      - assert (l = []) by (destruct l as [|a l']; auto; simpl in RV; destruct (rev l'); discriminate).
        subst l. rewrite H in I. destruct I.
      - assert (EL : l = rev pre ++ [y]) by (rewrite <- (rev_involutive l), RV; reflexivity).
        rewrite EL in I. apply in_app_or in I as [I|[I|[]]].
        + apply RE1. rewrite EL, removelast_last. exact I.
        + subst r. destruct y; auto; discriminate. }
    destruct (pushed_between f (next_of rest) d l ALL) as [O1 P1].
    split.
    + apply Forall_app. split; auto. apply ok_dropge, ok_requeue; auto.
    + rewrite phi_u_app.
      pose proof (phi_dropge d (requeue rest)) as PD. rewrite phi_requeue in PD. rewrite P1.
      assert (S (sumn (map (rweight (W n c)) l)) <= W n c (IPy f)).
      { unfold last_opt in RE2. unfold ends_with_next, last_opt in EN.
        destruct (rev l) as [|y pre] eqn:RV.
        - assert (l = []) by (destruct l as [|a l']; auto; simpl in RV; destruct (rev l'); discriminate).
          rewrite H. simpl. unfold W. apply wt_pos.
        - apply (WF2 y); [unfold last_opt; rewrite RV; reflexivity|].
          intros ->. discriminate. }
      lia.
Qed.

Lemma run_fuel (P : plain c) : forall fuel tu te errs out t,
  ok_u n tu -> ok_t n te -> phi_u n c tu + phi_t n c te + 1 <= fuel ->
  fst (run fuel false c tu te errs out t) <> OutOfFuel.
Proof.
  induction fuel as [|fuel IH]; intros tu te errs out t OU OT LE; [lia|].
  pose proof (flatten_fuel P (S fuel) 0 tu (rev te) errs t OU) as FF.
  destruct (flatten (S fuel) 0 c tu (rev te) errs t) as [te1 errs1 t1| |] eqn:FL;
    try (exfalso; apply FF; lia).
  destruct FF as (flat & E1 & OF & PF); [lia|]. rewrite rev_involutive in E1.
  assert (O1 : ok_t n te1) by (subst te1; apply Forall_app; auto).
  assert (P1 : phi_t n c te1 <= phi_u n c tu + phi_t n c te).
  { subst te1. unfold phi_t in *. rewrite map_app, sumn_app. lia. }
  destruct te1 as [|[q d] rest].
  { cbn [run]. rewrite FL. simpl. discriminate. }
  destruct q as [f|f org|o|]; try (cbn [run]; rewrite FL; destruct rest; simpl; discriminate).
  rewrite (run_frame_step c P fuel tu te errs out t _ _ _ f org d rest FL eq_refl).
  inversion O1 as [|x xs Of OR]; subst. simpl in Of.
  assert (P1' : W n c (IPy f) + phi_t n c rest <= phi_u n c tu + phi_t n c te) by exact P1.
  clear P1.
  assert (WP : 1 <= W n c (IPy f)) by (unfold W; apply wt_pos).
  assert (KEEP : forall errs' out' t', fst (run fuel false c [] rest errs' out' t') <> OutOfFuel).
  { intros. apply IH; auto; [constructor|]. change (phi_u n c []) with 0. lia. }
  assert (REQ : forall errs' out' t', fst (run fuel false c (redepth d (requeue rest)) [] errs' out' t') <> OutOfFuel).
  { intros. apply IH; [apply ok_redepth, ok_requeue; auto|constructor|].
    rewrite phi_redepth, phi_requeue. change (phi_t n c []) with 0. lia. }
  assert (EDIT : forall errs' out' t',
     fst (run fuel false c (edit_queue c d rest (eitems (elab c f))) [] errs' out' t') <> OutOfFuel).
  { intros. destruct (edit_queue_fuel f d rest Of OR) as [OE PE].
    apply IH; auto; [constructor|]. change (phi_t n c []) with 0. lia. }
  destruct (elab c f) as [|l|[i| |]|] eqn:E; simpl eitems in EDIT; auto.
  cbv zeta. destruct (next_of rest) as [[| | |]|]; auto.
Qed.

(* ---- totality of extract on ranked tables ---- *)
Lemma run_total (P : plain c) fuel t :
  fuel_bound n c root <= fuel -> fst (run fuel false c (root_q c root) [] [] [] t) <> OutOfFuel.
Proof.
  intros LE. apply run_fuel; auto.
  - unfold root_q. constructor; [|constructor]. simpl. pose proof ranked_root. destruct root; simpl in *; auto.
  - constructor.
  - unfold fuel_bound in LE. unfold phi_u, phi_t, root_q. simpl.
    assert (qw n c (q_of root) <= wt n c root).
    { destruct root; simpl; unfold W; apply wt_mono; lia. }
    lia.
Qed.

Lemma model_eq_ref_total_run (P : plain c) fuel :
  fuel_bound n c root <= fuel ->
  exists s, fst (run fuel false c (root_q c root) [] [] [] 0) = Ok s /\ Ref c [(s_of root, 0)] (view s).
Proof.
  intros LE. apply run_root_ref_fst; auto. apply run_total; auto.
Qed.

End Ranked.

(* for every table ranked below n: some explicit bound works for every larger fuel *)
Lemma ranked_total c n root :
  plain c -> ranked n c root = true ->
  exists bound, forall fuel, bound <= fuel ->
    exists s, fst (run fuel false c (root_q c root) [] [] [] 0) = Ok s /\ Ref c [(s_of root, 0)] (view s).
Proof.
  intros P R. exists (fuel_bound n c root). intros fuel LE.
  eapply model_eq_ref_total_run; eauto.
Qed.

(* extract uses default_fuel *)
Lemma model_eq_ref_total c n root :
  plain c -> ranked n c root = true -> fuel_bound n c root <= default_fuel ->
  exists s, extract c root = Ok s /\ Ref c [(s_of root, 0)] (view s).
Proof. exact (fun P R => model_eq_ref_total_run n c root R P default_fuel). Qed.

(* Example: insert inside insert, then a prune by the re-depthed next_inner, a None element, a
   raising iterator: ranked below 6, bound 8 (far below the default fuel) *)
Definition ex_rk : cfg :=
  mkcfg [(0, USeq [Some (IPy 1); None; Some (IObj 1)]); (1, UIter [IPy 3; IPy 4] true)]
        [(1, (ESeq [RItem (IPy 2); RNext], true)); (2, (ESeq [RItem (IPy 5); RNext], false));
         (3, (ESeq [], false))]
        [] [] [] [] false all_guards 100.
Example ex_ranked : ranked 6 ex_rk (IObj 0) = true /\ fuel_bound 6 ex_rk (IObj 0) = 8.
Proof. split; vm_compute; reflexivity. Qed.
Example ex_ranked_bound : plain ex_rk /\ fuel_bound 6 ex_rk (IObj 0) <= default_fuel.
Proof. split; [apply mkcfg_plain|]. apply Nat.leb_le. vm_compute. reflexivity. Qed.
Example ex_ranked_extract :
  extract ex_rk (IObj 0) =
  Ok (Stack [FOut 1 true None []; FOut 2 false None []; FOut 5 true None []; FOut 3 false None []]
            LNone [EIter 1]).
Proof. vm_compute. reflexivity. Qed.
(* a table that is NOT ranked: the self-loop of the guard chain *)
Example ex_not_ranked :
  ranked 3 (mkcfg [(0, UOne (IObj 0))] [] [] [] [] [] false all_guards 100) (IObj 0) = false.
Proof. reflexivity. Qed.
