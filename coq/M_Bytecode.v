(* M_Bytecode.v — abstract view of a CPython 3.12 code object, shared by the model of
   stackscope's context analysis (M_Analysis.v) and by the with-machine (M_WithMachine.v).

   A code object is a list of *code units* (index = byte offset / 2; inline CACHE entries
   are explicit units) plus the parsed exception table.  The translation from a real code
   object (harness/withmachine.py, via `dis`) keeps exactly the distinctions that either
   stackscope's analysis or the with-protocol semantics look at; every other opcode is
   [IGen pops pushes may_raise].  Jump targets are code-unit indices. *)
Require Import Base.

Inductive jkind := JFwd | JBack | JBackNoInt.

(* the CPython versions whose bytecode is modelled *)
Inductive pyver := V311 | V312.

Inductive instr :=
  | ICache | IExtArg | INop
  | IPrecall                               (* 3.11 only: PRECALL before CALL; no effect on the value stack *)
  | IResume                                (* RESUME: eval-breaker check, may raise, runs no code of the frame's own *)
  | ILoadConst (isnone : bool)
  | IPop                                   (* POP_TOP: may pop anything, cannot raise *)
  | ISwap (n : nat) | ICopy (n : nat)
  | IBeforeWith (async : bool)
  | IGetAwaitable (arg : nat)
  | ISend (tgt : nat)
  | IEndSend
  | ICleanupThrow
  | IYield
  | ICall (n : nat)
  | IWithExceptStart
  | IPushExcInfo | IPopExcept
  | IReraise
  | IRaise (n : nat)
  | IReturn (pops : nat)
  | IJump (k : jkind) (tgt : nat)
  | ICondJump (tgt : nat) (raises : bool)
  | IJumpOrPop (tgt : nat)                 (* 3.11 JUMP_IF_{TRUE,FALSE}_OR_POP: jump keeps TOS, fall-through pops it *)
  | IForIter (tgt : nat)
  | IGen (pops pushes : nat) (raises : bool).

(* exception table entry, in code units; [h_end] is inclusive as in stackscope's parser *)
Record hent := { h_start : nat; h_end : nat; h_target : nat; h_depth : nat; h_lasti : bool }.

Definition code := list instr.
Definition table := list hent.

Definition at_ (c : code) (p : nat) : instr := nth p c INop.

Definition covers (h : hent) (p : nat) : bool := (h_start h <=? p) && (p <=? h_end h).

(* first entry, in table order, whose range contains p *)
Definition lookup_h (t : table) (p : nat) : option hent := find (fun h => covers h p) t.

Definition is_cache (i : instr) : bool := match i with ICache => true | _ => false end.

(* number of inline CACHE units that follow unit p *)
Fixpoint ncaches_from (l : list instr) : nat :=
  match l with ICache :: r => S (ncaches_from r) | _ => 0 end.
Definition ncaches (c : code) (p : nat) : nat := ncaches_from (skipn (S p) c).

(* indices of the units that `dis.get_instructions(code)` (show_caches=False) reports *)
Definition insns (c : code) : list nat :=
  filter (fun p => negb (is_cache (at_ c p))) (seq 0 (length c)).

Definition jump_target (i : instr) : option nat :=
  match i with
  | ISend t | IJump _ t | ICondJump t _ | IJumpOrPop t | IForIter t => Some t
  | _ => None
  end.

(* opnames after which stackscope's predecessor map adds no fall-through edge *)
Definition no_fallthrough (i : instr) : bool :=
  match i with
  | IReturn _ | IRaise _ | IReraise | IJump _ _ => true
  | _ => false
  end.

Definition instr_eqb_kind (a b : instr) : bool :=
  match a, b with
  | ICache, ICache | IExtArg, IExtArg | INop, INop | IPop, IPop | IEndSend, IEndSend
  | ICleanupThrow, ICleanupThrow | IYield, IYield | IWithExceptStart, IWithExceptStart
  | IPushExcInfo, IPushExcInfo | IPopExcept, IPopExcept | IReraise, IReraise => true
  | _, _ => false
  end.

(* ---- values and ground truth of the with-protocol, polymorphic in the type of manager
   instances ([nat] for the concrete machine, [unit] for certificates) ---- *)
Inductive val (I : Type) :=
  | VO                                   (* anything that is not one of the below *)
  | VX (site : nat) (i : I)              (* bound __exit__/__aexit__ of the manager entered at [site] *)
  | VEA (site : nat) (i : I)             (* awaitable/iterator of a pending __aenter__ *)
  | VXA (site : nat) (i : I).            (* awaitable/iterator of a pending __aexit__ *)
Arguments VO {I}. Arguments VX {I}. Arguments VEA {I}. Arguments VXA {I}.

Inductive phase := Entering | Active | Exiting.
Record tent (I : Type) := { t_site : nat; t_inst : I; t_async : bool; t_phase : phase }.
Arguments t_site {I}. Arguments t_inst {I}. Arguments t_async {I}. Arguments t_phase {I}.
Arguments Build_tent {I}.

Definition phase_eqb (a b : phase) : bool :=
  match a, b with
  | Entering, Entering | Active, Active | Exiting, Exiting => true
  | _, _ => false
  end.

Definition vmap {I J} (f : I -> J) (v : val I) : val J :=
  match v with VO => VO | VX s i => VX s (f i) | VEA s i => VEA s (f i) | VXA s i => VXA s (f i) end.
Definition tmap {I J} (f : I -> J) (e : tent I) : tent J :=
  {| t_site := t_site e; t_inst := f (t_inst e); t_async := t_async e; t_phase := t_phase e |}.
