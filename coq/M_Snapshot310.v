(* M_Snapshot310.v — descriptive model of stackscope/_lowlevel_cpython_310.py : inspect_frame
   (CPython 3.8-3.10, where the value stack and the block stack live inside the frame object).
   There is NO retry protocol on these versions; the model says what is read, in which order, and
   which reads dereference a raw PyObject*.

     top   = end of the stack area (co_stacksize words) if f_stacktop == 0 (the frame is executing),
             else f_stacktop (the frame is suspended / in a call: exact depth)
     stack = the raw WORDS (addresses, c_size_t -- no reference is taken) below top
     blocks = the f_iblock entries of f_blockstack; each must have b_level <= len(stack);
              the SETUP_FINALLY ones are reported as (handler, level)
     executing:  stack_validity_limit = max level of the reported blocks (0 if none);
                 only the words below that limit are turned into objects, by
                 ctypes.cast(address, py_object).value  -- a raw dereference + INCREF (NULL -> None)
     suspended:  words are mapped through {id(o): o for o in gc.get_referents(frame)}: no raw dereference *)
Require Import Base.

Definition SETUP_FINALLY : nat := 122.

Record blk := mkB { b_type : nat; b_handler : nat; b_level : nat }.

Record frame310 := mkF {
  f_running : bool;          (* f_stacktop == 0 / f_stackdepth == -1 *)
  f_depth : nat;             (* the real depth of the value stack (ghost when running) *)
  f_mem : list nat;          (* the co_stacksize words of the stack area: addresses, 0 = NULL *)
  f_blocks : list blk;       (* the live entries of the block stack, outermost first *)
  f_referents : list nat     (* ids of gc.get_referents(frame) *)
}.

Inductive rawread :=
| RWord (i : nat)                 (* read word i of the stack area as an integer *)
| RDeref (i : nat) (addr : nat).  (* treat word i as a PyObject* and take a reference *)

Definition finally_blocks (bs : list blk) : list blk := filter (fun b => b_type b =? SETUP_FINALLY) bs.
Definition validity_limit (bs : list blk) : nat := fold_right Nat.max 0 (map b_level (finally_blocks bs)).

Fixpoint deref_from (i : nat) (ws : list nat) : list (option nat) * list rawread :=
  match ws with
  | [] => ([], [])
  | a :: r => let '(vs, rs) := deref_from (S i) r in
              if a =? 0 then (None :: vs, rs) else (Some a :: vs, RDeref i a :: rs)
  end.

(* None = an assertion failed (AssertionError -> InspectionWarning, fallback to referents mode) *)
Definition inspect310 (f : frame310) : option (list (option nat) * list (nat * nat) * list rawread) :=
  let top := if f_running f then length (f_mem f) else f_depth f in
  if negb (top <=? length (f_mem f)) then None else
  let stack := firstn top (f_mem f) in
  let words := map RWord (seq 0 top) in
  if negb (forallb (fun b => b_level b <=? length stack) (f_blocks f)) then None else
  let blocks := map (fun b => (b_handler b, b_level b)) (finally_blocks (f_blocks f)) in
  if f_running f then
    let limit := validity_limit (f_blocks f) in
    let '(vs, ds) := deref_from 0 (firstn limit stack) in
    Some (vs, blocks, words ++ ds)
  else
    Some (map (fun a => if mem_nat a (f_referents f) then Some a else None) stack, blocks, words).
