(* Base.v — small executable helpers shared by all models (stdlib only). *)
From Coq Require Export List Arith Bool Lia.
Export ListNotations.

Fixpoint list_eqb {A} (eq : A -> A -> bool) (a b : list A) : bool :=
  match a, b with
  | [], [] => true
  | x :: a', y :: b' => eq x y && list_eqb eq a' b'
  | _, _ => false
  end.

Definition option_eqb {A} (eq : A -> A -> bool) (a b : option A) : bool :=
  match a, b with
  | None, None => true
  | Some x, Some y => eq x y
  | _, _ => false
  end.

Definition pair_eqb {A B} (ea : A -> A -> bool) (eb : B -> B -> bool) (a b : A * B) : bool :=
  ea (fst a) (fst b) && eb (snd a) (snd b).

Lemma list_eqb_eq {A} (eq : A -> A -> bool) (H : forall x y, eq x y = true -> x = y) a b :
  list_eqb eq a b = true -> a = b.
Proof.
  revert b; induction a as [|x a IH]; destruct b as [|y b]; simpl; try discriminate; auto.
  intros E. apply andb_true_iff in E as [E1 E2]. f_equal; auto.
Qed.

Lemma list_eqb_refl {A} (eq : A -> A -> bool) (H : forall x, eq x x = true) a :
  list_eqb eq a a = true.
Proof. induction a as [|x a IH]; simpl; auto. rewrite H, IH. reflexivity. Qed.

Lemma option_eqb_eq {A} (eq : A -> A -> bool) (H : forall x y, eq x y = true -> x = y) a b :
  option_eqb eq a b = true -> a = b.
Proof. destruct a, b; simpl; try discriminate; auto. intros E. f_equal; auto. Qed.

(* association-list lookup with default; first match wins *)
Fixpoint lookup {A} (d : A) (l : list (nat * A)) (k : nat) : A :=
  match l with
  | [] => d
  | (k', v) :: r => if k =? k' then v else lookup d r k
  end.

Fixpoint somes {A} (l : list (option A)) : list A :=
  match l with
  | [] => []
  | Some x :: r => x :: somes r
  | None :: r => somes r
  end.

(* indices (from n) of the entries of l that are false *)
Fixpoint false_indices (n : nat) (l : list bool) : list nat :=
  match l with
  | [] => []
  | b :: r => (if b then [] else [n]) ++ false_indices (S n) r
  end.

Definition count_true (l : list bool) : nat := length (filter (fun b => b) l).

Definition last_opt {A} (l : list A) : option A :=
  match rev l with x :: _ => Some x | [] => None end.

Definition mem_nat (x : nat) (l : list nat) : bool := existsb (Nat.eqb x) l.
