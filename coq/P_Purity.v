Require Import Base M_Purity.

Lemma glue_scan_idem e h : glue_scan e (glue_scan e h) = glue_scan e h.
Proof.
  unfold glue_scan. destruct (length (modules e) =? len_cache h) eqn:E.
  - rewrite E. reflexivity.
  - cbn [len_cache]. rewrite Nat.eqb_refl. reflexivity.
Qed.

Lemma glue_scan_fields e h :
  trickery_sw (glue_scan e h) = trickery_sw h /\ opts (glue_scan e h) = opts h
  /\ registry_size (glue_scan e h) = registry_size h.
Proof. unfold glue_scan. destruct (_ =? _); auto. Qed.

Lemma extract_hidden_opts e wc rc h : opts (extract_hidden e wc rc h) = opts h.
Proof. reflexivity. Qed.

Lemma extract_hidden_registry e wc rc h : registry_size (extract_hidden e wc rc h) = registry_size h.
Proof.
  unfold extract_hidden. cbn [registry_size]. destruct wc; cbn [registry_size].
  - unfold detect_trickery. cbn [trickery_sw]. destruct (trickery_sw (glue_scan e h)); cbn [registry_size];
      apply glue_scan_fields.
  - apply glue_scan_fields.
Qed.

Lemma hidden_ext (a b : hidden) :
  pending a = pending b -> len_cache a = len_cache b -> trickery_sw a = trickery_sw b ->
  opts a = opts b -> registry_size a = registry_size b -> a = b.
Proof. destruct a, b; cbn; intros; subst; reflexivity. Qed.

Definition tsw_after (e : env) (wc : bool) (h : hidden) : option bool :=
  if wc then match trickery_sw h with Some b => Some b | None => Some (detect e) end else trickery_sw h.

Lemma extract_hidden_fields e wc rc h :
  pending (extract_hidden e wc rc h) = pending (glue_scan e h)
  /\ len_cache (extract_hidden e wc rc h) = len_cache (glue_scan e h)
  /\ trickery_sw (extract_hidden e wc rc h) = tsw_after e wc h.
Proof.
  unfold extract_hidden, tsw_after. cbn [pending len_cache trickery_sw].
  destruct (glue_scan_fields e h) as (Ht & _ & _).
  destruct wc; cbn [pending len_cache trickery_sw]; [|auto].
  unfold detect_trickery. cbn [trickery_sw]. rewrite Ht.
  destruct (trickery_sw h); cbn [pending len_cache trickery_sw]; auto.
Qed.

Theorem extract_hidden_idem e wc rc h :
  extract_hidden e wc rc (extract_hidden e wc rc h) = extract_hidden e wc rc h.
Proof.
  set (h' := extract_hidden e wc rc h).
  destruct (extract_hidden_fields e wc rc h) as (P1 & L1 & T1).
  destruct (extract_hidden_fields e wc rc h') as (P2 & L2 & T2).
  assert (Hs : glue_scan e h' = h').
  { unfold glue_scan. fold h' in L1. rewrite L1.
    unfold glue_scan. destruct (length (modules e) =? len_cache h) eqn:E.
    - rewrite E. reflexivity.
    - cbn [len_cache]. rewrite Nat.eqb_refl. reflexivity. }
  apply hidden_ext.
  - rewrite P2, Hs. reflexivity.
  - rewrite L2, Hs. reflexivity.
  - rewrite T2. fold h' in T1. unfold tsw_after. rewrite T1. unfold tsw_after.
    destruct wc; [|reflexivity]. destruct (trickery_sw h); reflexivity.
  - reflexivity.
  - rewrite !extract_hidden_registry. reflexivity.
Qed.

Lemma refs_balanced attempts : fst (refs_after attempts) = snd (refs_after attempts).
Proof. induction attempts as [|n r IH]; [reflexivity|]. cbn [refs_after]. destruct (refs_after r). cbn in *. lia. Qed.
