(* P_Slice.v -- reference specification of "the contiguous sub-sequence outer..inner of the true
   stack, trimmed by a limit" and proofs that the model M_Slice computes it. *)
From Coq Require Import ZArith String Lia.
Require Import Base M_Slice.

(* ------------------------------------------------------------------ reference specification *)

(* the calling thread's frames, outermost first, ending with the true caller *)
Definition true_stack (w : world) : list nat := rev (thread_frames w).

(* direct recursive definitions on an outermost-first list *)
Fixpoint from_anchor (o : nat) (l : list nat) : list nat :=     (* o and everything inward *)
  match l with
  | [] => []
  | x :: r => if o =? x then l else from_anchor o r
  end.

Fixpoint upto_anchor (i : nat) (l : list nat) : list nat :=     (* everything down to i *)
  match l with
  | [] => []
  | x :: r => if i =? x then [x] else x :: upto_anchor i r
  end.

Definition between (o i : option nat) (ts : list nat) : list nat :=
  let a := match o with Some x => from_anchor x ts | None => ts end in
  match i with Some y => upto_anchor y a | None => a end.

Definition lastn {A} (n : nat) (l : list A) : list A := skipn (length l - n) l.

(* "a limit keeps the frames nearest the given anchor: outer if only outer is given,
   otherwise inner / the caller" *)
Definition keep_limit (lim : option Z) (o i : option nat) (l : list nat) : list nat :=
  match lim with
  | None => l
  | Some n =>
      match o, i with
      | Some _, None => firstn (Z.to_nat n) l
      | _, _ => lastn (Z.to_nat n) l
      end
  end.

(* ------------------------------------------------------------------ list facts *)

Lemma from_anchor_app_in o L M : In o L -> from_anchor o (L ++ M) = from_anchor o L ++ M.
Proof.
  induction L as [|x L IH]; simpl; [tauto|]. intros H.
  destruct (o =? x) eqn:E; [reflexivity|].
  apply IH. destruct H as [H|H]; [|exact H]. subst. rewrite Nat.eqb_refl in E. discriminate.
Qed.

Lemma from_anchor_app_notin o L M : ~ In o L -> from_anchor o (L ++ M) = from_anchor o M.
Proof.
  induction L as [|x L IH]; simpl; [reflexivity|]. intros H.
  destruct (o =? x) eqn:E.
  - apply Nat.eqb_eq in E. subst. tauto.
  - apply IH. tauto.
Qed.

Lemma upto_anchor_app_in i L M : In i L -> upto_anchor i (L ++ M) = upto_anchor i L.
Proof.
  induction L as [|x L IH]; simpl; [tauto|]. intros H.
  destruct (i =? x) eqn:E; [reflexivity|]. f_equal.
  apply IH. destruct H as [H|H]; [|exact H]. subst. rewrite Nat.eqb_refl in E. discriminate.
Qed.

Lemma upto_anchor_app_notin i L M : ~ In i L -> upto_anchor i (L ++ M) = L ++ upto_anchor i M.
Proof.
  induction L as [|x L IH]; simpl; [reflexivity|]. intros H.
  destruct (i =? x) eqn:E.
  - apply Nat.eqb_eq in E. subst. tauto.
  - f_equal. apply IH. tauto.
Qed.

Lemma from_anchor_incl o l x : In x (from_anchor o l) -> In x l.
Proof.
  induction l as [|y l IH]; simpl; [tauto|]. destruct (o =? y); simpl; intuition.
Qed.

Lemma upto_anchor_incl i l x : In x (upto_anchor i l) -> In x l.
Proof.
  induction l as [|y l IH]; simpl; [tauto|]. destruct (i =? y); simpl; intuition.
Qed.

Lemma index_of_In x l : In x l -> exists k, index_of x l = Some k /\ k < length l.
Proof.
  induction l as [|y l IH]; simpl; [tauto|]. intros H.
  destruct (x =? y) eqn:E.
  - exists 0. split; [reflexivity|lia].
  - destruct IH as [k [Hk Hl]].
    + destruct H as [H|H]; [|exact H]. subst. rewrite Nat.eqb_refl in E. discriminate.
    + exists (S k). rewrite Hk. split; [reflexivity|lia].
Qed.

Lemma index_of_Some x l k : index_of x l = Some k -> nth_error l k = Some x /\ k < length l.
Proof.
  revert k. induction l as [|y l IH]; simpl; [discriminate|]. intros k.
  destruct (x =? y) eqn:E.
  - intros [= <-]. apply Nat.eqb_eq in E. subst. split; [reflexivity|lia].
  - destruct (index_of x l) as [j|]; simpl; [|discriminate]. intros [= <-].
    destruct (IH j eq_refl) as [H1 H2]. split; [exact H1|lia].
Qed.

Lemma index_of_None x l : index_of x l = None -> ~ In x l.
Proof.
  intros H HI. destruct (index_of_In _ _ HI) as [k [Hk _]]. congruence.
Qed.

Lemma index_of_firstn x l n k : index_of x l = Some k -> k < n -> index_of x (firstn n l) = Some k.
Proof.
  revert n k. induction l as [|y l IH]; simpl; [discriminate|]. intros n k.
  destruct n; [lia|]. simpl.
  destruct (x =? y); [auto|].
  destruct (index_of x l) as [j|] eqn:E; simpl; [|discriminate]. intros [= <-] Hn.
  rewrite (IH n j eq_refl); [reflexivity|lia].
Qed.

Lemma firstn_S_snoc {A} (l : list A) s x : nth_error l s = Some x -> firstn (S s) l = firstn s l ++ [x].
Proof.
  revert s. induction l as [|y l IH]; intros [|s]; simpl; try discriminate.
  - intros [= ->]. reflexivity.
  - intros H. f_equal. apply IH. exact H.
Qed.

Lemma nth_error_Some_lt {A} (l : list A) n : n < length l -> exists x, nth_error l n = Some x.
Proof.
  intros H. destruct (nth_error l n) eqn:E; [eauto|]. apply nth_error_None in E. lia.
Qed.

(* ------------------------------------------------------------------ python slicing, step -1 *)

Lemma gather_down {A} (l : list A) n s :
  n <= s -> s <= length l ->
  gather l n (Z.of_nat s - 1)%Z (-1)%Z = rev (skipn (s - n) (firstn s l)).
Proof.
  revert s. induction n as [|n IH]; intros s Hn Hs; simpl.
  - rewrite skipn_all2; [reflexivity|]. rewrite firstn_length. lia.
  - destruct s as [|s]; [lia|].
    replace (Z.of_nat (S s) - 1)%Z with (Z.of_nat s) by lia.
    rewrite Nat2Z.id.
    destruct (nth_error_Some_lt l s) as [x Hx]; [lia|]. rewrite Hx.
    replace (Z.of_nat s + -1)%Z with (Z.of_nat s - 1)%Z by lia.
    rewrite IH by lia.
    rewrite (firstn_S_snoc l s x Hx).
    replace (S s - S n) with (s - n) by lia.
    rewrite skipn_app. rewrite firstn_length.
    replace (s - n - Nat.min s (length l)) with 0 by lia. simpl.
    rewrite rev_app_distr. reflexivity.
Qed.

Lemma clamp_m1_in len v : (0 <= v < len)%Z -> clamp len v (-1) = v.
Proof.
  intros H. unfold clamp.
  destruct (Z.ltb_spec v 0); [lia|]. destruct (Z.leb_spec len v); [lia|]. reflexivity.
Qed.

Lemma clamp_m1_big len v : (0 <= v)%Z -> (len <= v)%Z -> clamp len v (-1) = (len - 1)%Z.
Proof.
  intros H0 H. unfold clamp.
  destruct (Z.ltb_spec v 0); [lia|]. destruct (Z.leb_spec len v); [|lia]. reflexivity.
Qed.

Lemma slice_len_m1 a b : (b < a)%Z -> slice_len a b (-1) = (a - b)%Z.
Proof.
  intros H. unfold slice_len. change (-1 <? 0)%Z with true. cbv iota.
  destruct (Z.ltb_spec b a); [|lia]. change (- -1)%Z with 1%Z. rewrite Z.div_1_r. lia.
Qed.

Lemma py_slice_m1_unfold {A} (l : list A) a b :
  py_slice l a b (-1) =
  gather l (Z.to_nat (slice_len (adj_start (Z.of_nat (length l)) a (-1)) (adj_stop (Z.of_nat (length l)) b (-1)) (-1)))
         (adj_start (Z.of_nat (length l)) a (-1)) (-1).
Proof. reflexivity. Qed.

(* l[a : : -1] and l[a : b-1 : -1] for in-range a (or a = len(l)) and 1 <= b *)
Lemma py_slice_down_none {A} (l : list A) a :
  l <> [] -> a <= length l ->
  py_slice l (Some (Z.of_nat a)) None (-1)%Z = rev (firstn (S a) l).
Proof.
  intros Hne Ha. rewrite py_slice_m1_unfold.
  assert (Hl : 1 <= length l) by (destruct l; simpl; [congruence|lia]).
  change (adj_stop (Z.of_nat (length l)) None (-1)) with (-1)%Z.
  unfold adj_start.
  destruct (Nat.eq_dec a (length l)) as [->|Hn].
  - rewrite clamp_m1_big by lia. rewrite slice_len_m1 by lia.
    replace (Z.to_nat (Z.of_nat (length l) - 1 - -1)) with (length l) by lia.
    rewrite gather_down by lia. rewrite Nat.sub_diag. simpl skipn.
    rewrite firstn_all. rewrite firstn_all2 by lia. reflexivity.
  - rewrite clamp_m1_in by lia. rewrite slice_len_m1 by lia.
    replace (Z.to_nat (Z.of_nat a - -1)) with (S a) by lia.
    replace (Z.of_nat a) with (Z.of_nat (S a) - 1)%Z by lia.
    rewrite gather_down by lia. rewrite Nat.sub_diag. reflexivity.
Qed.

Lemma py_slice_down_some {A} (l : list A) a b :
  1 <= b -> b <= a -> a < length l ->
  py_slice l (Some (Z.of_nat a)) (Some (Z.of_nat b - 1)%Z) (-1)%Z = rev (skipn b (firstn (S a) l)).
Proof.
  intros Hb Hba Ha. rewrite py_slice_m1_unfold. unfold adj_start, adj_stop.
  rewrite !clamp_m1_in by lia. rewrite slice_len_m1 by lia.
  replace (Z.to_nat (Z.of_nat a - (Z.of_nat b - 1))) with (S a - b) by lia.
  replace (Z.of_nat a) with (Z.of_nat (S a) - 1)%Z by lia.
  rewrite gather_down by lia.
  replace (S a - (S a - b)) with b by lia. reflexivity.
Qed.

Lemma py_slice_down_some_len {A} (l : list A) b :
  1 <= b -> b < length l ->
  py_slice l (Some (Z.of_nat (length l))) (Some (Z.of_nat b - 1)%Z) (-1)%Z = rev (skipn b l).
Proof.
  intros Hb Hl. rewrite py_slice_m1_unfold. unfold adj_start, adj_stop.
  rewrite clamp_m1_big by lia. rewrite clamp_m1_in by lia. rewrite slice_len_m1 by lia.
  replace (Z.to_nat (Z.of_nat (length l) - 1 - (Z.of_nat b - 1))) with (length l - b) by lia.
  rewrite gather_down by lia.
  replace (length l - (length l - b)) with b by lia. rewrite firstn_all. reflexivity.
Qed.

(* ------------------------------------------------------------------ del l[n:] / del l[:-n] *)

Lemma del_tail {A} (l : list A) n :
  (1 <= n)%Z -> (n < Z.of_nat (length l))%Z -> del_slice l (Some n) None = firstn (Z.to_nat n) l.
Proof.
  intros H1 H2. unfold del_slice, adj_start, adj_stop, clamp. change (1 <? 0)%Z with false. cbv iota.
  destruct (Z.ltb_spec n 0); [lia|]. destruct (Z.leb_spec (Z.of_nat (length l)) n); [lia|].
  destruct (Z.ltb_spec n (Z.of_nat (length l))); [|lia].
  rewrite Nat2Z.id. rewrite skipn_all. apply app_nil_r.
Qed.

Lemma del_head {A} (l : list A) n :
  (1 <= n)%Z -> (n < Z.of_nat (length l))%Z -> del_slice l None (Some (- n)%Z) = lastn (Z.to_nat n) l.
Proof.
  intros H1 H2. unfold del_slice, adj_start, adj_stop, clamp, lastn. change (1 <? 0)%Z with false. cbv iota.
  destruct (Z.ltb_spec (- n) 0); [|lia].
  destruct (Z.ltb_spec (- n + Z.of_nat (length l)) 0); [lia|].
  destruct (Z.ltb_spec 0 (- n + Z.of_nat (length l))); [|lia].
  simpl firstn. simpl app. f_equal. lia.
Qed.

Definition limit_ok (lim : option Z) : Prop := match lim with None => True | Some n => (1 <= n)%Z end.

Lemma apply_limit_spec frames lim o i :
  limit_ok lim ->
  apply_limit frames lim (negb (is_some i)) (is_some o) = keep_limit lim o i frames.
Proof.
  destruct lim as [n|]; simpl; [|reflexivity]. intros Hn.
  destruct (Z.ltb_spec n (Z.of_nat (length frames))).
  - destruct o, i; simpl; try (apply del_head; assumption). apply del_tail; assumption.
  - assert (E1 : firstn (Z.to_nat n) frames = frames) by (apply firstn_all2; lia).
    assert (E2 : lastn (Z.to_nat n) frames = frames).
    { unfold lastn. replace (length frames - Z.to_nat n) with 0 by lia. reflexivity. }
    destruct o, i; simpl; congruence.
Qed.

(* ------------------------------------------------------------------ positions vs anchors *)

Lemma NoDup_app_l {A} (l1 l2 : list A) : NoDup (l1 ++ l2) -> NoDup l1.
Proof.
  induction l1 as [|x l1 IH]; simpl; intros H; [constructor|].
  inversion H as [|? ? Hn Hd]; subst. constructor; [|auto]. intros HI. apply Hn. apply in_or_app. auto.
Qed.

Lemma NoDup_app_r {A} (l1 l2 : list A) : NoDup (l1 ++ l2) -> NoDup l2.
Proof.
  induction l1 as [|x l1 IH]; simpl; intros H; [exact H|]. inversion H; auto.
Qed.

Lemma NoDup_app_disj {A} (l1 l2 : list A) x : NoDup (l1 ++ l2) -> In x l1 -> ~ In x l2.
Proof.
  induction l1 as [|y l1 IH]; simpl; intros H HI; [tauto|].
  inversion H as [|? ? Hn Hd]; subst. destruct HI as [->|HI]; [|auto].
  intros Hx. apply Hn. apply in_or_app. auto.
Qed.

Lemma NoDup_firstn {A} (l : list A) n : NoDup l -> NoDup (firstn n l).
Proof. intros H. rewrite <- (firstn_skipn n l) in H. exact (NoDup_app_l _ _ H). Qed.

Lemma rev_firstn_from_anchor T o a :
  NoDup T -> index_of o T = Some a -> rev (firstn (S a) T) = from_anchor o (rev T).
Proof.
  revert a. induction T as [|h T IH]; simpl; [discriminate|]. intros a ND.
  inversion ND as [|? ? H1 H2]; subst.
  destruct (o =? h) eqn:E.
  - intros [= <-]. apply Nat.eqb_eq in E. subst. simpl.
    rewrite from_anchor_app_notin by (rewrite <- in_rev; assumption).
    simpl. rewrite Nat.eqb_refl. reflexivity.
  - destruct (index_of o T) as [j|] eqn:Ej; simpl; [|discriminate]. intros [= <-].
    change (rev (h :: firstn (S j) T)) with (rev (firstn (S j) T) ++ [h]).
    rewrite (IH j H2 eq_refl).
    rewrite from_anchor_app_in; [reflexivity|].
    rewrite <- in_rev. destruct (index_of_Some _ _ _ Ej) as [Hn _]. eapply nth_error_In; eauto.
Qed.

Lemma rev_skipn_upto_anchor T i b :
  NoDup T -> index_of i T = Some b -> rev (skipn b T) = upto_anchor i (rev T).
Proof.
  revert b. induction T as [|h T IH]; simpl; [discriminate|]. intros b ND.
  inversion ND as [|? ? H1 H2]; subst.
  destruct (i =? h) eqn:E.
  - intros [= <-]. apply Nat.eqb_eq in E. subst. simpl.
    rewrite upto_anchor_app_notin by (rewrite <- in_rev; assumption).
    simpl. rewrite Nat.eqb_refl. reflexivity.
  - destruct (index_of i T) as [j|] eqn:Ej; simpl; [|discriminate]. intros [= <-].
    simpl skipn. rewrite (IH j H2 eq_refl).
    rewrite upto_anchor_app_in; [reflexivity|].
    rewrite <- in_rev. destruct (index_of_Some _ _ _ Ej) as [Hn _]. eapply nth_error_In; eauto.
Qed.

Lemma index_of_firstn_inv x l n k : index_of x (firstn n l) = Some k -> index_of x l = Some k.
Proof.
  revert n k. induction l as [|y l IH]; intros [|n] k; simpl; try discriminate.
  destruct (x =? y); [auto|].
  destruct (index_of x (firstn n l)) as [j|] eqn:E; simpl; [|discriminate]. intros [= <-].
  rewrite (IH n j E). reflexivity.
Qed.

(* the normal form both code paths are reduced to: positions a (outer) and b (inner) in the
   innermost-first list T *)
Definition pos_slice (T : list nat) (a b : nat) : list nat := rev (skipn b (firstn (S a) T)).

Definition apos (T : list nat) (o : option nat) : option nat :=
  match o with None => Some (length T) | Some x => index_of x T end.
Definition bpos (T : list nat) (i : option nat) : option nat :=
  match i with None => Some 0 | Some x => index_of x T end.

Lemma between_pos T o i a b :
  NoDup T -> apos T o = Some a -> bpos T i = Some b -> b <= a ->
  between o i (rev T) = pos_slice T a b.
Proof.
  intros ND Ha Hb Hle. unfold between, pos_slice.
  destruct o as [o|]; simpl in Ha.
  - rewrite <- (rev_firstn_from_anchor T o a ND Ha).
    destruct i as [i|]; simpl in Hb.
    + destruct (index_of_Some _ _ _ Ha) as [_ Hal].
      symmetry. apply rev_skipn_upto_anchor; [apply NoDup_firstn; exact ND|].
      apply index_of_firstn; [exact Hb|lia].
    + injection Hb as <-. reflexivity.
  - injection Ha as <-. rewrite firstn_all2 by lia.
    destruct i as [i|]; simpl in Hb.
    + symmetry. apply rev_skipn_upto_anchor; assumption.
    + injection Hb as <-. reflexivity.
Qed.

Lemma pos_slice_length T a b : length (pos_slice T a b) = Nat.min (S a) (length T) - b.
Proof. unfold pos_slice. rewrite rev_length, skipn_length, firstn_length. reflexivity. Qed.

Lemma pos_slice_not_nil T a b : b <= a -> b < length T -> is_nil (pos_slice T a b) = false.
Proof.
  intros H1 H2. destruct (pos_slice T a b) eqn:E; [|reflexivity].
  apply (f_equal (@length nat)) in E. rewrite pos_slice_length in E. change (length (@nil nat)) with 0 in E.
  destruct (Nat.min_spec (S a) (length T)) as [[? Hm]|[? Hm]]; rewrite Hm in E; lia.
Qed.

(* spec-level "outer is not inward of inner" gives the order of positions *)
Lemma ordered_pos T o i a b :
  NoDup T -> index_of o T = Some a -> index_of i T = Some b ->
  In i (from_anchor o (rev T)) -> b <= a.
Proof.
  intros ND Ha Hb HI. rewrite <- (rev_firstn_from_anchor T o a ND Ha) in HI.
  rewrite <- in_rev in HI. destruct (index_of_In _ _ HI) as [k [Hk Hl]].
  apply index_of_firstn_inv in Hk. rewrite Hb in Hk. injection Hk as ->.
  rewrite firstn_length in Hl.
  destruct (Nat.min_spec (S a) (length T)) as [[? Hm]|[? Hm]]; rewrite Hm in Hl; lia.
Qed.

(* ------------------------------------------------------------------ the two code paths *)

Lemma hd_eqb_true T i : option_eqb Nat.eqb (hd_error T) (Some i) = true -> index_of i T = Some 0.
Proof.
  destruct T as [|y T]; simpl; [discriminate|]. intros E. apply Nat.eqb_eq in E. subst.
  rewrite Nat.eqb_refl. reflexivity.
Qed.

Lemma hd_eqb_false T i b :
  option_eqb Nat.eqb (hd_error T) (Some i) = false -> index_of i T = Some b -> 1 <= b.
Proof.
  destruct T as [|y T]; simpl; [discriminate|]. intros E. rewrite Nat.eqb_sym in E. rewrite E.
  destruct (index_of i T); simpl; [|discriminate]. intros [= <-]. lia.
Qed.

Lemma greenlet_branch_pos w o i a b :
  thread_frames w <> [] ->
  apos (thread_frames w) o = Some a -> bpos (thread_frames w) i = Some b ->
  b <= a -> b < length (thread_frames w) ->
  greenlet_branch w o i = pos_slice (thread_frames w) a b.
Proof.
  intros Hne Ha Hb Hle Hbl. unfold greenlet_branch, pos_slice.
  set (T := thread_frames w) in *.
  assert (Hal : match o with Some _ => a < length T | None => a = length T end).
  { destruct o; simpl in Ha; [apply (index_of_Some _ _ _ Ha)|congruence]. }
  destruct i as [i|]; simpl in Hb.
  - destruct (option_eqb Nat.eqb (hd_error T) (Some i)) eqn:Eh.
    + apply hd_eqb_true in Eh. rewrite Hb in Eh. injection Eh as ->.
      destruct o as [o|]; simpl in Ha.
      * rewrite Ha. simpl. apply py_slice_down_none; [exact Hne|lia].
      * injection Ha as <-. apply py_slice_down_none; [exact Hne|lia].
    + pose proof (hd_eqb_false _ _ _ Eh Hb) as Hb1. rewrite Hb.
      destruct o as [o|]; simpl in Ha.
      * rewrite Ha. simpl. apply py_slice_down_some; lia.
      * injection Ha as <-. rewrite (firstn_all2 T) by lia.
        apply py_slice_down_some_len; lia.
  - injection Hb as <-.
    destruct o as [o|]; simpl in Ha.
    + rewrite Ha. simpl. apply py_slice_down_none; [exact Hne|lia].
    + injection Ha as <-. apply py_slice_down_none; [exact Hne|lia].
Qed.

Lemma take_until_index o l k : index_of o l = Some k -> take_until o l = Some (firstn (S k) l).
Proof.
  revert k. induction l as [|y l IH]; simpl; [discriminate|]. intros k.
  destruct (o =? y).
  - intros [= <-]. reflexivity.
  - destruct (index_of o l) as [j|]; simpl; [|discriminate]. intros [= <-].
    rewrite (IH j eq_refl). reflexivity.
Qed.

Lemma take_until_none o l : index_of o l = None -> take_until o l = None.
Proof.
  induction l as [|y l IH]; simpl; [reflexivity|].
  destruct (o =? y); [discriminate|].
  destruct (index_of o l); simpl; [discriminate|]. intros _. rewrite IH; reflexivity.
Qed.

Lemma suffix_from_index x l k : index_of x l = Some k -> suffix_from x l = Some (skipn k l).
Proof.
  revert k. induction l as [|y l IH]; simpl; [discriminate|]. intros k.
  destruct (x =? y).
  - intros [= <-]. reflexivity.
  - destruct (index_of x l) as [j|]; simpl; [|discriminate]. intros [= <-]. apply IH. reflexivity.
Qed.

Lemma suffix_from_none x l : ~ In x l -> suffix_from x l = None.
Proof.
  induction l as [|y l IH]; simpl; [reflexivity|]. intros H.
  destruct (x =? y) eqn:E; [apply Nat.eqb_eq in E; subst; tauto|]. apply IH. tauto.
Qed.

Lemma suffix_from_app_notin x pre l : ~ In x pre -> suffix_from x (pre ++ l) = suffix_from x l.
Proof.
  induction pre as [|y pre IH]; simpl; [reflexivity|]. intros H.
  destruct (x =? y) eqn:E; [apply Nat.eqb_eq in E; subst; tauto|]. apply IH. tauto.
Qed.

Lemma index_of_skipn x l a b : index_of x l = Some a -> b <= a -> index_of x (skipn b l) = Some (a - b).
Proof.
  revert l a. induction b as [|b IH]; intros l a Ha Hb.
  - simpl. rewrite Nat.sub_0_r. exact Ha.
  - destruct l as [|y l]; simpl in *; [discriminate|].
    destruct (x =? y); [injection Ha as <-; lia|].
    destruct (index_of x l) as [j|] eqn:E; simpl in Ha; [|discriminate]. injection Ha as <-.
    apply IH; [exact E|lia].
Qed.

Lemma try_chain_pos T o a b :
  apos T o = Some a -> b <= a -> try_chain o (skipn b T) = pos_slice T a b.
Proof.
  intros Ha Hle. unfold try_chain, pos_slice. destruct o as [o|]; simpl in Ha.
  - rewrite (take_until_index o (skipn b T) (a - b)) by (apply index_of_skipn; assumption).
    rewrite firstn_skipn_comm. replace (b + S (a - b)) with (S a) by lia. reflexivity.
  - injection Ha as <-. rewrite firstn_all2 by lia. reflexivity.
Qed.

Lemma drop_mine_split l : exists pre, l = pre ++ drop_mine l.
Proof.
  induction l as [|f l [pre IH]]; simpl.
  - exists []. reflexivity.
  - destruct (skipped f).
    + exists (f :: pre). simpl. f_equal. exact IH.
    + exists []. reflexivity.
Qed.

Lemma cur_split w : exists pre, map cf_id (w_cur w) = pre ++ caller_chain w.
Proof.
  destruct (drop_mine_split (w_cur w)) as [pre H]. exists (map cf_id pre).
  unfold caller_chain. rewrite <- map_app. f_equal. exact H.
Qed.

(* well-formed worlds: frames are pairwise distinct objects *)
Definition wf (w : world) : Prop := NoDup (concat (all_chains w)).

Lemma wf_nodup_thread w : NoDup (concat (all_chains w)) -> NoDup (thread_frames w).
Proof.
  unfold all_chains, thread_frames. simpl. destruct (cur_split w) as [pre ->].
  rewrite concat_app. rewrite <- !app_assoc. intros H.
  apply NoDup_app_r in H. rewrite app_assoc in H. apply NoDup_app_l in H. exact H.
Qed.

Lemma chain_from_cur w p b :
  NoDup (concat (all_chains w)) -> index_of p (caller_chain w) = Some b ->
  chain_from w p = skipn b (caller_chain w).
Proof.
  intros ND Hb. unfold chain_from, all_chains in *. simpl in *.
  destruct (cur_split w) as [pre E]. rewrite E in *.
  assert (Hin : In p (caller_chain w)).
  { destruct (index_of_Some _ _ _ Hb) as [H _]. eapply nth_error_In; eauto. }
  assert (Hn : ~ In p pre).
  { intros HI. rewrite <- app_assoc in ND. eapply (NoDup_app_disj _ _ p ND HI). apply in_or_app. auto. }
  rewrite suffix_from_app_notin by exact Hn.
  rewrite (suffix_from_index _ _ _ Hb). reflexivity.
Qed.

Lemma chain_from_main w p b :
  w_parents w = [] -> NoDup (concat (all_chains w)) ->
  index_of p (thread_frames w) = Some b -> chain_from w p = skipn b (thread_frames w).
Proof.
  intros Hp ND Hb. unfold thread_frames in *. rewrite Hp in *. simpl in *. rewrite app_nil_r in *.
  apply chain_from_cur; assumption.
Qed.

(* ------------------------------------------------------------------ main theorem *)

Definition anchor_ok (w : world) (x : option nat) : Prop :=
  match x with None => True | Some f => In f (true_stack w) end.

(* outer is not inward of inner *)
Definition ordered (w : world) (o i : option nat) : Prop :=
  match o, i with Some o', Some i' => In i' (from_anchor o' (true_stack w)) | _, _ => True end.

Lemma positions w o i :
  NoDup (thread_frames w) -> thread_frames w <> [] ->
  anchor_ok w o -> anchor_ok w i -> ordered w o i ->
  exists a b, apos (thread_frames w) o = Some a /\ bpos (thread_frames w) i = Some b
              /\ b <= a /\ b < length (thread_frames w).
Proof.
  intros ND Hne Ho Hi Hord. unfold anchor_ok, ordered, true_stack in *. set (T := thread_frames w) in *.
  assert (Hl : 1 <= length T) by (destruct T; simpl; [congruence|lia]).
  destruct o as [o|], i as [i|]; simpl in *.
  - rewrite <- in_rev in Ho, Hi.
    destruct (index_of_In _ _ Ho) as [a [Ha Hal]]. destruct (index_of_In _ _ Hi) as [b [Hb Hbl]].
    exists a, b. repeat split; auto. eapply ordered_pos; eauto.
  - rewrite <- in_rev in Ho. destruct (index_of_In _ _ Ho) as [a [Ha Hal]].
    exists a, 0. repeat split; auto; lia.
  - rewrite <- in_rev in Hi. destruct (index_of_In _ _ Hi) as [b [Hb Hbl]].
    exists (length T), b. repeat split; auto; lia.
  - exists (length T), 0. repeat split; auto; lia.
Qed.

Lemma true_caller_hd w tc : true_caller w = Some tc -> index_of tc (thread_frames w) = Some 0.
Proof.
  unfold true_caller, thread_frames. destruct (caller_chain w) as [|y l]; simpl; [discriminate|].
  intros [= ->]. rewrite Nat.eqb_refl. reflexivity.
Qed.

Lemma has_parent_false w : has_parent w = false -> w_parents w = [].
Proof. unfold has_parent. destruct (w_parents w); simpl; [reflexivity|discriminate]. Qed.

(* both code paths, in positions *)
Lemma slice_exact_pos w o i lim a b :
  wf w -> true_caller w <> None ->
  apos (thread_frames w) o = Some a -> bpos (thread_frames w) i = Some b ->
  b <= a -> b < length (thread_frames w) -> limit_ok lim ->
  unwrap_stackslice w {| s_outer := o; s_inner := i; s_limit := lim |}
  = SFrames (keep_limit lim o i (pos_slice (thread_frames w) a b)).
Proof.
  intros ND Htc Ha Hb Hle Hbl Hlim. unfold wf in ND.
  destruct (true_caller w) as [tc|] eqn:Etc; [clear Htc|congruence].
  assert (Hne : thread_frames w <> []).
  { pose proof (true_caller_hd w tc Etc) as H. intros E. rewrite E in H. discriminate. }
  pose proof (pos_slice_not_nil (thread_frames w) a b Hle Hbl) as Hnn.
  unfold unwrap_stackslice. simpl s_outer. simpl s_inner. simpl s_limit. rewrite Etc. simpl is_some at 1.
  rewrite andb_false_r.
  destruct (has_parent w) eqn:Eact.
  - rewrite (greenlet_branch_pos w o i a b Hne Ha Hb Hle Hbl). rewrite Hnn. cbv iota beta. rewrite Hnn. rewrite andb_false_l. cbv iota beta.
    rewrite Hnn. rewrite apply_limit_spec by exact Hlim. reflexivity.
  - pose proof (has_parent_false w Eact) as Hp.
    simpl is_nil at 1. cbv iota.
    assert (Hs : exists p, match i with Some i0 => Some i0 | None => Some tc end = Some p
                           /\ index_of p (thread_frames w) = Some b).
    { destruct i as [i0|]; simpl in Hb.
      - exists i0. auto.
      - exists tc. injection Hb as <-. split; [reflexivity|]. apply true_caller_hd. exact Etc. }
    destruct Hs as [p [-> Hpb]].
    rewrite (chain_from_main w p b Hp ND Hpb).
    rewrite (try_chain_pos _ o a b Ha Hle). rewrite Hnn. rewrite andb_false_l. cbv iota beta.
    rewrite Hnn. rewrite apply_limit_spec by exact Hlim. reflexivity.
Qed.

Theorem slice_exact w o i lim :
  wf w -> true_caller w <> None ->
  anchor_ok w o -> anchor_ok w i -> ordered w o i -> limit_ok lim ->
  unwrap_stackslice w {| s_outer := o; s_inner := i; s_limit := lim |}
  = SFrames (keep_limit lim o i (between o i (true_stack w))).
Proof.
  intros ND Htc Ho Hi Hord Hlim.
  pose proof (wf_nodup_thread w ND) as NDT.
  assert (Hne : thread_frames w <> []).
  { destruct (true_caller w) as [tc|] eqn:Etc; [|congruence].
    pose proof (true_caller_hd w tc Etc) as H. intros E. rewrite E in H. discriminate. }
  destruct (positions w o i NDT Hne Ho Hi Hord) as [a [b [Ha [Hb [Hle Hbl]]]]].
  unfold true_stack. rewrite (between_pos _ o i a b NDT Ha Hb Hle).
  apply slice_exact_pos; assumption.
Qed.

(* ------------------------------------------------------------------ corollaries *)

(* the true stack is the concatenation of the greenlet segments, outermost greenlet first,
   each segment outermost frame first *)
Lemma rev_concat {A} (l : list (list A)) : rev (concat l) = concat (rev (map (@rev A) l)).
Proof.
  induction l as [|x l IH]; simpl; [reflexivity|].
  rewrite rev_app_distr, IH, concat_app. simpl. rewrite app_nil_r. reflexivity.
Qed.

Lemma true_stack_segments w :
  true_stack w = concat (rev (map (@rev nat) (caller_chain w :: w_parents w))).
Proof. unfold true_stack, thread_frames. rewrite <- rev_concat. reflexivity. Qed.

Lemma since_none w :
  wf w -> true_caller w <> None ->
  run_api w (ASince None) = AOk (SFrames (true_stack w))
  /\ exists pre tc, true_caller w = Some tc /\ true_stack w = pre ++ [tc].
Proof.
  intros Hwf Htc. split.
  - simpl. rewrite (slice_exact w None None None Hwf Htc I I I I). reflexivity.
  - destruct (true_caller w) as [tc|] eqn:E; [|congruence].
    unfold true_stack, thread_frames. unfold true_caller in E.
    destruct (caller_chain w) as [|y l]; simpl in E; [discriminate|]. injection E as ->.
    exists (rev (l ++ concat (w_parents w))), tc. split; [reflexivity|]. reflexivity.
Qed.

(* stackscope's own frames: what get_true_caller skips *)
Fixpoint take_mine (l : list cframe) : list cframe :=
  match l with
  | f :: r => if skipped f then f :: take_mine r else []
  | [] => []
  end.
Definition own_frames (w : world) : list nat := map cf_id (take_mine (w_cur w)).

Lemma take_drop_mine l : l = take_mine l ++ drop_mine l.
Proof. induction l as [|f l IH]; simpl; [reflexivity|]. destruct (skipped f); simpl; congruence. Qed.

Lemma own_disjoint w f : wf w -> In f (own_frames w) -> ~ In f (true_stack w).
Proof.
  intros ND HI. unfold wf in ND. unfold true_stack. rewrite <- in_rev.
  unfold all_chains in ND. simpl in ND. unfold own_frames in HI. unfold thread_frames, caller_chain.
  rewrite (take_drop_mine (w_cur w)) in ND. rewrite map_app in ND.
  rewrite concat_app in ND. rewrite <- !app_assoc in ND.
  pose proof (NoDup_app_disj _ _ f ND HI) as H. intros H2. apply H.
  apply in_app_or in H2. apply in_or_app. destruct H2 as [H2|H2]; [left; exact H2|].
  right. apply in_or_app. left. exact H2.
Qed.

Lemma firstn_incl {A} (l : list A) n x : In x (firstn n l) -> In x l.
Proof. intros H. rewrite <- (firstn_skipn n l). apply in_or_app. auto. Qed.
Lemma skipn_incl {A} (l : list A) n x : In x (skipn n l) -> In x l.
Proof. intros H. rewrite <- (firstn_skipn n l). apply in_or_app. auto. Qed.

Lemma keep_between_incl lim o i ts x : In x (keep_limit lim o i (between o i ts)) -> In x ts.
Proof.
  intros H.
  assert (Hb : In x (between o i ts)).
  { destruct lim as [n|]; simpl in H; [|exact H].
    destruct o, i; first [apply firstn_incl in H | apply skipn_incl in H]; exact H. }
  unfold between in Hb.
  destruct i; [apply upto_anchor_incl in Hb|]; destruct o; try apply from_anchor_incl in Hb; exact Hb.
Qed.

Lemma no_own_frames w o i lim l :
  wf w -> true_caller w <> None ->
  anchor_ok w o -> anchor_ok w i -> ordered w o i -> limit_ok lim ->
  unwrap_stackslice w {| s_outer := o; s_inner := i; s_limit := lim |} = SFrames l ->
  forall f, In f l -> In f (true_stack w) /\ ~ In f (own_frames w).
Proof.
  intros Hwf Htc Ho Hi Hord Hlim E f Hf.
  rewrite (slice_exact w o i lim Hwf Htc Ho Hi Hord Hlim) in E. injection E as <-.
  apply keep_between_incl in Hf. split; [exact Hf|].
  intros Hown. exact (own_disjoint w f Hwf Hown Hf).
Qed.

(* a non-trivial world meeting every hypothesis of slice_exact: nested greenlets (one parent
   never started), a frame
   of a module named like stackscope's tests, own frames incl. the singledispatch wrapper *)
Definition w_ex : world :=
  {| w_cur := [Build_cframe 50 "stackscope._glue" false; Build_cframe 51 "functools" true;
               Build_cframe 52 "stackscope._extract" false;
               Build_cframe 7 "stackscope._tests.x" false; Build_cframe 6 "app" false];
     w_parents := [[5; 4; 3]; []; [2; 1; 0]];
     w_threads := [(true, []); (false, [12; 11; 10])]; w_chains := [[20]] |}.

Example w_ex_ok :
  wf w_ex /\ true_caller w_ex = Some 7 /\ anchor_ok w_ex (Some 1) /\ anchor_ok w_ex (Some 6)
  /\ ordered w_ex (Some 1) (Some 6) /\ limit_ok (Some 2%Z)
  /\ unwrap_stackslice w_ex {| s_outer := Some 1; s_inner := Some 6; s_limit := Some 2%Z |} = SFrames [5; 6].
Proof.
  split.
  { unfold wf. vm_compute. repeat (constructor; [simpl; intuition discriminate|]). constructor. }
  split; [reflexivity|]. split; [vm_compute; tauto|]. split; [vm_compute; tauto|].
  split; [vm_compute; tauto|]. split; [simpl; lia|]. vm_compute. reflexivity.
Qed.

(* extract_until with a frame-valued limit: the f_back walk decides between "raise" and the
   slice limit..inner.  (That a limit reachable by f_back from a frame of the true stack is itself
   an anchor of the true stack not inward of it is taken as hypothesis here -- see C04.v.) *)
Lemma until_frame_limit_partial w i lim :
  wf w -> true_caller w <> None ->
  In i (true_stack w) -> In lim (true_stack w) -> In i (from_anchor lim (true_stack w)) ->
  (In lim (chain_from w i) ->
     run_api w (AUntilF i lim) = AOk (SFrames (between (Some lim) (Some i) (true_stack w))))
  /\ (~ In lim (chain_from w i) -> run_api w (AUntilF i lim) = ARaised).
Proof.
  intros Hwf Htc Hi Hl Hord. split; intros H; simpl.
  - destruct (index_of_In _ _ H) as [k [Hk _]]. rewrite (take_until_index _ _ _ Hk).
    rewrite (slice_exact w (Some lim) (Some i) None Hwf Htc Hl Hi Hord I). reflexivity.
  - rewrite take_until_none; [reflexivity|].
    destruct (index_of lim (chain_from w i)) eqn:E; [|reflexivity].
    exfalso. apply H. destruct (index_of_Some _ _ _ E) as [Hn _]. eapply nth_error_In; eauto.
Qed.

Lemma until_int_limit w i lim :
  wf w -> true_caller w <> None -> In i (true_stack w) -> limit_ok lim ->
  run_api w (AUntilN i lim) = AOk (SFrames (keep_limit lim None (Some i) (between None (Some i) (true_stack w)))).
Proof.
  intros Hwf Htc Hi Hlim. simpl.
  rewrite (slice_exact w None (Some i) lim Hwf Htc I Hi I Hlim). reflexivity.
Qed.

(* ------------------------------------------------------------------ outer on another thread *)

Lemma try_chain_in o ch k :
  NoDup ch -> index_of o ch = Some k -> try_chain (Some o) ch = from_anchor o (rev ch).
Proof.
  intros ND Hk. unfold try_chain. rewrite (take_until_index _ _ _ Hk).
  apply rev_firstn_from_anchor; assumption.
Qed.

Lemma try_chain_notin o ch : ~ In o ch -> try_chain (Some o) ch = [].
Proof.
  intros H. unfold try_chain. rewrite take_until_none; [reflexivity|].
  destruct (index_of o ch) eqn:E; [|reflexivity].
  exfalso. apply H. destruct (index_of_Some _ _ _ E) as [Hn _]. eapply nth_error_In; eauto.
Qed.

Lemma from_anchor_not_nil o l : In o l -> is_nil (from_anchor o l) = false.
Proof.
  induction l as [|x l IH]; simpl; [tauto|]. intros H. destruct (o =? x) eqn:E; [reflexivity|].
  apply IH. destruct H as [H|H]; [|exact H]. subst. rewrite Nat.eqb_refl in E. discriminate.
Qed.

Lemma search_threads_cons o me ch r :
  search_threads o ((me, ch) :: r) =
  if me then search_threads o r
  else if is_nil (try_chain o ch) then search_threads o r else try_chain o ch.
Proof. reflexivity. Qed.

Lemma search_threads_found o pre ch post :
  (forall me c, In (me, c) pre -> me = true \/ ~ In o c) ->
  NoDup ch -> In o ch ->
  search_threads (Some o) (pre ++ (false, ch) :: post) = from_anchor o (rev ch).
Proof.
  intros Hpre ND Hin. induction pre as [|[me c] pre IH]; simpl app; rewrite search_threads_cons.
  - destruct (index_of_In _ _ Hin) as [k [Hk _]]. rewrite (try_chain_in o ch k ND Hk).
    rewrite from_anchor_not_nil by (rewrite <- in_rev; exact Hin). reflexivity.
  - assert (IH' : search_threads (Some o) (pre ++ (false, ch) :: post) = from_anchor o (rev ch)).
    { apply IH. intros me' c' H. apply (Hpre me' c'). right. exact H. }
    destruct me; [exact IH'|].
    destruct (Hpre false c (or_introl eq_refl)) as [H|H]; [discriminate|].
    rewrite (try_chain_notin o c H). simpl is_nil. cbv iota. exact IH'.
Qed.

(* StackSlice(outer=<frame of another thread>, limit=n): that thread's frames from outer to its
   innermost frame, and a limit keeps the n frames nearest OUTER *)
Theorem other_thread_outer w o lim pre ch post :
  wf w -> true_caller w <> None ->
  w_threads w = pre ++ (false, ch) :: post ->
  (forall me c, In (me, c) pre -> me = true \/ ~ In o c) ->
  In o ch -> ~ In o (thread_frames w) -> limit_ok lim ->
  unwrap_stackslice w {| s_outer := Some o; s_inner := None; s_limit := lim |}
  = SFrames (keep_limit lim (Some o) None (from_anchor o (rev ch))).
Proof.
  intros ND Htc Hth Hpre Hin Hnot Hlim. unfold wf in ND.
  destruct (true_caller w) as [tc|] eqn:Etc; [clear Htc|congruence].
  assert (NDch : NoDup ch).
  { unfold all_chains in ND. simpl in ND. rewrite Hth in ND. rewrite map_app in ND. simpl in ND.
    rewrite !concat_app in ND. simpl in ND.
    apply NoDup_app_r in ND. apply NoDup_app_r in ND. apply NoDup_app_l in ND.
    apply NoDup_app_r in ND. apply NoDup_app_l in ND. exact ND. }
  assert (Hgb : greenlet_branch w (Some o) None = []).
  { unfold greenlet_branch. destruct (index_of o (thread_frames w)) eqn:E; [|reflexivity].
    exfalso. apply Hnot. destruct (index_of_Some _ _ _ E) as [Hn _]. eapply nth_error_In; eauto. }
  assert (Htcc : index_of tc (caller_chain w) = Some 0).
  { unfold true_caller in Etc. destruct (caller_chain w); simpl in *; [discriminate|].
    injection Etc as ->. rewrite Nat.eqb_refl. reflexivity. }
  assert (Htry : try_chain (Some o) (chain_from w tc) = []).
  { rewrite (chain_from_cur w tc 0 ND Htcc). simpl skipn. apply try_chain_notin.
    intros H. apply Hnot. unfold thread_frames. apply in_or_app. left. exact H. }
  unfold unwrap_stackslice. simpl s_outer. simpl s_inner. simpl s_limit. rewrite Etc. simpl is_some.
  rewrite andb_false_r. rewrite Hgb.
  replace (if has_parent w then [] else []) with (@nil nat) by (destruct (has_parent w); reflexivity).
  simpl is_nil at 1. cbv iota. rewrite Htry. simpl.
  rewrite Hth. rewrite (search_threads_found o pre ch post Hpre NDch Hin).
  rewrite from_anchor_not_nil by (rewrite <- in_rev; exact Hin).
  rewrite (apply_limit_spec _ lim (Some o) None Hlim). reflexivity.
Qed.

Definition w_thr : world :=
  {| w_cur := [Build_cframe 50 "stackscope._glue" false; Build_cframe 2 "app" false;
               Build_cframe 1 "app" false];
     w_parents := [];
     w_threads := [(true, []); (false, [22; 21; 20]); (false, [12; 11; 10])]; w_chains := [] |}.

Example w_thr_ok :
  wf w_thr /\ unwrap_stackslice w_thr {| s_outer := Some 10; s_inner := None; s_limit := Some 2%Z |}
              = SFrames [10; 11].
Proof.
  split; [|vm_compute; reflexivity].
  unfold wf. vm_compute. repeat (constructor; [simpl; intuition discriminate|]). constructor.
Qed.

(* ------------------------------------------------------------------ f_back reachability *)

Lemma index_of_app_in x c L k : index_of x c = Some k -> index_of x (c ++ L) = Some k.
Proof.
  revert k. induction c as [|y c IH]; simpl; [discriminate|]. intros k.
  destruct (x =? y); [auto|].
  destruct (index_of x c) as [j|]; simpl; [|discriminate]. intros [= <-].
  rewrite (IH j eq_refl). reflexivity.
Qed.

Lemma index_of_app_notin' x A L :
  ~ In x A -> index_of x (A ++ L) = option_map (Nat.add (length A)) (index_of x L).
Proof.
  induction A as [|y A IH]; simpl; intros H.
  - destruct (index_of x L); reflexivity.
  - destruct (x =? y) eqn:E; [apply Nat.eqb_eq in E; subst; tauto|].
    rewrite IH by tauto. destruct (index_of x L); reflexivity.
Qed.

Lemma In_dec_nat (x : nat) l : In x l \/ ~ In x l.
Proof. destruct (in_dec Nat.eq_dec x l); auto. Qed.

(* the f_back chain of a frame found at position b of the concatenated chains is a prefix of
   what follows position b (it ends where its own chain ends) *)
Lemma find_chain_concat cs rest x b :
  index_of x (concat cs) = Some b ->
  exists n, find_chain x (cs ++ rest) = firstn n (skipn b (concat cs)).
Proof.
  revert b. induction cs as [|c r IH]; intros b Hb; simpl in *; [discriminate|].
  destruct (In_dec_nat x c) as [Hin|Hnot].
  - destruct (index_of_In _ _ Hin) as [k [Hk Hkl]].
    rewrite (index_of_app_in _ _ _ _ Hk) in Hb. injection Hb as <-.
    rewrite (suffix_from_index _ _ _ Hk).
    exists (length (skipn k c)). rewrite skipn_app.
    replace (k - length c) with 0 by lia. simpl skipn at 2.
    rewrite firstn_app. rewrite Nat.sub_diag. simpl firstn at 2. rewrite app_nil_r.
    rewrite firstn_all. reflexivity.
  - rewrite (suffix_from_none _ _ Hnot).
    rewrite (index_of_app_notin' _ _ _ Hnot) in Hb.
    destruct (index_of x (concat r)) as [j|] eqn:Ej; cbn [option_map] in Hb; [|discriminate]. injection Hb as <-.
    destruct (IH j eq_refl) as [n Hn]. exists n. rewrite Hn.
    rewrite skipn_app.
    replace (skipn (length c + j) c) with (@nil nat) by (symmetry; apply skipn_all2; lia).
    replace (length c + j - length c) with j by lia. reflexivity.
Qed.

Lemma chain_from_thread w i b :
  wf w -> index_of i (thread_frames w) = Some b ->
  exists n, chain_from w i = firstn n (skipn b (thread_frames w)).
Proof.
  intros ND Hb. unfold wf in ND. unfold chain_from, all_chains.
  change (map cf_id (w_cur w) :: w_parents w ++ map snd (w_threads w) ++ w_chains w)
    with ((map cf_id (w_cur w) :: w_parents w) ++ (map snd (w_threads w) ++ w_chains w)).
  destruct (cur_split w) as [pre E].
  assert (HT : concat (map cf_id (w_cur w) :: w_parents w) = pre ++ thread_frames w).
  { simpl. rewrite E. unfold thread_frames. rewrite app_assoc. reflexivity. }
  assert (Hin : In i (thread_frames w)).
  { destruct (index_of_Some _ _ _ Hb) as [H _]. eapply nth_error_In; eauto. }
  assert (Hn : ~ In i pre).
  { unfold all_chains in ND. simpl in ND. rewrite E in ND. rewrite concat_app in ND.
    rewrite <- !app_assoc in ND. intros HI. apply (NoDup_app_disj _ _ i ND HI).
    unfold thread_frames in Hin. apply in_app_or in Hin. apply in_or_app.
    destruct Hin as [H|H]; [left; exact H|]. right. apply in_or_app. left. exact H. }
  assert (Hidx : index_of i (concat (map cf_id (w_cur w) :: w_parents w)) = Some (length pre + b)).
  { rewrite HT. rewrite (index_of_app_notin' _ _ _ Hn). rewrite Hb. reflexivity. }
  destruct (find_chain_concat _ (map snd (w_threads w) ++ w_chains w) i _ Hidx) as [n Hfc].
  exists n. rewrite Hfc. rewrite HT. rewrite skipn_app.
  replace (skipn (length pre + b) pre) with (@nil nat) by (symmetry; apply skipn_all2; lia).
  replace (length pre + b - length pre) with b by lia. reflexivity.
Qed.

Lemma index_of_skipn_inv x T b k :
  NoDup T -> b <= length T -> index_of x (skipn b T) = Some k -> index_of x T = Some (b + k).
Proof.
  intros ND Hbl Hk.
  assert (Hin : In x (skipn b T)).
  { destruct (index_of_Some _ _ _ Hk) as [H _]. eapply nth_error_In; eauto. }
  rewrite <- (firstn_skipn b T) in ND |- * at 1.
  assert (Hn : ~ In x (firstn b T)).
  { intros HI. exact (NoDup_app_disj _ _ x ND HI Hin). }
  rewrite (index_of_app_notin' _ _ _ Hn). rewrite Hk. simpl. rewrite firstn_length.
  f_equal. lia.
Qed.

(* extract_until(inner, limit=frame), full statement: a limit reachable from inner by f_back is
   the first frame of the result, which is the slice limit..inner of the true stack; an
   unreachable one raises *)
Theorem until_frame_limit w i lim :
  wf w -> true_caller w <> None -> In i (true_stack w) ->
  (In lim (chain_from w i) ->
     run_api w (AUntilF i lim) = AOk (SFrames (between (Some lim) (Some i) (true_stack w)))
     /\ In lim (true_stack w) /\ In i (from_anchor lim (true_stack w)))
  /\ (~ In lim (chain_from w i) -> run_api w (AUntilF i lim) = ARaised).
Proof.
  intros Hwf Htc Hi. pose proof (wf_nodup_thread w Hwf) as NDT.
  unfold true_stack in *. rewrite <- in_rev in Hi.
  destruct (index_of_In _ _ Hi) as [b [Hb Hbl]].
  split; intros H.
  - destruct (chain_from_thread w i b Hwf Hb) as [n Hn].
    assert (Hl : In lim (skipn b (thread_frames w))).
    { rewrite Hn in H. eapply firstn_incl; eauto. }
    destruct (index_of_In _ _ Hl) as [k [Hk _]].
    pose proof (index_of_skipn_inv _ _ _ _ NDT (Nat.lt_le_incl _ _ Hbl) Hk) as Ha.
    assert (Hle : b <= b + k) by lia.
    assert (Hlin : In lim (thread_frames w)) by (eapply skipn_incl; eauto).
    split; [|split].
    + rewrite (between_pos _ (Some lim) (Some i) (b + k) b NDT Ha Hb Hle).
      cbn [run_api]. destruct (index_of_In _ _ H) as [k' [Hk' _]]. rewrite (take_until_index _ _ _ Hk').
      rewrite (slice_exact_pos w (Some lim) (Some i) None (b + k) b Hwf Htc Ha Hb Hle Hbl I).
      reflexivity.
    + rewrite <- in_rev. exact Hlin.
    + rewrite <- (rev_firstn_from_anchor _ _ _ NDT Ha). rewrite <- in_rev.
      destruct (index_of_Some _ _ _ Hb) as [Hnth _].
      assert (Hb' : index_of i (firstn (S (b + k)) (thread_frames w)) = Some b)
        by (apply index_of_firstn; [exact Hb|lia]).
      destruct (index_of_Some _ _ _ Hb') as [Hn' _]. eapply nth_error_In; eauto.
  - simpl. rewrite take_until_none; [reflexivity|].
    destruct (index_of lim (chain_from w i)) eqn:E; [|reflexivity].
    exfalso. apply H. destruct (index_of_Some _ _ _ E) as [Hn _]. eapply nth_error_In; eauto.
Qed.
