(* P_Options.v — proofs about M_Options (work in progress). *)
Require Import Base M_Options.
From SS.gen Require Import SrcFacts.

Definition good : disc := {| thread_local := true; restore_finally := true |}.

Lemma facts_disc_good : facts_disc = good.
Proof. reflexivity. Qed.
