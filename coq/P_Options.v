(* P_Options.v — reference semantics (lexical scoping) for C13 and the proofs relating the
   store machine M_Options.run to it, for all programs, all schedules, any number of threads. *)
Require Import Base M_Options.
From SS.gen Require Import SrcFacts.

(* the discipline under which the property is proved; the code has it iff the regenerated
   facts say so (closed by reflexivity, breaks when the source changes) *)
Definition good : disc := {| thread_local := true; restore_finally := true |}.

Lemma facts_disc_good : facts_disc = good.
Proof. reflexivity. Qed.

(* ------------------------------------------------------------------------------------------
   Reference semantics, written from the property text: options are LEXICALLY scoped.
   [cur] = options of the innermost enclosing extract of the same thread, None outside. *)

(* "extract_child(for_task=True) returns a frameless stub unless recursion was requested";
   "outside any extraction extract_child refuses to run" *)
Definition want_child (cur : option opts) (ft : bool) : cres :=
  match cur, ft with
  | None, _ => CRefuse
  | Some (_, false), true => CStub
  | Some _, _ => CFull
  end.

(* "with_contexts=False leaves every contexts empty" *)
Definition want_read (cur : option opts) : rres :=
  match cur with
  | None => RRefuse
  | Some (false, _) => REmpty
  | Some (true, _) => RCtx
  end.

(* fill_context may be used outside an extraction: its hooks then run under (True, False) *)
Definition fill_scope (cur : option opts) : option opts :=
  match cur with None => Some (true, false) | Some _ => cur end.

Fixpoint spec_obs (cur : option opts) (p : prog) : list obs :=
  match p with
  | PNil => []
  | PExt o b _ r => spec_obs (Some o) b ++ spec_obs cur r
  | PFill b _ r => spec_obs (fill_scope cur) b ++ spec_obs cur r
  | PSame b _ r => OSame (is_some cur) :: spec_obs cur b ++ spec_obs cur r
  | PChild ft r => OChild (want_child cur ft) :: spec_obs cur r
  | PRead r => ORead (want_read cur) :: spec_obs cur r
  end.

Lemma child_res_spec cur ft : child_res cur ft = want_child cur ft.
Proof. destruct cur as [[w [|]]|], ft; reflexivity. Qed.

Lemma read_res_spec cur : read_res cur = want_read cur.
Proof. destruct cur as [[[|] r]|]; reflexivity. Qed.

(* ------------------------------------------------------------------------------------------
   The single-thread machine: one history run alone on a private cell. *)

Definition scfg := (option opts * list kent * list op * list obs)%type.

Fixpoint srun (d : disc) (n : nat) (cell : option opts) (k : list kent) (td : list op)
         (acc : list obs) : scfg :=
  match n, td with
  | S n', o :: rest =>
      let '(c', k', ob) := step_op d cell k o in srun d n' c' k' rest (add_obs ob acc)
  | _, _ => (cell, k, td, acc)
  end.

Definition srun_c (d : disc) (n : nat) (c : scfg) : scfg :=
  let '(cell, k, td, acc) := c in srun d n cell k td acc.

Lemma srun_add d a b : forall cell k td acc,
  srun d (a + b) cell k td acc = srun_c d b (srun d a cell k td acc).
Proof.
  induction a as [|a IH]; intros; simpl.
  - reflexivity.
  - destruct td as [|o rest]; simpl.
    + destruct b; reflexivity.
    + destruct (step_op d cell k o) as [[c' k'] ob]. apply IH.
Qed.

Lemma srun_nil d n cell k acc : srun d n cell k [] acc = (cell, k, [], acc).
Proof. destruct n; reflexivity. Qed.

Definition to_tstate (c : scfg) : tstate :=
  let '(_, k, td, acc) := c in {| todo := td; kstack := k; out_rev := acc |}.
Definition cell_part (c : scfg) : option opts := let '(cell, _, _, _) := c in cell.
Definition acc_part (c : scfg) : list obs := let '(_, _, _, acc) := c in acc.
Definition todo_part (c : scfg) : list op := let '(_, _, td, _) := c in td.
Definition k_part (c : scfg) : list kent := let '(_, k, _, _) := c in k.

(* one history alone, from the initial state *)
Definition solo (d : disc) (h : list op) (n : nat) : scfg := srun d n None [] h [].

(* ---------- projection: with a thread-local store the global run, seen from thread t, is the
   single-thread run of t's own history for as many steps as t was scheduled ---------- *)

Definition cnt (s : list nat) (t : nat) : nat := count_occ Nat.eq_dec s t.

Lemma tstate_eta ts : {| todo := todo ts; kstack := kstack ts; out_rev := out_rev ts |} = ts.
Proof. destruct ts; reflexivity. Qed.

Lemma gstep_self d st t : thread_local d = true ->
  let c := srun d 1 (sto st t) (kstack (thr st t)) (todo (thr st t)) (out_rev (thr st t)) in
  sto (gstep d st t) t = cell_part c /\ thr (gstep d st t) t = to_tstate c.
Proof.
  intros TL. unfold gstep, key. rewrite TL. simpl.
  destruct (todo (thr st t)) as [|o rest] eqn:E; simpl.
  - split; [reflexivity|]. rewrite <- E. symmetry. apply tstate_eta.
  - destruct (step_op d (sto st t) (kstack (thr st t)) o) as [[c' k'] ob]. simpl.
    unfold upd. rewrite Nat.eqb_refl. split; reflexivity.
Qed.

Lemma gstep_other d st u t : thread_local d = true -> u <> t ->
  sto (gstep d st u) t = sto st t /\ thr (gstep d st u) t = thr st t.
Proof.
  intros TL NE. unfold gstep, key. rewrite TL.
  destruct (todo (thr st u)) as [|o rest]; [split; reflexivity|].
  destruct (step_op d (sto st u) (kstack (thr st u)) o) as [[c' k'] ob]. simpl.
  unfold upd. assert (t =? u = false) as -> by (apply Nat.eqb_neq; auto).
  split; reflexivity.
Qed.

Lemma projection d : thread_local d = true -> forall sched st t,
  let c := srun d (cnt sched t) (sto st t) (kstack (thr st t)) (todo (thr st t)) (out_rev (thr st t)) in
  sto (run d st sched) t = cell_part c /\ thr (run d st sched) t = to_tstate c.
Proof.
  intros TL. induction sched as [|u r IH]; intros st t.
  - simpl. split; [reflexivity|]. symmetry. apply tstate_eta.
  - simpl run. unfold cnt. simpl count_occ.
    destruct (Nat.eq_dec u t) as [->|NE].
    + specialize (IH (gstep d st t) t).
      destruct (gstep_self d st t TL) as [E1 E2].
      change (S (count_occ Nat.eq_dec r t)) with (1 + cnt r t).
      rewrite srun_add.
      destruct (srun d 1 (sto st t) (kstack (thr st t)) (todo (thr st t)) (out_rev (thr st t)))
        as [[[c1 k1] td1] a1] eqn:E.
      simpl in E1, E2. rewrite E1, E2 in IH. simpl in IH. exact IH.
    + specialize (IH (gstep d st u) t).
      destruct (gstep_other d st u t TL NE) as [E1 E2].
      rewrite E1, E2 in IH. exact IH.
Qed.

Lemma projection_init d : thread_local d = true -> forall hists sched t,
  let st := run d (init hists) sched in
  cell_of d st t = cell_part (solo d (nth t hists []) (cnt sched t))
  /\ thr st t = to_tstate (solo d (nth t hists []) (cnt sched t)).
Proof.
  intros TL hists sched t. unfold cell_of, key. rewrite TL.
  exact (projection d TL sched (init hists) t).
Qed.

(* ---------- the single-thread machine on a well-nested block ---------- *)

Lemma flatten_len_ext o b e r :
  length (flatten (PExt o b e r)) = 1 + (length (flatten b) + (1 + length (flatten r))).
Proof. simpl. rewrite app_length. simpl. reflexivity. Qed.

Lemma leave_push d (RF : restore_finally d = true) e cell p k :
  step_op d cell (KPush p :: k) (leave e) = (p, k, None).
Proof. destruct e; simpl; [rewrite RF|]; reflexivity. Qed.

Lemma leave_nopush d e cell k :
  step_op d cell (KNoPush :: k) (leave e) = (cell, k, None).
Proof. destruct e; reflexivity. Qed.

(* Key lemma: a complete block leaves the cell and the control stack as it found them and
   emits exactly the lexically scoped observations. *)
Lemma block d (RF : restore_finally d = true) : forall p cell k rest acc,
  srun d (length (flatten p)) cell k (flatten p ++ rest) acc
  = (cell, k, rest, rev (spec_obs cell p) ++ acc).
Proof.
  induction p as [|o b IHb e r IHr|b IHb e r IHr|b IHb e r IHr|ft r IHr|r IHr]; intros cell k rest acc.
  - reflexivity.
  - rewrite flatten_len_ext. simpl flatten. simpl app. rewrite <- app_assoc. simpl app.
    change (1 + (length (flatten b) + (1 + length (flatten r)))) with (S (length (flatten b) + (1 + length (flatten r)))).
    simpl srun. rewrite srun_add, IHb. simpl srun_c.
    rewrite leave_push by exact RF. simpl add_obs.
    rewrite IHr. simpl spec_obs. rewrite rev_app_distr, <- app_assoc. reflexivity.
  - simpl flatten. simpl length. rewrite app_length. simpl length.
    simpl app. rewrite <- app_assoc. simpl app.
    destruct cell as [c|].
    + simpl srun. rewrite srun_add, IHb. simpl srun_c.
      rewrite leave_nopush. simpl add_obs. rewrite IHr.
      simpl spec_obs. rewrite rev_app_distr, <- app_assoc. reflexivity.
    + simpl srun. rewrite srun_add, IHb. simpl srun_c.
      rewrite leave_push by exact RF. simpl add_obs. rewrite IHr.
      simpl spec_obs. rewrite rev_app_distr, <- app_assoc. reflexivity.
  - simpl flatten. simpl length. rewrite app_length. simpl length.
    simpl app. rewrite <- app_assoc. simpl app.
    simpl srun. rewrite srun_add, IHb. simpl srun_c.
    rewrite leave_nopush. simpl add_obs. rewrite IHr.
    simpl spec_obs. simpl rev. rewrite rev_app_distr.
    rewrite <- !app_assoc. reflexivity.
  - simpl. rewrite IHr. rewrite child_res_spec. rewrite <- app_assoc. reflexivity.
  - simpl. rewrite IHr. rewrite read_res_spec. rewrite <- app_assoc. reflexivity.
Qed.

(* observations only grow *)
Lemma srun_grows d n : forall cell k td acc,
  exists l, acc_part (srun d n cell k td acc) = l ++ acc.
Proof.
  induction n as [|n IH]; intros.
  - exists []. reflexivity.
  - destruct td as [|o rest]; [exists []; reflexivity|]. simpl.
    destruct (step_op d cell k o) as [[c' k'] ob].
    destruct (IH c' k' rest (add_obs ob acc)) as [l E]. rewrite E.
    destruct ob as [x|]; simpl.
    + exists (l ++ [x]). rewrite <- app_assoc. reflexivity.
    + exists l. reflexivity.
Qed.

Lemma srun_todo d n : forall cell k td acc,
  todo_part (srun d n cell k td acc) = skipn n td.
Proof.
  induction n as [|n IH]; intros; [reflexivity|].
  destruct td as [|o rest]; [reflexivity|]. simpl.
  destruct (step_op d cell k o) as [[c' k'] ob]. apply IH.
Qed.

(* a whole program run alone from the initial state *)
Lemma solo_complete d (RF : restore_finally d = true) p n :
  length (flatten p) <= n ->
  solo d (flatten p) n = (None, [], [], rev (spec_obs None p)).
Proof.
  intros L. unfold solo.
  replace n with (length (flatten p) + (n - length (flatten p))) by lia.
  rewrite srun_add.
  pose proof (block d RF p None [] [] []) as B. rewrite !app_nil_r in B. rewrite B.
  simpl. apply srun_nil.
Qed.

Lemma solo_prefix d (RF : restore_finally d = true) p n :
  exists l, spec_obs None p = rev (acc_part (solo d (flatten p) n)) ++ l.
Proof.
  destruct (Nat.le_gt_cases (length (flatten p)) n) as [L|L].
  - rewrite (solo_complete d RF p n L). simpl. rewrite rev_involutive. exists []. rewrite app_nil_r. reflexivity.
  - pose proof (solo_complete d RF p (n + (length (flatten p) - n))) as C.
    unfold solo in *. rewrite srun_add in C.
    destruct (srun d n None [] (flatten p) []) as [[[c1 k1] td1] a1] eqn:E.
    simpl in C. simpl.
    destruct (srun_grows d (length (flatten p) - n) c1 k1 td1 a1) as [l G].
    rewrite C in G by lia. simpl in G.
    exists (rev l). apply (f_equal (@rev obs)) in G. rewrite rev_involutive, rev_app_distr in G. exact G.
Qed.

(* ------------------------------------------------------------------------------------------
   Global theorems *)

Lemma nth_flatten progs t : nth t (map flatten progs) [] = flatten (nth t progs PNil).
Proof. change (@nil op) with (flatten PNil). apply map_nth. Qed.

(* Non-interference: what thread t observes and the options it sees depend only on its own
   history and on how often it was scheduled -- for ANY histories of the other threads (not
   even well-nested ones) and any restore discipline. *)
Lemma noninterference d : thread_local d = true ->
  forall hists hists' sched sched' t,
    nth t hists [] = nth t hists' [] -> cnt sched t = cnt sched' t ->
    obs_of (run d (init hists) sched) t = obs_of (run d (init hists') sched') t
    /\ cell_of d (run d (init hists) sched) t = cell_of d (run d (init hists') sched') t.
Proof.
  intros TL hists hists' sched sched' t H C.
  destruct (projection_init d TL hists sched t) as [A1 A2].
  destruct (projection_init d TL hists' sched' t) as [B1 B2].
  unfold obs_of. rewrite A1, A2, B1, B2, H, C. split; reflexivity.
Qed.

(* ... in particular it equals the run of that history alone in a one-thread system *)
Lemma cnt_repeat n : cnt (repeat 0 n) 0 = n.
Proof. unfold cnt. induction n; simpl; [reflexivity|]. rewrite IHn. reflexivity. Qed.

Lemma equals_single_thread_run d : thread_local d = true ->
  forall hists sched t,
    obs_of (run d (init hists) sched) t
    = obs_of (run d (init [nth t hists []]) (repeat 0 (cnt sched t))) 0.
Proof.
  intros TL hists sched t.
  destruct (projection_init d TL hists sched t) as [_ A2].
  destruct (projection_init d TL [nth t hists []] (repeat 0 (cnt sched t)) 0) as [_ B2].
  unfold obs_of. rewrite A2, B2. simpl nth. rewrite cnt_repeat. reflexivity.
Qed.

Lemma obs_of_solo d : thread_local d = true -> forall hists sched t,
  obs_of (run d (init hists) sched) t = rev (acc_part (solo d (nth t hists []) (cnt sched t))).
Proof.
  intros TL hists sched t. destruct (projection_init d TL hists sched t) as [_ A2].
  unfold obs_of. rewrite A2.
  destruct (solo d (nth t hists []) (cnt sched t)) as [[[c k] td] a]. reflexivity.
Qed.

(* Scoped: every thread observes a prefix of -- and once its history is finished exactly --
   the lexically scoped reference semantics of ITS OWN program, under every schedule and
   whatever the other threads run. *)
Lemma scoped d : thread_local d = true -> restore_finally d = true ->
  forall progs sched t,
    let st := run d (init (map flatten progs)) sched in
    let p := nth t progs PNil in
    (exists l, spec_obs None p = obs_of st t ++ l)
    /\ (length (flatten p) <= cnt sched t -> obs_of st t = spec_obs None p /\ cell_of d st t = None).
Proof.
  intros TL RF progs sched t. simpl.
  rewrite (obs_of_solo d TL). rewrite nth_flatten. split.
  - apply solo_prefix; assumption.
  - intros L. destruct (projection_init d TL (map flatten progs) sched t) as [A1 _].
    rewrite A1, nth_flatten. rewrite (solo_complete d RF _ _ L). simpl.
    rewrite rev_involutive. split; reflexivity.
Qed.

(* Restored: when a call (with everything nested in it) has returned or has been left by an
   exception, the thread sees the options -- and has the control stack -- it had before the
   call; at any depth (h1 is an arbitrary prefix, possibly with calls still open), under any
   schedule, whatever the other threads do in between. *)
Lemma restored d : thread_local d = true -> restore_finally d = true ->
  forall hists t h1 blk h2 sched1 sched2,
    nth t hists [] = h1 ++ flatten blk ++ h2 ->
    cnt sched1 t = length h1 ->
    cnt sched2 t = length h1 + length (flatten blk) ->
    cell_of d (run d (init hists) sched2) t = cell_of d (run d (init hists) sched1) t
    /\ kstack (thr (run d (init hists) sched2) t) = kstack (thr (run d (init hists) sched1) t)
    /\ todo (thr (run d (init hists) sched2) t) = h2.
Proof.
  intros TL RF hists t h1 blk h2 s1 s2 H C1 C2.
  destruct (projection_init d TL hists s1 t) as [A1 A2].
  destruct (projection_init d TL hists s2 t) as [B1 B2].
  rewrite A1, A2, B1, B2, H, C1, C2. unfold solo. rewrite srun_add.
  pose proof (srun_todo d (length h1) None [] (h1 ++ flatten blk ++ h2) []) as T.
  destruct (srun d (length h1) None [] (h1 ++ flatten blk ++ h2) []) as [[[c1 k1] td1] a1].
  simpl in T. rewrite skipn_app, skipn_all, Nat.sub_diag in T. simpl in T. subst td1.
  simpl srun_c. rewrite (block d RF). simpl. auto.
Qed.

(* ---------- stubs and contexts at every depth of nesting ---------- *)

(* a tower of extract calls, each with its own options and its own way of ending *)
Fixpoint nest (lv : list (opts * bool)) (inner : prog) : prog :=
  match lv with
  | [] => inner
  | (o, e) :: r => PExt o (nest r inner) e PNil
  end.

Lemma spec_nest : forall lv cur inner,
  spec_obs cur (nest lv inner)
  = spec_obs (match last_opt lv with Some (o, _) => Some o | None => cur end) inner.
Proof.
  induction lv as [|[o e] r IH]; intros; [reflexivity|].
  simpl nest. simpl spec_obs. rewrite app_nil_r, IH.
  unfold last_opt. simpl rev.
  destruct (rev r) as [|[o' e'] q] eqn:E; reflexivity.
Qed.

Lemma last_opt_snoc {A} (l : list A) x : last_opt (l ++ [x]) = Some x.
Proof. unfold last_opt. rewrite rev_app_distr. reflexivity. Qed.

Lemma stub d : thread_local d = true -> restore_finally d = true ->
  forall progs sched t lv w rc e ft,
    nth t progs PNil = nest (lv ++ [((w, rc), e)]) (PChild ft PNil) ->
    length (flatten (nth t progs PNil)) <= cnt sched t ->
    obs_of (run d (init (map flatten progs)) sched) t
    = [OChild (if ft && negb rc then CStub else CFull)].
Proof.
  intros TL RF progs sched t lv w rc e ft H L.
  destruct (scoped d TL RF progs sched t) as [_ S]. destruct (S L) as [-> _].
  rewrite H, spec_nest, last_opt_snoc. simpl. destruct rc, ft; reflexivity.
Qed.

Lemma contexts_flag d : thread_local d = true -> restore_finally d = true ->
  forall progs sched t lv w rc e,
    nth t progs PNil = nest (lv ++ [((w, rc), e)]) (PRead PNil) ->
    length (flatten (nth t progs PNil)) <= cnt sched t ->
    obs_of (run d (init (map flatten progs)) sched) t = [ORead (if w then RCtx else REmpty)].
Proof.
  intros TL RF progs sched t lv w rc e H L.
  destruct (scoped d TL RF progs sched t) as [_ S]. destruct (S L) as [-> _].
  rewrite H, spec_nest, last_opt_snoc. simpl. destruct w; reflexivity.
Qed.

(* sequencing of programs at the same level *)
Fixpoint papp (p q : prog) : prog :=
  match p with
  | PNil => q
  | PExt o b e r => PExt o b e (papp r q)
  | PFill b e r => PFill b e (papp r q)
  | PSame b e r => PSame b e (papp r q)
  | PChild ft r => PChild ft (papp r q)
  | PRead r => PRead (papp r q)
  end.

Lemma spec_papp cur p q : spec_obs cur (papp p q) = spec_obs cur p ++ spec_obs cur q.
Proof.
  induction p; simpl; rewrite ?IHp2, ?IHp; rewrite <- ?app_assoc; reflexivity.
Qed.

(* outside any extraction -- before the first top-level call, between two, after the last --
   extract_child refuses, whatever ran before on this thread (also calls left by exception)
   and whatever the other threads are in the middle of *)
Lemma refuses_outside d : thread_local d = true -> restore_finally d = true ->
  forall progs sched t before ft after,
    nth t progs PNil = papp before (PChild ft after) ->
    length (flatten (nth t progs PNil)) <= cnt sched t ->
    obs_of (run d (init (map flatten progs)) sched) t
    = spec_obs None before ++ OChild CRefuse :: spec_obs None after.
Proof.
  intros TL RF progs sched t before ft after H L.
  destruct (scoped d TL RF progs sched t) as [_ S]. destruct (S L) as [-> _].
  rewrite H, spec_papp. reflexivity.
Qed.

(* ---------- the two parameters of the discipline are both needed ---------- *)

Definition wit_a : prog := PExt (true, true) (PRead (PChild true PNil)) false (PChild true PNil).
Definition wit_b : prog := PExt (false, false) (PRead (PChild true PNil)) false (PChild true PNil).

Lemma global_store_refuted :
  exists progs sched t,
    obs_of (run {| thread_local := false; restore_finally := true |} (init (map flatten progs)) sched) t
    <> spec_obs None (nth t progs PNil)
    /\ length (flatten (nth t progs PNil)) <= cnt sched t.
Proof.
  exists [wit_a; wit_b], [0; 1; 0; 0; 1; 1; 0; 1; 0; 1], 0. split; [|vm_compute; lia].
  vm_compute. discriminate.
Qed.

Lemma no_finally_refuted :
  exists progs sched t,
    obs_of (run {| thread_local := true; restore_finally := false |} (init (map flatten progs)) sched) t
    <> spec_obs None (nth t progs PNil)
    /\ length (flatten (nth t progs PNil)) <= cnt sched t.
Proof.
  exists [PExt (true, true) PNil true (PChild true PNil)], [0; 0; 0], 0. split; [|vm_compute; lia].
  vm_compute. discriminate.
Qed.


(* ---------- histories given as operation lists: well-nested = balanced ---------- *)
Fixpoint balanced (depth : nat) (h : list op) : bool :=
  match h with
  | [] => depth =? 0
  | Enter _ :: r | FillEnter :: r | SameEnter :: r => balanced (S depth) r
  | LeaveOk :: r | LeaveExc :: r => match depth with 0 => false | S d => balanced d r end
  | Child _ :: r | Read :: r => balanced depth r
  end.

Definition segs (l : list (bool * prog)) : list op :=
  concat (map (fun s : bool * prog => leave (fst s) :: flatten (snd s)) l).

Lemma balanced_shape : forall h d, balanced d h = true ->
  exists p0 l, length l = d /\ h = flatten p0 ++ segs l.
Proof.
  induction h as [|o r IH]; intros d B.
  - simpl in B. apply Nat.eqb_eq in B. subst. exists PNil, []. split; reflexivity.
  - destruct o as [v| | | | |ft|]; simpl in B.
    + destruct (IH _ B) as (p0 & l & L & E). destruct l as [|[e p1] l]; [discriminate|].
      exists (PExt v p0 e p1), l. split; [simpl in L; lia|].
      rewrite E. simpl. unfold segs. simpl. rewrite <- !app_assoc. reflexivity.
    + destruct (IH _ B) as (p0 & l & L & E). destruct l as [|[e p1] l]; [discriminate|].
      exists (PFill p0 e p1), l. split; [simpl in L; lia|].
      rewrite E. simpl. unfold segs. simpl. rewrite <- !app_assoc. reflexivity.
    + destruct (IH _ B) as (p0 & l & L & E). destruct l as [|[e p1] l]; [discriminate|].
      exists (PSame p0 e p1), l. split; [simpl in L; lia|].
      rewrite E. simpl. unfold segs. simpl. rewrite <- !app_assoc. reflexivity.
    + destruct d as [|d]; [discriminate|].
      destruct (IH _ B) as (p0 & l & L & E).
      exists PNil, ((false, p0) :: l). split; [simpl; lia|]. rewrite E. reflexivity.
    + destruct d as [|d]; [discriminate|].
      destruct (IH _ B) as (p0 & l & L & E).
      exists PNil, ((true, p0) :: l). split; [simpl; lia|]. rewrite E. reflexivity.
    + destruct (IH _ B) as (p0 & l & L & E).
      exists (PChild ft p0), l. split; [exact L|]. rewrite E. reflexivity.
    + destruct (IH _ B) as (p0 & l & L & E).
      exists (PRead p0), l. split; [exact L|]. rewrite E. reflexivity.
Qed.

Lemma balanced_tree h : balanced 0 h = true -> exists p, flatten p = h.
Proof.
  intros B. destruct (balanced_shape h 0 B) as (p0 & l & L & E).
  destruct l; [|discriminate]. exists p0. rewrite E. unfold segs. simpl. rewrite app_nil_r. reflexivity.
Qed.

Lemma flatten_balanced : forall p d r, balanced d r = true -> balanced d (flatten p ++ r) = true.
Proof.
  induction p as [|o b IHb e r0 IHr|b IHb e r0 IHr|b IHb e r0 IHr|ft r0 IHr|r0 IHr]; intros d r B; simpl.
  - exact B.
  - rewrite <- app_assoc. apply IHb. simpl. destruct e; simpl; apply IHr; exact B.
  - rewrite <- app_assoc. apply IHb. simpl. destruct e; simpl; apply IHr; exact B.
  - rewrite <- app_assoc. apply IHb. simpl. destruct e; simpl; apply IHr; exact B.
  - apply IHr; exact B.
  - apply IHr; exact B.
Qed.

Lemma balanced_trees hists : forallb (balanced 0) hists = true -> exists progs, map flatten progs = hists.
Proof.
  induction hists as [|h r IH]; intros B.
  - exists []. reflexivity.
  - simpl in B. apply andb_true_iff in B as [B1 B2].
    destruct (balanced_tree h B1) as [p E]. destruct (IH B2) as [ps Es].
    exists (p :: ps). simpl. rewrite E, Es. reflexivity.
Qed.

(* scoped, for histories given as operation lists *)
Lemma scoped_histories d : thread_local d = true -> restore_finally d = true ->
  forall hists sched t, forallb (balanced 0) hists = true ->
    exists p, nth t hists [] = flatten p
      /\ (exists l, spec_obs None p = obs_of (run d (init hists) sched) t ++ l)
      /\ (length (nth t hists []) <= cnt sched t ->
          obs_of (run d (init hists) sched) t = spec_obs None p
          /\ cell_of d (run d (init hists) sched) t = None).
Proof.
  intros TL RF hists sched t B. destruct (balanced_trees hists B) as [progs E]. subst hists.
  exists (nth t progs PNil). rewrite nth_flatten. split; [reflexivity|].
  exact (scoped d TL RF progs sched t).
Qed.

(* ---------- all_schedules is complete ---------- *)

Lemma nth_dec_nth : forall l u t,
  nth t (dec_nth l u) 0 = if t =? u then pred (nth t l 0) else nth t l 0.
Proof.
  induction l as [|x l IH]; intros u t.
  - assert (E : forall k, nth k (@nil nat) 0 = 0) by (destruct k; reflexivity).
    destruct u; simpl dec_nth; rewrite E; destruct (t =? _); reflexivity.
  - destruct u as [|u]; simpl.
    + destruct t; reflexivity.
    + destruct t as [|t]; [reflexivity|]. simpl. apply IH.
Qed.

Lemma length_dec_nth : forall l u, length (dec_nth l u) = length l.
Proof. induction l; destruct u; simpl; auto. Qed.

Lemma sum_dec_nth : forall l u, 0 < nth u l 0 -> list_sum l = S (list_sum (dec_nth l u)).
Proof.
  induction l as [|x l IH]; intros u H.
  - destruct u; simpl in H; lia.
  - destruct u as [|u]; simpl in *.
    + lia.
    + rewrite (IH u H). lia.
Qed.

Lemma sum_zero : forall l, (forall t, nth t l 0 = 0) -> list_sum l = 0.
Proof.
  induction l as [|x l IH]; intros H; [reflexivity|].
  simpl. rewrite (H 0 : x = 0). apply IH. intros t. exact (H (S t)).
Qed.

Lemma all_schedules_complete : forall s counts,
  (forall t, cnt s t = nth t counts 0) -> In s (all_schedules (list_sum counts) counts).
Proof.
  induction s as [|u r IH]; intros counts H.
  - rewrite sum_zero; [left; reflexivity|]. intros t. rewrite <- H. reflexivity.
  - assert (P : 0 < nth u counts 0).
    { rewrite <- H. unfold cnt. simpl. destruct (Nat.eq_dec u u); [lia|congruence]. }
    assert (U : u < length counts).
    { destruct (Nat.lt_ge_cases u (length counts)); auto. rewrite nth_overflow in P; lia. }
    rewrite (sum_dec_nth counts u P). simpl all_schedules.
    apply in_flat_map. exists u. split; [apply in_seq; lia|].
    assert (0 <? nth u counts 0 = true) as -> by (apply Nat.ltb_lt; exact P).
    apply in_map. apply IH. intros t. rewrite nth_dec_nth.
    specialize (H t). unfold cnt in *. simpl in H.
    destruct (Nat.eq_dec u t) as [->|NE].
    + rewrite Nat.eqb_refl. lia.
    + assert (t =? u = false) as -> by (apply Nat.eqb_neq; auto). exact H.
Qed.

Lemma schedules_of_complete progs s :
  (forall t, cnt s t = length (flatten (nth t progs PNil))) -> In s (schedules_of progs).
Proof.
  intros H. unfold schedules_of. apply all_schedules_complete. intros t. rewrite H.
  symmetry. exact (map_nth (fun p => length (flatten p)) progs PNil t).
Qed.

(* ------------------------------------------------------------------------------------------
   Instances for the code as it is: the discipline regenerated from the source.  These two
   lemmas are the only place where the source facts enter; they stop checking as soon as
   ExtractOptions is no longer a threading.local or push no longer restores in `finally`. *)

Lemma code_thread_local : thread_local facts_disc = true.
Proof. reflexivity. Qed.
Lemma code_restores_in_finally : restore_finally facts_disc = true.
Proof. reflexivity. Qed.
Lemma code_entry_points_push : SrcFacts.c13_entry_points_push = true.
Proof. reflexivity. Qed.
(* every Stack built by _extract.py owns a fresh frames list (no mutable default argument, no
   module-level list): the model's [CStub] observation "a frameless stub carrying only root"
   is an observation about ONE stack; without this fact stubs could share their list and stop
   being frameless once a consumer expands one of them in place *)
Lemma code_fresh_result_lists : SrcFacts.c13_fresh_result_lists = true.
Proof. reflexivity. Qed.

Definition code_noninterference := noninterference facts_disc code_thread_local.
Definition code_single_thread := equals_single_thread_run facts_disc code_thread_local.
Definition code_scoped := scoped facts_disc code_thread_local code_restores_in_finally.
Definition code_restored := restored facts_disc code_thread_local code_restores_in_finally.
Definition code_stub := stub facts_disc code_thread_local code_restores_in_finally.
Definition code_contexts_flag := contexts_flag facts_disc code_thread_local code_restores_in_finally.
Definition code_scoped_histories := scoped_histories facts_disc code_thread_local code_restores_in_finally.
Definition code_refuses_outside := refuses_outside facts_disc code_thread_local code_restores_in_finally.

(* ---------- examples: the hypotheses are met by non-trivial inputs ---------- *)

(* two threads with opposite options, interleaved operation by operation *)
Definition ex_progs : list prog := [wit_a; wit_b].
Definition ex_sched : list nat := [0; 1; 0; 0; 1; 1; 0; 1; 0; 1].

Example ex_scoped :
  length (flatten (nth 0 ex_progs PNil)) <= cnt ex_sched 0
  /\ length (flatten (nth 1 ex_progs PNil)) <= cnt ex_sched 1
  /\ run_progs facts_disc ex_progs ex_sched
     = [[ORead RCtx; OChild CFull; OChild CRefuse]; [ORead REmpty; OChild CStub; OChild CRefuse]].
Proof. vm_compute. repeat split; lia. Qed.

(* restored: depth 2, inner call left by exception, other thread in the middle of its own call *)
Definition ex_blk : prog := PExt (false, false) (PRead PNil) true PNil.
Definition ex_hists : list (list op) :=
  [ [Enter (true, true); Child true] ++ flatten ex_blk ++ [Child true; LeaveOk]; flatten wit_b ].
Example ex_restored :
  nth 0 ex_hists [] = [Enter (true, true); Child true] ++ flatten ex_blk ++ [Child true; LeaveOk]
  /\ cnt [0; 1; 0; 1] 0 = 2 /\ cnt [0; 1; 0; 1; 0; 1; 0; 0] 0 = 2 + length (flatten ex_blk)
  /\ cell_of facts_disc (run facts_disc (init ex_hists) [0; 1; 0; 1; 0; 1; 0; 0]) 0 = Some (true, true)
  /\ cell_of facts_disc (run facts_disc (init ex_hists) [0; 1; 0; 1; 0; 1; 0]) 0 = Some (false, false).
Proof. vm_compute. repeat split. Qed.

(* stub at depth 3 under (with_contexts, recurse) = (_, false), outer levels say recurse = true *)
Example ex_stub :
  let p := nest ([((true, true), false); ((false, true), true)] ++ [((true, false), false)]) (PChild true PNil) in
  length (flatten p) <= cnt [1; 0; 0; 1; 0; 0; 0; 1; 0; 0; 1; 1] 0
  /\ run_progs facts_disc [p; wit_a] [1; 0; 0; 1; 0; 0; 0; 1; 0; 0; 1; 1]
     = [[OChild CStub]; [ORead RCtx; OChild CFull; OChild CRefuse]].
Proof. vm_compute. split; [lia|reflexivity]. Qed.

Example ex_refuses :
  let p := papp (PExt (true, true) (PChild true PNil) true PNil) (PChild true (PFill (PChild true PNil) false PNil)) in
  length (flatten p) <= cnt [0; 0; 0; 0; 0; 0; 0] 0
  /\ run_progs facts_disc [p] [0; 0; 0; 0; 0; 0; 0] = [[OChild CFull; OChild CRefuse; OChild CStub]].
Proof. vm_compute. split; [lia|reflexivity]. Qed.

Example ex_balanced :
  forallb (balanced 0) ex_hists = true
  /\ balanced 0 [Enter (true, true); FillEnter; Child true; LeaveExc; SameEnter; Read; LeaveOk; LeaveOk; Child false] = true
  /\ balanced 0 [Enter (true, true); LeaveOk; LeaveOk] = false.
Proof. vm_compute. repeat split. Qed.

Example ex_schedules :
  length (schedules_of ex_progs) = 252
  /\ existsb (list_eqb Nat.eqb ex_sched) (schedules_of ex_progs) = true
  /\ (forall t, t < 2 -> cnt ex_sched t = length (flatten (nth t ex_progs PNil))).
Proof. repeat split; try (vm_compute; reflexivity). intros [|[|t]] H; try reflexivity. lia. Qed.
