(* M_TaskTree.v — executable model of the Trio glue of stackscope (_glue.glue_trio) together
   with the part of _extract.extract_iter / extract_child it relies on.  Definitions only;
   proofs are in P_TaskTree.v.

   World.  A Trio program that is completely parked is described as a tree:
     task   = root id + its coroutine chain, outermost frame first
     frame  = id + kind + the context managers active in it, outermost first, AS REPORTED BY
              THE PER-FRAME ANALYSIS (contexts_active_in_frame is the business of C01/C02; the
              theorems of P_TaskTree assume that this list agrees with Trio's own tables)
     ctx    = a nursery (id + child tasks in the order of Nursery.child_tasks) or something else
     kind   = what the customization tables of glue_trio do with the frame:
       KPlain            nothing registered
       KHidden           customize(hide=True)            Run.run, Run.unprotected_afn, ...
       KTrap wtr         customize(hide=True,prune=True) wait_task_rescheduled (wtr=true) & co
       KToThreadNF       to_thread.run_sync, worker thread not (yet) resolvable -> returns None
       KToThread tfs     to_thread.run_sync whose worker thread currently has the frames tfs
                         (callee of worker_fn ... innermost): StackSlice(inner, outer=previous)
       KFromHost         from_thread.run without trio_token  -> hide, return ()
       KFromSys run t    from_thread.run(trio_token=...) served by system task t (run = t is the
                         task that is calling extract()).  The glue looks t up by
                         `task.context is message.context`; Trio replaces task.context while the
                         task serves a re-entrant from_thread.run ([reentered]), in which case
                         nothing is found and the hook returns None (finding F14); otherwise it
                         hides the frame and returns t.coro
   The lookups the glue performs (threading.enumerate by name, sys._current_frames, the
   runner's system nursery by contextvars.Context identity) are "hook tables" already resolved
   in the kind.

   Queue discipline of extract_iter.  Unwrapping is eager, so when a frame is elaborated the
   whole remainder is queued with unwrap depths.  A suspended coroutine chain nests one level
   per await ([inc = true]: depths n, n+1, ...); a StackSlice (thread, or a running coroutine)
   yields all its frames at one depth ([inc = false]).  [walk] carries
     n   the natural depth of the head frame, d <= n its effective depth (the insert form
         re-queues next_inner at min(depth of the inserting frame, own depth)),
     pr  a pending PRUNE threshold: `while to_unwrap and to_unwrap[0][2] >= depth: popleft`
         is applied lazily, it ends at the first entry that is further out.
   and returns the frames produced plus the prune still pending at the end of the segment
   (it goes on into whatever follows the segment). *)
Require Import Base.

Inductive task := Task (root : nat) (fs : frames)
with frames := FNil | FCons (f : frame) (r : frames)
with frame := Frame (id : nat) (k : fkind) (cs : ctxs)
with fkind :=
  | KPlain | KHidden | KTrap (wtr : bool)
  | KToThreadNF | KToThread (tfs : frames)
  | KFromHost | KFromSys (running : bool) (t : task)
with ctxs := CNil | CCons (c : ctx) (r : ctxs)
with ctx := CNurs (nid : nat) (kids : tasks) | COther (cid : nat)
with tasks := TNil | TCons (t : task) (r : tasks).

(* list <-> mutual-list conversions (the generated case files use ordinary list notation) *)
Fixpoint fl (l : list frame) : frames := match l with [] => FNil | x :: r => FCons x (fl r) end.
Fixpoint cl (l : list ctx) : ctxs := match l with [] => CNil | x :: r => CCons x (cl r) end.
Fixpoint tl (l : list task) : tasks := match l with [] => TNil | x :: r => TCons x (tl r) end.
Fixpoint frames_list (fs : frames) : list frame :=
  match fs with FNil => [] | FCons f r => f :: frames_list r end.
Fixpoint ctxs_list (cs : ctxs) : list ctx :=
  match cs with CNil => [] | CCons c r => c :: ctxs_list r end.
Fixpoint tasks_list (ts : tasks) : list task :=
  match ts with TNil => [] | TCons t r => t :: tasks_list r end.

(* what extract() was called on *)
Inductive rootd := RTask (running : bool) (t : task) | RThread (tid : nat) (fs : frames).

(* ---- output: Stack / Frame / Context, abstracted *)
Inductive sroot := SRTask (r : nat) | SRThread (t : nat).
Inductive cobj := ONurs (n : nat) | OOther (c : nat).
Inductive stack := Stack (root : sroot) (frs : list fout)
with fout := FOut (id : nat) (hide : bool) (cx : list cout)
with cout := COut (o : cobj) (kids : list stack).

Definition task_root (t : task) : nat := match t with Task r _ => r end.
Definition task_frames (t : task) : frames := match t with Task _ fs => fs end.

(* `isinstance(next_inner, Frame) and next_inner.funcname == "wait_task_rescheduled"`.
   Approximation, documented in harness/c14.py: a to_thread frame that is the LAST entry of
   its segment sees next_inner = None here even if an enclosing segment continues (a
   to_thread.run_sync frame always has an awaitee or a callee, so this is not reachable). *)
Definition next_is_wtr (rest : frames) : bool :=
  match rest with FCons (Frame _ (KTrap true) _) _ => true | _ => false end.

(* is the task owning this coroutine chain currently serving a re-entrant (token-less)
   from_thread.run?  (= one of its to_thread.run_sync frames has a worker thread that sits in
   from_thread.run without token; Trio's Run.run then has swapped task.context) *)
Fixpoint has_from_host (fs : frames) : bool :=
  match fs with
  | FNil => false
  | FCons (Frame _ k _) r => (match k with KFromHost => true | _ => false end) || has_from_host r
  end.
Fixpoint reentered (fs : frames) : bool :=
  match fs with
  | FNil => false
  | FCons (Frame _ k _) r =>
      (match k with KToThread tfs => has_from_host tfs | _ => false end) || reentered r
  end.

Definition pruned (pr : option nat) (d : nat) : bool :=
  match pr with Some p => p <=? d | None => false end.

Definition next_depth (inc : bool) (n : nat) : nat := if inc then S n else n.

(* depth of the frames of `extract(task)`: task 0 -> coro 1 -> frame 2 (suspended) *)
Definition base_depth := 2.

Fixpoint walk (rc inc : bool) (n d : nat) (pr : option nat) (fs : frames) {struct fs}
  : list fout * option nat :=
  match fs with
  | FNil => ([], pr)
  | FCons f rest =>
    let n' := next_depth inc n in
    if pruned pr d then walk rc inc n' n' pr rest else
    match f with
    | Frame id k cs =>
      let cx := ext_ctxs rc cs in
      let cons1 (x : fout) (r : list fout * option nat) := (x :: fst r, snd r) in
      match k with
      | KPlain => cons1 (FOut id false cx) (walk rc inc n' n' None rest)
      | KHidden => cons1 (FOut id true cx) (walk rc inc n' n' None rest)
      | KTrap _ => cons1 (FOut id true cx) (walk rc inc n' n' (Some d) rest)
      | KToThreadNF => cons1 (FOut id false cx) (walk rc inc n' n' None rest)
      | KToThread tfs =>
          let r1 := walk rc false (S d) (S d) None tfs in
          let r2 := if next_is_wtr rest
                    then walk rc inc n' n' (Some d) rest           (* replace by the thread *)
                    else walk rc inc n' (Nat.min d n') (snd r1) rest (* insert before next_inner *)
          in (FOut id true cx :: fst r1 ++ fst r2, snd r2)
      | KFromHost => cons1 (FOut id true cx) (walk rc inc n' n' (Some d) rest)
      | KFromSys run t =>
          if reentered (task_frames t)
          then cons1 (FOut id false cx) (walk rc inc n' n' None rest)   (* lookup fails: None *)
          else
          let r1 := walk rc (negb run) (S d) (S d) None (task_frames t) in
          let r2 := walk rc inc n' n' (Some d) rest in
          (FOut id true cx :: fst r1 ++ fst r2, snd r2)
      end
    end
  end
(* fill_context on every context of a frame: elaborate_nursery sets obj to the Nursery and
   children to [extract_child(t, for_task=True) for t in nursery.child_tasks] *)
with ext_ctxs (rc : bool) (cs : ctxs) {struct cs} : list cout :=
  match cs with
  | CNil => []
  | CCons c r =>
    (match c with
     | CNurs nid kids => COut (ONurs nid) (ext_tasks rc kids)
     | COther cid => COut (OOther cid) []
     end) :: ext_ctxs rc r
  end
with ext_tasks (rc : bool) (ts : tasks) {struct ts} : list stack :=
  match ts with
  | TNil => []
  | TCons t r => ext_child rc t :: ext_tasks rc r
  end
(* extract_child(task, for_task=True): stub unless recurse_child_tasks *)
with ext_child (rc : bool) (t : task) {struct t} : stack :=
  match t with
  | Task r fs =>
    if rc then Stack (SRTask r) (fst (walk rc true base_depth base_depth None fs))
    else Stack (SRTask r) []
  end.

Definition frames_of (rc inc : bool) (fs : frames) : list fout :=
  fst (walk rc inc base_depth base_depth None fs).

(* extract(root, recurse_child_tasks=rc) *)
Definition extract (rc : bool) (r : rootd) : stack :=
  match r with
  | RTask run (Task r fs) => Stack (SRTask r) (frames_of rc (negb run) fs)
  | RThread tid fs => Stack (SRThread tid) (frames_of rc false fs)
  end.

(* ---- boolean equality on outputs *)
Definition sroot_eqb (a b : sroot) : bool :=
  match a, b with
  | SRTask x, SRTask y => x =? y
  | SRThread x, SRThread y => x =? y
  | _, _ => false
  end.
Definition cobj_eqb (a b : cobj) : bool :=
  match a, b with
  | ONurs x, ONurs y => x =? y
  | OOther x, OOther y => x =? y
  | _, _ => false
  end.

Section Leqb.
  Variable A : Type.
  Variable eq : A -> A -> bool.
  Fixpoint leqb (a b : list A) : bool :=
    match a, b with
    | [], [] => true
    | x :: a', y :: b' => eq x y && leqb a' b'
    | _, _ => false
    end.
End Leqb.
Arguments leqb {A} eq a b.

Fixpoint stack_eqb (a b : stack) {struct a} : bool :=
  match a, b with
  | Stack ra fa, Stack rb fb =>
    sroot_eqb ra rb &&
    leqb (fun x y => match x, y with FOut i h c, FOut i' h' c' =>
            (i =? i') && Bool.eqb h h' &&
            leqb (fun u v => match u, v with COut o k, COut o' k' =>
                    cobj_eqb o o' && leqb stack_eqb k k' end) c c' end) fa fb
  end.

(* ---- the specification side, executable: Trio's own tables
        nurs_of : task root id  -> ids of task.child_nurseries, in order
        kids_of : nursery id    -> root ids of nursery.child_tasks, in order
   [iso_b] = the extracted tree shows, for every task stack in it, exactly the open nurseries of
   that task (each once, in nesting order) and under each exactly its child tasks (matched by
   root, in order), recursively; non-nursery contexts have no children. *)
Definition table := list (nat * list nat).
Definition tlookup (t : table) (k : nat) : list nat := lookup [] t k.

Definition nursery_ids (fs : list fout) : list nat :=
  flat_map (fun f => match f with FOut _ _ cx =>
    flat_map (fun c => match c with COut (ONurs n) _ => [n] | _ => [] end) cx end) fs.

Definition root_id (s : stack) : option nat :=
  match s with Stack (SRTask r) _ => Some r | _ => None end.

Fixpoint iso_b (nurs_of kids_of : table) (s : stack) {struct s} : bool :=
  match s with
  | Stack r fs =>
    (match r with
     | SRTask r => list_eqb Nat.eqb (nursery_ids fs) (tlookup nurs_of r)
     | SRThread _ => false
     end) &&
    forallb (fun f => match f with FOut _ _ cx =>
      forallb (fun c => match c with COut o k =>
        (match o with
         | ONurs n => list_eqb (option_eqb Nat.eqb) (map root_id k) (map Some (tlookup kids_of n))
         | OOther _ => match k with [] => true | _ => false end
         end) && forallb (iso_b nurs_of kids_of) k end) cx end) fs
  end.

Fixpoint frames_len (fs : frames) : nat := match fs with FNil => 0 | FCons _ r => S (frames_len r) end.

(* ---- the runaway-unwrap guard of extract_iter over one unwrapping round.
   A round unwraps a chain of links outside in; [true] = unwrapping the link yields a frame and
   the next link (coroutine, generator), [false] = it yields only the next link (Task -> coro).
   Every unwrap_stackitem() call increments loops_since_progress and the guard trips when it
   exceeds g; reaching a Frame resets the counter iff [reset] (the code: it does — regenerated
   as SrcFacts.c14_guard_reset_on_frame).  Result true = "unwrapped more than g times". *)
Fixpoint guard_run (g : nat) (reset : bool) (cnt : nat) (chain : list bool) : bool :=
  match chain with
  | [] => false
  | yields :: r =>
      if g <? S cnt then true
      else guard_run g reset (if yields && reset then 0 else S cnt) r
  end.

Definition unwrap_guard_const := 100.
(* the chain of a suspended task: Task, then one frame-yielding link per frame *)
Definition task_chain (n : nat) : list bool := false :: repeat true n.
Definition root_chain (r : rootd) : list bool :=
  match r with
  | RTask false (Task _ fs) => task_chain (frames_len fs)
  | _ => [false; false]
  end.

(* ---- case type of the generated files *)
Record tcase := {
  tc_root : rootd;          (* the parked world, abstracted from ground truth by harness/c14.py *)
  tc_rc : bool;             (* recurse_child_tasks *)
  tc_obs : stack;           (* what the real extract() returned, abstracted *)
  tc_nurs : table;          (* Trio's task.child_nurseries *)
  tc_kids : table;          (* Trio's nursery.child_tasks *)
  tc_iso : bool;            (* recurse=true and the root is a task: check iso_b on tc_obs *)
  tc_clean : bool           (* observed: Stack.error is None and Stack.leaf is None, at every level *)
}.

Definition case_ok (k : tcase) : bool :=
  stack_eqb (extract (tc_rc k) (tc_root k)) (tc_obs k) &&
  (if tc_iso k then iso_b (tc_nurs k) (tc_kids k) (tc_obs k) else true) &&
  (* no error: the guard is not reached, however long the root's chain *)
  Bool.eqb (tc_clean k) (negb (guard_run unwrap_guard_const true 0 (root_chain (tc_root k)))).

Definition mismatches (cases : list tcase) : list nat := false_indices 0 (map case_ok cases).

(* non-trivial = the model's result has a nursery context with a child, or a frame that came in
   through a thread hop (more frames out than the root segment has) *)
Definition has_child (s : stack) : bool :=
  match s with Stack _ fs =>
    existsb (fun f => match f with FOut _ _ cx =>
      existsb (fun c => match c with COut _ (_ :: _) => true | _ => false end) cx end) fs end.
Definition root_len (r : rootd) : nat :=
  match r with RTask _ (Task _ fs) => frames_len fs | RThread _ fs => frames_len fs end.
Definition nontrivial (k : tcase) : bool :=
  let s := extract (tc_rc k) (tc_root k) in
  has_child s || (match s with Stack _ fs => root_len (tc_root k) <? length fs end).
Definition count_nontrivial (cases : list tcase) : nat := count_true (map nontrivial cases).
