(* P_BlockStack.v — proofs about M_BlockStack: certificate soundness for the block-stack machine
   and soundness of the model of currently_exiting_context's block-stack walk (CPython 3.9/3.10). *)
Require Import Base M_BlockStack.

Lemma st_eqb_eq a b : st_eqb a b = true -> a = b.
Proof. apply list_eqb_eq. intros x y H. apply Nat.eqb_eq. exact H. Qed.

Lemma edge_ok_spec ce s : edge_ok ce s = true -> cat ce (fst s) = Some (snd s).
Proof.
  unfold edge_ok. destruct (cat ce (fst s)) as [st|]; [|discriminate].
  intros H. apply st_eqb_eq in H. congruence.
Qed.

Lemma cat_some_lt ce p st : cat ce p = Some st -> p < length ce.
Proof.
  unfold cat. intros H. destruct (Nat.lt_ge_cases p (length ce)) as [L|G]; [exact L|].
  rewrite nth_overflow in H by exact G. discriminate.
Qed.

(* every execution of the machine stays inside the certificate *)
Theorem cert_sound c ce s :
  check_bcert c ce = true -> breach c s -> cat ce (fst s) = Some (snd s).
Proof.
  unfold check_bcert. intros H R.
  apply andb_true_iff in H as [H Hall]. apply andb_true_iff in H as [Hlen H0].
  apply Nat.eqb_eq in Hlen.
  induction R as [|s s' R IH St].
  - apply edge_ok_spec in H0. exact H0.
  - rewrite forallb_forall in Hall.
    assert (Hu : forall p st, cat ce p = Some st -> forall e, In e (nsuccs (bat c p) p st ++ esuccs st) -> edge_ok ce e = true).
    { intros p st Hc e He. pose proof (cat_some_lt _ _ _ Hc) as Lt. rewrite Hlen in Lt.
      specialize (Hall p). rewrite in_seq in Hall. specialize (Hall ltac:(lia)).
      unfold unit_ok in Hall. rewrite Hc in Hall. apply andb_true_iff in Hall as [Hall _].
      rewrite forallb_forall in Hall. apply Hall. exact He. }
    destruct St as [p st s' Hin | p st s' Hin]; simpl in IH; apply edge_ok_spec;
      apply (Hu p st IH); apply in_or_app; [left|right]; exact Hin.
Qed.

(* ------------------------------------------------------------------ EXTENDED_ARG runs *)
Lemma skipn_cons_nth (c : bcode) p : p < length c -> skipn p c = bat c p :: skipn (S p) c.
Proof.
  revert p; induction c as [|x c IH]; intros p L; simpl in L; [lia|].
  destruct p as [|p]; [reflexivity|]. simpl. unfold bat in *. simpl. apply IH. lia.
Qed.

Lemma ext_steps c st k : forall p, ext_run (skipn p c) = k -> breach c (p, st) -> breach c (p + k, st).
Proof.
  induction k as [|k IH]; intros p E R.
  - rewrite Nat.add_0_r. exact R.
  - destruct (Nat.lt_ge_cases p (length c)) as [L|G].
    + rewrite (skipn_cons_nth c p L) in E. simpl in E.
      destruct (bat c p) eqn:B; try discriminate.
      injection E as E. replace (p + S k) with (S p + k) by lia. apply IH; [exact E|].
      eapply BR_step; [exact R|]. apply BS_normal. rewrite B. simpl. left. f_equal. lia.
    + rewrite skipn_all2 in E by exact G. discriminate.
Qed.

Lemma skip_ext_reach c p st : breach c (p, st) -> breach c (skip_ext c p, st).
Proof. intros R. unfold skip_ext. apply ext_steps; [reflexivity|exact R]. Qed.

(* ------------------------------------------------------------------ the walk only visits reachable states *)
Definition all_reach (c : bcode) (todo : list (nat * list nat)) : Prop :=
  forall it, In it todo -> breach c it.

Lemma all_reach_app c a b : all_reach c a -> all_reach c b -> all_reach c (a ++ b).
Proof. intros A B it H. apply in_app_or in H as [H|H]; auto. Qed.

Lemma last_opt_nonempty {A} (l : list A) : l <> [] -> exists x, last_opt l = Some x.
Proof.
  intros H. unfold last_opt. destruct (rev l) as [|x r] eqn:E; [|eauto].
  apply (f_equal (@rev A)) in E. rewrite rev_involutive in E. simpl in E. contradiction.
Qed.

Lemma jumps_reach c p st :
  breach c (p, st) -> all_reach c (map (fun t => (t, st)) (jumps (bat c p))).
Proof.
  intros R it H. destruct (bat c p) eqn:B; simpl in H; try contradiction;
    destruct H as [H|[]]; subst it.
  - (* SETUP: the handler is entered with the block already popped: push, then raise *)
    eapply BR_step; [eapply BR_step; [exact R|]|].
    + apply BS_normal. rewrite B. simpl. left. reflexivity.
    + apply BS_raise. unfold esuccs, last_opt. rewrite rev_unit. simpl.
      rewrite removelast_last. left. reflexivity.
  - eapply BR_step; [exact R|]. apply BS_normal. rewrite B. simpl. left. reflexivity.
  - eapply BR_step; [exact R|]. apply BS_normal. rewrite B. simpl. left. reflexivity.
  - eapply BR_step; [exact R|]. apply BS_normal. rewrite B. simpl. left. reflexivity.
  - eapply BR_step; [exact R|]. apply BS_normal. rewrite B. simpl. left. reflexivity.
Qed.

Lemma walk_found c pop : forall fuel todo seen h,
  all_reach c todo -> walk fuel c pop todo seen = WFound h ->
  exists st, breach c (pop, st) /\ last_opt st = Some h /\ bat c pop = BPopBlock.
Proof.
  induction fuel as [|f IH]; intros todo seen h A W; simpl in W; [discriminate|].
  destruct todo as [|[p0 st] rest]; [discriminate|].
  assert (Arest : all_reach c rest) by (intros it H; apply A; right; exact H).
  destruct (bit_get seen p0); [eapply IH; eauto|].
  destruct (length c <=? p0); [discriminate|].
  destruct (length c <=? skip_ext c p0); [discriminate|].
  assert (R : breach c (skip_ext c p0, st)) by (apply skip_ext_reach, A; left; reflexivity).
  set (p := skip_ext c p0) in *.
  pose proof (jumps_reach c p st R) as J.
  destruct (is_pop_block (bat c p)) eqn:PB.
  - destruct (bat c p) eqn:B; try discriminate. clear PB.
    destruct (p =? pop) eqn:E.
    + apply Nat.eqb_eq in E. subst pop. destruct (last_opt st) as [h'|] eqn:L; [|discriminate].
      injection W as W. subst h'. exists st. auto.
    + destruct st as [|x st']; [discriminate|].
      eapply IH; [|exact W]. apply all_reach_app; [exact Arest|]. apply all_reach_app; [exact J|].
      intros it [H|[]]. subst it. eapply BR_step; [exact R|]. apply BS_normal. rewrite B. simpl. left. reflexivity.
  - eapply IH; [|exact W]. apply all_reach_app; [exact Arest|]. apply all_reach_app; [exact J|].
    destruct (no_fall (bat c p)) eqn:NF; [intros it []|].
    intros it [H|[]]. subst it. eapply BR_step; [exact R|]. apply BS_normal.
    destruct (bat c p) eqn:B; simpl in *; try discriminate; auto.
Qed.

(* The block the walk names is the block that POP_BLOCK pops on EVERY execution that reaches it. *)
Theorem walk_sound c ce pop fuel seen h :
  check_bcert c ce = true ->
  walk fuel c pop [(0, [])] seen = WFound h ->
  bat c pop = BPopBlock /\
  (exists st, breach c (pop, st)) /\
  forall st, breach c (pop, st) -> last_opt st = Some h.
Proof.
  intros Hc W.
  destruct (walk_found c pop fuel [(0, [])] seen h) as (st0 & R0 & L0 & B); [|exact W|].
  { intros it [H|[]]. subst it. constructor. }
  split; [exact B|]. split; [eauto|].
  intros st R. pose proof (cert_sound c ce _ Hc R0) as C0. pose proof (cert_sound c ce _ Hc R) as C1.
  simpl in *. congruence.
Qed.

Theorem exiting310_sound c ce lasti a h :
  check_bcert c ce = true ->
  exiting310 c lasti = EExit a h ->
  scan c lasti = ScHandler a h \/
  exists pop, scan c lasti = ScPop a pop /\ bat c pop = BPopBlock /\
              (exists st, breach c (pop, st)) /\
              forall st, breach c (pop, st) -> last_opt st = Some h.
Proof.
  intros Hc E. unfold exiting310 in E. destruct (scan c lasti) as [| |a' h'|a' pop] eqn:S; try discriminate.
  - injection E as -> ->. left. reflexivity.
  - destruct (walk (walk_fuel c) c pop [(0, [])] []) eqn:W; try discriminate.
    injection E as -> ->. right. exists pop. split; [reflexivity|].
    eapply walk_sound; eauto.
Qed.

(* a warning / crash from the walk means the machine itself never reaches that POP_BLOCK with an
   open block ... (completeness of the walk is not proved; the runtime oracle flags every warning
   on a unit the certificate marks reachable) *)

(* ------------------------------------------------------------------ analyze_with_blocks *)
Lemma with_info_spec c h a :
  In (h, a) (with_info c) <-> exists p, p < length c /\ bat c p = BSetup (if a then WAsyncWith else WWith) h.
Proof.
  induction c as [|x c IH].
  - simpl. split; [intros []|intros (p & L & _); simpl in L; lia].
  - assert (Shift : (exists p, p < length c /\ bat c p = BSetup (if a then WAsyncWith else WWith) h) ->
                    exists p, p < length (x :: c) /\ bat (x :: c) p = BSetup (if a then WAsyncWith else WWith) h).
    { intros (p & L & B). exists (S p). split; [simpl; lia|exact B]. }
    assert (Unshift : forall p, p < length (x :: c) -> bat (x :: c) p = BSetup (if a then WAsyncWith else WWith) h ->
                      (p = 0 /\ x = BSetup (if a then WAsyncWith else WWith) h) \/
                      exists q, q < length c /\ bat c q = BSetup (if a then WAsyncWith else WWith) h).
    { intros [|q] L B; [left; split; [reflexivity|exact B]|right; exists q; split; [simpl in L; lia|exact B]]. }
    split.
    + intros H. destruct x as [ |k t| | | | | | | | | | | | | | ]; try (apply Shift, IH; exact H).
      destruct k; simpl in H; try (apply Shift, IH; exact H);
        (destruct H as [H|H]; [injection H as -> <-; exists 0; split; [simpl; lia|reflexivity]|apply Shift, IH; exact H]).
    + intros (p & L & B). destruct (Unshift p L B) as [[-> ->]|Hq].
      * destruct a; simpl; left; reflexivity.
      * apply IH in Hq. destruct x as [ |k t| | | | | | | | | | | | | | ]; try exact Hq.
        destruct k; simpl; auto.
Qed.

(* ------------------------------------------------------------------ non-vacuity *)
Definition ex_code : bcode :=
  [BSetup WWith 9; BOther; BPopBlock; BLoadConst true; BDupTop; BDupTop; BCallFunction; BOther; BStop;
   BWithExceptStart; BStop].
Definition ex_cert : bcert :=
  [Some []; Some [9]; Some [9]; Some []; Some []; Some []; Some []; Some []; Some []; Some []; Some []].

Example ex_cert_checks : check_bcert ex_code ex_cert = true.
Proof. vm_compute. reflexivity. Qed.
Example ex_exit_call : exiting310 ex_code 6 = EExit false 9.
Proof. vm_compute. reflexivity. Qed.
Example ex_handler : exiting310 ex_code 9 = EExit false 9.
Proof. vm_compute. reflexivity. Qed.
Example ex_body : exiting310 ex_code 1 = ENone.
Proof. vm_compute. reflexivity. Qed.

(* ------------------------------------------------------------------ termination of the walk *)
(* The `while todo:` loop of the code terminates because every iteration either discards an item
   whose offset was seen or marks a new offset seen and appends at most two items.  In the model:
   the fuel handed to [walk] by [exiting310] is never exhausted. *)
Fixpoint unseen (seen : list bool) (n : nat) : nat :=
  match n with
  | 0 => 0
  | S n' => match seen with
            | [] => S n'
            | b :: r => (if b then 0 else 1) + unseen r n'
            end
  end.

Lemma unseen_nil n : unseen [] n = n.
Proof. destruct n; reflexivity. Qed.

Lemma unseen_cons b r n : unseen (b :: r) (S n) = (if b then 0 else 1) + unseen r n.
Proof. reflexivity. Qed.

Lemma unseen_set : forall p seen n, p < n -> bit_get seen p = false ->
  unseen (bit_set seen p) n + 1 = unseen seen n.
Proof.
  induction p as [|p IH]; intros seen n L G; destruct n as [|n]; try lia.
  - destruct seen as [|b r]; cbn [bit_set bit_get] in *.
    + rewrite unseen_cons, !unseen_nil. lia.
    + subst b. rewrite !unseen_cons. lia.
  - destruct seen as [|b r]; cbn [bit_set bit_get] in *.
    + assert (G0 : bit_get [] p = false) by (destruct p; reflexivity).
      specialize (IH [] n ltac:(lia) G0). rewrite unseen_cons, !unseen_nil in *. lia.
    + specialize (IH r n ltac:(lia) G). rewrite !unseen_cons. lia.
Qed.

Lemma jumps_le1 i : length (jumps i) <= 1.
Proof. destruct i; simpl; lia. Qed.

Lemma walk_fuel_enough c pop : forall fuel todo seen,
  length todo + 2 * unseen seen (length c) < fuel -> walk fuel c pop todo seen <> WOutOfFuel.
Proof.
  induction fuel as [|f IH]; intros todo seen M; [lia|]. simpl.
  destruct todo as [|[p0 st] rest]; [discriminate|]. simpl in M.
  destruct (bit_get seen p0) eqn:G; [apply IH; lia|].
  destruct (length c <=? p0) eqn:L0; [discriminate|]. apply Nat.leb_gt in L0.
  pose proof (unseen_set p0 seen (length c) L0 G) as U.
  destruct (length c <=? skip_ext c p0); [discriminate|].
  set (i := bat c (skip_ext c p0)).
  pose proof (jumps_le1 i) as J.
  destruct (is_pop_block i).
  - destruct (skip_ext c p0 =? pop).
    + destruct (last_opt _); discriminate.
    + destruct (match i with BSetup _ t => st ++ [t] | _ => st end) as [|x l]; [discriminate|].
      apply IH. rewrite !app_length, map_length. simpl. lia.
  - apply IH. rewrite !app_length, map_length. destruct (no_fall i); simpl; lia.
Qed.

Theorem exiting310_total c lasti : exiting310 c lasti <> EFuel.
Proof.
  unfold exiting310. destruct (scan c lasti); try discriminate.
  destruct (walk (walk_fuel c) c pop [(0, [])] []) eqn:W; try discriminate.
  exfalso. revert W. apply walk_fuel_enough. rewrite unseen_nil. unfold walk_fuel. simpl. lia.
Qed.

(* ------------------------------------------------------------------ the walk does not crash on certified code *)
Lemma cert_pop_nonempty c ce p st :
  check_bcert c ce = true -> cat ce p = Some st -> bat c p = BPopBlock -> st <> [].
Proof.
  unfold check_bcert. intros H Hc B. apply andb_true_iff in H as [H Hall]. apply andb_true_iff in H as [Hlen _].
  apply Nat.eqb_eq in Hlen. pose proof (cat_some_lt _ _ _ Hc) as Lt. rewrite Hlen in Lt.
  rewrite forallb_forall in Hall. specialize (Hall p). rewrite in_seq in Hall. specialize (Hall ltac:(lia)).
  unfold unit_ok in Hall. rewrite Hc, B in Hall. apply andb_true_iff in Hall as [_ Hall].
  intros ->. simpl in Hall. discriminate.
Qed.

Lemma walk_no_crash c ce pop : check_bcert c ce = true -> forall fuel todo seen,
  all_reach c todo -> walk fuel c pop todo seen <> WCrash.
Proof.
  intros Hc. assert (Hlen : length ce = length c).
  { unfold check_bcert in Hc. apply andb_true_iff in Hc as [H _]. apply andb_true_iff in H as [H _].
    apply Nat.eqb_eq. exact H. }
  induction fuel as [|f IH]; intros todo seen A; simpl; [discriminate|].
  destruct todo as [|[p0 st] rest]; [discriminate|].
  assert (Arest : all_reach c rest) by (intros it H; apply A; right; exact H).
  destruct (bit_get seen p0); [apply IH; exact Arest|].
  assert (R0 : breach c (p0, st)) by (apply A; left; reflexivity).
  destruct (length c <=? p0) eqn:L0.
  { apply Nat.leb_le in L0. pose proof (cat_some_lt _ _ _ (cert_sound c ce _ Hc R0)) as Lt. simpl in Lt. lia. }
  assert (R : breach c (skip_ext c p0, st)) by (apply skip_ext_reach; exact R0).
  destruct (length c <=? skip_ext c p0) eqn:L1.
  { apply Nat.leb_le in L1. pose proof (cat_some_lt _ _ _ (cert_sound c ce _ Hc R)) as Lt. simpl in Lt. lia. }
  set (p := skip_ext c p0) in *.
  pose proof (jumps_reach c p st R) as J.
  destruct (is_pop_block (bat c p)) eqn:PB.
  - destruct (bat c p) eqn:B; try discriminate. clear PB.
    pose proof (cert_pop_nonempty c ce p st Hc (cert_sound c ce _ Hc R) B) as NE.
    destruct (p =? pop).
    + destruct (last_opt_nonempty st NE) as [h Lh]. rewrite Lh. discriminate.
    + destruct st as [|x st']; [contradiction|].
      apply IH. apply all_reach_app; [exact Arest|]. apply all_reach_app; [exact J|].
      intros it [H|[]]. subst it. eapply BR_step; [exact R|]. apply BS_normal. rewrite B. simpl. left. reflexivity.
  - apply IH. apply all_reach_app; [exact Arest|]. apply all_reach_app; [exact J|].
    destruct (no_fall (bat c p)) eqn:NF; [intros it []|].
    intros it [H|[]]. subst it. eapply BR_step; [exact R|]. apply BS_normal.
    destruct (bat c p) eqn:B; simpl in *; try discriminate; auto.
Qed.
