(* P_Ref.v — soundness of the referents-mode (fallback) analysis on checked code objects:
   an ordered over-approximation of the ground truth (property C20). *)
Require Import Base M_Bytecode M_Analysis M_WithMachine M_Cert P_Cert.

Inductive Subseq {A} : list A -> list A -> Prop :=
  | sub_nil l : Subseq [] l
  | sub_take x a b : Subseq a b -> Subseq (x :: a) (x :: b)
  | sub_skip x a b : Subseq a b -> Subseq a (x :: b).

Lemma subseqb_Subseq a b : subseqb a b = true -> Subseq a b.
Proof.
  revert a; induction b as [|y b IH]; intros [|x a] H; cbn in H; try discriminate; try (apply sub_nil).
  destruct (x =? y) eqn:E.
  - apply Nat.eqb_eq in E. subst. constructor. auto.
  - constructor. auto.
Qed.

Lemma mem_nat_In x l : mem_nat x l = true -> In x l.
Proof. unfold mem_nat. intros H. apply existsb_exists in H as (y & Hy & E). apply Nat.eqb_eq in E. subst. exact Hy. Qed.

Lemma nodupb_NoDup l : nodupb l = true -> NoDup l.
Proof.
  induction l as [|x l IH]; cbn; intros H; constructor; apply andb_true_iff in H as [H1 H2]; auto.
  apply negb_true_iff in H1. apply mem_nat_false. exact H1.
Qed.

(* a subsequence relation between projections lifts to richer keys that the projection determines *)
Lemma Subseq_lift {X Y K} (pa : X -> nat) (pb : Y -> nat) (ka : X -> K) (kb : Y -> K) :
  forall (B : list Y) (A : list X),
  Subseq (map pa A) (map pb B) ->
  (forall a b, In a A -> In b B -> pa a = pb b -> ka a = kb b) ->
  Subseq (map ka A) (map kb B).
Proof.
  induction B as [|b B IH]; intros A H Hk.
  - destruct A; [constructor|]. inversion H.
  - destruct A as [|a A]; [constructor|]. cbn [map] in *. inversion H; subst.
    + rewrite (Hk a b (or_introl eq_refl) (or_introl eq_refl)) by congruence.
      constructor. apply IH; [assumption|]. intros; apply Hk; auto; right; assumption.
    + constructor. apply (IH (a :: A)); [assumption|]. intros; apply Hk; auto; right; assumption.
Qed.

Section RefSound.

(* what property C20 demands of the referents-mode answer [R] for ground truth [tr] *)
Definition ref_sound {I} (tr : list (tent I)) (R : list (refv I)) : Prop :=
  let N := filter (fun x => negb (r_exiting x)) R in
  (* every truly active manager, in order, with the correct obj and is_async *)
  Subseq (map (fun e => (Some (t_inst e), t_async e)) (filter is_active tr))
         (map (fun x => (r_obj x, r_async x)) N)
  (* every entry is a manager of this frame's truth (so an entry beyond the active ones can only
     be one this frame is currently entering or exiting), each at most once *)
  /\ (forall x, In x N -> exists e, In e tr /\ t_site e = r_site x
                                   /\ r_obj x = Some (t_inst e) /\ r_async x = t_async e)
  /\ NoDup (map r_site N) /\ NoDup (map t_site tr)
  (* an is_exiting entry exactly when an exit call is in progress; it comes last, once, with
     that manager's is_async *)
  /\ ((exists e, In e tr /\ t_phase e = Exiting) <-> (exists x, In x R /\ r_exiting x = true))
  /\ (forall x, In x R -> r_exiting x = true ->
        R = N ++ [x] /\ exists e, In e tr /\ t_phase e = Exiting /\ r_async x = t_async e).

Lemma exits_map {I J} (f : I -> J) (st : list (val I)) :
  exits_on_stack (map (vmap f) st) = map (fun x => (fst x, f (snd x))) (exits_on_stack st).
Proof.
  unfold exits_on_stack. rewrite <- map_rev. induction (rev st) as [|v l IH]; [reflexivity|].
  cbn [map flat_map]. rewrite IH, map_app. f_equal. destruct v; reflexivity.
Qed.

Lemma exits_in_tags {I} (st : list (val I)) x : In x (exits_on_stack st) -> In x (tags st).
Proof.
  unfold exits_on_stack, tags. intros H. apply in_flat_map in H as (v & Hv & Hx).
  apply in_flat_map. exists v. split; [apply in_rev; exact Hv|]. destruct v; cbn in *; tauto.
Qed.

Lemma filter_active_map {I J} (f : I -> J) (tr : list (tent I)) :
  map t_site (filter is_active (map (tmap f) tr)) = map t_site (filter is_active tr).
Proof. rewrite active_map, map_map. reflexivity. Qed.

Lemma filter_exiting_map {I J} (f : I -> J) (tr : list (tent I)) :
  filter is_exiting_ph (map (tmap f) tr) = map (tmap f) (filter is_exiting_ph tr).
Proof. rewrite filter_map_comm. reflexivity. Qed.

Lemma filter_mk {X} (mkN : X -> refv nat) (E : list X) tl :
  (forall x, r_exiting (mkN x) = false) -> (forall y, In y tl -> r_exiting y = true) ->
  filter (fun x : refv nat => negb (r_exiting x)) (map mkN E ++ tl) = map mkN E.
Proof.
  intros Hmk Htl. rewrite filter_app. replace (filter _ tl) with (@nil (refv nat)).
  - rewrite app_nil_r. induction E as [|x E' IH]; [reflexivity|]. cbn. rewrite Hmk. cbn. f_equal. exact IH.
  - symmetry. induction tl as [|y tl IH]; [reflexivity|]. cbn. rewrite (Htl y (or_introl eq_refl)). cbn.
    apply IH. intros; apply Htl; right; assumption.
Qed.

Theorem referents_sound v c t ct : checkk v KRef c t ct = true ->
  forall s, reach v c t s ->
  forall lasti st tr, In (false, lasti, st, tr) (obs c s) ->
  ref_sound tr (referents v c t lasti st).
Proof.
  intros Hc s Hr l st tr Hin.
  pose proof (obs_checked _ _ _ _ _ Hc _ Hr _ Hin) as Hk. cbn [omap obs_check orb ref_ok] in Hk.
  rewrite exits_map, map_map in Hk. cbn [fst] in Hk.
  rewrite filter_active_map, filter_exiting_map, map_map in Hk. cbn [tmap t_site] in Hk.
  apply andb_true_iff in Hk as [Hk H6]. apply andb_true_iff in Hk as [Hk H5].
  apply andb_true_iff in Hk as [Hk H4]. apply andb_true_iff in Hk as [Hk H3].
  apply andb_true_iff in Hk as [H1 H2].
  apply subseqb_Subseq in H1. apply nodupb_NoDup in H3. apply nodupb_NoDup in H4.
  rewrite forallb_forall in H2.
  rewrite forallb_map, forallb_forall in H5. cbn [tmap t_async t_site] in H5.
  (* instances: a site on the stack and in the truth carry the same manager *)
  destruct (obs_ids _ _ _ _ _ _ Hin) as [Hst Htr].
  pose proof (inv_reach _ _ _ _ _ Hc _ Hr) as HI.
  assert (Hinst : forall x e, In x (exits_on_stack st) -> In e tr -> t_site e = fst x -> t_inst e = snd x).
  { intros [a i] e Hx He Hs. cbn in Hs |- *. eapply HI.
    - unfold ids. apply in_or_app. right. apply Htr.
      apply (in_map (fun e => (t_site e, t_inst e))) in He. rewrite Hs in He. exact He.
    - unfold ids. apply in_or_app. left. apply Hst. apply exits_in_tags. exact Hx. }
  assert (Hasync : forall e, In e tr -> t_async e = site_async c (t_site e)).
  { intros e He. apply Bool.eqb_prop. apply H5. exact He. }
  (* shape of the answer *)
  unfold referents.
  set (E := exits_on_stack st) in *.
  set (mkN := fun x : nat * nat => {| r_site := fst x; r_obj := Some (snd x);
                                       r_async := site_async c (fst x); r_exiting := false |}).
  assert (HfN : forall tl, (forall y, In y tl -> r_exiting y = true) ->
                filter (fun x : refv nat => negb (r_exiting x)) (map mkN E ++ tl) = map mkN E)
    by (intros tl Htl; apply filter_mk; [reflexivity|exact Htl]).
  assert (Hcore :
    Subseq (map (fun e => (Some (t_inst e), t_async e)) (filter is_active tr))
           (map (fun x => (r_obj x, r_async x)) (map mkN E))
    /\ (forall x, In x (map mkN E) -> exists e, In e tr /\ t_site e = r_site x
                                   /\ r_obj x = Some (t_inst e) /\ r_async x = t_async e)
    /\ NoDup (map r_site (map mkN E)) /\ NoDup (map t_site tr)).
  { repeat split.
    - rewrite map_map. cbn [mkN r_obj r_async].
      apply (Subseq_lift t_site fst); [exact H1|].
      intros e x He Hx Hs. apply filter_In in He as [He _].
      rewrite (Hinst x e Hx He Hs), (Hasync e He), Hs. reflexivity.
    - intros x Hx. apply in_map_iff in Hx as (y & <- & Hy). cbn [mkN r_site r_obj r_async].
      assert (Hm : In (fst y) (map t_site tr)) by (apply mem_nat_In, H2, in_map, Hy).
      apply in_map_iff in Hm as (e & Hs & He). exists e. repeat split; auto.
      + rewrite (Hinst y e Hy He Hs). reflexivity.
      + rewrite (Hasync e He), Hs. reflexivity.
    - rewrite map_map. cbn [mkN r_site]. exact H3.
    - exact H4. }
  destruct Hcore as (C1 & C2 & C3 & C4).
  unfold ref_sound.
  destruct (exiting v c t l) as [|asy h|] eqn:Eex.
  - (* no exit in progress *)
    destruct (filter is_exiting_ph tr) as [|e0 r0] eqn:Ef; [|discriminate].
    rewrite (HfN []) by (intros y []). rewrite app_nil_r.
    split; [exact C1|]. split; [exact C2|]. split; [exact C3|]. split; [exact C4|]. split; [split|].
    + intros (e & He & Hp). exfalso.
      assert (Hf : In e (filter is_exiting_ph tr))
        by (apply filter_In; split; [exact He|unfold is_exiting_ph; rewrite Hp; reflexivity]).
      rewrite Ef in Hf. destruct Hf.
    + intros (x & Hx & Hex). apply in_map_iff in Hx as (y & <- & _). discriminate.
    + intros x Hx Hex. apply in_map_iff in Hx as (y & <- & _). discriminate.
  - (* an exit is in progress: exactly one truth entry is exiting *)
    destruct (filter is_exiting_ph tr) as [|e0 [|e1 r0]] eqn:Ef; try discriminate.
    apply Bool.eqb_prop in H6. cbn [map tmap t_async] in H6.
    assert (He0 : In e0 tr /\ t_phase e0 = Exiting).
    { assert (Hf : In e0 (filter is_exiting_ph tr)) by (rewrite Ef; left; reflexivity).
      apply filter_In in Hf as [Hf Hp]. split; [exact Hf|]. unfold is_exiting_ph in Hp.
      destruct (t_phase e0); try discriminate; reflexivity. }
    set (mark := {| r_site := 0; r_obj := None; r_async := asy; r_exiting := true |}).
    rewrite (HfN [mark]) by (intros y [<-|[]]; reflexivity).
    split; [exact C1|]. split; [exact C2|]. split; [exact C3|]. split; [exact C4|]. split; [split|].
    + intros _. exists mark. split; [apply in_or_app; right; left; reflexivity|reflexivity].
    + intros _. exists e0. exact He0.
    + intros x Hx Hex. apply in_app_or in Hx as [Hx|[<-|[]]].
      * apply in_map_iff in Hx as (y & <- & _). discriminate.
      * split; [reflexivity|]. exists e0. destruct He0. repeat split; auto.
  - discriminate.
Qed.
Print Assumptions referents_sound.
End RefSound.

(* ---- failure of the trickery branch only warns ---- *)
Lemma caf_never_raises {I} v enabled c t running lasti (st : list (val I)) :
  contexts_active v true enabled c t running lasti st <> CafRaise.
Proof.
  unfold contexts_active. destruct enabled; [|discriminate].
  destruct (trickery v c t running lasti st); try discriminate.
  destruct (with_info v c t); [|discriminate]. destruct (blocks t lasti); [|discriminate].
  destruct (objs_of _ _ _); discriminate.
Qed.

Lemma caf_failure_falls_back {I} v c t running lasti (st : list (val I)) :
  trickery v c t running lasti st = TFail ->
  contexts_active v true true c t running lasti st = CafRef (referents v c t lasti st) true.
Proof. unfold contexts_active. intros ->. reflexivity. Qed.

Lemma caf_disabled_is_referents {I} v g c t running lasti (st : list (val I)) :
  contexts_active v g false c t running lasti st = CafRef (referents v c t lasti st) false.
Proof. reflexivity. Qed.

(* ---- set_trickery_enabled: every later read sees the last value set; None re-detects ---- *)
Lemma tr_run_after_set detect s v ops :
  Forall (fun o => o = TCheck) ops ->
  tr_run detect s (TSet (Some v) :: ops) = None :: map (fun _ => Some v) ops.
Proof.
  intros H. cbn [tr_run tr_step]. f_equal.
  induction H as [|o ops Ho _ IH]; [reflexivity|]. subst o. cbn [tr_run tr_step map]. f_equal. exact IH.
Qed.

Lemma tr_run_after_reset detect s ops :
  Forall (fun o => o = TCheck) ops ->
  tr_run detect s (TSet None :: ops) = None :: map (fun _ => Some detect) ops.
Proof.
  intros H. cbn [tr_run tr_step]. f_equal.
  destruct H as [|o ops Ho H]; [reflexivity|]. subst o. cbn [tr_run tr_step map]. f_equal.
  induction H as [|o ops Ho _ IH]; [reflexivity|]. subst o. cbn [tr_run tr_step map]. f_equal. exact IH.
Qed.

(* general form: the k-th output, if it is a read, is the value of the most recent set before it
   (or the detected value if that set was None / there was none and nothing was cached) *)
Fixpoint last_set (init : option bool) (ops : list tr_op) : option bool :=
  match ops with
  | [] => init
  | TSet v :: r => last_set v r
  | TCheck :: r => last_set (match init with Some b => Some b | None => None end) r
  end.

(* after a return to auto-detection: the first check performs the detection (and warns iff it fails), every
   later check uses the remembered result silently *)
Lemma tr_warns_after_reset detect s ops :
  Forall (fun o => o = TCheck) ops ->
  tr_warns detect s (TSet None :: TCheck :: ops) = false :: negb detect :: map (fun _ => false) ops.
Proof.
  intros H. cbn [tr_warns tr_warn tr_step fst]. do 2 f_equal.
  induction H as [|o ops Ho _ IH]; [reflexivity|]. subst o. cbn [tr_warns tr_warn tr_step fst map]. f_equal. exact IH.
Qed.
Lemma tr_warns_after_set detect s v ops :
  Forall (fun o => o = TCheck) ops ->
  tr_warns detect s (TSet (Some v) :: ops) = false :: map (fun _ => false) ops.
Proof.
  intros H. cbn [tr_warns tr_warn tr_step fst]. f_equal.
  induction H as [|o ops Ho _ IH]; [reflexivity|]. subst o. cbn [tr_warns tr_warn tr_step fst map]. f_equal. exact IH.
Qed.

Lemma tr_run_app detect s a b :
  tr_run detect s (a ++ b) =
  tr_run detect s a ++ tr_run detect (fold_left (fun st o => fst (tr_step detect st o)) a s) b.
Proof.
  revert s; induction a as [|o a IH]; intros s; [reflexivity|]. cbn [app tr_run fold_left].
  destruct (tr_step detect s o) as [s' out] eqn:E. cbn [fst]. rewrite IH. reflexivity.
Qed.

Lemma tr_read_sees_last detect s pre :
  exists st, fold_left (fun st o => fst (tr_step detect st o)) pre s = st /\
  tr_run detect st [TCheck] = [Some (match st with Some b => b | None => detect end)].
Proof. eexists; split; [reflexivity|]. cbn. destruct (fold_left _ pre s); reflexivity. Qed.
