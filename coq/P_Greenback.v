(* P_Greenback.v -- for every alternation depth n and every vantage point, the model of
   extract(task.coro) continues through each await_ bridge: the visible frames are exactly the
   call stack of the user's functions, and every bridging frame is hidden. *)
From Coq Require Import Lia.
Require Import Base M_Greenback.

(* ---- reference: the user's call stack, and what "hidden bridging internals" means *)
(* the user's call stack of levels n..1; when await_ is given a non-coroutine awaitable, the
   adapt_awaitable coroutine and the awaitable's __await__ are (visible) frames on the way *)
Fixpoint ulog (awt : bool) (n : nat) : list fk :=
  match n with 0 => [] | S m => FA (S m) :: FS (S m) :: wrapl awt ++ ulog awt m end.

Definition visible (l : list (fk * bool)) : list fk := map fst (filter (fun e => negb (snd e)) l).

Definition bridging (k : fk) : bool :=
  match k with FShim | FTramp | FAwait _ | FSend | FSendE | FSwitch => true | _ => false end.

Definition marks (l : list fk) : list (fk * bool) := map (fun k => (k, hidden k)) l.

Lemma visible_marks l : visible (marks l) = filter (fun k => negb (hidden k)) l.
Proof.
  unfold visible, marks. induction l as [|k l IH]; simpl; [reflexivity|].
  destruct (hidden k); simpl; [exact IH|]. f_equal. exact IH.
Qed.

Lemma visible_app a b : visible (a ++ b) = visible a ++ visible b.
Proof. unfold visible. rewrite filter_app, map_app. reflexivity. Qed.

(* ---- one pass *)
Lemma pass_step sc k rest o c e :
  elab sc k (hd_error rest) = HNone -> pass sc rest = (o, c, e) ->
  pass sc (k :: rest) = ((k, hidden k) :: o, c, e).
Proof. intros H1 H2. simpl. rewrite H1, H2. reflexivity. Qed.

Definition is_hook (k : fk) : bool := match k with FShim | FTramp | FAwait _ => true | _ => false end.

Lemma elab_next sc k k' : is_switch k' = false -> forall r, elab sc k (hd_error (k' :: r)) = HNone.
Proof.
  intros Hs r. simpl. destruct k; simpl; try reflexivity. rewrite Hs. reflexivity.
Qed.

Lemma elab_nohook sc k nx : is_hook k = false -> elab sc k nx = HNone.
Proof. destruct k; simpl; intros H; try reflexivity; discriminate. Qed.

(* a frame list without switch frames whose last frame is no hook frame: every hook sees a next
   frame and returns None *)
Lemma pass_calm sc l :
  forallb (fun k => negb (is_switch k)) l = true ->
  is_hook (last l FProbe) = false ->
  pass sc l = (marks l, None, false).
Proof.
  induction l as [|k rest IH]; intros Hs Hl; [reflexivity|].
  simpl in Hs. apply andb_true_iff in Hs as [_ Hs].
  destruct rest as [|k' r].
  - simpl in Hl. simpl. rewrite (elab_nohook sc k None Hl). reflexivity.
  - apply pass_step.
    + apply elab_next. simpl in Hs. apply andb_true_iff in Hs as [H _].
      destruct (is_switch k'); [discriminate|reflexivity].
    + apply IH; [exact Hs|]. exact Hl.
Qed.

Lemma pass_hidden sc l e : In e (fst (fst (pass sc l))) -> snd e = hidden (fst e).
Proof.
  revert e. induction l as [|k rest IH]; intros e; simpl; [tauto|].
  destruct (elab sc k (hd_error rest)).
  - destruct (pass sc rest) as [[o c] er] eqn:E. simpl. intros [<-|H]; [reflexivity|].
    apply IH. exact H.
  - simpl. intros [<-|[]]. reflexivity.
  - simpl. intros [<-|[]]. reflexivity.
Qed.

Lemma run_hidden fuel sc : forall o acc l,
  (forall e, In e acc -> snd e = hidden (fst e)) ->
  (run fuel sc o acc = GOk l \/ run fuel sc o acc = GErr l) ->
  forall e, In e l -> snd e = hidden (fst e).
Proof.
  induction fuel as [|f IH]; intros o acc l Hacc Hr; simpl in Hr; [destruct Hr; discriminate|].
  destruct (pass sc (unwrap sc o)) as [[out c] er] eqn:E.
  assert (Hout : forall e, In e (acc ++ out) -> snd e = hidden (fst e)).
  { intros e He. apply in_app_or in He as [He|He]; [auto|].
    apply (pass_hidden sc (unwrap sc o)). rewrite E. exact He. }
  destruct er.
  - destruct Hr as [Hr|Hr]; [discriminate|]. injection Hr as <-. exact Hout.
  - destruct c as [o'|].
    + eapply IH; eauto.
    + destruct Hr as [Hr|Hr]; [|discriminate]. injection Hr as <-. exact Hout.
Qed.

Lemma bridging_hidden k : bridging k = true -> hidden k = true.
Proof. destruct k; simpl; intros H; try reflexivity; discriminate. Qed.

(* every bridging frame of every modelled extraction is hidden *)
Lemma all_bridging_hidden sc l :
  gb_extract sc = GOk l -> forall k h, In (k, h) l -> bridging k = true -> h = true.
Proof.
  intros H k h Hin Hb. unfold gb_extract in H.
  pose proof (run_hidden 8 sc OTask [] l (fun e F => match F with end) (or_introl H) (k, h) Hin) as E.
  simpl in E. rewrite E. apply bridging_hidden. exact Hb.
Qed.

(* ---- the alternation segments *)
Lemma drv_cases err m : drv err m = FSend \/ drv err m = FSendE.
Proof. unfold drv. destruct (option_eqb Nat.eqb err (Some m)); auto. Qed.

Lemma up_noswitch err awt n : forallb (fun k => negb (is_switch k)) (up err awt n) = true.
Proof.
  induction n as [|m IH]; simpl; [reflexivity|].
  destruct (drv_cases err m) as [-> | ->]; destruct awt; exact IH.
Qed.

Lemma filter_up err awt n : filter (fun k => negb (hidden k)) (up err awt n) = ulog awt n.
Proof.
  induction n as [|m IH]; simpl; [reflexivity|].
  destruct (drv_cases err m) as [-> | ->]; destruct awt; simpl; simpl in IH; rewrite IH; reflexivity.
Qed.

(* seen from outside, the wrapper frames of the innermost await_ come with its coroutine *)
Lemma filter_out err awt n :
  filter (fun k => negb (hidden k)) (out err awt (S n)) ++ wrapl awt = ulog awt (S n).
Proof.
  induction n as [|m IH]; [destruct awt; reflexivity|].
  change (out err awt (S (S m))) with (seg (S (S m)) ++ drv err (S m) :: wrapl awt ++ out err awt (S m)).
  change (ulog awt (S (S m))) with (FA (S (S m)) :: FS (S (S m)) :: wrapl awt ++ ulog awt (S m)).
  rewrite <- IH.
  destruct (drv_cases err (S m)) as [-> | ->]; destruct awt; reflexivity.
Qed.

Lemma filter_nested j : filter (fun k => negb (hidden k)) (repeat FNested j) = repeat FNested j.
Proof. induction j as [|j IH]; simpl; [reflexivity|]. rewrite IH. reflexivity. Qed.

Lemma nested_noswitch j : forallb (fun k => negb (is_switch k)) (repeat FNested j) = true.
Proof. induction j as [|j IH]; simpl; [reflexivity|exact IH]. Qed.

Lemma last_snoc {A} (l : list A) x d : last (l ++ [x]) d = x.
Proof. induction l as [|y l IH]; [reflexivity|]. simpl. rewrite IH. destruct (l ++ [x]) eqn:E; [destruct l; discriminate|reflexivity]. Qed.

(* the innermost await_ of a task seen from outside has no next frame and hands over its coro *)
Lemma pass_out sc err awt m :
  pass sc (out err awt (S m)) = (marks (out err awt (S m)), Some (OCoro 0), false).
Proof.
  induction m as [|m IH]; [reflexivity|].
  change (out err awt (S (S m))) with
    (FA (S (S m)) :: FS (S (S m)) :: FAwait (S (S m)) :: drv err (S m) :: wrapl awt ++ out err awt (S m)).
  apply pass_step; [reflexivity|]. apply pass_step; [reflexivity|].
  apply pass_step; [destruct (drv_cases err (S m)) as [-> | ->]; reflexivity|].
  apply pass_step; [destruct (drv_cases err (S m)) as [-> | ->]; reflexivity|].
  destruct awt; [|exact IH].
  apply pass_step; [reflexivity|]. apply pass_step; [reflexivity|]. exact IH.
Qed.

Lemma run_S f sc o acc :
  run (S f) sc o acc =
  let '(out, cont, err) := pass sc (unwrap sc o) in
  if err then GErr (acc ++ out) else
  match cont with Some o' => run f sc o' (acc ++ out) | None => GOk (acc ++ out) end.
Proof. reflexivity. Qed.

(* ---- inside the task, j greenlets below its sync code *)
Definition inside_stack (awt : bool) (n j : nat) : list fk :=
  FShimCoro :: FTarget :: ulog awt n ++ [FA 0; FLeaf] ++ repeat FNested (S j) ++ [FProbe].

Lemma greenback_inside n j err aio awt :
  exists l, gb_extract {| sc_inside := true; sc_n := n; sc_j := j; sc_err := err; sc_aio := aio; sc_awt := awt |} = GOk l
            /\ visible l = inside_stack awt n j
            /\ (forall k h, In (k, h) l -> bridging k = true -> h = true).
Proof.
  set (sc := {| sc_inside := true; sc_n := n; sc_j := j; sc_err := err; sc_aio := aio; sc_awt := awt |}).
  set (fr := unwrap sc OTask).
  assert (Hp : pass sc fr = (marks fr, None, false)).
  { apply pass_calm.
    - unfold fr, unwrap. simpl sc_inside. cbv iota. simpl sc_n. simpl sc_j. simpl sc_err. simpl sc_awt.
      rewrite !forallb_app. rewrite up_noswitch. rewrite nested_noswitch.
      destruct (drv_cases err n) as [-> | ->]; reflexivity.
    - unfold fr, unwrap. simpl sc_inside. cbv iota.
      rewrite !app_assoc. rewrite last_snoc. reflexivity. }
  exists (marks fr). split; [|split].
  - unfold gb_extract. rewrite run_S. fold fr. rewrite Hp. reflexivity.
  - rewrite visible_marks. unfold fr, unwrap. simpl sc_inside. cbv iota. simpl sc_n. simpl sc_j. simpl sc_err. simpl sc_awt.
    rewrite !filter_app. rewrite filter_up. rewrite filter_nested.
    destruct (drv_cases err n) as [-> | ->]; reflexivity.
  - apply (all_bridging_hidden sc). unfold gb_extract. rewrite run_S. fold fr. rewrite Hp. reflexivity.
Qed.

(* ---- outside the task (parked at level 0 in a regular await) *)
Definition outside_stack (awt : bool) (n : nat) : list fk :=
  FShimCoro :: FTarget :: ulog awt n ++ [FA 0; FWait].

Lemma pass_park sc : pass sc (park sc) = (marks (park sc), None, false).
Proof. unfold park. destruct (sc_aio sc); reflexivity. Qed.

Lemma visible_park sc : visible (marks (park sc)) = [FA 0; FWait].
Proof. unfold park. destruct (sc_aio sc); reflexivity. Qed.

Lemma greenback_outside n err aio awt :
  exists l, gb_extract {| sc_inside := false; sc_n := n; sc_j := 0; sc_err := err; sc_aio := aio; sc_awt := awt |} = GOk l
            /\ visible l = outside_stack awt n
            /\ (forall k h, In (k, h) l -> bridging k = true -> h = true).
Proof.
  set (sc := {| sc_inside := false; sc_n := n; sc_j := 0; sc_err := err; sc_aio := aio; sc_awt := awt |}).
  destruct n as [|m].
  - assert (H : gb_extract sc = GOk (marks [FShimCoro; FShim] ++ marks [FTramp] ++ marks (FTarget :: park sc))).
    { unfold gb_extract. rewrite run_S.
      change (pass sc (unwrap sc OTask)) with (marks [FShimCoro; FShim], Some OChild, false). cbv iota beta.
      rewrite run_S.
      change (pass sc (unwrap sc OChild)) with (marks [FTramp], Some OOrigCoro, false). cbv iota beta.
      rewrite run_S. change (unwrap sc OOrigCoro) with (FTarget :: park sc).
      rewrite (pass_step sc FTarget (park sc) _ _ _ eq_refl (pass_park sc)). cbv iota beta.
      rewrite <- app_assoc. reflexivity. }
    eexists. split; [exact H|]. split.
    + rewrite !visible_app. change (FTarget :: park sc) with ([FTarget] ++ park sc).
      unfold marks at 3. rewrite map_app. fold (marks [FTarget]). fold (marks (park sc)).
      rewrite visible_app. rewrite visible_park. reflexivity.
    + apply (all_bridging_hidden sc). exact H.
  - assert (Hw : pass sc (wrapl awt ++ park sc) = (marks (wrapl awt ++ park sc), None, false)).
    { destruct awt; [|exact (pass_park sc)].
      apply pass_step; [reflexivity|]. apply pass_step; [reflexivity|]. exact (pass_park sc). }
    assert (H : gb_extract sc =
                GOk (marks [FShimCoro; FShim] ++ marks (FTramp :: drv err (S m) :: FTarget :: out err awt (S m))
                     ++ marks (wrapl awt ++ park sc))).
    { unfold gb_extract. rewrite run_S.
      change (pass sc (unwrap sc OTask)) with (marks [FShimCoro; FShim], Some OChild, false). cbv iota beta.
      rewrite run_S.
      change (unwrap sc OChild) with (FTramp :: drv err (S m) :: FTarget :: out err awt (S m)).
      assert (Hc : pass sc (FTramp :: drv err (S m) :: FTarget :: out err awt (S m))
                   = (marks (FTramp :: drv err (S m) :: FTarget :: out err awt (S m)), Some (OCoro 0), false)).
      { apply pass_step; [destruct (drv_cases err (S m)) as [-> | ->]; reflexivity|].
        apply pass_step; [destruct (drv_cases err (S m)) as [-> | ->]; reflexivity|].
        apply pass_step; [reflexivity|]. apply pass_out. }
      rewrite Hc. cbv iota beta.
      rewrite run_S. change (unwrap sc (OCoro 0)) with (wrapl awt ++ park sc). rewrite Hw. cbv iota beta.
      rewrite <- app_assoc. reflexivity. }
    eexists. split; [exact H|]. split.
    + rewrite !visible_app. unfold marks at 3. rewrite map_app.
      fold (marks (wrapl awt)). fold (marks (park sc)). rewrite visible_app. rewrite visible_park.
      rewrite !visible_marks.
      change (FTramp :: drv err (S m) :: FTarget :: out err awt (S m)) with ([FTramp; drv err (S m); FTarget] ++ out err awt (S m)).
      rewrite filter_app.
      assert (Hwv : filter (fun k => negb (hidden k)) (wrapl awt) = wrapl awt) by (destruct awt; reflexivity).
      rewrite Hwv. unfold outside_stack. rewrite <- (filter_out err awt m).
      destruct (drv_cases err (S m)) as [-> | ->]; simpl; rewrite <- !app_assoc; reflexivity.
    + apply (all_bridging_hidden sc). exact H.
Qed.

Example greenback_example :
  visible (match gb_extract {| sc_inside := true; sc_n := 2; sc_j := 1; sc_err := Some 1; sc_aio := true; sc_awt := true |} with GOk l => l | _ => [] end)
  = [FShimCoro; FTarget; FA 2; FS 2; FAdapt; FDunder; FA 1; FS 1; FAdapt; FDunder; FA 0; FLeaf; FNested; FNested; FProbe].
Proof. reflexivity. Qed.
