(* P_Greenback.v -- for every alternation depth n and every vantage point, the model of
   extract(task.coro) continues through each await_ bridge: the visible frames are exactly the
   call stack of the user's functions, and every bridging frame is hidden. *)
From Coq Require Import Lia.
Require Import Base M_Greenback.

(* ---- reference: the user's call stack, and what "hidden bridging internals" means *)
Fixpoint ulog (n : nat) : list fk :=
  match n with 0 => [] | S m => FA (S m) :: FS (S m) :: ulog m end.

Definition visible (l : list (fk * bool)) : list fk := map fst (filter (fun e => negb (snd e)) l).

Definition bridging (k : fk) : bool :=
  match k with FShim | FTramp | FAwait _ | FSend | FSwitch => true | _ => false end.

Definition marks (l : list fk) : list (fk * bool) := map (fun k => (k, hidden k)) l.

Lemma visible_marks l : visible (marks l) = filter (fun k => negb (hidden k)) l.
Proof.
  unfold visible, marks. induction l as [|k l IH]; simpl; [reflexivity|].
  destruct (hidden k); simpl; [exact IH|]. f_equal. exact IH.
Qed.

Lemma visible_app a b : visible (a ++ b) = visible a ++ visible b.
Proof. unfold visible. rewrite filter_app, map_app. reflexivity. Qed.

(* ---- one pass *)
Lemma pass_step sc k rest o c e :
  elab sc k (hd_error rest) = HNone -> pass sc rest = (o, c, e) ->
  pass sc (k :: rest) = ((k, hidden k) :: o, c, e).
Proof. intros H1 H2. simpl. rewrite H1, H2. reflexivity. Qed.

Definition is_hook (k : fk) : bool := match k with FShim | FTramp | FAwait _ => true | _ => false end.

Lemma elab_next sc k k' : is_switch k' = false -> forall r, elab sc k (hd_error (k' :: r)) = HNone.
Proof.
  intros Hs r. simpl. destruct k; simpl; try reflexivity. rewrite Hs. reflexivity.
Qed.

Lemma elab_nohook sc k nx : is_hook k = false -> elab sc k nx = HNone.
Proof. destruct k; simpl; intros H; try reflexivity; discriminate. Qed.

(* a frame list without switch frames whose last frame is no hook frame: every hook sees a next
   frame and returns None *)
Lemma pass_calm sc l :
  forallb (fun k => negb (is_switch k)) l = true ->
  is_hook (last l FProbe) = false ->
  pass sc l = (marks l, None, false).
Proof.
  induction l as [|k rest IH]; intros Hs Hl; [reflexivity|].
  simpl in Hs. apply andb_true_iff in Hs as [_ Hs].
  destruct rest as [|k' r].
  - simpl in Hl. simpl. rewrite (elab_nohook sc k None Hl). reflexivity.
  - apply pass_step.
    + apply elab_next. simpl in Hs. apply andb_true_iff in Hs as [H _].
      destruct (is_switch k'); [discriminate|reflexivity].
    + apply IH; [exact Hs|]. exact Hl.
Qed.

Lemma pass_hidden sc l e : In e (fst (fst (pass sc l))) -> snd e = hidden (fst e).
Proof.
  revert e. induction l as [|k rest IH]; intros e; simpl; [tauto|].
  destruct (elab sc k (hd_error rest)).
  - destruct (pass sc rest) as [[o c] er] eqn:E. simpl. intros [<-|H]; [reflexivity|].
    apply IH. exact H.
  - simpl. intros [<-|[]]. reflexivity.
  - simpl. intros [<-|[]]. reflexivity.
Qed.

Lemma run_hidden fuel sc : forall o acc l,
  (forall e, In e acc -> snd e = hidden (fst e)) ->
  (run fuel sc o acc = GOk l \/ run fuel sc o acc = GErr l) ->
  forall e, In e l -> snd e = hidden (fst e).
Proof.
  induction fuel as [|f IH]; intros o acc l Hacc Hr; simpl in Hr; [destruct Hr; discriminate|].
  destruct (pass sc (unwrap sc o)) as [[out c] er] eqn:E.
  assert (Hout : forall e, In e (acc ++ out) -> snd e = hidden (fst e)).
  { intros e He. apply in_app_or in He as [He|He]; [auto|].
    apply (pass_hidden sc (unwrap sc o)). rewrite E. exact He. }
  destruct er.
  - destruct Hr as [Hr|Hr]; [discriminate|]. injection Hr as <-. exact Hout.
  - destruct c as [o'|].
    + eapply IH; eauto.
    + destruct Hr as [Hr|Hr]; [|discriminate]. injection Hr as <-. exact Hout.
Qed.

Lemma bridging_hidden k : bridging k = true -> hidden k = true.
Proof. destruct k; simpl; intros H; try reflexivity; discriminate. Qed.

(* every bridging frame of every modelled extraction is hidden *)
Lemma all_bridging_hidden sc l :
  gb_extract sc = GOk l -> forall k h, In (k, h) l -> bridging k = true -> h = true.
Proof.
  intros H k h Hin Hb. unfold gb_extract in H.
  pose proof (run_hidden 8 sc OTask [] l (fun e F => match F with end) (or_introl H) (k, h) Hin) as E.
  simpl in E. rewrite E. apply bridging_hidden. exact Hb.
Qed.

(* ---- the alternation segments *)
Lemma up_noswitch n : forallb (fun k => negb (is_switch k)) (up n) = true.
Proof. induction n as [|m IH]; simpl; [reflexivity|exact IH]. Qed.

Lemma filter_up n : filter (fun k => negb (hidden k)) (up n) = ulog n.
Proof. induction n as [|m IH]; simpl; [reflexivity|]. rewrite IH. reflexivity. Qed.

Lemma filter_out n : filter (fun k => negb (hidden k)) (out n) = ulog n.
Proof.
  induction n as [|m IH]; [reflexivity|].
  destruct m as [|m]; [reflexivity|].
  change (out (S (S m))) with (seg (S (S m)) ++ FSend :: out (S m)).
  simpl. simpl in IH. rewrite IH. reflexivity.
Qed.

Lemma filter_nested j : filter (fun k => negb (hidden k)) (repeat FNested j) = repeat FNested j.
Proof. induction j as [|j IH]; simpl; [reflexivity|]. rewrite IH. reflexivity. Qed.

Lemma nested_noswitch j : forallb (fun k => negb (is_switch k)) (repeat FNested j) = true.
Proof. induction j as [|j IH]; simpl; [reflexivity|exact IH]. Qed.

Lemma last_snoc {A} (l : list A) x d : last (l ++ [x]) d = x.
Proof. induction l as [|y l IH]; [reflexivity|]. simpl. rewrite IH. destruct (l ++ [x]) eqn:E; [destruct l; discriminate|reflexivity]. Qed.

(* the innermost await_ of a task seen from outside has no next frame and hands over its coro *)
Lemma pass_out sc m : pass sc (out (S m)) = (marks (out (S m)), Some (OCoro 0), false).
Proof.
  induction m as [|m IH]; [reflexivity|].
  change (out (S (S m))) with (FA (S (S m)) :: FS (S (S m)) :: FAwait (S (S m)) :: FSend :: out (S m)).
  apply pass_step; [reflexivity|]. apply pass_step; [reflexivity|].
  apply pass_step; [reflexivity|]. apply pass_step; [reflexivity|]. exact IH.
Qed.

Lemma run_S f sc o acc :
  run (S f) sc o acc =
  let '(out, cont, err) := pass sc (unwrap sc o) in
  if err then GErr (acc ++ out) else
  match cont with Some o' => run f sc o' (acc ++ out) | None => GOk (acc ++ out) end.
Proof. reflexivity. Qed.

(* ---- inside the task, j greenlets below its sync code *)
Definition inside_stack (n j : nat) : list fk :=
  FShimCoro :: FTarget :: ulog n ++ [FA 0; FLeaf] ++ repeat FNested (S j) ++ [FProbe].

Lemma greenback_inside n j :
  exists l, gb_extract {| sc_inside := true; sc_n := n; sc_j := j |} = GOk l
            /\ visible l = inside_stack n j
            /\ (forall k h, In (k, h) l -> bridging k = true -> h = true).
Proof.
  set (sc := {| sc_inside := true; sc_n := n; sc_j := j |}).
  set (fr := unwrap sc OTask).
  assert (Hp : pass sc fr = (marks fr, None, false)).
  { apply pass_calm.
    - unfold fr, unwrap. simpl sc_inside. cbv iota. simpl sc_n. simpl sc_j.
      rewrite !forallb_app. rewrite up_noswitch. rewrite nested_noswitch. reflexivity.
    - unfold fr, unwrap. simpl sc_inside. cbv iota.
      rewrite !app_assoc. rewrite last_snoc. reflexivity. }
  exists (marks fr). split; [|split].
  - unfold gb_extract. rewrite run_S. fold fr. rewrite Hp. reflexivity.
  - rewrite visible_marks. unfold fr, unwrap. simpl sc_inside. cbv iota. simpl sc_n. simpl sc_j.
    rewrite !filter_app. rewrite filter_up. rewrite filter_nested. reflexivity.
  - apply (all_bridging_hidden sc). unfold gb_extract. rewrite run_S. fold fr. rewrite Hp. reflexivity.
Qed.

(* ---- outside the task (parked at level 0 in a regular await) *)
Definition outside_stack (n : nat) : list fk :=
  FShimCoro :: FTarget :: ulog n ++ [FA 0; FWait].

Lemma greenback_outside n :
  exists l, gb_extract {| sc_inside := false; sc_n := n; sc_j := 0 |} = GOk l
            /\ visible l = outside_stack n
            /\ (forall k h, In (k, h) l -> bridging k = true -> h = true).
Proof.
  set (sc := {| sc_inside := false; sc_n := n; sc_j := 0 |}).
  destruct n as [|m].
  - eexists. split; [vm_compute; reflexivity|]. split; [reflexivity|].
    apply (all_bridging_hidden sc). vm_compute. reflexivity.
  - assert (H : gb_extract sc =
                GOk (marks [FShimCoro; FShim] ++ marks (FTramp :: FSend :: FTarget :: out (S m))
                     ++ marks [FA 0; FWait; FWTR])).
    { unfold gb_extract.
      change (run 8 sc OTask []) with
        (let '(o, c, e) := pass sc [FShimCoro; FShim] in
         if e then GErr ([] ++ o) else match c with Some o' => run 7 sc o' ([] ++ o) | None => GOk ([] ++ o) end).
      change (pass sc [FShimCoro; FShim]) with (marks [FShimCoro; FShim], Some OChild, false).
      cbv iota beta.
      change (run 7 sc OChild ([] ++ marks [FShimCoro; FShim])) with
        (let '(o, c, e) := pass sc (FTramp :: FSend :: FTarget :: out (S m)) in
         if e then GErr (marks [FShimCoro; FShim] ++ o)
         else match c with Some o' => run 6 sc o' (marks [FShimCoro; FShim] ++ o)
                         | None => GOk (marks [FShimCoro; FShim] ++ o) end).
      assert (Hc : pass sc (FTramp :: FSend :: FTarget :: out (S m))
                   = (marks (FTramp :: FSend :: FTarget :: out (S m)), Some (OCoro 0), false)).
      { apply pass_step; [reflexivity|]. apply pass_step; [reflexivity|].
        apply pass_step; [reflexivity|]. apply pass_out. }
      rewrite Hc. cbv iota beta.
      change (run 6 sc (OCoro 0) (marks [FShimCoro; FShim] ++ marks (FTramp :: FSend :: FTarget :: out (S m))))
        with (GOk ((marks [FShimCoro; FShim] ++ marks (FTramp :: FSend :: FTarget :: out (S m)))
                   ++ marks [FA 0; FWait; FWTR])).
      rewrite <- app_assoc. reflexivity. }
    eexists. split; [exact H|]. split.
    + rewrite !visible_app. rewrite !visible_marks.
      change (FTramp :: FSend :: FTarget :: out (S m)) with ([FTramp; FSend; FTarget] ++ out (S m)).
      rewrite filter_app. rewrite filter_out. reflexivity.
    + apply (all_bridging_hidden sc). exact H.
Qed.

Example greenback_example :
  visible (match gb_extract {| sc_inside := true; sc_n := 2; sc_j := 1 |} with GOk l => l | _ => [] end)
  = [FShimCoro; FTarget; FA 2; FS 2; FA 1; FS 1; FA 0; FLeaf; FNested; FNested; FProbe].
Proof. reflexivity. Qed.
