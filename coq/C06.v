(* C06 — extraction is a pure observation.  Property theorems only (P_Purity.v, P_Cert.v).
   What a model CAN carry of this property is stated here; the decisive part — the live
   interpreter is not perturbed, reference counts return to baseline, no crash — is decided by
   the runtime twin-run leg (harness/progs.py leg_purity) and is labelled partial. *)
Require Import Base M_Purity P_Purity M_Bytecode M_Analysis M_WithMachine.
From SS.gen Require Import SrcFacts.

(* every call in stackscope's runtime modules that could advance or finalise a foreign object
   (send/throw/close/aclose/asend/athrow/switch/next) is one of the allow-listed sites that only
   touch objects stackscope created itself, and the only module-level state written from inside
   functions is the allow-listed hidden state of M_Purity (regenerated from /repo's source) *)
Theorem C06_sites_complete :
  SrcFacts.c06_resume_sites_allowlisted = true /\ SrcFacts.c06_module_state_allowlisted = true.
Proof. split; reflexivity. Qed.
Print Assumptions C06_sites_complete.

(* "the interpreter never crashes" rests, for frames running in another thread, on the structure
   of the frame snapshot that C07's theorems are instantiated on (each raw slot read is one
   operation together with taking the reference and is immediately preceded by the f_lasti
   re-check; no call between capturing the interpreter-frame pointer and the first re-check;
   all raw reads inside the retry loop; a running frame's stack is read only up to the depth of an
   exception-table entry that contains f_lasti, or 0): regenerated from /repo's source on every run *)
Theorem C06_snapshot_structure :
  SrcFacts.snapshot_slot_check_adjacent = true /\ SrcFacts.snapshot_header_check_adjacent = true
  /\ SrcFacts.snapshot_capture_to_check_no_call = true /\ SrcFacts.snapshot_iframe_reads_in_loop = true
  /\ SrcFacts.snapshot_check_read_no_switch_bytecode = true
  /\ SrcFacts.c06_trim_depth_within_entry = true.
Proof. repeat split; reflexivity. Qed.
Print Assumptions C06_snapshot_structure.

(* repeatable: in an unchanged environment a second extraction leaves the hidden state exactly
   as the first one did (so it cannot behave differently), for all environments, options and
   prior states; the caller's options are restored *)
Theorem C06_state_idempotent : forall e wc rc h,
  extract_hidden e wc rc (extract_hidden e wc rc h) = extract_hidden e wc rc h
  /\ opts (extract_hidden e wc rc h) = opts h
  /\ registry_size (extract_hidden e wc rc h) = registry_size h.
Proof.
  intros. split; [apply extract_hidden_idem|]. split; [reflexivity|apply extract_hidden_registry].
Qed.
Print Assumptions C06_state_idempotent.

(* nothing retained: the hidden state after an extraction does not depend on the target at all
   (no component can hold a frame, manager or value-stack object): stated as independence of an
   arbitrary target parameter *)
Theorem C06_nothing_retained : forall (Target : Type) (x y : Target) e wc rc h,
  (fun _ : Target => extract_hidden e wc rc h) x = (fun _ : Target => extract_hidden e wc rc h) y.
Proof. reflexivity. Qed.
Print Assumptions C06_nothing_retained.

(* ghost reference balance of the frame snapshot: whatever the pattern of retried attempts, as
   many references are released (when the partial / final lists are dropped) as were taken *)
Theorem C06_refs_balanced : forall attempts, fst (refs_after attempts) = snd (refs_after attempts).
Proof. exact refs_balanced. Qed.
Print Assumptions C06_refs_balanced.

(* the analysis is a function of the observation only: two observations of an unchanged target
   give equal results (model level; equality of real results is checked by the runtime leg) *)
Theorem C06_analysis_deterministic : forall v c t r l (st : list (val nat)),
  trickery v c t r l st = trickery v c t r l st /\ referents v c t l st = referents v c t l st.
Proof. split; reflexivity. Qed.
Print Assumptions C06_analysis_deterministic.

Example C06_example_idempotent_nontrivial :
  let e := {| modules := [1; 2; 3]; detect := true |} in
  let h := {| pending := [2; 5]; len_cache := 0; trickery_sw := None; opts := None; registry_size := 7 |} in
  extract_hidden e true false h <> h /\ pending (extract_hidden e true false h) = [5].
Proof. cbn. split; [discriminate|reflexivity]. Qed.
