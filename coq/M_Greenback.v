(* M_Greenback.v -- executable model of the three greenback elaborators of
   stackscope._glue.glue_greenback (elaborate_trampoline, elaborate_greenback_shim,
   elaborate_greenback_await) and of how extract(task.coro) walks a trio task that alternates
   n times between async code and sync code bridged by greenback.await_.  Definitions only.

   Modelled, not verified (validated by the correspondence on every run): the frame shapes of
   greenback / greenlet / outcome / trio as recorded from real runs --
     outside the task (task parked in `await event.wait()` at level 0):
        task.coro (suspended)        -> greenback_shim, _greenback_shim            [no next frame]
        portal child greenlet        -> trampoline [, send, target, (a k, s k, await_ k, send)*, a 1, s 1, await_ 1]
        innermost await_ / trampoline have no next frame; their coro is suspended: a 0, wait [, wait_task_rescheduled]
        (a coroutine last resumed by throw() is driven through outcome.Error.send instead of Value.send)
     inside the task (extract called j greenlets below the task's sync code):
        task.coro (running) = StackSlice(outer=its frame): greenback_shim, _greenback_shim, trampoline,
        send, target, (a k, s k, await_ k, send)*, a 0, leaf, nested^(j+1), probe   (see C04 for the slice)
   Every hook result that is an object replaces everything inward (all later entries were produced
   by the same unwrap and sit at the same or a deeper depth). *)
Require Import Base.

Inductive fk :=
  | FShimCoro                      (* greenback_shim: the coroutine the task runs *)
  | FShim | FTramp | FSend         (* _greenback_shim, trampoline, outcome.Value.send *)
  | FSendE                         (* outcome.Error.send: the coroutine below was last resumed by throw() *)
  | FAdapt | FDunder               (* greenback's adapt_awaitable coroutine, the awaitable's __await__ generator *)
  | FTarget                        (* the task's async function *)
  | FA (k : nat) | FS (k : nat)    (* async / sync user function of alternation level k *)
  | FAwait (k : nat)               (* greenback.await_ of level k *)
  | FLeaf | FNested | FProbe       (* sync leaf, a function run in a nested greenlet, the caller of extract *)
  | FWait | FWTR                   (* trio Event.wait, wait_task_rescheduled *)
  | FSwitch.                       (* a Python-level greenlet.switch frame (PyPy only) *)

Inductive obj := OTask | OChild | OOrigCoro | OCoro (k : nat).

(* sc_err = Some m: the coroutine of level m was last resumed with an exception (asyncio delivers
   cancellation / timeouts by coro.throw()), handled it and went on; sc_aio: hosted by asyncio
   (the parked leaf ends in Event.wait; under trio in wait_task_rescheduled) *)
(* sc_awt: every await_ is given a non-coroutine awaitable (an object whose __await__ is a
   generator that delegates to the coroutine); greenback wraps it in adapt_awaitable() *)
Record scenario := { sc_inside : bool; sc_n : nat; sc_j : nat; sc_err : option nat; sc_aio : bool;
                     sc_awt : bool }.

Inductive hres := HNone | HObj (o : obj) | HRaise.

(* ---- the three hooks, test order as in the source *)
Definition elab_trampoline (next : option fk) (orig_coro : option obj) : hres :=
  match next with
  | Some _ => HNone                                 (* isinstance(next_inner, Frame) *)
  | None => match orig_coro with Some c => HObj c | None => HRaise end
  end.

Definition elab_shim (next : option fk) (child_gr_frame : bool) (orig_coro : option obj) : hres :=
  match next with
  | Some _ => HNone                                 (* isinstance(next_inner, Frame) *)
  | None =>
      if child_gr_frame then HObj OChild            (* gr_frame is not None *)
      else match orig_coro with Some c => HObj c | None => HRaise end
  end.

Definition is_switch (k : fk) : bool := match k with FSwitch => true | _ => false end.

Definition elab_await (next : option fk) (coro : option obj) : hres :=
  match next with
  | Some k => if negb (is_switch k) then HNone
              else match coro with Some c => HObj c | None => HNone end
  | None => match coro with Some c => HObj c | None => HNone end
  end.

(* frame locals of the scenario *)
Definition child_suspended (sc : scenario) : bool := negb (sc_inside sc) || (0 <? sc_j sc).

Definition elab (sc : scenario) (k : fk) (next : option fk) : hres :=
  match k with
  | FTramp => elab_trampoline next (Some OOrigCoro)
  | FShim => elab_shim next (child_suspended sc) (Some OOrigCoro)
  | FAwait l => elab_await next (Some (OCoro (l - 1)))
  | _ => HNone
  end.

(* hide flag after the hooks ran: the greenback hooks set frame.hide; outcome's send and trio's
   trap are hidden by customize() *)
Definition hidden (k : fk) : bool :=
  match k with FShim | FTramp | FAwait _ | FSend | FSendE | FWTR | FSwitch => true | _ => false end.

(* ---- recorded shapes *)
Definition seg (k : nat) : list fk := [FA k; FS k; FAwait k].

(* the outcome.*.send frame through which the coroutine of level m is being driven *)
Definition drv (err : option nat) (m : nat) : fk :=
  if option_eqb Nat.eqb err (Some m) then FSendE else FSend.

(* what sits between an await_'s send and the awaited coroutine's frame *)
Definition wrapl (awt : bool) : list fk := if awt then [FAdapt; FDunder] else [].

(* levels n .. 1, each followed by the send that drives the next coroutine *)
Fixpoint up (err : option nat) (awt : bool) (n : nat) : list fk :=
  match n with 0 => [] | S m => seg (S m) ++ drv err m :: wrapl awt ++ up err awt m end.

(* the same, the innermost await_ parked in greenlet.switch (a C function: no frame) *)
Fixpoint out (err : option nat) (awt : bool) (n : nat) : list fk :=
  match n with
  | 0 => []
  | S m => match m with 0 => seg 1 | S _ => seg (S m) ++ drv err m :: wrapl awt ++ out err awt m end
  end.

Definition park (sc : scenario) : list fk := if sc_aio sc then [FA 0; FWait] else [FA 0; FWait; FWTR].

Definition unwrap (sc : scenario) (o : obj) : list fk :=
  let err := sc_err sc in
  if sc_inside sc then
    match o with
    | OTask => [FShimCoro; FShim; FTramp; drv err (sc_n sc); FTarget] ++ up err (sc_awt sc) (sc_n sc) ++ [FA 0; FLeaf]
               ++ repeat FNested (S (sc_j sc)) ++ [FProbe]
    | _ => []                                        (* never asked for in the recorded runs *)
    end
  else
    match o with
    | OTask => [FShimCoro; FShim]
    | OChild => FTramp :: match sc_n sc with
                          | 0 => []
                          | S _ => drv err (sc_n sc) :: FTarget :: out err (sc_awt sc) (sc_n sc)
                          end
    | OOrigCoro => FTarget :: park sc
    | OCoro 0 => wrapl (sc_awt sc) ++ park sc        (* the coro of the innermost await_: adapt_awaitable(aw) *)
    | OCoro _ => []
    end.

(* one elaboration pass over an unwrapped frame list; stops at the first hook that returns an
   object (which replaces the inward rest) *)
Fixpoint pass (sc : scenario) (l : list fk) : list (fk * bool) * option obj * bool :=
  match l with
  | [] => ([], None, false)
  | k :: rest =>
      match elab sc k (hd_error rest) with
      | HNone => let '(o, c, e) := pass sc rest in ((k, hidden k) :: o, c, e)
      | HObj x => ([(k, hidden k)], Some x, false)
      | HRaise => ([(k, hidden k)], None, true)
      end
  end.

Inductive gres := GOk (l : list (fk * bool)) | GErr (l : list (fk * bool)) | GFuel.

Fixpoint run (fuel : nat) (sc : scenario) (o : obj) (acc : list (fk * bool)) : gres :=
  match fuel with
  | 0 => GFuel
  | S f =>
      let '(out, cont, err) := pass sc (unwrap sc o) in
      if err then GErr (acc ++ out) else
      match cont with
      | Some o' => run f sc o' (acc ++ out)
      | None => GOk (acc ++ out)
      end
  end.

Definition gb_extract (sc : scenario) : gres := run 8 sc OTask [].

(* ---- generated cases: scenario + observed (kind, hide) list, error flag *)
Definition fk_eqb (a b : fk) : bool :=
  match a, b with
  | FShimCoro, FShimCoro | FShim, FShim | FTramp, FTramp | FSend, FSend | FSendE, FSendE | FTarget, FTarget
  | FAdapt, FAdapt | FDunder, FDunder | FLeaf, FLeaf | FNested, FNested | FProbe, FProbe | FWait, FWait | FWTR, FWTR | FSwitch, FSwitch => true
  | FA x, FA y | FS x, FS y | FAwait x, FAwait y => x =? y
  | _, _ => false
  end.

Definition ent_eqb (a b : fk * bool) : bool := fk_eqb (fst a) (fst b) && Bool.eqb (snd a) (snd b).

Definition gres_eqb (a b : gres) : bool :=
  match a, b with
  | GOk x, GOk y | GErr x, GErr y => list_eqb ent_eqb x y
  | GFuel, GFuel => true
  | _, _ => false
  end.

Definition gb_case := (scenario * gres)%type.
Definition gb_ok (c : gb_case) : bool := gres_eqb (gb_extract (fst c)) (snd c).
Definition gb_mismatches (cases : list gb_case) : list nat := false_indices 0 (map gb_ok cases).
Definition gb_nontrivial (cases : list gb_case) : nat :=
  count_true (map (fun c : gb_case => (0 <? sc_n (fst c)) || (0 <? sc_j (fst c))) cases).
